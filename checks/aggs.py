"""C12, C13, C30: aggregations (Aggs.tla) bound by Trace_Aggs.tla; MC_Aggs / MC_Composite at design level."""
import json
import os

from . import lib


def _cfg(name, text):
    return lib.write_cfg(name, text)


def _drive(v, mode, props, scenarios, requests):
    """Run one `svh aggs` mode and judge its trace with Trace_Aggs.tla."""
    binary = lib.build_harness()
    trace = lib.outpath(v.prop, f"aggs-{mode}.ndjson")
    s = lib.svh(binary, ["aggs", "--mode", mode, "--seed", v.seed, "--out", trace,
                         "--scenarios", scenarios, "--requests", requests], timeout=7200,
                env={"VERIF_WORK": os.path.join(lib.OUT, "work")})
    msgs, dt, _ = lib.tlc_trace("Trace_Aggs.tla", trace, timeout=7200, xmx="8g")
    tool = [m for m in msgs if m.get("kind") == "TOOL"]
    if tool:
        raise lib.ToolError("trace spec reported a harness inconsistency: " + json.dumps(tool[:3]))
    lib.judge_trace(v, msgs, props)
    samples = []
    n_variants = 0
    n_pages = 0
    for e in lib.read_ndjson(trace):
        if e.get("ev") != "agg":
            continue
        n_variants += len(e.get("variants", []))
        n_pages += len(e.get("pages", []))
        if len(samples) < 3:
            obs = e.get("obs") or e.get("unpaged") or (e.get("variants") or [{}])[0].get("obs", {})
            samples.append({"check": e.get("check"), "request": e.get("req", ""),
                            "observed": json.dumps(obs.get("aggs", []))[:400]})
    s["samples"] = samples
    s["variants"] = n_variants
    s["pages"] = n_pages
    s["tlc_s"] = round(dt, 1)
    return s


MC_AGGS = """SPECIFICATION Spec
CONSTANT MaxDocs = {docs}
CONSTANT CheckAsBuilt = {asbuilt}
CONSTANT AllOrders = {orders}
{invs}
CHECK_DEADLOCK FALSE
"""


def run_c12(v):
    quick = v.tier == "quick"
    ideal = "INVARIANT IdealMergeExact\nINVARIANT AgreeSound\nINVARIANT AsBuiltExactOneSegment"
    mc = lib.tlc_mc("MC_Aggs.tla", _cfg("MC_Aggs_run.cfg", MC_AGGS.format(docs=4 if quick else 5, asbuilt="FALSE", orders="FALSE", invs=ideal)),
                    timeout=5000, coverage=False)
    lib.require_mc_ok(mc, "MC_Aggs")
    states, trans = mc["distinct"], mc["states"]
    if not quick:
        mo = lib.tlc_mc("MC_Aggs.tla", _cfg("MC_Aggs_orders_run.cfg", MC_AGGS.format(docs=4, asbuilt="FALSE", orders="TRUE", invs=ideal)),
                        timeout=5000, coverage=False)
        lib.require_mc_ok(mo, "MC_Aggs (all segment orders)")
        states += mo["distinct"]
        trans += mo["states"]
    r2 = lib.tlc_mc("MC_Aggs.tla", _cfg("MC_Aggs_asbuilt_run.cfg", MC_AGGS.format(docs=3, asbuilt="TRUE", orders="FALSE", invs="INVARIANT AsBuiltExact")),
                    timeout=1800, coverage=False)
    lib.expect_mc_violation(r2, "MC_Aggs as-built (S12a)", {"AsBuiltExact"})
    s = _drive(v, "layouts", {"C12"}, 14 if quick else 300, 12 if quick else 16)
    v.coverage.update({
        "states": states, "transitions": trans,
        "traces_validated_against_impl": s["scenarios"], "requests_judged": s["requests"],
        "mc_bounds": f"every multiset of <= {4 if quick else 5} documents (keys over {{a,b,c}} incl. a two-valued and a value-less document, numeric value 1..2) x every set partition into <= 3 segments x 27 aggregation specs (terms size/min_doc_count/missing with sub-aggregations, rare_terms, stats, histogram min_doc_count): Fin(MergeAll(Collect)) = Ref",
        "as_built_per_segment_thresholds_refuted_by_model": True,
        "samples": s["samples"], "exhaustive": False,
    })
    v.assumptions += [
        "numeric values are multiples of 1/4 (exact in the trace's fixed point); avg / variance / percentile_ranks compared at 1e-4 with a tolerance of 1-2 units, std_deviation through its square at 1e-2",
        "not asserted because the README is silent: order and truncation among terms buckets with EQUAL counts, percentile interpolation (bounds and monotonicity only), values equal to a range/hard bound (bounds are generated between values), sub-aggregations of empty histogram buckets, empty buckets outside extended_bounds, metrics over zero values (count only)",
        "shard_size is only generated far above the number of keys (its truncation is approximate by design)",
        "top_hits: membership, order by the sort plan and total are asserted; ties by (segment, doc) are layout dependent by definition and excluded from the layout-to-layout comparison",
        "date_range is generated with numeric-string bounds, date_histogram with fixed intervals of whole milliseconds over the i64 fields (offset, extended_bounds, min_doc_count, missing); whether a fixed interval rounds down or up is not documented (the code and its own test suite round UP), so either reading is accepted, consistently per response; calendar intervals, RFC3339 strings, significant_terms, sampling and pipeline aggregations are not generated",
    ]


def run_c13(v):
    quick = v.tier == "quick"
    s = _drive(v, "paging", {"C13"}, 60 if quick else 5000, 8 if quick else 10)
    v.level = "exploration"
    v.coverage.update({
        "evaluations": s["variants"], "distinct_nontrivial": s["requests"],
        "rule": "random corpora over several commits with upserts and deletions; random (query, filter, aggregation tree to depth 3, completion suggester); each request is executed as: covering bm25 request, every page of a cursor walk (page size 1..5, random sort plan and strategy) plus its covering request, limits 1..50, other sort plans, return_hits=false, wand, bmw (block sizes), explain/profile combinations, rescore; a request counts once, `evaluations` counts executed variants. Trace_Aggs.tla requires every variant's aggregation tree to equal Ref(Expected(query, filter)) of Aggs.tla and the suggest subtrees to be identical",
        "traces_validated_against_impl": s["scenarios"],
        "samples": s["samples"], "exhaustive": False,
    })
    v.assumptions += [
        "the deviation S13a is reported only when the page's aggregations equal the reference computation over exactly the matched documents after the cursor key (Rank.tla CmpKeys with the scores of the covering request)",
        "suggestions are compared as serialised strings between variants (their content is C22's subject)",
    ]


MC_COMP = """SPECIFICATION Spec
CONSTANT MaxPage = 3
CONSTANT Strict = {strict}
CONSTANT AlwaysKey = {always}
INVARIANT WalkComplete
INVARIANT NoDuplicates
INVARIANT AfterKeyAbsentExactlyAtEnd
PROPERTY Terminates
CHECK_DEADLOCK FALSE
"""


def run_c30(v):
    quick = v.tier == "quick"
    mc = lib.tlc_mc("MC_Composite.tla", _cfg("MC_Composite_run.cfg", MC_COMP.format(strict="TRUE", always="FALSE")), timeout=1800, coverage=False)
    lib.require_mc_ok(mc, "MC_Composite")
    refuted = []
    for name, strict, always, inv in [("nonstrict_after", "FALSE", "FALSE", {"NoDuplicates", "WalkComplete", "AfterKeyAbsentExactlyAtEnd", "temporal"}),
                                       ("after_key_on_last_page", "TRUE", "TRUE", {"AfterKeyAbsentExactlyAtEnd"})]:
        r = lib.tlc_mc("MC_Composite.tla", _cfg(f"MC_Composite_{name}_run.cfg", MC_COMP.format(strict=strict, always=always)), timeout=1200, coverage=False)
        lib.expect_mc_violation(r, f"MC_Composite {name}", inv)
        refuted.append(name)
    s = _drive(v, "walks", {"C30"}, 24 if quick else 5000, 12 if quick else 20)
    v.coverage.update({
        "states": mc["distinct"], "transitions": mc["states"],
        "traces_validated_against_impl": s["scenarios"], "requests_judged": s["requests"], "pages_walked": s["pages"],
        "mc_bounds": "every set of <= 6 two-part bucket keys (string x number) x page sizes 1..3: walk by after_key is complete, duplicate free, ordered; after_key absent exactly at the end incl. the exact-multiple boundary",
        "protocol_mutations_refuted_by_model": refuted,
        "samples": s["samples"], "exhaustive": False,
    })
    v.assumptions += [
        "sources: 1-3 of terms (keyword fields, multi-valued) and histogram (f64 and i64 fields, intervals 0.25..3); page sizes 1..5; the unpaged request uses size 1000",
        "the unpaged bucket list is also judged absolutely (keys, lexicographic order by source order, counts, sub-aggregations) against Aggs.tla",
    ]
