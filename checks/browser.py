"""C27: Browser.tla (persistence protocol of searchlite-wasm) bound to the UNMODIFIED wasm.rs that
harness-wasm re-hosts natively on a simulated page (deterministic executor + simulated IndexedDB)."""
import concurrent.futures as cf
import json
import os
import random

from . import lib

HW = os.path.join(lib.VERIF, "harness-wasm")
SVW = os.path.join(HW, "target", "release", "svw")
_built = []

INVS = ["TypeOK", "NoStuck", "EventuallyAllPresent", "ReloadOpens", "ReloadIsSomeCommit", "ResolvedCommitPresent"]
PROP_INVS = {"ReloadOpens", "ReloadIsSomeCommit", "ResolvedCommitPresent"}

CFG = """SPECIFICATION Spec
CONSTANTS
  IdSetC = {{"a", "b"}}
  MaxCommitsC = {commits}
  NSeg = {nseg}
  TaskOrderC = "{task}"
  IdbOrderC = "{idb}"
  BugC = "{bug}"
  FixC = "{fix}"
  RemoveC = FALSE
  GenC = {gen}
{view}
{invs}
CHECK_DEADLOCK FALSE
"""


def build_svw():
    """Build harness-wasm (its `mod wasm` is /repo/searchlite-wasm/src/wasm.rs, so this always
    compiles the current working tree of /repo)."""
    if _built:
        return SVW
    rc, out, dt = lib.sh(["cargo", "build", "--release", "--offline"], cwd=HW, timeout=3600,
                         env={"CARGO_NET_OFFLINE": "true"})
    if rc != 0:
        raise lib.ToolError("harness-wasm build failed (native re-hosting of wasm.rs):\n" + out[-6000:])
    lib.log(f"harness-wasm built in {dt:.1f}s")
    _built.append(1)
    return SVW


def _cfg(name, task, idb, bug="none", fix="none", nseg=2, commits=2, gen=False, invs=None):
    invs = INVS if invs is None else invs
    return lib.write_cfg(f"MC_Browser_{name}_run.cfg", CFG.format(
        commits=commits, nseg=nseg, task=task, idb=idb, bug=bug, fix=fix, gen="TRUE" if gen else "FALSE",
        view="" if gen else "VIEW View", invs="\n".join("INVARIANT " + i for i in invs)))


def _mc(name, workers=4, **kw):
    return lib.tlc_mc("MC_Browser.tla", _cfg(name, **kw), workers=workers, timeout=3000, coverage=False)


def _validate(trace):
    """Trace_Browser replays the protocol model along the recorded steps. Try the as-built model
    first; if the code does not follow it, try the model of the proposed repair."""
    best = None
    for fix in ("none", "manifest_barrier"):
        msgs, dt, _ = lib.tlc_trace("Trace_Browser.tla", trace, timeout=3000, env={"FIX": fix},
                                    metatag=f"Trace_Browser-{fix}")
        drift = [m for m in msgs if m.get("kind") == "DRIFT"]
        if best is None or len(drift) < len(best[2]):
            best = (fix, msgs, drift)
        if not drift:
            break
    return best


def _judge(v, msgs, what):
    """FAIL/DEV first (a violation must not be masked); a TOOL message (the code could not be driven
    the way the model's schedule says, or the trace is inconsistent) without any FAIL is a tool error."""
    n_fail = lib.judge_trace(v, msgs, {"C27"})
    tool = [m for m in msgs if m.get("kind") == "TOOL"]
    if tool and not n_fail and not v.violations:
        raise lib.ToolError(f"{what}: {len(tool)} harness/spec inconsistencies, first: {json.dumps(tool[0])[:600]}")


def _run_trace(v, binary, tag, args):
    trace = lib.outpath(v.prop, f"browser-{tag}.ndjson")
    s = lib.svh(binary, ["run", "--seed", v.seed, "--out", trace] + args, timeout=3000)
    model, msgs, drift = _validate(trace)
    _judge(v, msgs, tag)
    reloads = [e for e in lib.read_ndjson(trace) if e["ev"] == "reload"]
    return {"scenarios": s["scenarios"], "events": s["events"], "model": model, "drift": len(drift),
            "dev": sum(1 for m in msgs if m.get("kind") == "DEV"),
            "reload_failed": sum(1 for e in reloads if not (e["opened"] and e["searched"])),
            "trace": trace, "msgs": msgs}


def run_c27(v):
    quick = v.tier == "quick"
    binary = build_svw()

    # --- I->S: seeded random schedules over the four (task order, IndexedDB order) combinations
    rnd = _run_trace(v, binary, "random", ["--scenarios", 400 if quick else 6000])
    model = rnd["model"]          # which protocol model the code follows step by step
    lib.log(f"random schedules: {rnd['scenarios']} scenarios, model followed = {model}, drift = {rnd['drift']}")
    by_combo = {}
    for e in lib.read_ndjson(rnd["trace"]):
        if e["ev"] == "reset":
            cur = (e["task_order"], e["idb_order"])
            by_combo.setdefault(cur, [0, 0])[0] += 1
        elif e["ev"] == "reload" and not (e["opened"] and e["searched"]):
            by_combo[cur][1] += 1

    # --- MC: the protocol model under the four ordering assumptions, mutations, the repair
    jobs = {
        "fifo_creation": dict(task="fifo", idb="creation"),
        "fifo_any": dict(task="fifo", idb="any"),
        "any_creation": dict(task="any", idb="creation"),
        "any_any": dict(task="any", idb="any"),
        "bug_flush_first_only": dict(task="fifo", idb="creation", bug="flush_first_only"),
        "bug_manifest_before_segments": dict(task="fifo", idb="creation", bug="manifest_before_segments"),
        "fix_any_any": dict(task="any", idb="any", fix="manifest_barrier", nseg=1 if quick else 2),
    }
    if not quick:
        jobs["bug_resolve_before_put"] = dict(task="fifo", idb="creation", bug="resolve_before_put")
        jobs["bug_coalesce_drops_newest"] = dict(task="fifo", idb="creation", bug="coalesce_drops_newest")
        # the whole as-built any/any state space (TLC stops at the first counterexample otherwise):
        # the invariants that do not depend on the manifest/segment order must hold everywhere
        jobs["any_any_full_space"] = dict(task="any", idb="any",
                                          invs=["TypeOK", "NoStuck", "EventuallyAllPresent", "ReloadIsSomeCommit"])
        jobs["fix_any_any_3seg"] = dict(task="any", idb="any", fix="manifest_barrier", nseg=3, commits=1)
        jobs["fifo_creation_5seg"] = dict(task="fifo", idb="creation", nseg=5)
    with cf.ThreadPoolExecutor(max_workers=7 if quick else 4) as ex:
        big = ("any_any_full_space", "fix_any_any", "fix_any_any_3seg")
        futs = {n: ex.submit(_mc, n, (8 if n in big else 2) if quick else (8 if n in big else 4), **kw)
                for n, kw in sorted(jobs.items(), key=lambda x: x[0] not in big)}
        res = {n: f.result() for n, f in futs.items()}
    lib.log("MC: " + ", ".join(f"{n}={r.get('distinct')}st/{r['wall_s']:.0f}s" for n, r in res.items()))
    lib.require_mc_ok(res["fifo_creation"], "MC_Browser microtask order + creation-order IndexedDB")
    for n in res:
        if n.startswith("fix_") or n.startswith("fifo_creation_") or n == "any_any_full_space":
            lib.require_mc_ok(res[n], f"MC_Browser {n}")
    lib.expect_mc_violation(res["bug_flush_first_only"], "flush awaits only the first receiver", {"ResolvedCommitPresent"})
    lib.expect_mc_violation(res["bug_manifest_before_segments"], "manifest stored before the segment files", PROP_INVS)
    if not quick:
        lib.expect_mc_violation(res["bug_resolve_before_put"], "waiters resolved before the put completes", {"ResolvedCommitPresent"})
        lib.expect_mc_violation(res["bug_coalesce_drops_newest"], "coalescing keeps the oldest snapshot", {"EventuallyAllPresent"})
    asbuilt = {}
    for n in ("fifo_any", "any_creation", "any_any"):
        r = res[n]
        if r.get("error_other") or not (r.get("violated") or r.get("completed")):
            raise lib.ToolError(f"MC_Browser {n}: TLC did not complete\n{r['raw'][-2000:]}")
        asbuilt[n] = sorted(set(r.get("violated", [])) & PROP_INVS)
    # The property quantifies over all orderings. The as-built model is the model of the code as
    # long as the code follows it step by step (trace replay without drift).
    if model == "none" and rnd["drift"] == 0:
        for n, viol in asbuilt.items():
            if viol:
                v.fail({"kind": "MC", "property": "C27", "config": n, "invariants": viol,
                        "why": "as-built protocol model (followed step by step by the code) violates the invariant under this ordering assumption"},
                       known_id="S27a")

    # --- S->I: schedules generated by TLC from the matched model, enacted on the real code
    gen_cfg = _cfg("gen", task="any", idb="any", fix=model, nseg=5, gen=True, invs=["PrintCase"])
    g = lib.tlc_mc("MC_Browser.tla", gen_cfg, workers=1, simulate=3 if quick else 30, depth=140, seed=v.seed,
                   timeout=3000, coverage=False)
    lib.log(f"case generation: {g['wall_s']:.0f}s")
    if g["rc"] != 0:
        raise lib.ToolError("MC_Browser case generation failed\n" + g["raw"][-2000:])
    cases, seen = [], set()
    for m in g["msgs"]:
        if m.get("_tag") == "CASE":
            m = {k: x for k, x in m.items() if k != "_tag"}
            key = json.dumps(m, sort_keys=True)
            if key not in seen:
                seen.add(key)
                cases.append(m)
    generated = len(cases)
    cap = 500 if quick else 12000
    if len(cases) > cap:
        rng = random.Random(int(v.seed))
        bad = [c for c in cases if not c["opens"]]
        good = [c for c in cases if c["opens"]]
        rng.shuffle(bad)
        rng.shuffle(good)
        cases = bad[:cap // 2] + good[:cap - min(len(bad), cap // 2)]
    cpath = lib.outpath(v.prop, "browser-cases.ndjson")
    with open(cpath, "w") as f:
        for c in cases:
            f.write(json.dumps(c) + "\n")
    predicted_bad = sum(1 for c in cases if not c["opens"])
    tlc = _run_trace(v, binary, "tlc", ["--cases", cpath])
    if tlc["scenarios"] != len(cases):
        raise lib.ToolError("svw did not enact every generated case")
    if tlc["model"] == model and tlc["drift"] == 0 and tlc["reload_failed"] != predicted_bad:
        raise lib.ToolError(f"model predicted {predicted_bad} failing reloads, the code produced {tlc['reload_failed']} "
                            "without any reported disagreement (Trace_Browser should have flagged it)")

    st = sum(r.get("distinct", 0) for r in res.values())
    tr = sum(r.get("states", 0) for r in res.values())
    sample_dev = [m for m in (rnd["msgs"] + tlc["msgs"]) if m.get("kind") == "DEV"][:2]
    v.coverage.update({
        "states": st, "transitions": tr,
        "traces_validated_against_impl": rnd["scenarios"] + tlc["scenarios"],
        "trace_events": rnd["events"] + tlc["events"],
        "mc": {n: {"distinct": r.get("distinct"), "violated": sorted(set(r.get("violated", [])))} for n, r in res.items()},
        "mc_bounds": "2 commits x 1-2 documents (ids a,b), a segment of 2 files (5 in the generated schedules), every interleaving "
                     "of exported calls, task polls, IndexedDB completions and the page close allowed by (TaskOrder, IdbOrder)",
        "protocol_model_followed_by_code": model, "protocol_drift": rnd["drift"] + tlc["drift"],
        "random_schedules": {f"{k[0]}/{k[1]}": {"scenarios": a, "reload_failed": b} for k, (a, b) in sorted(by_combo.items())},
        "tlc_schedules": {"generated": generated, "enacted": tlc["scenarios"], "model_predicts_failing_reload": predicted_bad,
                          "code_failed_reload": tlc["reload_failed"]},
        "mutations_refuted_by_model": sorted(n[4:] for n in res if n.startswith("bug_")),
        "samples": sample_dev or [e for e in lib.read_ndjson(rnd["trace"], 12)][:6],
        "exhaustive": False,
    })
    v.assumptions += [
        "wasm.rs is compiled natively, unmodified, against shim crates (harness-wasm/shims): wasm-bindgen glue, the JS event loop and IndexedDB are simulated, not a real browser",
        "an IndexedDB request's success and the commit of its transaction are one step (wasm.rs issues one request per read-write transaction and awaits `success`, not `complete`)",
        "IndexedDB requests never fail (no quota / abort errors); file snapshots are whole-file puts, never torn",
        "a page close runs no destructor and drops every pending task and request; the application awaits each commit promise before its next call",
        "TaskOrder=fifo models wasm-bindgen-futures' microtask queue, IdbOrder=creation models IndexedDB's ordering of read-write transactions with overlapping scope; the property quantifies over all orderings (any/any)",
    ]
