"""C05 / C06: Concurrency.tla bound by hook-event traces (Trace_Conc.tla) and enacted schedules."""
import json

from . import lib

CFG = """SPECIFICATION Spec
CONSTANTS
  Scenario = "{scn}"
  UseLockC = {lock}
  HoldReadLockC = {hold}
  CleanupFirstC = FALSE
{invs}
CHECK_DEADLOCK FALSE
"""
INVS = ["Serializable", "MutualExclusion", "DiskOpenable", "ReaderNeverFails", "SnapshotIsCommitted", "HeldReaderStable", "NoDeadlock"]


def _mc(name, scn, lock="TRUE", hold="TRUE", timeout=3000):
    cfg = lib.write_cfg(f"MC_Conc_{name}_run.cfg", CFG.format(scn=scn, lock=lock, hold=hold,
                                                              invs="\n".join("INVARIANT " + i for i in INVS)))
    return lib.tlc_mc("MC_Conc.tla", cfg, timeout=timeout, coverage=False)


def _schedules(v, num, path):
    """Interleavings of the permissive model (reader lock released early), enacted on the real code."""
    cfg = lib.write_cfg("MC_Conc_sim_run.cfg", CFG.format(scn="mixed", lock="TRUE", hold="FALSE", invs="INVARIANT PrintSchedule"))
    res = lib.tlc_mc("MC_Conc.tla", cfg, workers=1, simulate=num, depth=80, seed=v.seed, timeout=900)
    if res["rc"] != 0:
        raise lib.ToolError("MC_Conc simulation failed\n" + res["raw"][-2000:])
    return lib.write_cases(res["msgs"], "CASE", path)


def _traces(v, props, stress_n, sched_n, cases):
    binary = lib.build_harness()
    total = {"scenarios": 0, "events": 0}
    samples = []
    for mode, n, extra in (("stress", stress_n, []), ("sched", sched_n, ["--cases", cases] if cases else [])):
        trace = lib.outpath(v.prop, f"conc-{mode}.ndjson")
        s = lib.svh(binary, ["conc", "--mode", mode, "--seed", v.seed, "--scenarios", n, "--out", trace] + extra, timeout=3000)
        msgs, dt, _ = lib.tlc_trace("Trace_Conc.tla", trace, timeout=3000)
        lib.judge_trace(v, msgs, props)
        total["scenarios"] += s["scenarios"]
        total["events"] += s["events"]
        if not samples:
            samples = [e for e in lib.read_ndjson(trace, 40) if e["ev"] in ("reset", "enter", "read_end")][:6]
    total["samples"] = samples
    return total


def run_c05(v):
    quick = v.tier == "quick"
    st = tr = 0
    for name, scn in [("writers", "writers"), ("writers3", "writers3")] + ([] if quick else [("writers_compact", "writers_compact")]):
        r = _mc(name, scn)
        lib.require_mc_ok(r, f"MC_Conc {name}")
        st += r["distinct"]
        tr += r["states"]
    r = _mc("nolock", "writers", lock="FALSE")
    lib.expect_mc_violation(r, "MC_Conc without the writer mutex", {"MutualExclusion", "Serializable"})
    # liveness under weak fairness per thread: every program runs to completion
    live_cfg = lib.write_cfg("MC_Conc_live_run.cfg", """SPECIFICATION FairSpec
CONSTANTS
  Scenario = "writers"
  UseLockC = TRUE
  HoldReadLockC = TRUE
  CleanupFirstC = FALSE
PROPERTY EventuallyFinished
CHECK_DEADLOCK FALSE
""")
    lr = lib.tlc_mc("MC_Conc.tla", live_cfg, timeout=1800, coverage=False)
    lib.require_mc_ok(lr, "MC_Conc liveness (EventuallyFinished)")
    t = _traces(v, {"C05"}, 40 if quick else 600, 10 if quick else 100, None)
    v.coverage.update({
        "states": st, "transitions": tr, "traces_validated_against_impl": t["scenarios"], "trace_events": t["events"],
        "mc_bounds": "2-3 writer threads with 2-4 calls each (+ compaction thread in thorough), every interleaving of the hook-level steps",
        "mutation_refuted_by_model": ["no writer mutex"],
        "samples": t["samples"], "exhaustive": False,
    })
    v.assumptions += [
        "the OS scheduler is perturbed (seeded yields/sleeps at every stage point), not controlled, in stress mode; sched mode gates every thread at every stage point",
        "hook sequence numbers are taken while the writer mutex is held: the order of enter events is the linearisation order",
    ]


def run_c06(v):
    quick = v.tier == "quick"
    st = tr = 0
    for name, scn in [("readers", "readers")] + ([] if quick else [("mixed", "mixed")]):
        r = _mc(name, scn, timeout=5000)
        lib.require_mc_ok(r, f"MC_Conc {name}")
        st += r["distinct"]
        tr += r["states"]
    if not quick:   # ~1.5 M states; the quick tier keeps only the refutation of the LazyFetch mutation below
        r = _mc("held", "held", timeout=5000)
        lib.require_mc_ok(r, "MC_Conc held (kept reader fetches after commits and compaction)")
        st += r["distinct"]
        tr += r["states"]
    r = _mc("asbuilt", "readers", hold="FALSE")
    lib.expect_mc_violation(r, "MC_Conc reader releases the manifest lock early (S06a)", {"ReaderNeverFails"})
    r = _mc("held_lazy", "held_lazy")
    lib.expect_mc_violation(r, "MC_Conc kept reader opens stored fields at first fetch (seeded change r2-C06)", {"ReaderNeverFails"})
    cases = lib.outpath("cases", "C06-sched.ndjson")
    n = _schedules(v, 25 if quick else 300, cases)
    t = _traces(v, {"C06"}, 20 if quick else 300, 15 if quick else 200, cases)
    v.coverage.update({
        "states": st, "transitions": tr, "traces_validated_against_impl": t["scenarios"], "trace_events": t["events"],
        "tlc_generated_schedules_enacted": n,
        "mc_bounds": "reader open steps x commit publish x compaction lock/publish/unlock/cleanup steps, 2 commits + 1 compaction + 2 reader opens",
        "as_built_refuted_by_model": ["S06a reader releases the manifest lock before opening its segments"],
        "mutation_refuted_by_model": ["kept reader opens a segment's stored-field file at its first fetch (LazyFetch)"],
        "samples": t["samples"], "exhaustive": False,
    })
    v.assumptions += [
        "a granted thread that does not reach its next stage point within 100 ms is recorded as blocked on a lock (only ever delays detection, never raises an alarm)",
        "already opened files survive unlink on Linux: a reader opened before a compaction keeps its snapshot",
    ]
