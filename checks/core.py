"""C04 / C14: logical index semantics (IndexCore.tla) bound by history traces."""
import json
import os

from . import lib


def _mc_semantics(v, max_calls):
    cfg = lib.write_cfg("MC_Semantics_run.cfg", f"""SPECIFICATION MCSpec
CONSTANTS
  IdSet = {{"a", "b"}}
  HandleSet = {{1, 2, 3}}
  MaxCalls = {max_calls}
  PrintCases = FALSE
CONSTRAINT Bound
VIEW View
INVARIANT TypeOK
INVARIANT ContentsAreFold
INVARIANT FoldIdempotent
INVARIANT LiveWasAdded
PROPERTY OnlyCommitChanges
CHECK_DEADLOCK FALSE
""")
    res = lib.tlc_mc("MC_Semantics.tla", cfg, timeout=3000)
    lib.require_mc_ok(res, "MC_Semantics", need_actions=["DoNew", "DoAdd", "DoDel", "DoCommit", "DoRollback", "DoReopen"])
    return res


def _sim_cases(v, num, depth, path):
    cfg = lib.write_cfg("MC_Semantics_sim_run.cfg", f"""SPECIFICATION MCSpec
CONSTANTS
  IdSet = {{"a", "b", "c"}}
  HandleSet = {{1, 2, 3}}
  MaxCalls = {depth}
  PrintCases = TRUE
CONSTRAINT Bound
INVARIANT PrintCase
CHECK_DEADLOCK FALSE
""")
    res = lib.tlc_mc("MC_Semantics.tla", cfg, workers=1, simulate=num, depth=depth + 1, seed=v.seed, timeout=900)
    if res["rc"] != 0:
        raise lib.ToolError("MC_Semantics simulation failed\n" + res["raw"][-2000:])
    return lib.write_cases(res["msgs"], "CASE", path)


def _history(v, props, end_compact, extra_cases=()):
    quick = v.tier == "quick"
    binary = lib.build_harness()
    mc = _mc_semantics(v, 5 if quick else 7)
    cases = lib.outpath("cases", f"{v.prop}-hist.ndjson")
    ncases = _sim_cases(v, 30 if quick else 300, 14 if quick else 24, cases)
    with open(cases, "a") as f:
        for c in extra_cases:
            c = dict(c)
            c.pop("_tag", None)
            f.write(json.dumps(c) + "\n")
            ncases += 1
    runs = [(binary, "default")]
    if not quick:
        runs.append((lib.build_harness(("zstd",)), "zstd"))
    total_scn = total_ev = 0
    samples = []
    for binary, tag in runs:
        trace = lib.outpath(v.prop, f"history-{tag}.ndjson")
        args = ["history", "--seed", v.seed, "--out", trace, "--cases", cases,
                "--scenarios", 40 if quick else 400, "--calls", 80 if quick else 300]
        if end_compact:
            args += ["--end-compact"]
        s = lib.svh(binary, args)
        msgs, dt, _ = lib.tlc_trace("Trace_History.tla", trace, timeout=3000)
        lib.judge_trace(v, msgs, props)
        total_scn += s["scenarios"]
        total_ev += s["events"]
        if not samples:
            samples = lib.read_ndjson(trace, 6)
            for e in samples:
                e.pop("obs", None)
    v.coverage.update({
        "states": mc["distinct"], "transitions": mc["states"],
        "traces_validated_against_impl": total_scn,
        "trace_events": total_ev, "tlc_generated_histories": ncases,
        "mc_bounds": "2 ids, 3 handles, <= %d calls" % (5 if quick else 7),
        "samples": samples,
        "exhaustive": False,
    })
    v.assumptions += [
        "in-memory storage is driven with one live writer handle at a time (MemFile append positions are per handle)",
        "stored projection compares value lists: a single-element array equals its scalar, null/empty equals absent",
        "reopen drops all writer handles first",
    ]


IMPL_CFG = """SPECIFICATION Spec
CONSTANTS
  IdSet = {ids}
  HandleSet = {{1, 2}}
  MaxCalls = {calls}
  EmptyCompactionDropsAll = {empty}
  GenFromTag = {gentag}
  CacheLostOnFailedCommit = {cachelost}
{invs}
VIEW View
{extra}
CHECK_DEADLOCK FALSE
"""


def _mc_impl(v):
    """IndexImpl.tla: the segment/tombstone/live-cache implementation refines IndexCore; the two
    generation mutations (seeded changes C04/C05) must be refuted by the same invariants."""
    quick = v.tier == "quick"
    calls = 6 if quick else 7
    both = ("INVARIANT OneCopy\nINVARIANT RefinesCore\nINVARIANT CacheSound\nINVARIANT TagBound\n"
            "INVARIANT SidsUnique\nINVARIANT GensUnique\nPROPERTY GenMonotone")
    cfg = lib.write_cfg("MC_IndexImpl_ideal_run.cfg", IMPL_CFG.format(ids="{1, 2}", calls=calls, empty="FALSE", gentag="FALSE", cachelost="FALSE", invs=both, extra=""))
    ideal = lib.tlc_mc("IndexImpl.tla", cfg, timeout=3000)
    lib.require_mc_ok(ideal, "IndexImpl (as built)", need_actions=["NewWriter", "DropWriter", "Add", "Delete", "Commit", "CommitFails", "Rollback", "Compact"])
    # the mutated designs: each counterexample's call history is printed (CASE) and replayed into
    # the real code by the history driver, where the as-built code must behave like IndexCore
    witnesses = []
    wit = "INVARIANT RefinesOrWitness"
    for name, what, ids, ncalls, empty, gentag in (
            ("gentag", "IndexImpl with generation taken from the handle's tag", "{1, 2}", 10, "FALSE", "TRUE"),
            ("emptycompact", "IndexImpl with empty compaction dropping every segment", "{1}", 15, "TRUE", "FALSE")):
        for seed_workers in (1, 4):
            cfg = lib.write_cfg(f"MC_IndexImpl_{name}_run.cfg", IMPL_CFG.format(ids=ids, calls=ncalls, empty=empty, gentag=gentag, cachelost="FALSE", invs=wit,
                                                                                extra="CONSTRAINT SmallPending"))
            r = lib.tlc_mc("IndexImpl.tla", cfg, workers=seed_workers, timeout=1500, coverage=False)
            lib.expect_mc_violation(r, what, {"RefinesOrWitness"})
            cases = [m for m in r["msgs"] if m.get("_tag") == "CASE"]
            if not cases:
                raise lib.ToolError(f"{what}: counterexample without a CASE line\n{r['raw'][-1500:]}")
            witnesses += cases
    # a fault-related mutation (seeded change C03): no replayable history (the history driver
    # injects no faults), refutation only
    cfg = lib.write_cfg("MC_IndexImpl_cachelost_run.cfg", IMPL_CFG.format(ids="{1}", calls=8, empty="FALSE", gentag="FALSE", cachelost="TRUE",
                                                                         invs=both, extra="CONSTRAINT SmallPending"))
    r = lib.tlc_mc("IndexImpl.tla", cfg, timeout=1500, coverage=False)
    lib.expect_mc_violation(r, "IndexImpl with the cache lost by a failed commit", {"OneCopy", "RefinesCore", "CacheSound"})
    return ideal, calls, witnesses


def run_c04(v):
    ideal, calls, witnesses = _mc_impl(v)
    _history(v, {"C04"}, end_compact=False, extra_cases=witnesses)
    v.coverage["tlc_counterexamples_of_mutated_designs_replayed"] = len(witnesses)
    v.coverage["states"] += ideal["distinct"]
    v.coverage["transitions"] += ideal["states"]
    v.coverage["impl_refinement_model"] = {
        "module": "IndexImpl.tla", "bounds": "2 ids, 2 handles, <= %d calls, exhaustive" % calls,
        "distinct_states": ideal["distinct"], "invariants": ["OneCopy", "RefinesCore"],
        "mutations_refuted": ["GenFromTag", "EmptyCompactionDropsAll", "CacheLostOnFailedCommit"],
    }


def run_c14(v):
    _history(v, {"C14"}, end_compact=True)
    # the same battery of queries and filters before and after compaction, both judged by the
    # absolute search oracle (Search.tla) - hence equal to each other
    quick = v.tier == "quick"
    binary = lib.build_harness()
    trace = lib.outpath(v.prop, "search-compact.ndjson")
    s = lib.svh(binary, ["search", "--family", "compact", "--seed", v.seed, "--out", trace,
                         "--scenarios", 6 if quick else 80, "--requests", 24 if quick else 40], timeout=7200)
    msgs, dt, _ = lib.tlc_trace("Trace_Search.tla", trace, timeout=7200, xmx="8g")
    lib.judge_trace(v, msgs, {"C14"})
    v.coverage["traces_validated_against_impl"] += s["scenarios"]
    v.coverage["query_filter_battery_requests"] = s["requests"]
    v.assumptions.append("query/filter equivalence across compaction is judged on compact-safe schemas (every indexed/fast field stored)")
