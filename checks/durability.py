"""C01 / C02: crash durability. Storage.tla + IndexCore.tla, bound by crash-image probes."""
import json
import os

from . import lib


MC_CFG = """SPECIFICATION Spec
CONSTANTS
  IdSet = {{"a", "b"}}
  MaxCalls = {calls}
  MaxCrashes = {crashes}
  Bug = "{bug}"
INVARIANT C01_CrashSafe
INVARIANT C02_QueueRecovered
INVARIANT VolatileConsistent
CHECK_DEADLOCK FALSE
"""

# protocol mutations the model must refute (non-vacuity of the invariants): bug -> (calls, crashes)
BUGS = {
    "no_tmp_fsync": (5, 1), "no_dir_fsync": (5, 1), "no_seg_fsync": (5, 1), "marker_first": (5, 1),
    "no_trim": (5, 2), "cleanup_before_store": (6, 1), "no_drop_sync": (5, 1),
}


def _mc(v):
    """Bounded model of the commit/compact/rollback/new-writer/drop protocols over Storage.tla."""
    quick = v.tier == "quick"
    calls, crashes = (6, 2) if quick else (8, 3)
    cfg = lib.write_cfg("MC_Durability_none.cfg", MC_CFG.format(calls=calls, crashes=crashes, bug="none"))
    res = lib.tlc_mc("MC_Durability.tla", cfg, timeout=5400, xmx="24g", coverage=False)
    lib.require_mc_ok(res, "MC_Durability")
    refuted = []
    bugs = list(BUGS) if not quick else ["no_dir_fsync", "marker_first", "no_trim"]
    for bug in bugs:
        c, k = BUGS[bug]
        bcfg = lib.write_cfg(f"MC_Durability_{bug}.cfg", MC_CFG.format(calls=c, crashes=k, bug=bug))
        r = lib.tlc_mc("MC_Durability.tla", bcfg, timeout=1800, coverage=False)
        lib.expect_mc_violation(r, f"MC_Durability Bug={bug}", {"C01_CrashSafe", "C02_QueueRecovered", "VolatileConsistent"})
        refuted.append(bug)
    res["bounds"] = f"2 ids, <= {calls} calls, <= {crashes} crashes, every primitive step a crash point"
    res["refuted"] = refuted
    return res


def _crash(v, props):
    quick = v.tier == "quick"
    binary = lib.build_harness()
    mc = _mc(v)
    trace = lib.outpath(v.prop, "crash.ndjson")
    args = ["crash", "--seed", v.seed + (0 if "C01" in props else 1000), "--out", trace,
            "--scenarios", 18 if quick else 40,
            "--rounds", 2 if quick else 3,
            "--calls", 8 if quick else 10,
            "--cap", 24 if quick else 400]
    if not quick:
        args += ["--dense"]
    s = lib.svh(binary, args, timeout=14000)
    msgs, dt, _ = lib.tlc_trace("Trace_Crash.tla", trace, timeout=14000, xmx="8g")
    tool = [m for m in msgs if m.get("kind") == "TOOL"]
    if tool:
        raise lib.ToolError("harness crash-image enumeration disagrees with Storage.tla: " + json.dumps(tool[:3]))
    lib.judge_trace(v, msgs, props)
    samples = [e for e in lib.read_ndjson(trace, 400) if e["ev"] in ("call", "probe")][:6]
    v.coverage.update({
        "states": (mc or {}).get("distinct", 0) + s["events"],
        "transitions": (mc or {}).get("states", 0) + s["events"],
        "mc_states": (mc or {}).get("distinct", 0),
        "mc_bounds": (mc or {}).get("bounds", ""),
        "mc_protocol_mutations_refuted": (mc or {}).get("refuted", []),
        "traces_validated_against_impl": s["scenarios"],
        "trace_events": s["events"],
        "crash_points": s["crash_points"],
        "crash_images_probed": s["probes"],
        "distinct_images_recovered": s["distinct_images"],
        "torn_cuts": "every byte" if not quick else "first/middle/last byte of each unsynced write",
        "samples": samples,
        "exhaustive": False,
    })
    v.assumptions += [
        "crash model of spec/Storage.tla: ordered (journalled) directory operations, fsync of a file persists its directory entry, per-file prefix of unsynced data operations with a torn last write",
        "one live writer handle at a time (the property's quantifier)",
        "crash images are materialised at the original path because the manifest stores absolute segment paths",
    ]


def run_c01(v):
    _crash(v, {"C01"})


def run_c02(v):
    _crash(v, {"C02"})
