"""C18, C19, C21, C22: features layered on the ranked list (collapse, rescore, highlight, suggest).
Specs: Collapse.tla / Rescore.tla / Highlight.tla / Suggest.tla, bound by Trace_Extras.tla to
`svh extras`."""
import json
import os

from . import lib

WORK_ENV = {"VERIF_WORK": os.path.join(lib.OUT, "work")}


def _cfg(name, text):
    return lib.write_cfg(name, text)


def _judge(v, trace, props):
    msgs, dt, _ = lib.tlc_trace("Trace_Extras.tla", trace, timeout=7200, xmx="8g", metatag=f"Trace_Extras-{v.prop}")
    tool = [m for m in msgs if m.get("kind") == "TOOL"]
    if tool:
        raise lib.ToolError("trace spec reported a harness inconsistency: " + json.dumps(tool[:3]))
    lib.judge_trace(v, msgs, props)
    return dt


def _samples(trace, n=3):
    out = []
    for e in lib.read_ndjson(trace, 80):
        if e.get("ev") == "search":
            obs = e.get("obs") or {}
            out.append({"check": e.get("check"), "request": e.get("req", "")[:600],
                        "observed": {k: obs.get(k) for k in ("ids", "inner", "options", "frags") if k in obs}})
            if len(out) >= n:
                break
    return out


def _drive(v, mode, tag, props, extra):
    binary = lib.build_harness()
    trace = lib.outpath(v.prop, f"extras-{tag}.ndjson")
    s = lib.svh(binary, ["extras", "--mode", mode, "--seed", v.seed, "--out", trace] + list(extra),
                timeout=7200, env=WORK_ENV)
    s["tlc_s"] = round(_judge(v, trace, props), 1)
    s["samples"] = _samples(trace)
    return s


# ------------------------------------------------------------------------------------------------
# C18
# ------------------------------------------------------------------------------------------------
MC_COLLAPSE = """SPECIFICATION Spec
CONSTANT MaxHits = {hits}
CONSTANT Variant = "{variant}"
CONSTANT PrintMod = {mod}
INVARIANT OnePer
INVARIANT Best
INVARIANT Order
INVARIANT InnerOk
INVARIANT Partition
INVARIANT WindowLaw
INVARIANT PrintCase
CHECK_DEADLOCK FALSE
"""


def run_c18(v):
    quick = v.tier == "quick"
    mc = lib.tlc_mc("MC_Collapse.tla", _cfg("MC_Collapse_run.cfg", MC_COLLAPSE.format(hits=5 if quick else 6, variant="ideal", mod=23)),
                    timeout=3000, coverage=False)
    lib.require_mc_ok(mc, "MC_Collapse")
    r = lib.tlc_mc("MC_Collapse.tla", _cfg("MC_Collapse_prefix_run.cfg", MC_COLLAPSE.format(hits=4 if quick else 6, variant="prefix", mod=0).replace("INVARIANT Partition\nINVARIANT WindowLaw\n", "")),
                   timeout=1200, coverage=False)
    lib.require_mc_ok(r, "MC_Collapse on an exact prefix of the ranking")
    variants = (("arrival", "Best"), ("segcand", "Best")) if quick else (("arrival", "Best"), ("offbyone", "WindowLaw"), ("segcand", "Best"))
    for variant, inv in variants:
        r = lib.tlc_mc("MC_Collapse.tla", _cfg(f"MC_Collapse_{variant}_run.cfg", MC_COLLAPSE.format(hits=5 if variant == "segcand" else 4, variant=variant, mod=0)
                            .replace("INVARIANT Partition\nINVARIANT WindowLaw\n", "INVARIANT Partition\n" + ("" if variant == "segcand" else "INVARIANT WindowLaw\n"))),
                       timeout=1200, coverage=False)
        lib.expect_mc_violation(r, f"MC_Collapse variant {variant}", {inv})
    cases = lib.outpath(v.prop, "collapse-cases.ndjson")
    n_cases = lib.write_cases(mc["msgs"], "CASE", cases)
    if n_cases == 0:
        raise lib.ToolError("MC_Collapse printed no CASE lines")
    s1 = _drive(v, "collapse", "cases", {"C18"}, ["--cases", cases, "--max-cases", 150 if quick else 1500])
    s2 = _drive(v, "collapse", "random", {"C18"}, ["--scenarios", 10 if quick else 600, "--requests", 40 if quick else 80])
    v.coverage.update({
        "states": mc["distinct"], "transitions": mc["states"],
        "traces_validated_against_impl": s1["scenarios"] + s2["scenarios"],
        "requests_judged": s1["requests"] + s2["requests"],
        "cases_generated_by_tlc": n_cases, "cases_replayed": s1["requests"],
        "mc_bounds": f"every ranked list of <={5 if quick else 6} hits in groups 0..3 (0 = no value) x inner sort same/other x from 0..2 x size none/0..3",
        "broken_variants_refuted_by_model": [x[0] for x in variants],
        "samples": s2["samples"], "exhaustive": False,
    })
    v.assumptions += [
        "the ranked list that is collapsed is the observed response of the same request without `collapse` under a covering limit (its order and scores are judged by C10)",
        "documents without a value of the collapse field: README is silent, nothing is asserted about them (total_groups may or may not count them)",
        "inner_hits without `sort` is only generated when the request sort is the default (README does not say which order applies otherwise); an inner sort on _score only when the request sort uses _score",
        "small limits (candidate list shorter than the matches): only the structural requirements are asserted (one hit per value, each the best of its group, group order, inner hits within the group in inner-sort order, size)",
        "queries are match_all / term / query_string so that the candidate set is not affected by S07a",
    ]


# ------------------------------------------------------------------------------------------------
# C19
# ------------------------------------------------------------------------------------------------
MC_RESCORE = """SPECIFICATION Spec
CONSTANT MaxHits = {hits}
CONSTANT MaxDrops = 2
CONSTANT AsBuilt = {asbuilt}
INVARIANT TailOk
INVARIANT MembersOk
INVARIANT OrderedOk
INVARIANT OnlyWindow
INVARIANT NoDropSame
CHECK_DEADLOCK FALSE
"""


def run_c19(v):
    quick = v.tier == "quick"
    mc = lib.tlc_mc("MC_Rescore.tla", _cfg("MC_Rescore_run.cfg", MC_RESCORE.format(hits=5 if quick else 6, asbuilt="FALSE")),
                    timeout=3000, coverage=False, workers=4 if quick else None)
    lib.require_mc_ok(mc, "MC_Rescore")
    r = lib.tlc_mc("MC_Rescore.tla", _cfg("MC_Rescore_asbuilt_run.cfg", MC_RESCORE.format(hits=5, asbuilt="TRUE")),
                   timeout=1200, coverage=False, workers=4)
    lib.expect_mc_violation(r, "MC_Rescore as-built sort window (S19a)", {"TailOk"})
    s = _drive(v, "rescore", "random", {"C19"}, ["--scenarios", 20 if quick else 1000, "--requests", 40 if quick else 80])
    v.coverage.update({
        "states": mc["distinct"], "transitions": mc["states"],
        "traces_validated_against_impl": s["scenarios"], "requests_judged": s["requests"],
        "mc_bounds": f"every ranked list of <={5 if quick else 6} hits x outcome keep/up/down/drop per hit (<=2 drops) x window_size 0..MaxHits+2",
        "as_built_sort_window_refuted_by_model": True,
        "samples": s["samples"], "exhaustive": False,
    })
    v.assumptions += [
        "the initial ranking is the observed response of the same request without `rescore` (judged by C10); both requests use a limit that covers every match, so the candidate list is the whole ranking",
        "window_size ranges over 0..matches+5; all score modes (total, multiply, sum, max, min, default)",
        "absolute score oracle (combination of the observed original score with Rank.tla's BM25 score of the rescore query, min_score rejections) only for corpora without deletions and rescore queries without function scores other than function_score{functions: [], min_score}; tolerance 1 % + 0.002, rejections are not asserted within that tolerance of min_score",
        "otherwise structural: tail untouched (scores, order, behind the window), window membership, unmatched window hits keep their score, window ordered by the sort plan with its new observed scores",
        "small limits: the rescored request under limit k must return the first k hits of the covering response only when window_size <= k+1 and nothing was dropped (README is silent on windows beyond the candidate list)",
    ]


# ------------------------------------------------------------------------------------------------
# C21
# ------------------------------------------------------------------------------------------------
MC_HIGHLIGHT = """SPECIFICATION Spec
CONSTANT MaxChars = {chars}
CONSTANT MaxSize = {size}
CONSTANT CheckAsBuilt = {asbuilt}
CONSTANT PrintMod = {mod}
INVARIANT IdealOk
INVARIANT OnlyEmpty
INVARIANT AsBuiltOk
INVARIANT PrintCase
CHECK_DEADLOCK FALSE
"""


def run_c21(v):
    quick = v.tier == "quick"
    mc = lib.tlc_mc("MC_Highlight.tla", _cfg("MC_Highlight_run.cfg", MC_HIGHLIGHT.format(chars=4 if quick else 6, size=16 if quick else 20, asbuilt="FALSE", mod=7 if quick else 101)),
                    timeout=6000, coverage=False)
    lib.require_mc_ok(mc, "MC_Highlight")
    r = lib.tlc_mc("MC_Highlight.tla", _cfg("MC_Highlight_asbuilt_run.cfg", MC_HIGHLIGHT.format(chars=3, size=12, asbuilt="TRUE", mod=0)),
                   timeout=1200, coverage=False, workers=4)
    lib.expect_mc_violation(r, "MC_Highlight as-built byte window (S21a)", {"AsBuiltOk"})
    cases = lib.outpath(v.prop, "highlight-cases.ndjson")
    n_cases = lib.write_cases(mc["msgs"], "CASE", cases)
    if n_cases == 0:
        raise lib.ToolError("MC_Highlight printed no CASE lines")
    s1 = _drive(v, "highlight", "cases", {"C21"}, ["--cases", cases, "--max-cases", 100 if quick else 1500])
    s2 = _drive(v, "highlight", "random", {"C21"}, ["--scenarios", 8 if quick else 400, "--requests", 25 if quick else 50])
    v.coverage.update({
        "states": mc["distinct"], "transitions": mc["states"],
        "traces_validated_against_impl": s1["scenarios"] + s2["scenarios"],
        "requests_judged": s1["requests"] + s2["requests"],
        "cases_generated_by_tlc": n_cases, "cases_replayed": s1["requests"],
        "mc_bounds": f"every text of <={4 if quick else 6} characters of UTF-8 width 1..4 x every match span x fragment_size 0..{16 if quick else 20}",
        "as_built_byte_window_refuted_by_model": True,
        "samples": s2["samples"], "exhaustive": False,
    })
    v.assumptions += [
        "which parts of a text match (regex over the analysed query terms) is input: the matches are read from the engine's own fragment of the whole text (same query, fragment_size larger than the text); C21 judges the fragment windows",
        "the precondition `fragment_size >= 2 * bytes(matched text)` uses the longest match of the text; fragment length is measured in bytes of the fragment without its tags",
        "random texts mix ASCII, Latin-1, CJK, kana, emoji and multi-byte punctuation; only single string values are highlighted by the engine (arrays are skipped) and generated",
        "the legacy snippet (highlight_field) is judged as one fragment with fragment_size 120",
    ]


# ------------------------------------------------------------------------------------------------
# C22
# ------------------------------------------------------------------------------------------------
MC_SUGGEST = """SPECIFICATION Spec
CONSTANT Variant = "{variant}"
CONSTANT NDocs = {ndocs}
INVARIANT LayoutIndependent
INVARIANT DfIsCount
INVARIANT SortedBounded
CHECK_DEADLOCK FALSE
"""


def run_c22(v):
    quick = v.tier == "quick"
    mc = lib.tlc_mc("MC_Suggest.tla", _cfg("MC_Suggest_run.cfg", MC_SUGGEST.format(variant="ideal", ndocs=2 if quick else 3)),
                    timeout=3000, coverage=False, workers=4 if quick else None)
    lib.require_mc_ok(mc, "MC_Suggest")
    r = lib.tlc_mc("MC_Suggest.tla", _cfg("MC_Suggest_firstseg_run.cfg", MC_SUGGEST.format(variant="firstseg", ndocs=2)),
                   timeout=1200, coverage=False, workers=4)
    lib.expect_mc_violation(r, "MC_Suggest variant firstseg", {"LayoutIndependent", "DfIsCount"})
    s = _drive(v, "suggest", "random", {"C22"}, ["--scenarios", 16 if quick else 400, "--requests", 30 if quick else 60])
    v.coverage.update({
        "states": mc["distinct"], "transitions": mc["states"],
        "traces_validated_against_impl": s["scenarios"], "requests_judged": s["requests"],
        "mc_bounds": f"{2 if quick else 3} documents x every subset of 4 terms x every assignment to 2 segments x prefixes ''/r/ru/rus and fuzzy input rust x size 1..3",
        "broken_variants_refuted_by_model": ["firstseg (doc_freq not summed over segments)"],
        "samples": s["samples"], "exhaustive": False,
    })
    v.assumptions += [
        "corpora without upserts and deletions; every corpus is indexed in 2-3 segment layouts and every request runs on each layout",
        "analysis is input: the tokens the field's search analyzer makes of the prefix are logged; that the LAST token (or the raw prefix when there is none; ASCII lower case for keyword fields) is completed is part of the specification",
        "asserted in full only while the number of matching (segment, term) pairs is below the scan cap (prefix: size*5 clamped to 64..256; fuzzy: max(min(max_expansions, 256), size)); above it only size, order, membership",
        "fuzzy: max_edits 1..2, max_expansions >= 1; a fuzzy request whose input is shorter than min_length is not asserted (README silent)",
        "scores: doc_freq, or doc_freq/(distance+1) for fuzzy options, tolerance 1 % + 0.002; the order is judged exactly on the observed f32 scores",
    ]
