"""C03: storage errors leave the committed state unchanged or fully applied.

MC_Faults.tla (bounded model with a Fail choice on every storage micro-step, error branch of commit
spelled out) + fault enumeration on the real code (svh faults: FaultyStorage around InMemoryStorage /
FsStorage, every trait call x {before, after}, ordered pairs on the smallest scenarios) judged by
Trace_Fault.tla."""
import concurrent.futures
import copy
import json
import os

from . import lib

MC_CFG = """SPECIFICATION Spec
CONSTANTS
  IdSet = {{"a", "b"}}
  MaxCalls = {calls}
  MaxFaults = {faults}
  Dev = {dev}
  Bug = "{bug}"
INVARIANT FailAtomic
INVARIANT NoDangling
INVARIANT UndoFailureBounded
CHECK_DEADLOCK FALSE
"""

INVS = {"FailAtomic", "NoDangling", "UndoFailureBounded"}

# protocol mutations the model must refute (non-vacuity): bug -> (calls, invariant expected)
BUGS = {
    "publish_first": (4, "FailAtomic"),           # in-memory publication before the manifest is stored
    "no_restore": (4, None),                      # error branch does not re-store the old manifest
    "no_truncate_back": (4, "FailAtomic"),        # error branch leaves the commit marker in the log
    "compact_cleanup_first": (6, "NoDangling"),   # compaction deletes old files before storing the manifest
}


def _mc_job(name, calls, faults, dev, bug, workers, timeout):
    cfg = lib.write_cfg(f"MC_Faults_{name}.cfg",
                        MC_CFG.format(calls=calls, faults=faults, dev=dev, bug=bug))
    return lib.tlc_mc("MC_Faults.tla", cfg, workers=workers, timeout=timeout, xmx="6g",
                      coverage=(name.startswith("ideal")))


def _mc_submit(pool, v):
    quick = v.tier == "quick"
    jobs = {
        # the property must hold in the ideal configuration (submitted first, most workers)
        "ideal1": (6 if quick else 7, 1, "{}", "none"),
        "ideal2": (4 if quick else 6, 2, "{}", "none"),
        # what the code does today must be refuted (documents S03b / S03a at design level)
        "asbuilt_S03b": (4, 1, '{"S03b"}', "none"),
        "asbuilt_S03a": (4, 2, '{"S03a"}', "none"),
    }
    bugs = ["publish_first", "no_truncate_back"] if quick else list(BUGS)
    for b in bugs:
        jobs["bug_" + b] = (BUGS[b][0], 1, "{}", b)
    futs = {}
    for name, (calls, faults, dev, bug) in jobs.items():
        w = max(2, lib.NCPU // 2) if name == "ideal1" else max(2, lib.NCPU // 5)
        futs[name] = (pool.submit(_mc_job, name, calls, faults, dev, bug, w, 5400), calls, faults)
    return futs


def _mc_collect(futs):
    out = {"states": 0, "distinct": 0, "configs": {}}
    for name, (fut, calls, faults) in futs.items():
        res = fut.result()
        what = f"MC_Faults[{name}]"
        if name.startswith("ideal"):
            lib.require_mc_ok(res, what, need_actions=("MicroFail", "CallCommit", "CallRollback") +
                              (("CallCompact",) if calls >= 6 else ()))
            out["states"] += res.get("states", 0)
            out["distinct"] += res.get("distinct", 0)
        elif name == "asbuilt_S03b":
            lib.expect_mc_violation(res, what, {"FailAtomic"})
        elif name == "asbuilt_S03a":
            lib.expect_mc_violation(res, what, {"NoDangling"})
        else:
            want = BUGS[name[4:]][1]
            lib.expect_mc_violation(res, what, {want} if want else INVS)
        out["configs"][name] = {"calls": calls, "faults": faults, "distinct_states": res.get("distinct", 0),
                                "violated": res.get("violated", []), "wall_s": round(res["wall_s"], 1)}
    return out


# ------------------------------------------------------------------------------------------------
# binding self-test: corrupt recorded fields, the trace specification must flag each of them
# ------------------------------------------------------------------------------------------------

def _runs(events):
    run = []
    for e in events:
        if e["ev"] == "reset" and run:
            yield run
            run = []
        run.append(e)
    if run:
        yield run


def _mutants(trace):
    """Corrupted copies of recorded runs; each must draw exactly one FAIL."""
    events = lib.read_ndjson(trace, 6000)
    runs = list(_runs(events))
    if runs and len(events) >= 6000:
        runs = runs[:-1]          # the last one may be cut
    out = []

    def rets(run):
        return [i for i, e in enumerate(run) if e["ev"] == "ret"]

    clean = next((r for r in runs if r[0]["nfaults"] == 0 and
                  any(e["ev"] == "ret" and e["reader"] for e in r)), None)
    if clean:
        # a new reader loses a document
        m = copy.deepcopy(clean)
        i = [k for k in rets(m) if m[k]["reader"]][-1]
        m[i]["reader"] = m[i]["reader"][1:]
        out.append(("reader_lost_doc", m))
        # the reopened manifest names a missing file
        m = copy.deepcopy(clean)
        m[rets(m)[-1]]["dangling"] = ["meta"]
        out.append(("dangling_meta", m))
        # the reopened index still shows the old contents after a successful commit
        m = copy.deepcopy(clean)
        rr = rets(m)
        for a, b in zip(rr, rr[1:]):
            if m[b]["ok"] and m[b - 1].get("op") == "commit" and m[a]["reopen"] != m[b]["reopen"]:
                m[b]["reopen"] = m[a]["reopen"]
                out.append(("reopen_stale_after_commit", m))
                break
        # the log keeps the operations of a successful commit
        m = copy.deepcopy(clean)
        rr = rets(m)
        for a, b in zip(rr, rr[1:]):
            if m[b]["ok"] and m[b - 1].get("op") == "commit" and m[a]["wal"]:
                m[b]["wal"] = m[a]["wal"]
                out.append(("log_not_cleared", m))
                break
    # a commit that failed inside the segment write reports Err but is visible
    for r in runs:
        rr = rets(r)
        hit = next((k for k in rr if not r[k]["ok"] and r[k - 1].get("op") == "commit" and r[k]["hits"]
                    and r[k]["hits"][0]["cls"].startswith("seg.")), None)
        fin = rr[-1]
        if hit is not None and r[fin]["ok"] and r[fin]["reader"] != r[hit]["reader"]:
            m = copy.deepcopy(r)
            m[hit]["reader"] = r[fin]["reader"]
            m[hit]["reopen"] = r[fin]["reopen"]
            out.append(("err_but_applied", m))
            break
    # a commit fails (single fault, so the queue is known exactly) and the queued operations are lost:
    # the final fault-free commit shows the contents seen at the failed call
    for r in runs:
        if r[0]["nfaults"] != 1:
            continue
        rr = rets(r)
        hit = next((k for k in rr if not r[k]["ok"] and r[k - 1].get("op") == "commit" and r[k]["hits"]
                    and (r[k]["hits"][0]["cls"].startswith("seg.") or r[k]["hits"][0]["name"] == "atomic_write")), None)
        fin = rr[-1]
        if hit is not None and r[fin]["ok"] and r[fin - 1].get("final") and r[fin]["reader"] != r[hit]["reader"]:
            m = copy.deepcopy(r)
            m[fin]["reader"] = r[hit]["reader"]
            m[fin]["reopen"] = r[hit]["reopen"]
            out.append(("queue_lost_after_failed_commit", m))
            break
    return out


def _selftest(v, trace):
    muts = _mutants(trace)
    if len(muts) < 3:
        raise lib.ToolError(f"binding self-test: only {len(muts)} mutants could be built from the trace")
    path = lib.outpath(v.prop, "selftest.ndjson")
    with open(path, "w") as f:
        for k, (name, run) in enumerate(muts):
            run[0]["run"] = 900000 + k
            for e in run:
                f.write(json.dumps(e) + "\n")
    msgs, _, _ = lib.tlc_trace("Trace_Fault.tla", path, timeout=600, metatag="Trace_Fault_selftest")
    flagged = {m["run"] for m in msgs if m.get("kind") == "FAIL"}
    missed = [name for k, (name, _) in enumerate(muts) if 900000 + k not in flagged]
    if missed:
        raise lib.ToolError(f"binding self-test: corrupted traces not flagged by Trace_Fault.tla: {missed}")
    return [name for name, _ in muts]


# ------------------------------------------------------------------------------------------------

def _workdir():
    """Scratch root for the driver. There is no crash in this family (only the volatile view of the
    storage is read back), so the FsStorage scenarios run on tmpfs when available: thousands of
    from-scratch re-runs with real fsyncs are I/O bound (measured 96 s vs 14 s, identical trace)."""
    shm = "/dev/shm"
    if os.path.isdir(shm) and os.access(shm, os.W_OK):
        d = os.path.join(shm, f"verif-faults-{os.getuid()}")
        os.makedirs(d, exist_ok=True)
        return d
    d = os.path.join(lib.OUT, "work")
    os.makedirs(d, exist_ok=True)
    return d


def run_c03(v):
    quick = v.tier == "quick"
    v.level = "fault_enumeration"
    binary = lib.build_harness()
    pool = concurrent.futures.ThreadPoolExecutor(max_workers=3)
    futs = _mc_submit(pool, v)

    trace = lib.outpath(v.prop, "faults.ndjson")
    args = ["faults", "--seed", v.seed, "--out", trace,
            "--scenarios", 12 if quick else 48,
            "--ops", 6 if quick else 7,
            "--max-calls", 220 if quick else 400,
            "--pairs", 1 if quick else 10,
            "--pairs-fs", 0 if quick else 3,
            "--pair-cap", 4000 if quick else 40000]
    s = lib.svh(binary, args, timeout=6000, env={"VERIF_WORK": _workdir()})
    msgs, dt, _ = lib.tlc_trace("Trace_Fault.tla", trace, timeout=6000, xmx="8g")
    tool = [m for m in msgs if m.get("kind") == "TOOL"]
    if tool:
        raise lib.ToolError("fault trace inconsistent: " + json.dumps(tool[:3]))
    stats = next((m for m in msgs if m.get("kind") == "STATS"), {})
    if s.get("err_returns", 0) == 0 or stats.get("err_rets_judged", 0) == 0 or s.get("single_fault_runs", 0) == 0:
        raise lib.ToolError("vacuous fault enumeration: no failing call was observed / judged")
    lib.judge_trace(v, msgs, {"C03"})
    notes = [m for m in msgs if m.get("kind") == "NOTE"]
    selftest = _selftest(v, trace)
    mc = _mc_collect(futs)
    pool.shutdown()

    info = s.get("scenario_info", [])
    used = [i for i in info if not i.get("skipped")]
    distinct_faulted = sum(1 for e in lib.read_ndjson(trace) if e["ev"] == "reset" and e["nfaults"] > 0)
    v.coverage.update({
        "evaluations": s["runs"],
        "distinct_nontrivial": distinct_faulted,
        "rule": ("each evaluation re-runs one seeded scenario (uncounted committed prefix, then 4-7 calls from "
                 "new_writer/add/delete/commit/rollback/compact/drop on one handle, then a fault-free commit) from "
                 "scratch with a fault plan: every storage-trait call number i < N x {fail before, fail after effect}; "
                 "on the smallest scenarios also ordered pairs (i, j > i) where j ranges over the calls of the run that "
                 "already has fault i armed (so error branches are reached; sub-sampled by seed above --pair-cap). "
                 "distinct_nontrivial counts runs with >= 1 armed fault whose recorded events (results, fault name/"
                 "path class/position, reader / reopened contents, dangling files, recoverable log after every call) "
                 "differ from every other run of the scenario; identical runs are validated once"),
        "samples": s.get("samples", [])[:4] or [used[0]] if used else [],
        "exhaustive": False,
        "scenarios": len(used),
        "scenarios_skipped_too_many_calls": len(info) - len(used),
        "single_fault_runs": s["single_fault_runs"],
        "pair_fault_runs": s["pair_fault_runs"],
        "armed_faults_never_reached": s["unfired"],
        "api_calls_observed": s["api_calls"],
        "err_returns_observed": s["err_returns"],
        "panics_observed": s["panics"],
        "storage_calls_per_scenario": [i["storage_calls"] for i in used],
        "storages": sorted({i["storage"] for i in used}),
        "traces_validated_against_impl": stats.get("runs", 0),
        "trace_events": s["events"],
        "rets_judged": stats.get("rets_judged", 0),
        "err_rets_judged": stats.get("err_rets_judged", 0),
        "undo_path_double_faults_informational": sum(m.get("mult", 1) for m in notes),
        "states": mc["distinct"],
        "transitions": mc["states"],
        "mc_configs": mc["configs"],
        "binding_selftest_mutants_flagged": selftest,
    })
    v.assumptions += [
        "faults are injected at Storage / StorageFile trait granularity (a failing atomic_write fails whole, before or after its effect); MC_Faults.tla additionally fails between the primitives of one atomic_write",
        "an add/delete that returned Err may or may not be queued (any prefix of its operations); a rollback that returned Err may or may not have discarded the queue - the property does not say",
        "sentence 1 of C03 is judged strictly for every call in which at most one storage operation failed; when a second failure hits the undo path of the same commit only 'opens, no missing files, in-memory contents unchanged, reopened contents old or the complete commit' is demanded (reported as informational NOTE lines)",
        "one live writer handle at a time; exists() and root() cannot fail in the trait and are not fault points",
        "trusted: TLC, the harness's FaultyStorage wrapper (forwards to InMemoryStorage / FsStorage), match_all reads with faults switched off",
    ]
