"""C25 / C26: front ends (CLI, HTTP, C FFI) against the Rust API.

C26: FfiBuf.tla (byte-write model of the bounded copy, exhaustive for cap, fullLen in 0..8, six
     mutants refuted) + `svh ffi` (every capacity 0..len+16, canaries and PROT_NONE guard pages,
     forked children, null pointers) judged record by record by Trace_Ffi.tla.
C25: Frontends.tla (what each front end's arguments denote) + `svh frontends` (one history run
     through the library, the CLI binary, the HTTP server and the C functions) judged by
     Trace_Frontends.tla.
"""
import json
import os

from . import lib

WORK_ENV = {"VERIF_WORK": os.path.join(lib.OUT, "work")}

# ------------------------------------------------------------------------------------------------
# C26
# ------------------------------------------------------------------------------------------------
FFIBUF_CFG = """SPECIFICATION Spec
CONSTANTS
  MaxCap = {n}
  MaxLen = {n}
  Guard = 2
  Variant = "{variant}"
INVARIANT TypeOK
INVARIANT NoWriteOutside
INVARIANT GuardsIntact
INVARIANT CopyProgress
INVARIANT AtReturn
INVARIANT ReturnValue
CHECK_DEADLOCK FALSE
"""

FFIBUF_MUTANTS = ["copy_cap", "no_nul", "ret_counts_nul", "no_buf_null_check",
                  "no_handle_null_check", "nul_at_cap_minus_1"]
FFIBUF_INVS = {"NoWriteOutside", "GuardsIntact", "AtReturn", "ReturnValue", "CopyProgress"}


def _mc_ffibuf(v):
    n = 8 if v.tier == "quick" else 12
    res = lib.tlc_mc("FfiBuf.tla", os.path.join(lib.SPEC, "MC_FfiBuf.cfg") if n == 8 else
                     lib.write_cfg("MC_FfiBuf_ideal.cfg", FFIBUF_CFG.format(n=n, variant="ideal")),
                     workers=4, timeout=900, xmx="2g")
    lib.require_mc_ok(res, "MC_FfiBuf", need_actions=["Entry", "CopyByte", "CopyDone", "WriteNul"])
    refuted = []
    mutants = FFIBUF_MUTANTS if v.tier != "quick" else ["copy_cap", "no_nul", "no_buf_null_check"]
    for m in mutants:
        cfg = lib.write_cfg(f"MC_FfiBuf_{m}.cfg", FFIBUF_CFG.format(n=8, variant=m))
        r = lib.tlc_mc("FfiBuf.tla", cfg, workers=2, timeout=600, xmx="2g", coverage=False)
        lib.expect_mc_violation(r, f"MC_FfiBuf Variant={m}", FFIBUF_INVS)
        refuted.append(m)
    res["refuted"] = refuted
    res["bounds"] = f"cap, fullLen in 0..{n}; null handle/query/buffer in every combination"
    return res


def run_c26(v):
    quick = v.tier == "quick"
    binary = lib.build_harness()
    mc = _mc_ffibuf(v)
    trace = lib.outpath(v.prop, "ffi.ndjson")
    args = ["ffi", "--seed", v.seed, "--out", trace,
            "--cases", 18 if quick else 150,
            "--margin", 16 if quick else 40,
            "--max-caps", 500 if quick else 100000,
            "--modes", "canary,guard_end" if quick else "canary,guard_end,guard_start"]
    s = lib.svh(binary, args, timeout=6000, env=WORK_ENV)
    msgs, dt, _ = lib.tlc_trace("Trace_Ffi.tla", trace, timeout=6000)
    tool = [m for m in msgs if m.get("kind") == "TOOL"]
    if tool:
        raise lib.ToolError("ffi trace is inconsistent: " + json.dumps(tool[:3]))
    lib.judge_trace(v, msgs, {"C26"})
    stats = next((m for m in msgs if m.get("kind") == "STATS"), {})
    if not stats or stats.get("truncated", 0) == 0 or stats.get("complete", 0) == 0 or stats.get("rejected", 0) == 0:
        raise lib.ToolError(f"vacuous ffi trace: {stats}")
    samples = [e for e in lib.read_ndjson(trace, 4000) if e["ev"] == "call" and e["cap"] in (0, 1, 7, e["fullLen"], e["fullLen"] + 1)][:8]
    v.coverage.update({
        "states": mc["distinct"] + s["events"], "transitions": mc["states"] + s["events"],
        "mc_states": mc["distinct"], "mc_bounds": mc["bounds"], "mc_mutants_refuted": mc["refuted"],
        "traces_validated_against_impl": s["cases"],
        "trace_events": s["events"],
        "ffi_calls_observed": s["calls"],
        "calls_truncated": stats.get("truncated", 0), "calls_complete": stats.get("complete", 0),
        "calls_rejected_argument": stats.get("rejected", 0), "calls_no_room": stats.get("noroom", 0),
        "callee_crashes_observed": s["crashes"], "forked_children": s["forks"],
        "buffer_placements": args[args.index("--modes") + 1],
        "samples": samples,
        "exhaustive": False,
    })
    v.assumptions += [
        "the response text contains no 0 byte (serde_json escapes control characters), so the first 0 byte in the buffer is the terminator",
        "an argument is 'invalid' when the Rust API returns Err for the request the arguments denote (Frontends.tla FfiRequest) or the aggregation bytes do not parse",
        "dangling (non-null, freed) handles are outside the contract and are not exercised",
        "the harness build has debug assertions and overflow checks enabled, like `cargo test`",
    ]


# ------------------------------------------------------------------------------------------------
# C25
# ------------------------------------------------------------------------------------------------
def run_c25(v):
    raise lib.ToolError("C25 not implemented yet")
