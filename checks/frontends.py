"""C25 / C26: front ends (CLI, HTTP, C FFI) against the Rust API.

C26: FfiBuf.tla (byte-write model of the bounded copy, exhaustive for cap, fullLen in 0..8, six
     mutants refuted) + `svh ffi` (every capacity 0..len+16, canaries and PROT_NONE guard pages,
     forked children, null pointers) judged record by record by Trace_Ffi.tla.
C25: Frontends.tla (what each front end's arguments denote) + `svh frontends` (one history run
     through the library, the CLI binary, the HTTP server and the C functions) judged by
     Trace_Frontends.tla.
"""
import json
import os

from . import lib

WORK_ENV = {"VERIF_WORK": os.path.join(lib.OUT, "work")}

# ------------------------------------------------------------------------------------------------
# C26
# ------------------------------------------------------------------------------------------------
FFIBUF_CFG = """SPECIFICATION Spec
CONSTANTS
  MaxCap = {n}
  MaxLen = {n}
  Guard = 2
  Variant = "{variant}"
INVARIANT TypeOK
INVARIANT NoWriteOutside
INVARIANT GuardsIntact
INVARIANT CopyProgress
INVARIANT AtReturn
INVARIANT ReturnValue
CHECK_DEADLOCK FALSE
"""

FFIBUF_MUTANTS = ["copy_cap", "no_nul", "ret_counts_nul", "no_buf_null_check",
                  "no_handle_null_check", "nul_at_cap_minus_1"]
FFIBUF_INVS = {"NoWriteOutside", "GuardsIntact", "AtReturn", "ReturnValue", "CopyProgress"}


def _mc_ffibuf(v):
    n = 8 if v.tier == "quick" else 12
    res = lib.tlc_mc("FfiBuf.tla", os.path.join(lib.SPEC, "MC_FfiBuf.cfg") if n == 8 else
                     lib.write_cfg("MC_FfiBuf_ideal.cfg", FFIBUF_CFG.format(n=n, variant="ideal")),
                     workers=4, timeout=900, xmx="2g")
    lib.require_mc_ok(res, "MC_FfiBuf", need_actions=["Entry", "CopyByte", "CopyDone", "WriteNul"])
    refuted = []
    mutants = FFIBUF_MUTANTS if v.tier != "quick" else ["copy_cap", "no_nul", "no_buf_null_check"]
    for m in mutants:
        cfg = lib.write_cfg(f"MC_FfiBuf_{m}.cfg", FFIBUF_CFG.format(n=8, variant=m))
        r = lib.tlc_mc("FfiBuf.tla", cfg, workers=2, timeout=600, xmx="2g", coverage=False)
        lib.expect_mc_violation(r, f"MC_FfiBuf Variant={m}", FFIBUF_INVS)
        refuted.append(m)
    res["refuted"] = refuted
    res["bounds"] = f"cap, fullLen in 0..{n}; null handle/query/buffer in every combination"
    return res


def _selftest_c26(trace):
    """Binding self-test: corrupt recorded fields of real observations; Trace_Ffi.tla must flag
    each of them (a check that cannot fail proves nothing)."""
    recs = lib.read_ndjson(trace, 1500)
    out, planted = [], []
    for e in recs:
        if e["ev"] == "call" and not e["mustFail"] and not e["crashed"] and e["lib"] == "ok":
            if len(planted) == 0 and 2 <= e["cap"] <= e["fullLen"]:
                e = dict(e, ret=e["ret"] + 1)
                planted.append("return value is not Min(fullLen, cap-1)")
            elif len(planted) == 1 and e["cap"] > 3:
                e = dict(e, canariesIntact=False)
                planted.append("wrote outside the caller's buffer")
            elif len(planted) == 2 and e["cap"] > 3:
                e = dict(e, nulAt=e["nulAt"] - 1)
                planted.append("no NUL at buf[ret]")
            elif len(planted) == 3 and e["cap"] > 3:
                e = dict(e, prefixOk=False)
                planted.append("text before the NUL is not a prefix of the full response")
        out.append(e)
    if len(planted) < 4:
        raise lib.ToolError("self-test: not enough ok calls to corrupt")
    path = lib.outpath("C26", "ffi-selftest.ndjson")
    with open(path, "w") as f:
        for e in out:
            f.write(json.dumps(e) + "\n")
    msgs, _, _ = lib.tlc_trace("Trace_Ffi.tla", path, timeout=1200, metatag="Trace_Ffi-selftest")
    whys = [m.get("why") for m in msgs if m.get("kind") == "FAIL"]
    missing = [w for w in planted if w not in whys]
    if missing:
        raise lib.ToolError(f"self-test: corrupted records were not flagged: {missing}")
    return planted


def run_c26(v):
    quick = v.tier == "quick"
    binary = lib.build_harness()
    mc = _mc_ffibuf(v)
    trace = lib.outpath(v.prop, "ffi.ndjson")
    args = ["ffi", "--seed", v.seed, "--out", trace,
            "--cases", 24 if quick else 120,
            "--margin", 16 if quick else 40,
            "--max-caps", 500 if quick else 100000,
            "--modes", "canary,guard_end" if quick else "canary,guard_end,guard_start"]
    s = lib.svh(binary, args, timeout=6000, env=WORK_ENV)
    msgs, dt, _ = lib.tlc_trace("Trace_Ffi.tla", trace, timeout=6000)
    tool = [m for m in msgs if m.get("kind") == "TOOL"]
    if tool:
        raise lib.ToolError("ffi trace is inconsistent: " + json.dumps(tool[:3]))
    lib.judge_trace(v, msgs, {"C26"})
    stats = next((m for m in msgs if m.get("kind") == "STATS"), {})
    if not stats or stats.get("truncated", 0) == 0 or stats.get("complete", 0) == 0 or stats.get("rejected", 0) == 0:
        raise lib.ToolError(f"vacuous ffi trace: {stats}")
    planted = _selftest_c26(trace)
    ind = lib.apalache_inductive("FfiBufInd.tla") if not quick else {"status": "run in the thorough tier only (Apalache, ~1-3 min)"}
    samples = [e for e in lib.read_ndjson(trace, 4000) if e["ev"] == "call" and e["cap"] in (0, 1, 7, e["fullLen"], e["fullLen"] + 1)][:8]
    v.coverage.update({
        "states": mc["distinct"] + s["events"], "transitions": mc["states"] + s["events"],
        "mc_states": mc["distinct"], "mc_bounds": mc["bounds"], "mc_mutants_refuted": mc["refuted"],
        "traces_validated_against_impl": s["cases"],
        "trace_events": s["events"],
        "ffi_calls_observed": s["calls"],
        "calls_truncated": stats.get("truncated", 0), "calls_complete": stats.get("complete", 0),
        "calls_rejected_argument": stats.get("rejected", 0), "calls_no_room": stats.get("noroom", 0),
        "callee_crashes_observed": s["crashes"], "forked_children": s["forks"],
        "buffer_placements": args[args.index("--modes") + 1],
        "selftest_corruptions_flagged": planted,
        "unbounded_inductive_argument": ind,
        "samples": samples,
        "exhaustive": False,
    })
    v.assumptions += [
        "the response text contains no 0 byte (serde_json escapes control characters), so the first 0 byte in the buffer is the terminator",
        "an argument is 'invalid' when the Rust API returns Err for the request the arguments denote (Frontends.tla FfiRequest) or the aggregation bytes do not parse",
        "dangling (non-null, freed) handles are outside the contract and are not exercised",
        "the harness build has debug assertions and overflow checks enabled, like `cargo test`",
    ]


# ------------------------------------------------------------------------------------------------
# C25
# ------------------------------------------------------------------------------------------------
MCF_CFG = """SPECIFICATION Spec
CONSTANTS
  IdSet = {ids}
  MaxOps = {ops}
  Variant = "{variant}"
  PrintCases = {print}
  Rejections = {rej}
{tail}
CHECK_DEADLOCK FALSE
"""
MCF_INVS = "VIEW View\nINVARIANT EventualAgree\nINVARIANT CommittedAgree\nINVARIANT FfiLogHoldsDeletesOnly"


def build_cli():
    """The shipped CLI binary (default features, no verification cfg), built from /repo's tree."""
    tdir = os.path.join(lib.VERIF, ".build", "cli")
    cmd = ["cargo", "build", "--release", "--offline", "-p", "searchlite-cli",
           "--manifest-path", "/repo/Cargo.toml", "--target-dir", tdir]
    rc, out, dt = lib.sh(cmd, cwd=lib.VERIF, timeout=3600, env={"CARGO_NET_OFFLINE": "true"})
    binary = os.path.join(tdir, "release", "searchlite-cli")
    if rc != 0 or not os.path.exists(binary):
        raise lib.ToolError("searchlite-cli build failed:\n" + out[-4000:])
    lib.log(f"searchlite-cli built in {dt:.1f}s")
    return binary


def _mc_frontends(v):
    quick = v.tier == "quick"
    ops = 4 if quick else 5
    ids = '{"a", " a"}' if quick else '{"a", " a", "b"}'
    cfg = lib.write_cfg("MC_Frontends_ideal.cfg", MCF_CFG.format(
        ids=ids, ops=ops, variant="ideal", print="FALSE", rej="TRUE", tail=MCF_INVS))
    res = lib.tlc_mc("MC_Frontends.tla", cfg, timeout=3000, xmx="8g")
    lib.require_mc_ok(res, "MC_Frontends", need_actions=["DoAdd1", "DoAdd2", "DoRejected", "DoDelete", "DoCommit"])
    refuted = []
    for variant in ("S23a", "S25a", "ffi_commit_own_doc"):
        c = lib.write_cfg(f"MC_Frontends_{variant}.cfg", MCF_CFG.format(
            ids=ids, ops=4, variant=variant, print="FALSE", rej="TRUE", tail=MCF_INVS))
        r = lib.tlc_mc("MC_Frontends.tla", c, timeout=900, coverage=False)
        lib.expect_mc_violation(r, f"MC_Frontends Variant={variant}", {"EventualAgree", "CommittedAgree"})
        refuted.append(variant)
    res["refuted"] = refuted
    res["bounds"] = f"ids {ids} (one with a leading blank), <= {ops} operations (add/update of 1-2 documents, rejected document, delete, commit, compact), executions lib/cli/http/ffi"
    return res


def _sim_histories(v, num, depth, path):
    """S->I: TLC simulates MC_Frontends and prints complete histories (with and without rejected
    documents); the driver replays them through every front end."""
    msgs = []
    for rej in ("TRUE", "FALSE"):
        cfg = lib.write_cfg(f"MC_Frontends_sim_{rej}.cfg", MCF_CFG.format(
            ids='{"a", "b", "c"}' if rej == "TRUE" else '{"a", " a", "b"}', ops=depth,
            variant="ideal", print="TRUE", rej=rej,
            tail="INVARIANT PrintCase"))
        res = lib.tlc_mc("MC_Frontends.tla", cfg, workers=1, simulate=max(1, num // 2), depth=depth + 1,
                         seed=v.seed, timeout=900)
        if res["rc"] != 0:
            raise lib.ToolError("MC_Frontends simulation failed\n" + res["raw"][-2000:])
        msgs += res["msgs"]
    # TLC evaluates the printing invariant on every candidate successor of the last step: keep one
    # history per distinct prefix
    seen, keep = set(), []
    for m in msgs:
        if m.get("_tag") != "CASE":
            continue
        key = json.dumps(m.get("ops", [])[:-1], sort_keys=True)
        if key not in seen:
            seen.add(key)
            keep.append(m)
    return lib.write_cases(keep, "CASE", path)


def _selftest_c25(trace):
    """Binding self-test: corrupt one recorded field per kind; Trace_Frontends.tla must flag each."""
    recs = lib.read_ndjson(trace, 400)
    planted = []
    for e in recs:
        if e["ev"] != "step":
            continue
        k = e["op"]["kind"]
        if k == "search" and "ids" not in planted and len(e["obs"]["cli"]["res"]["ids"]) >= 2 \
                and e["obs"]["cli"]["res"]["ids"] == e["obs"]["lib"]["res"]["ids"]:
            e["obs"]["cli"]["res"]["ids"].reverse()
            planted.append("ids")
        elif k == "search" and "scores" not in planted and e["obs"]["http"]["res"]["scores"] \
                and e["obs"]["http"]["res"] == e["obs"]["lib"]["res"]:
            e["obs"]["http"]["res"]["scores"][0] += 7
            planted.append("scores")
        elif k == "commit" and "contents" not in planted and e["obs"]["ffi"]["contents"] and "ids" in planted:
            e["obs"]["ffi"]["contents"][0]["ver"] += 1
            planted.append("contents")
        if len(planted) == 3:
            break
    if len(planted) < 3:
        raise lib.ToolError(f"self-test: could only plant {planted}")
    path = lib.outpath("C25", "frontends-selftest.ndjson")
    with open(path, "w") as f:
        for e in recs:
            f.write(json.dumps(e) + "\n")
    msgs, _, _ = lib.tlc_trace("Trace_Frontends.tla", path, timeout=1200, metatag="Trace_Frontends-selftest")
    fields = [m.get("field") for m in msgs if m.get("kind") == "FAIL"]
    missing = [w for w in planted if w not in fields]
    if missing:
        raise lib.ToolError(f"self-test: corrupted records were not flagged: {missing} (flagged {fields})")
    return planted


def run_c25(v):
    quick = v.tier == "quick"
    binary = lib.build_harness()
    cli = build_cli()
    mc = _mc_frontends(v)
    cases = lib.outpath("cases", "C25-histories.ndjson")
    ncases = _sim_histories(v, 4 if quick else 60, 12 if quick else 24, cases)
    trace = lib.outpath(v.prop, "frontends.ndjson")
    s = lib.svh(binary, ["frontends", "--seed", v.seed, "--out", trace, "--cli", cli, "--cases", cases,
                         "--scenarios", 6 if quick else 120], timeout=6000, env=WORK_ENV)
    msgs, dt, _ = lib.tlc_trace("Trace_Frontends.tla", trace, timeout=6000)
    tool = [m for m in msgs if m.get("kind") == "TOOL"]
    if tool:
        raise lib.ToolError("driver and Frontends.tla disagree on what an invocation denotes: " + json.dumps(tool[:3]))
    lib.judge_trace(v, msgs, {"C25"})
    stats = next((m for m in msgs if m.get("kind") == "STATS"), {})
    if not stats or stats.get("searches_compared", 0) == 0 or stats.get("contents_checked", 0) == 0:
        raise lib.ToolError(f"vacuous frontends trace: {stats}")
    planted = _selftest_c25(trace)
    samples = []
    for e in lib.read_ndjson(trace, 200):
        if e["ev"] == "step" and e["op"]["kind"] in ("commit", "search") and len(samples) < 4:
            samples.append({"scn": e["scn"], "step": e["step"], "op": e["op"]["kind"],
                            "req": e["op"]["req"] if e["op"]["kind"] == "search" else {},
                            "obs": {fe: {k: o[k] for k in ("ran", "ok", "contents", "res")} for fe, o in e["obs"].items()}})
    v.coverage.update({
        "states": mc["distinct"] + s["events"], "transitions": mc["states"] + s["events"],
        "mc_states": mc["distinct"], "mc_bounds": mc["bounds"], "mc_variants_refuted": mc["refuted"],
        "traces_validated_against_impl": s["scenarios"],
        "tlc_generated_histories": ncases,
        "trace_events": s["events"], "operations": s["steps"], "searches": s["searches"],
        "cli_processes": s["cli_processes"],
        "search_results_compared_with_reference": stats.get("searches_compared", 0),
        "contents_observations_checked": stats.get("contents_checked", 0),
        "front_ends": ["lib", "libffi", "cli", "http", "ffi"],
        "selftest_corruptions_flagged": planted,
        "samples": samples,
        "exhaustive": False,
    })
    v.assumptions += [
        "the library executions use the index options every front end fixes (BM25 k1 0.9, b 0.4, positions on, filesystem storage)",
        "BM25 statistics are per segment: the C API (add = add_document + commit) is compared with a library execution that commits every document on its own; cli and http are compared with a library execution that commits where the history commits",
        "operations the C API cannot express (init with a schema, delete, compact) are performed through the library between a close and a reopen of the handle; searches it cannot express (top-level filter, sort, execution other than wand, return_stored false) are skipped for ffi",
        "a rejected document sits in a batch of its own (what a front end does with the valid part of a partly rejected batch is not specified)",
        "compared per search: ok/err, ids in order, score*1e4 rounded, stored values of the sort fields, next_cursor presence, total_hits_estimate, aggregations JSON; each execution pages with its own cursor",
        "the CLI is the release binary with default features; the HTTP service runs in-process on a loopback port",
    ]
