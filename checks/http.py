"""C23 / C24: the HTTP service. Http.tla (queue of acknowledged operations + status table), bound by
raw-socket exchanges with the real server (svh http) judged by Trace_Http.tla."""
import collections
import json
import os

from . import lib

MC_CFG = """SPECIFICATION MCSpec
CONSTANTS
  IdSet = {ids}
  MaxReq = {maxreq}
  PrintCases = {cases}
  RichRequests = {rich}
  StartPresent = {start}
  WAddOk = {wok}
  WAddBad = {wbad}
  WCommit = {wcommit}
  WMaint = {wmaint}
  Deviations = {devs}
CONSTRAINT Bound
{view}{invs}CHECK_DEADLOCK FALSE
"""

IDEAL_INVS = ["TypeOK", "AckedStayQueued", "AckedAreApplied", "VisibleAreCommitted", "RejectedQueuesNothing"]
MC_ACTIONS = ["DoInit", "DoAdd", "DoDelete", "DoCommit", "DoRefresh", "DoCompact", "DoSearch"]


def _env():
    return {"VERIF_WORK": os.path.join(lib.OUT, "work")}


def _cfg(name, maxreq, devs="{}", invs=(), cases=False, sim=False):
    return lib.write_cfg(name, MC_CFG.format(
        ids='{"a", "b", "c"}' if sim else '{"a", "b"}', maxreq=maxreq,
        cases="TRUE" if cases else "FALSE", rich="TRUE" if sim else "FALSE",
        start="TRUE" if sim else "FALSE",
        wok=12 if sim else 1, wbad=5 if sim else 1, wcommit=10 if sim else 1, wmaint=4 if sim else 1,
        devs=devs, view="" if sim else "VIEW View\n",
        invs="".join(f"INVARIANT {i}\n" for i in invs)))


def _mc_http(v):
    """Exhaustive: the ideal service keeps every acknowledged operation queued and applies it at the
    next commit; the as-built service (rollback on a rejected document) is refuted."""
    quick = v.tier == "quick"
    maxreq = 5 if quick else 6
    res = lib.tlc_mc("MC_Http.tla", _cfg("MC_Http_ideal.cfg", maxreq, invs=IDEAL_INVS), timeout=3000)
    lib.require_mc_ok(res, "MC_Http (ideal)", need_actions=MC_ACTIONS)
    lib.log(f"MC_Http ideal: {res['distinct']} states, {res['wall_s']:.1f}s")
    # as-built: S23a. workers=1 => breadth-first, the shortest counterexample.
    bad = lib.tlc_mc("MC_Http.tla", _cfg("MC_Http_asbuilt.cfg", 5, devs='{"S23a"}', invs=["TypeOK", "AckedAreAppliedW"]),
                     workers=1, timeout=1200, coverage=False)
    lib.expect_mc_violation(bad, "MC_Http (as built, Deviations={S23a})", {"AckedAreAppliedW"})
    wit = [m for m in bad["msgs"] if m.get("_tag") == "WITNESS"]
    if not wit:
        raise lib.ToolError("MC_Http as-built: no WITNESS line\n" + bad["raw"][-2000:])
    reqs = wit[0]["reqs"]
    shape = [r["ep"] for r in reqs]
    kinds = [[d["k"] for d in r.get("docs", [])] for r in reqs]
    expected = (len(reqs) == 4 and shape[0] == "init" and shape[1] in ("add", "bulk") and shape[2] in ("add", "bulk")
                and shape[3] == "commit" and kinds[1] and set(kinds[1]) == {"valid"} and "schema" in kinds[2])
    if not expected:
        raise lib.ToolError("MC_Http as-built: counterexample is not init, add(valid), add(invalid), commit: " + json.dumps(reqs))
    # second broken configuration: the rollback also refutes AckedStayQueued (two requests earlier)
    bad2 = lib.tlc_mc("MC_Http.tla", _cfg("MC_Http_asbuilt2.cfg", 4, devs='{"S23a"}', invs=["AckedStayQueuedW"]),
                      workers=1, timeout=1200, coverage=False)
    lib.expect_mc_violation(bad2, "MC_Http (as built) AckedStayQueued", {"AckedStayQueuedW"})
    lib.log(f"MC_Http as built: refuted ({bad['wall_s']:.1f}s + {bad2['wall_s']:.1f}s): " + " -> ".join(shape))
    res["witness"] = reqs
    res["bounds"] = f"2 ids, <= {maxreq} requests, documents valid / schema-invalid, singles and pairs"
    return res


def _sim_cases(v, num, depth, limit, path):
    cfg = _cfg("MC_Http_sim.cfg", depth, invs=["PrintCase"], cases=True, sim=True)
    res = lib.tlc_mc("MC_Http.tla", cfg, workers=1, simulate=num, depth=depth + 1, seed=v.seed, timeout=900)
    if res["rc"] != 0:
        raise lib.ToolError("MC_Http simulation failed\n" + res["raw"][-2000:])
    cases = [m for m in res["msgs"] if m.get("_tag") == "CASE"]
    # the simulator prints every successor at the last level: keep an evenly spaced sample
    seen, uniq = set(), []
    for c in cases:
        key = json.dumps(c["reqs"], sort_keys=True)
        if key not in seen:
            seen.add(key)
            uniq.append(c)
    step = max(1, len(uniq) // limit)
    keep = uniq[::step][:limit]
    return lib.write_cases(keep, "CASE", path)


def _gen_cells(path):
    res = lib.tlc_mc("Gen_Http.tla", "Gen_Http.cfg", workers=1, timeout=600, coverage=False)
    lib.require_mc_ok(res, "Gen_Http")
    seen, cells = set(), []
    for m in res["msgs"]:
        if m.get("_tag") == "CELL":
            key = json.dumps(m, sort_keys=True)
            if key not in seen:
                seen.add(key)
                cells.append(m)
    n = lib.write_cases(cells, "CELL", path)
    if n < 100:
        raise lib.ToolError(f"Gen_Http printed only {n} cells\n" + res["raw"][-2000:])
    return n


def _corrupt_and_expect(trace, prop, pick, mutate, what):
    """Binding self-test: corrupt one recorded field of a real trace; Trace_Http must flag that line."""
    events = lib.read_ndjson(trace)
    # a prefix that contains a suitable event keeps the extra TLC run short
    idx = next((i for i, e in enumerate(events) if e.get("ev") == "req" and pick(e)), None)
    if idx is None:
        raise lib.ToolError(f"self-test ({what}): no suitable event in {trace}")
    end = min(len(events), idx + 3)
    events = events[:end]
    mutate(events[idx])
    path = lib.outpath(prop, f"selftest-{what}.ndjson")
    with open(path, "w") as f:
        for e in events:
            f.write(json.dumps(e) + "\n")
    msgs, _, _ = lib.tlc_trace("Trace_Http.tla", path, timeout=900, metatag=f"selftest-{prop}-{what}")
    hit = [m for m in msgs if m.get("kind") in ("FAIL", "DEV") and m.get("property") == prop and m.get("line") == idx + 1]
    if not hit:
        raise lib.ToolError(f"self-test ({what}): corrupted event at line {idx + 1} was not flagged for {prop}")
    return {"what": what, "line": idx + 1, "flagged_as": hit[0]["kind"], "why": hit[0].get("why", "")}


def _summarise(trace, keys):
    c = collections.Counter()
    for e in lib.read_ndjson(trace):
        if e.get("ev") == "req":
            c["|".join(str(e[k]) for k in keys)] += 1
    return c


def _samples(trace, n=6):
    out = []
    for e in lib.read_ndjson(trace, 40):
        if e.get("ev") == "req" and len(out) < n:
            out.append({k: e[k] for k in ("ep", "method", "cls", "ctype", "framing", "status", "err_type", "queued", "health", "obs")})
    return out


def run_c23(v):
    quick = v.tier == "quick"
    binary = lib.build_harness()
    mc = _mc_http(v)
    cases = lib.outpath("cases", "C23-http.ndjson")
    ncases = _sim_cases(v, 60 if quick else 400, 10 if quick else 14, 200 if quick else 3000, cases)
    trace = lib.outpath("C23", "http-seq.ndjson")
    s = lib.svh(binary, ["http", "--seed", v.seed, "--out", trace, "--cases", cases,
                         "--scenarios", 30 if quick else 400], env=_env())
    lib.log(f"{ncases} TLC-generated sequences, driver: {s['requests']} requests in {s['_wall_s']:.1f}s")
    msgs, dt, _ = lib.tlc_trace("Trace_Http.tla", trace, timeout=3000)
    lib.log(f"Trace_Http: {s['events']} events validated in {dt:.1f}s")
    lib.judge_trace(v, msgs, {"C23"})
    # binding self-test: drop one document from the contents observed after a commit
    st = _corrupt_and_expect(
        trace, "C23",
        lambda e: e["ep"] == "commit" and e["status"] == 200 and e["obs_ok"] and len(e["obs"]) >= 1,
        lambda e: e.__setitem__("obs", e["obs"][1:]), "drop-observed-doc")
    acks = _summarise(trace, ("ep", "cls", "status"))
    v.coverage.update({
        "states": mc["distinct"], "transitions": mc["states"],
        "traces_validated_against_impl": s["scenarios"],
        "trace_events": s["events"], "http_requests": s["requests"],
        "tlc_generated_request_sequences": ncases,
        "mc_bounds": mc["bounds"],
        "as_built_counterexample": mc["witness"],
        "request_mix": dict(acks.most_common(40)),
        "binding_selftest": st,
        "samples": _samples(trace),
        "exhaustive": False,
    })
    v.assumptions += [
        "the queue is not observable over HTTP: it is resolved at every /commit from /refresh + /search match_all (ids and a stored version field)",
        "valid documents carry every schema field (documents the schema accepts but a commit rejects belong to C15)",
        "one request at a time, one connection per request (Connection: close); concurrency of the service is not explored here",
        "crashes of the server process between requests are covered by C02, not here",
    ]


def run_c24(v):
    quick = v.tier == "quick"
    binary = lib.build_harness()
    cells = lib.outpath("cases", "C24-cells.ndjson")
    ncells = _gen_cells(cells)
    trace = lib.outpath("C24", "http-fuzz.ndjson")
    s = lib.svh(binary, ["http", "--seed", v.seed, "--out", trace, "--grid", cells,
                         "--grid-reps", 2 if quick else 6,
                         "--fuzz", 12 if quick else 400, "--fuzz-requests", 200 if quick else 400,
                         "--scenarios", 4 if quick else 20], env=_env(), timeout=6000)
    lib.log(f"{ncells} table cells, driver: {s['requests']} requests in {s['_wall_s']:.1f}s")
    msgs, dt, _ = lib.tlc_trace("Trace_Http.tla", trace, timeout=6000, xmx="8g")
    lib.log(f"Trace_Http: {s['events']} events validated in {dt:.1f}s")
    lib.judge_trace(v, msgs, {"C24"})
    # binding self-tests: a lost response, a wrong status, a broken error envelope must be flagged
    st = [
        _corrupt_and_expect(trace, "C24", lambda e: e["ep"] == "healthz" and e["status"] == 200 and e["method_ok"] and e["cls"] == "valid",
                            lambda e: e.update({"outcome": "reset", "status": 0}), "lost-response"),
        _corrupt_and_expect(trace, "C24", lambda e: e["status"] == 404 and e["err_type"] == "index_missing" and e["cls"] == "valid",
                            lambda e: e.update({"status": 500}), "wrong-status"),
        _corrupt_and_expect(trace, "C24", lambda e: e["status"] == 400 and e["err_type"] != "" and e["method_ok"],
                            lambda e: e.update({"sub": ["type:str"]}), "error-without-reason"),
    ]
    if not quick:
        st.append(_corrupt_and_expect(trace, "C24", lambda e: e["health"] == "ok" and e["cls"] != "framing" and e["status"] == 200,
                                      lambda e: e.update({"health": "reset"}), "healthz-down"))
    cls = _summarise(trace, ("ep", "cls"))
    outcomes = _summarise(trace, ("outcome", "status"))
    types = _summarise(trace, ("status", "err_type"))
    v.coverage.update({
        "states": ncells, "transitions": s["requests"],
        "traces_validated_against_impl": s["scenarios"],
        "trace_events": s["events"], "http_requests": s["requests"],
        "status_table_cells_enumerated_by_tlc": ncells,
        "endpoint_x_class_visited": len(cls),
        "outcomes": dict(outcomes.most_common(30)),
        "error_types_seen": dict(types.most_common(40)),
        "panics_in_code_under_test": s.get("panics_in_code_under_test", 0),
        "binding_selftest": st,
        "samples": _samples(trace),
        "exhaustive": False,
    })
    v.assumptions += [
        "requests are well-formed HTTP/1.1 except for the class `framing` (protocol-level garbage), for which only `the server stays up` is judged",
        "the server runs in the harness process (searchlite_http::run on a tokio runtime): a panic is caught by the runtime and counted; an abort (stack overflow) would end the harness and be reported as a tool error, not as a violation",
        "body limit 32 KiB (--max-body-bytes), request timeout 3600 s so that no verdict depends on timing; the watchdog for a missing response is 60 s",
        "where README.md/openapi.yaml are silent (content-type enforcement, empty NDJSON body, requests that make the core fail) the allowed set is wide",
    ]
