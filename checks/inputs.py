"""C15 / C16: input validation families.

C15  Validate.tla (Class / AddAccepts / CollectAccepts) model-checked over the document universe of
     MC_Validate.tla; every document of the universe plus seeded random mutants over random schemas
     is executed by `svh validate` and judged by Trace_Validate.tla.
C16  Requests.tla (class grammar of SearchRequest, Outcome(class)); Gen_Requests.tla enumerates a
     pairwise-covering set of class vectors, `svh robust` instantiates and executes them together
     with structure-aware random requests and byte/char-level mutants under catch_unwind + watchdog
     in child processes; Trace_Requests.tla judges outcome \\in Outcome(class).
"""
import json
import os

from . import lib

WORK_ENV = {"VERIF_WORK": os.path.join(lib.OUT, "work")}

# ------------------------------------------------------------------------------------------------
# C15
# ------------------------------------------------------------------------------------------------

MC_VALIDATE_CFG = """SPECIFICATION Spec
CONSTANTS
  Dev = {dev}
  Width1 = {w1}
  Width2 = {w2}
  PrintCases = {print}
INVARIANT T_AddImpliesCommit
INVARIANT T_RejectWhenMust
INVARIANT T_AcceptWhenMust
INVARIANT PrintCase
CHECK_DEADLOCK FALSE
"""

C15_DEVIATIONS = ["S15a", "S15b", "S15c", "S15d"]
# which theorem each deviation of the validator as built refutes
C15_REFUTES = {"S15a": "T_AddImpliesCommit", "S15b": "T_AddImpliesCommit",
               "S15c": "T_RejectWhenMust", "S15d": "T_AddImpliesCommit"}


def _sort_cases(path):
    """TLC's workers print CASE lines in a nondeterministic order; the drivers derive scenario numbers,
    index assignment and random streams from the position, so fix the order."""
    with open(path) as f:
        lines = sorted(set(l for l in f if l.strip()))
    with open(path, "w") as f:
        f.writelines(lines)
    return len(lines)


def _tla_set(names):
    return "{" + ", ".join('"%s"' % n for n in names) + "}"


def _dedupe_dev(msgs):
    """One DEV per (trace line, deviation): two judgements of one case may name the same deviation."""
    seen = set()
    out = []
    for m in msgs:
        if m.get("kind") == "DEV":
            key = (m.get("line"), m.get("deviation"))
            if key in seen:
                continue
            seen.add(key)
        out.append(m)
    return out


def _selftest_c15(trace):
    """Binding self-test (thorough): corrupt three recorded fields, the trace spec must flag each."""
    rows = lib.read_ndjson(trace)
    done = set()
    for r in rows:
        if r.get("ev") != "case":
            continue
        if r["add1"]["ok"] and r["commit1"]["ok"] and not r["muts"] and "commit" not in done:
            r["commit1"] = {"ok": False, "cls": "other", "msg": "corrupted by self-test"}
            r["scn"] = 900001
            done.add("commit")
        elif not r["add1"]["ok"] and r["add1"]["cls"] == "id" and "add" not in done:
            r["add1"] = {"ok": True, "cls": "ok", "msg": ""}
            r["scn"] = 900002
            done.add("add")
        elif r["add1"]["ok"] and r["visible"] == ["d1", "d2"] and "visible" not in done:
            r["visible"] = ["d2"]
            r["scn"] = 900003
            done.add("visible")
    path = lib.outpath("C15", "selftest.ndjson")
    with open(path, "w") as f:
        for r in rows:
            f.write(json.dumps(r) + "\n")
    msgs, _, _ = lib.tlc_trace("Trace_Validate.tla", path, timeout=6000, xmx="8g", metatag="selftest-C15")
    flagged = {m.get("scn") for m in msgs if m.get("kind") == "FAIL"}
    missing = {900001, 900002, 900003} - flagged
    if len(done) < 3 or missing:
        raise lib.ToolError(f"C15 binding self-test: corruptions not flagged: {sorted(missing)} (applied {sorted(done)})")
    return len(done)


def run_c15(v):
    quick = v.tier == "quick"
    binary = lib.build_harness()

    # MC, ideal validator: the three theorems hold for every document of the universe; the same run
    # prints the universe as CASE lines.
    w1, w2 = (1, 2) if quick else (3, 2)
    cfg = lib.write_cfg("MC_Validate_ideal.cfg",
                        MC_VALIDATE_CFG.format(dev="{}", w1=w1, w2=w2, print="TRUE"))
    ideal = lib.tlc_mc("MC_Validate.tla", cfg, timeout=5400, coverage=False, xmx="12g")
    lib.require_mc_ok(ideal, "MC_Validate (ideal validator)")
    cases = lib.outpath("cases", "C15.ndjson")
    ncases = lib.write_cases(ideal["msgs"], "CASE", cases)
    if ncases == 0 or ncases != ideal.get("distinct"):
        raise lib.ToolError(f"MC_Validate printed {ncases} cases for {ideal.get('distinct')} states")
    _sort_cases(cases)

    # MC, validator as built: must be refuted (documents the findings at design level, non-vacuity);
    # each single deviation must refute its theorem on its own.
    refuted = {}
    built = lib.write_cfg("MC_Validate_built.cfg",
                          MC_VALIDATE_CFG.format(dev=_tla_set(C15_DEVIATIONS), w1=1, w2=1, print="FALSE"))
    r = lib.tlc_mc("MC_Validate.tla", built, timeout=1800, coverage=False)
    lib.expect_mc_violation(r, "MC_Validate Dev=as-built", {"T_AddImpliesCommit", "T_RejectWhenMust"})
    refuted["as_built"] = r["violated"]
    for d in (C15_DEVIATIONS if not quick else ["S15a", "S15c"]):
        c = lib.write_cfg(f"MC_Validate_{d}.cfg",
                          MC_VALIDATE_CFG.format(dev=_tla_set([d]), w1=1, w2=1, print="FALSE"))
        r = lib.tlc_mc("MC_Validate.tla", c, timeout=1800, coverage=False)
        lib.expect_mc_violation(r, f"MC_Validate Dev={{{d}}}", {C15_REFUTES[d]})
        refuted[d] = r["violated"]

    # S->I and I->S: the TLC universe and seeded mutants through the real library.
    trace = lib.outpath(v.prop, "validate.ndjson")
    s = lib.svh(binary, ["validate", "--seed", v.seed, "--out", trace, "--cases", cases,
                         "--schemas", 8 if quick else 60, "--mutants", 80 if quick else 400],
                env=WORK_ENV, timeout=6000)
    msgs, dt, _ = lib.tlc_trace("Trace_Validate.tla", trace, timeout=6000, xmx="8g")
    msgs = _dedupe_dev(msgs)
    for m in msgs:
        if m.get("kind") == "TOOL":
            raise lib.ToolError("Trace_Validate: " + json.dumps(m)[:400])
    lib.judge_trace(v, msgs, {"C15"})
    drift = [m for m in msgs if m.get("kind") == "DRIFT"]
    samples = []
    for e in lib.read_ndjson(trace, 400):
        if e.get("ev") == "case" and len(samples) < 5 and (e["src"] == "mut" or len(samples) < 2):
            samples.append({k: e[k] for k in ("src", "doc_json", "muts", "add1", "commit1", "commit2", "commit3", "visible")})
    v.coverage.update({
        "states": ideal["distinct"], "transitions": ideal["states"],
        "traces_validated_against_impl": s["cases"],
        "tlc_generated_documents": s["tlc_cases"], "random_mutants": s["mutants"], "schemas": s["schemas"],
        "mutation_kinds": s["mutation_kinds"],
        "mc_universe": "2 schemas (text, keyword, i64, f64, nested{required keyword, nullable i64, sub-object}, vector); "
                       "every document with <= %d (schema 1) / <= %d (schema 2) fields deviating from a valid one" % (w1, w2),
        "mc_refuted_configurations": refuted,
        "model_drift_events": len(drift),
        "samples": samples,
        "exhaustive": False,
    })
    v.assumptions += [
        "no storage faults are injected: every commit error is attributed to document content",
        "MustAccept / MustReject follow the README and the property statement; empty strings, empty arrays, "
        "nulls inside arrays, fractions in i64 fields and null vectors are Unspecified",
        "abstract shapes distinguish JSON kinds, blank/empty strings and integer/fractional numbers only",
    ]
    if not quick:
        v.coverage["selftest_corruptions_flagged"] = _selftest_c15(trace)
    if drift:
        lib.log(f"C15: {len(drift)} DRIFT events (model of the code as built differs from the code): "
                + json.dumps(drift[0])[:300])


# ------------------------------------------------------------------------------------------------
# C16
# ------------------------------------------------------------------------------------------------

GEN_REQUESTS_CFG = """SPECIFICATION Spec
CONSTANTS
  Fill = {fill}
INVARIANT TypeOK
INVARIANT PrintCase
CHECK_DEADLOCK FALSE
"""


def _selftest_c16(trace):
    """Binding self-test (thorough): corrupt three recorded outcomes, the trace spec must flag each."""
    rows = lib.read_ndjson(trace)
    done = set()
    for r in rows:
        if r.get("ev") != "req":
            continue
        if r["src"] == "tlc" and r["outcome"] == "Ok" and "panic" not in done:
            r.update({"outcome": "Panic", "pcls": "other", "i": 900001})
            done.add("panic")
        elif r["src"] == "tlc" and r["cls"]["sort"] == "unknown_field" and r["outcome"] == "Err" and "pinned" not in done:
            r.update({"outcome": "Ok", "i": 900002})
            done.add("pinned")
        elif r["src"] == "mut" and r["outcome"] == "Err" and "hang" not in done:
            r.update({"outcome": "Hang", "i": 900003})
            done.add("hang")
    path = lib.outpath("C16", "selftest.ndjson")
    with open(path, "w") as f:
        for r in rows:
            f.write(json.dumps(r) + "\n")
    msgs, _, _ = lib.tlc_trace("Trace_Requests.tla", path, timeout=6000, xmx="8g", metatag="selftest-C16")
    # a corruption that happens to match the shape of a repaired finding is reported as DEV for
    # that finding - which the verdict treats as a violation, since the finding is closed
    fixed = {k["id"] for k in lib.known_findings() if k.get("status") == "fixed"}
    flagged = {m.get("i") for m in msgs if m.get("kind") == "FAIL" or (m.get("kind") == "DEV" and m.get("deviation") in fixed)}
    missing = {900001, 900002, 900003} - flagged
    if len(done) < 3 or missing:
        raise lib.ToolError(f"C16 binding self-test: corruptions not flagged: {sorted(missing)} (applied {sorted(done)})")
    return len(done)


def run_c16(v):
    quick = v.tier == "quick"
    v.level = "exploration"
    binary = lib.build_harness()
    fill = '{"default"}' if quick else '{"default", "mixed"}'
    cfg = lib.write_cfg("Gen_Requests_run.cfg", GEN_REQUESTS_CFG.format(fill=fill))
    gen = lib.tlc_mc("Gen_Requests.tla", cfg, timeout=3000, coverage=False, xmx="12g")
    lib.require_mc_ok(gen, "Gen_Requests")
    cases = lib.outpath("cases", "C16.ndjson")
    ncases = lib.write_cases(gen["msgs"], "CASE", cases)
    if ncases == 0:
        raise lib.ToolError("Gen_Requests printed no cases")
    ncases = _sort_cases(cases)

    trace = lib.outpath(v.prop, "robust.ndjson")
    timeout_ms = 10000 if quick else 20000
    s = lib.svh(binary, ["robust", "--seed", v.seed, "--out", trace, "--cases", cases,
                         "--random", 1500 if quick else 60000, "--mutants", 3000 if quick else 120000,
                         "--timeout-ms", timeout_ms],
                env=WORK_ENV, timeout=7200)
    msgs, dt, _ = lib.tlc_trace("Trace_Requests.tla", trace, timeout=6000, xmx="8g")
    for m in msgs:
        if m.get("kind") == "TOOL":
            raise lib.ToolError("Trace_Requests: " + json.dumps(m)[:400])
    lib.judge_trace(v, msgs, {"C16"})
    if s.get("deserialise_panics", 0):
        v.fail({"kind": "FAIL", "property": "C16", "why": "serde deserialisation of a request panicked",
                "count": s["deserialise_panics"]})

    # distinct non-trivial = distinct (source, class vector or request text) that were executed
    distinct = set()
    samples = []
    pinned = 0
    for e in lib.read_ndjson(trace):
        if e.get("ev") != "req":
            continue
        key = json.dumps(e["cls"], sort_keys=True) if e["src"] == "tlc" else e["req"]
        distinct.add((e["src"], key))
        if len(samples) < 6 and (e["outcome"] not in ("Ok", "Err") or e["src"] != "tlc" or len(samples) < 2):
            samples.append({k: e[k] for k in ("src", "idx", "outcome", "pcls", "loc", "req")})
    v.coverage.update({
        "evaluations": s["executed"],
        "distinct_nontrivial": len(distinct),
        "rule": "TLC enumerates every pair of classes of every two SearchRequest dimensions (Requests.tla) "
                "with default%s fill; each vector is instantiated on one of three random indexes; plus seeded "
                "structure-aware random requests and byte/char-level mutants that still deserialise. Distinct = "
                "distinct class vector or distinct request text that was executed; all are non-trivial "
                "(executed by IndexReader::search under catch_unwind + watchdog)." % ("" if quick else " and mixed"),
        "samples": samples,
        "tlc_class_vectors": s["tlc_cases"], "random_requests": s["random"], "mutants_executed": s["mutants"],
        "mutants_tried": s["mutants_tried"], "outcomes": s["outcomes"], "child_restarts": s["child_restarts"],
        "hang_budget_skips": s["hang_budget_skips"], "watchdog_ms": timeout_ms, "max_request_ms": s["max_ms"],
        "skipped_uninstantiable": sum(s["skips"].values()),
        "gen_states": gen.get("distinct", 0),
        "exhaustive": False,
    })
    if not quick:
        v.coverage["selftest_corruptions_flagged"] = _selftest_c16(trace)
    v.assumptions += [
        "the harness is built with debug assertions and overflow checks on (as under cargo test / cargo run); "
        "findings that only exist in such builds say so",
        "a request that does not return within the watchdog (10 s quick / 20 s thorough; typical requests take "
        "< 50 ms) is a hang; once a class has been observed to hang or to take > 2 s its remaining combinations "
        "are skipped (time budget, listed in coverage.hang_budget_skips)",
        "Outcome pins Ok only for a documented feature used alone on a plain request, Err where the README or "
        "property C11 says the request is refused; everything else is {Ok, Err}",
        "worker threads use the default 2 MiB stack of a spawned thread",
    ]
