"""C17 (corrupted index files are detected) and C28 (a copied index directory is self-contained).

C17: Integrity.tla / MC_Integrity.tla (file classes, abstract index, byte-level write-ahead log)
     bound by `svh corrupt` + Trace_Integrity.tla.
C28: Relocate.tla / MC_Relocate.tla (two roots, path values) bound by `svh relocate` +
     Trace_Relocate.tla.
"""
import collections
import json
import os

from . import lib

WORK_ENV = {"VERIF_WORK": os.path.join(lib.OUT, "work")}

MC_FILES_CFG = """SPECIFICATION FileSpec
CONSTANTS
  Format = "{fmt}"
  MaxRecs = 1
  MaxPayload = 1
  PayloadSyms = {{0, 2}}
  WalBug = "none"
INVARIANT Detected
INVARIANT NeverPanics
INVARIANT PristineIsSame
CHECK_DEADLOCK FALSE
"""

MC_WAL_CFG = """SPECIFICATION WalSpec
CONSTANTS
  Format = "ideal"
  MaxRecs = {recs}
  MaxPayload = {payload}
  PayloadSyms = {{0, 2}}
  WalBug = "{bug}"
INVARIANT ReplayIsPrefix
INVARIANT PendingIsPrefixOrOlder
CHECK_DEADLOCK FALSE
"""

MC_RELOC_CFG = """SPECIFICATION Spec
CONSTANTS
  Mode = "{mode}"
  Docs = {{1, 2}}
  MaxOps = {ops}
{invs}
CHECK_DEADLOCK FALSE
"""


def _mc_c17(v):
    quick = v.tier == "quick"
    out = {"states": 0, "transitions": 0, "refuted": []}
    # (1) abstract index: ideal format holds, as-built (manifest without checksum = S17a) and two
    #     mutations (no segment checksum comparison, replay continuing past a bad record) refuted
    res = lib.tlc_mc("MC_Integrity.tla", lib.write_cfg("MC_Integrity_ideal.cfg", MC_FILES_CFG.format(fmt="ideal")),
                     workers=4, timeout=600, xmx="2g")
    lib.require_mc_ok(res, "MC_Integrity FileSpec ideal", need_actions=["Damage", "OpenAndSearch"])
    out["states"] += res.get("distinct", 0)
    out["transitions"] += res.get("states", 0)
    for fmt in (("asbuilt", "noverify") if quick else ("asbuilt", "noverify", "walskip")):
        r = lib.tlc_mc("MC_Integrity.tla", lib.write_cfg(f"MC_Integrity_{fmt}.cfg", MC_FILES_CFG.format(fmt=fmt)),
                       workers=4, timeout=600, xmx="2g", coverage=False)
        lib.expect_mc_violation(r, f"MC_Integrity FileSpec Format={fmt}", {"Detected"})
        out["refuted"].append("format:" + fmt)
    # (2) byte-level log: every log of <= recs records with <= payload symbols, every flip / cut
    recs, payload = (2, 2) if quick else (3, 2)
    res = lib.tlc_mc("MC_Integrity.tla", lib.write_cfg("MC_Integrity_wal.cfg", MC_WAL_CFG.format(recs=recs, payload=payload, bug="none")),
                     timeout=3000, xmx="8g", coverage=False)
    lib.require_mc_ok(res, "MC_Integrity WalSpec")
    out["states"] += res.get("distinct", 0)
    out["transitions"] += res.get("states", 0)
    out["wal_states"] = res.get("distinct", 0)
    out["wal_bounds"] = f"every log of <= {recs} records (add/delete with <= {payload} payload symbols from {{0,2}}, commit marker), every cell x masks {{0x01,0x80,0xFF}}, every truncation length"
    for bug in (("no_crc",) if quick else ("no_crc", "skip_bad")):
        r = lib.tlc_mc("MC_Integrity.tla", lib.write_cfg(f"MC_Integrity_wal_{bug}.cfg", MC_WAL_CFG.format(recs=2, payload=1, bug=bug)),
                       workers=4, timeout=600, xmx="2g", coverage=False)
        lib.expect_mc_violation(r, f"MC_Integrity WalSpec WalBug={bug}", {"ReplayIsPrefix"})
        out["refuted"].append("wal:" + bug)
    return out


def run_c17(v):
    quick = v.tier == "quick"
    v.level = "fault_enumeration"
    binary = lib.build_harness()
    mc = _mc_c17(v)
    trace = lib.outpath(v.prop, "corrupt.ndjson")
    args = ["corrupt", "--seed", v.seed, "--out", trace, "--scenarios", 2 if quick else 16,
            "--positions", 120 if quick else 200]
    if not quick:
        args += ["--dense"]
    s = lib.svh(binary, args, timeout=7000, env=WORK_ENV)
    msgs, dt, _ = lib.tlc_trace("Trace_Integrity.tla", trace, timeout=7000, xmx="8g")
    tool = [m for m in msgs if m.get("kind") == "TOOL"]
    if tool:
        raise lib.ToolError("corrupt driver inconsistent with Trace_Integrity.tla: " + json.dumps(tool[:3])[:1500])
    lib.judge_trace(v, msgs, {"C17"})
    samples = []
    seen = set()
    for e in lib.read_ndjson(trace):
        if e["ev"] != "probe":
            continue
        k = (e["class"], e["kind"], e["outcome"])
        if k in seen:
            continue
        seen.add(k)
        samples.append({x: e[x] for x in ("file", "class", "ptr", "kind", "off", "mask", "outcome", "err")})
    devs = collections.Counter(m.get("ptr", "") for m in msgs if m.get("kind") == "DEV")
    v.coverage.update({
        "evaluations": s["probes"],
        "distinct_nontrivial": s["distinct"],
        "rule": "one evaluation = one damaged copy of one file (flip of one byte with mask 0x01/0x80/0xFF, or truncation to a shorter length) of a freshly built index (2 segments, tombstones, pending log), followed by real open + reader + 5-query battery + log replay + writer under catch_unwind; "
                + ("every byte x every mask and every length of every file" if not quick else
                   "files <= 120 bytes exhaustively; otherwise first/last bytes + 120 seeded positions x 3 masks + 30 seeded lengths per file, and every byte of MANIFEST.json with mask 0x01")
                + "; distinct = distinct (file class, JSON-pointer class, damage kind, mask, outcome class, replayed-record count)",
        "exhaustive": not quick,
        "outcomes_by_class": s["by_outcome"],
        "files_damaged": s["files"],
        "traces_validated_against_impl": s["scenarios"],
        "trace_events": s["events"],
        "mc_states": mc["states"], "mc_transitions": mc["transitions"],
        "mc_wal_bounds": mc["wal_bounds"], "mc_wal_states": mc["wal_states"],
        "mc_refuted": mc["refuted"],
        "s17a_pointer_classes_observed": dict(devs),
        "samples": samples[:12],
    })
    v.assumptions += [
        "single fault: exactly one byte flipped or one file truncated per evaluation",
        "observations: match_all with stored fields, two term queries (bm25, wand), a keyword filter, a numeric sort; hits compared in returned order with score bits and stored fields",
        "damage is applied in place and undone afterwards (the manifest stores absolute segment paths, finding S28a)",
        "the manifest's byte layout differs between runs of the same seed (uuids, timestamp, hash-map order of checksums, scratch path), so seeded offsets hit different tokens; every byte of the manifest is flipped with mask 0x01 in every run, which makes the verdict independent of that",
        "CRC32 is treated as injective in the byte-level log model; on the real code collisions are possible with probability ~2^-32 per damage",
    ]


def _mc_c28(v):
    quick = v.tier == "quick"
    ops = 5 if quick else 9
    invs = "INVARIANT Confined\nINVARIANT SameResults\nINVARIANT OriginalUntouched"
    res = lib.tlc_mc("MC_Relocate.tla", lib.write_cfg("MC_Relocate_rebase.cfg", MC_RELOC_CFG.format(mode="rebase", ops=ops, invs=invs)),
                     timeout=3000, xmx="8g")
    lib.require_mc_ok(res, "MC_Relocate Mode=rebase",
                      need_actions=["OwnerCommit", "OwnerCompact", "OwnerRemove", "CopyDir", "MoveDir", "OpenB",
                                    "SearchB", "CommitB", "CompactB"])
    refuted = []
    for inv in ("Confined", "SameResults", "OriginalUntouched"):
        r = lib.tlc_mc("MC_Relocate.tla", lib.write_cfg(f"MC_Relocate_abs_{inv}.cfg",
                                                         MC_RELOC_CFG.format(mode="absolute", ops=5, invs="INVARIANT " + inv)),
                       workers=4, timeout=600, xmx="2g", coverage=False)
        lib.expect_mc_violation(r, f"MC_Relocate Mode=absolute {inv}", {inv})
        refuted.append(inv)
    r = lib.tlc_mc("MC_Relocate.tla", lib.write_cfg("MC_Relocate_fastpath_ok.cfg", MC_RELOC_CFG.format(mode="fastpath_unrelated_names", ops=5, invs=invs)),
                   workers=4, timeout=900, xmx="2g", coverage=False)
    lib.require_mc_ok(r, "MC_Relocate Mode=fastpath_unrelated_names")
    r = lib.tlc_mc("MC_Relocate.tla", lib.write_cfg("MC_Relocate_fastpath_prefix.cfg", MC_RELOC_CFG.format(mode="fastpath_copy_name_prefixes_original", ops=5, invs=invs)),
                   workers=4, timeout=900, xmx="2g", coverage=False)
    lib.expect_mc_violation(r, "MC_Relocate textual-prefix fast path with idx.bak -> idx", {"Confined", "SameResults", "OriginalUntouched"})
    refuted.append("textual-prefix fast path (copy name prefixes original name)")
    res["refuted"] = refuted
    res["bounds"] = f"2 documents, <= {ops} operations (owner commits/compaction/removal, copy or move, open/search/commit/compact through the copy)"
    return res


def run_c28(v):
    quick = v.tier == "quick"
    binary = lib.build_harness()
    mc = _mc_c28(v)
    trace = lib.outpath(v.prop, "relocate.ndjson")
    s = lib.svh(binary, ["relocate", "--seed", v.seed, "--out", trace,
                         "--scenarios", 40 if quick else 4000, "--ops", 4 if quick else 8],
                timeout=7000, env=WORK_ENV)
    msgs, dt, _ = lib.tlc_trace("Trace_Relocate.tla", trace, timeout=7000, xmx="8g")
    tool = [m for m in msgs if m.get("kind") == "TOOL"]
    if tool:
        raise lib.ToolError("relocate driver inconsistent with Trace_Relocate.tla: " + json.dumps(tool[:3])[:1500])
    lib.judge_trace(v, msgs, {"C28"})
    samples = []
    for e in lib.read_ndjson(trace, 400):
        if e["ev"] in ("reset", "call", "ret", "inv") or (e["ev"] == "fs" and e["cls"] != "B"):
            e.pop("pre_digest", None)
            e.pop("digest", None)
            samples.append(e)
        if len(samples) >= 10:
            break
    kinds = collections.Counter(m.get("why", "") for m in msgs if m.get("kind") == "DEV")
    v.coverage.update({
        "states": mc["distinct"], "transitions": mc["states"],
        "mc_bounds": mc["bounds"],
        "mc_asbuilt_refuted_invariants": mc["refuted"],
        "traces_validated_against_impl": s["scenarios"],
        "trace_events": s["events"],
        "fs_events_classified": s["fs_events"],
        "fs_events_under_original": s["events_under_original"],
        "calls_through_copy": s["calls"],
        "s28a_observations": dict(kinds),
        "samples": samples,
        "exhaustive": False,
    })
    v.assumptions += [
        "cp -a / mv semantics: names and contents are transferred verbatim, nothing in the directory is rewritten",
        "path classes are decided lexically after making the recorded path absolute against the process working directory (no symlinks in the scratch tree)",
        "the traced-fs hook sees every primitive operation of FsStorage; existence tests (Path::exists) are not recorded",
        "score-level digests are compared with the original's only until the copy first commits or compacts; afterwards contents (id, version) are compared with the model",
    ]
