"""Shared orchestration for /verif/bin/check.

Exit-code contract (see MANIFEST.json):
  0  property held on everything explored (KNOWN-FINDING lines may be printed)
  1  a violation not listed in KNOWN_FINDINGS.json: prints `VIOLATION property=<id> replay=<path>`
  2  tool error / timeout (never reported as a violation)
"""
import json
import os
import re
import shutil
import subprocess
import sys
import time

VERIF = os.path.dirname(os.path.dirname(os.path.abspath(__file__)))
SPEC = os.path.join(VERIF, "spec")
OUT = os.path.join(VERIF, "out")
HARNESS = os.path.join(VERIF, "harness")
SVH = os.path.join(HARNESS, "target", "release", "svh")
EVID = os.path.join(VERIF, "evidence")
KNOWN = os.path.join(VERIF, "KNOWN_FINDINGS.json")
NCPU = os.cpu_count() or 4


class ToolError(Exception):
    pass


def log(msg):
    print(f"[check] {msg}", flush=True)


def sh(cmd, timeout=None, env=None, cwd=None, check=False):
    e = dict(os.environ)
    if env:
        e.update(env)
    t0 = time.time()
    try:
        p = subprocess.run(cmd, cwd=cwd, env=e, stdout=subprocess.PIPE, stderr=subprocess.STDOUT,
                           timeout=timeout, text=True, errors="replace")
    except subprocess.TimeoutExpired as ex:
        raise ToolError(f"timeout after {timeout}s: {' '.join(map(str, cmd))[:200]}\n{(ex.stdout or '')[-2000:]}")
    if check and p.returncode != 0:
        raise ToolError(f"command failed ({p.returncode}): {' '.join(map(str, cmd))[:300]}\n{p.stdout[-4000:]}")
    return p.returncode, p.stdout, time.time() - t0


# ------------------------------------------------------------------------------------------------
# Harness build (always from /repo's current working tree; cargo decides what is stale)
# ------------------------------------------------------------------------------------------------
_built = set()


def build_harness(features=()):
    """Build svh from /repo's current working tree. Feature variants get their own target dir."""
    key = tuple(sorted(features))
    tdir = "target" if not key else "target-" + "-".join(key)
    binary = os.path.join(HARNESS, tdir, "release", "svh")
    if key in _built:
        return binary
    cmd = ["cargo", "build", "--release", "--offline", "--target-dir", tdir]
    if features:
        cmd += ["--features", ",".join(features)]
    rc, out, dt = sh(cmd, cwd=HARNESS, timeout=3600, env={"CARGO_NET_OFFLINE": "true"})
    if rc != 0:
        raise ToolError("harness build failed:\n" + out[-6000:])
    log(f"harness built in {dt:.1f}s (features={list(features)})")
    _built.add(key)
    return binary


def svh(binary, args, timeout=3600, env=None):
    """Run a harness driver. Its last stdout line is a JSON summary."""
    rc, out, dt = sh([binary] + [str(a) for a in args], timeout=timeout, env=env)
    if rc != 0:
        raise ToolError(f"svh {' '.join(map(str, args))[:200]} exited {rc}:\n{out[-4000:]}")
    summary = {}
    for line in reversed(out.strip().splitlines()):
        line = line.strip()
        if line.startswith("{"):
            try:
                summary = json.loads(line)
                break
            except Exception:
                continue
    summary["_wall_s"] = dt
    return summary


# ------------------------------------------------------------------------------------------------
# TLC
# ------------------------------------------------------------------------------------------------
TLC_JAR_CP = "/opt/veriftools/tla/tla2tools.jar:/opt/veriftools/tla/CommunityModules-deps.jar"


def _tlc_cmd(java_opts, tlc_args):
    return ["java", "-XX:+UseParallelGC"] + java_opts + ["-cp", TLC_JAR_CP, "tlc2.TLC"] + tlc_args


def _parse_printed(out):
    """JSON objects printed by PrintT(ToJson(..)) or <<"TAG", ToJson(..)>>."""
    msgs = []
    for line in out.splitlines():
        line = line.strip()
        if line.startswith('"{') and line.endswith('}"'):
            try:
                msgs.append(json.loads(json.loads(line)))
            except Exception:
                pass
        elif line.startswith('<<"') and line.endswith('>>'):
            m = re.match(r'^<<"([A-Z_]+)", (".*")>>$', line)
            if m:
                try:
                    v = json.loads(json.loads(m.group(2)))
                    if isinstance(v, dict):
                        v["_tag"] = m.group(1)
                    else:
                        v = {"_tag": m.group(1), "value": v}
                    msgs.append(v)
                except Exception:
                    pass
    return msgs


def tlc_trace(spec, trace, cfg=None, timeout=1800, xmx="4g", env=None, metatag=None):
    """Validate an ndjson trace with a Trace_*.tla spec. Returns (messages, wall_s, raw)."""
    cfg = cfg or spec.replace(".tla", ".cfg")
    meta = os.path.join(OUT, "tlc", (metatag or os.path.basename(spec)) + f"-{os.getpid()}")
    e = {"TRACE": trace}
    if env:
        e.update(env)
    cmd = _tlc_cmd([f"-Xmx{xmx}", "-Xss1g", "-Dtlc2.tool.queue.IStateQueue=StateDeque"],
                   ["-workers", "1", "-metadir", meta, "-cleanup", "-noGenerateSpecTE",
                    "-config", cfg, spec])
    for attempt in (1, 2):
        rc, out, dt = sh(cmd, cwd=SPEC, timeout=timeout, env=e)
        shutil.rmtree(meta, ignore_errors=True)
        msgs = _parse_printed(out)
        done = [m for m in msgs if m.get("kind") == "DONE"]
        if done:
            return msgs, dt, out
        # keep the output for diagnosis; a JVM that died of a transient resource problem (the
        # machine runs many of them) gets one more try - the validation is deterministic
        os.makedirs(os.path.join(OUT, "tlc-errors"), exist_ok=True)
        with open(os.path.join(OUT, "tlc-errors", f"{os.path.basename(spec)}-{os.getpid()}-{attempt}.log"), "w") as f:
            f.write(out)
        log(f"trace validation with {spec} did not complete (rc={rc}, attempt {attempt})")
    raise ToolError(f"trace validation did not complete ({spec}, rc={rc}):\n{out[-5000:]}")


def tlc_mc(spec, cfg, workers=None, timeout=3600, xmx="8g", simulate=None, depth=None, seed=None,
           coverage=True, env=None, extra=()):
    """Run TLC (exhaustive or -simulate). Returns dict(states, distinct, depth, violated, msgs, raw, ...)."""
    meta = os.path.join(OUT, "tlc", os.path.basename(cfg) + f"-{os.getpid()}")
    args = ["-workers", str(workers or max(2, NCPU - 2)), "-metadir", meta, "-cleanup",
            "-noGenerateSpecTE", "-config", cfg]
    if coverage and not simulate:
        args += ["-coverage", "1"]
    if simulate:
        args += ["-simulate", f"num={simulate}"]
        if depth:
            args += ["-depth", str(depth)]
    if seed is not None:
        args += ["-seed", str(seed)]
    args += list(extra) + [spec]
    cmd = _tlc_cmd([f"-Xmx{xmx}", "-Xss256m"], args)
    rc, out, dt = sh(cmd, cwd=SPEC, timeout=timeout, env=env)
    shutil.rmtree(meta, ignore_errors=True)
    res = {"rc": rc, "raw": out, "wall_s": dt, "msgs": _parse_printed(out)}
    m = re.search(r"(\d+) states generated, (\d+) distinct states found", out)
    if m:
        res["states"] = int(m.group(1))
        res["distinct"] = int(m.group(2))
    m = re.search(r"The number of states generated: (\d+)", out)
    if m and "states" not in res:
        res["states"] = int(m.group(1))
        res["distinct"] = int(m.group(1))
    m = re.search(r"depth of the complete state graph search is (\d+)", out)
    if m:
        res["depth"] = int(m.group(1))
    inv = re.findall(r"Error: Invariant (\S+) is violated", out)
    prop = re.findall(r"Error: Action property (\S+) is violated|Error: Temporal properties were violated", out)
    res["violated"] = inv + [p for p in prop if p]
    if "Temporal properties were violated" in out and not res["violated"]:
        res["violated"] = ["temporal"]
    res["completed"] = ("Model checking completed. No error has been found" in out) or \
                       (simulate is not None and rc == 0) or ("Finished in" in out and rc in (0, 12, 13))
    res["error_other"] = bool(re.search(r"Error: (?!Invariant|Action property|Temporal|The behavior|The following)", out)) and not res["violated"]
    return res


def action_counts(raw):
    """Per-action (distinct, total) counts from a `-coverage 1` report: `<Name line..>: d:t`."""
    counts = {}
    for m in re.finditer(r"^<(\w+) line [^>]*>: (\d+):(\d+)", raw, re.M):
        name = m.group(1)
        d, t = int(m.group(2)), int(m.group(3))
        if name in counts:
            counts[name] = (counts[name][0] + d, counts[name][1] + t)
        else:
            counts[name] = (d, t)
    return counts


def require_mc_ok(res, what, need_actions=()):
    """A model-checking run on the unchanged spec must complete without violation; anything else is
    a tool error (the spec, not the code, is at fault)."""
    if res.get("violated"):
        raise ToolError(f"{what}: specification violates {res['violated']} (spec-level error)\n{res['raw'][-3000:]}")
    if not res.get("completed") or res.get("error_other"):
        raise ToolError(f"{what}: TLC did not complete\n{res['raw'][-3000:]}")
    if need_actions:
        counts = action_counts(res["raw"])
        missing = [a for a in need_actions if counts.get(a, (0, 0))[1] == 0]
        if missing:
            raise ToolError(f"{what}: vacuous model, actions never taken: {missing}")


def expect_mc_violation(res, what, names):
    """Non-vacuity guard: a deliberately broken configuration must be refuted."""
    if not any(v in names for v in res.get("violated", [])):
        raise ToolError(f"{what}: expected a counterexample for {names}, got {res.get('violated')}\n{res['raw'][-2000:]}")


def apalache_inductive(spec, ind_init="IndInit", ind_inv="IndInv", safe="Safe", init="Init", timeout=900):
    """Optional unbounded argument with Apalache (symbolic): Init => IndInv, IndInv /\\ Next => IndInv',
    IndInv => Safe.  Returns a dict for the evidence; a counterexample is a spec-level error
    (ToolError), a timeout or a missing tool only shows up as status (no verdict depends on it)."""
    out = os.path.join(OUT, "apalache")
    os.makedirs(out, exist_ok=True)
    if shutil.which("apalache-mc") is None:
        return {"status": "apalache-mc not installed"}
    obligations = [("Init => IndInv", ["--init=" + init, "--inv=" + ind_inv, "--length=0"]),
                   ("IndInv /\\ Next => IndInv'", ["--init=" + ind_init, "--inv=" + ind_inv, "--length=1"]),
                   ("IndInv => Safe", ["--init=" + ind_init, "--inv=" + safe, "--length=0"])]
    res = {"status": "proved", "obligations": [], "spec": spec}
    for name, args in obligations:
        try:
            rc, text, dt = sh(["apalache-mc", "check"] + args + ["--out-dir=" + out, spec], cwd=SPEC, timeout=timeout)
        except ToolError:
            res["status"] = f"timeout in: {name}"
            break
        if "EXITCODE: OK" in text:
            res["obligations"].append({"obligation": name, "wall_s": round(dt, 1)})
        elif "violated" in text or "Found 1 error" in text:
            raise ToolError(f"Apalache refutes '{name}' of {spec} (spec-level error)\n{text[-1500:]}")
        else:
            res["status"] = f"apalache error in: {name}"
            break
    shutil.rmtree(out, ignore_errors=True)
    return res


# ------------------------------------------------------------------------------------------------
# Known findings, violations, evidence
# ------------------------------------------------------------------------------------------------

def known_findings():
    if not os.path.exists(KNOWN):
        return []
    with open(KNOWN) as f:
        return json.load(f).get("findings", [])


class Verdict:
    def __init__(self, prop, tier, seed):
        self.prop = prop
        self.tier = tier
        self.seed = seed
        self.t0 = time.time()
        self.violations = []
        self.known_hits = {}
        self.coverage = {}
        self.assumptions = []
        self.level = "model_checking"
        self.known = [k for k in known_findings()
                      if (k.get("property") == prop or prop in k.get("also_affects", []))
                      and k.get("status") != "fixed"]

    def fail(self, witness, known_id=None):
        """Record a disagreement. `known_id` names the deviation the spec used to explain it."""
        if known_id and any(k["id"] == known_id for k in self.known):
            self.known_hits.setdefault(known_id, []).append(witness)
        else:
            self.violations.append(witness)

    def finish(self):
        os.makedirs(EVID, exist_ok=True)
        wall = time.time() - self.t0
        cov = dict(self.coverage)
        cov.setdefault("samples", [])
        ev = {
            "property_id": self.prop, "tier": self.tier, "seed": self.seed, "level": self.level,
            "coverage": cov, "assumptions": self.assumptions, "wall_s": round(wall, 2),
            "violations": len(self.violations),
        }
        if self.known_hits:
            ev["coverage"]["known_findings_observed"] = {k: len(v) for k, v in self.known_hits.items()}
        with open(os.path.join(EVID, f"{self.prop}.json"), "w") as f:
            json.dump(ev, f, indent=1, sort_keys=True)
        for kid, ws in self.known_hits.items():
            k = next(x for x in self.known if x["id"] == kid)
            print(f"KNOWN-FINDING: property={self.prop} {kid} {k.get('summary','')} (observed {len(ws)}x)", flush=True)
        if self.violations:
            rdir = os.path.join(OUT, "replay")
            os.makedirs(rdir, exist_ok=True)
            path = os.path.join(rdir, f"{self.prop}-{self.tier}-{self.seed}.json")
            with open(path, "w") as f:
                json.dump({"property": self.prop, "tier": self.tier, "seed": self.seed,
                           "violations": self.violations[:50]}, f, indent=1)
            for w in self.violations[:5]:
                log("violation witness: " + json.dumps(w)[:600])
            print(f"VIOLATION property={self.prop} replay={path}", flush=True)
            return 1
        log(f"{self.prop} {self.tier}: held on everything explored ({wall:.1f}s)")
        return 0


def seed_from_env(default=1):
    try:
        return int(os.environ.get("VERIF_SEED", default))
    except ValueError:
        return default


def read_ndjson(path, limit=None):
    out = []
    with open(path) as f:
        for i, line in enumerate(f):
            if limit is not None and i >= limit:
                break
            line = line.strip()
            if line:
                out.append(json.loads(line))
    return out


def write_cases(msgs, tag, path):
    """Write TLC-printed CASE objects as ndjson for `svh ... --cases`."""
    n = 0
    os.makedirs(os.path.dirname(path), exist_ok=True)
    with open(path, "w") as f:
        for m in msgs:
            if m.get("_tag") == tag:
                m = dict(m)
                m.pop("_tag", None)
                f.write(json.dumps(m) + "\n")
                n += 1
    return n


def write_cfg(name, text):
    d = os.path.join(OUT, "cfg")
    os.makedirs(d, exist_ok=True)
    p = os.path.join(d, name)
    with open(p, "w") as f:
        f.write(text)
    return p


def outpath(*parts):
    p = os.path.join(OUT, *parts)
    os.makedirs(os.path.dirname(p), exist_ok=True)
    return p


def judge_trace(v, msgs, props, known_map=None):
    """Turn FAIL/DEV messages printed by a trace spec into verdict entries.
    FAIL = unexplained disagreement; DEV = explained only by a named deviation action."""
    n_fail = 0
    for m in msgs:
        if m.get("kind") == "FAIL" and m.get("property") in props:
            v.fail(m)
            n_fail += 1
        elif m.get("kind") == "DEV" and m.get("property") in props:
            v.fail(m, known_id=m.get("deviation"))
    return n_fail
