"""C07-C11, C18-C22, C29: the search oracle (Search.tla / Rank.tla) bound by Trace_Search.tla."""
import json
import os

from . import lib


def _cfg(name, text):
    return lib.write_cfg(name, text)


def _family(v, fam, props, scenarios, requests, extra=()):
    """Run one driver family and judge its trace. Returns the driver summary."""
    binary = lib.build_harness()
    trace = lib.outpath(v.prop, f"search-{fam}.ndjson")
    s = lib.svh(binary, ["search", "--family", fam, "--seed", v.seed, "--out", trace,
                         "--scenarios", scenarios, "--requests", requests] + list(extra), timeout=7200)
    msgs, dt, _ = lib.tlc_trace("Trace_Search.tla", trace, timeout=7200, xmx="8g")
    tool = [m for m in msgs if m.get("kind") == "TOOL"]
    if tool:
        raise lib.ToolError("trace spec reported a harness inconsistency: " + json.dumps(tool[:3]))
    lib.judge_trace(v, msgs, props)
    samples = []
    for e in lib.read_ndjson(trace, 60):
        if e.get("ev") == "search":
            obs = e.get("obs") or (e.get("full") or {}) or {}
            if not obs and e.get("variants"):
                obs = e["variants"][0].get("obs", {})
            samples.append({"check": e.get("check"), "request": e.get("req", ""), "abstract_query": e.get("q", ""),
                            "observed_ids": obs.get("ids", [])})
            if len(samples) >= 3:
                break
    s["samples"] = samples
    s["tlc_s"] = round(dt, 1)
    return s


def run_c07(v):
    quick = v.tier == "quick"
    cfg = _cfg("MC_Query_run.cfg", f"""SPECIFICATION Spec
CONSTANT Small = {"TRUE" if quick else "FALSE"}
CONSTANT CheckAsBuilt = FALSE
INVARIANT EveryWordFinds
INVARIANT ShouldOptional
INVARIANT MustNotShrinks
INVARIANT AsBuiltSound
CHECK_DEADLOCK FALSE
""")
    mc = lib.tlc_mc("MC_Query.tla", cfg, timeout=3000, coverage=False)
    lib.require_mc_ok(mc, "MC_Query")
    cfg2 = _cfg("MC_Query_asbuilt_run.cfg", """SPECIFICATION Spec
CONSTANT Small = TRUE
CONSTANT CheckAsBuilt = TRUE
INVARIANT AsBuiltComplete
CHECK_DEADLOCK FALSE
""")
    r2 = lib.tlc_mc("MC_Query.tla", cfg2, timeout=1200, coverage=False)
    lib.expect_mc_violation(r2, "MC_Query as-built (S07a)", {"AsBuiltComplete"})
    s = _family(v, "query", {"C07"}, 8 if quick else 600, 40 if quick else 80)
    v.coverage.update({
        "states": mc["distinct"], "transitions": mc["states"],
        "traces_validated_against_impl": s["scenarios"], "requests_judged": s["requests"],
        "mc_bounds": "all corpora of <=3 documents over 2 tokens x all query trees to depth 2 (term, match_all, bool, dis_max)",
        "as_built_candidate_rule_refuted_by_model": True,
        "samples": s["samples"], "exhaustive": False,
    })
    v.assumptions += [
        "analysis (tokenisation, stemming, synonyms) is input: tokens come from the repository's analyzer objects",
        "prefix/wildcard expansions are asserted only below their expansion caps; regex and fuzzy are not in the absolute oracle",
        "phrases are asserted on text fields whose analysed phrase has no position gaps",
    ]


def run_c08(v):
    quick = v.tier == "quick"
    base = """SPECIFICATION Spec
CONSTANTS
  Layout = "{layout}"
  Deep = FALSE
  Wide = {wide}
INVARIANT FlatEqualsTree
CHECK_DEADLOCK FALSE
"""
    mc = lib.tlc_mc("MC_Filter.tla", _cfg("MC_Filter_run.cfg", base.format(layout="global", wide="FALSE" if quick else "TRUE")),
                    timeout=3000, coverage=False)
    lib.require_mc_ok(mc, "MC_Filter")
    r2 = lib.tlc_mc("MC_Filter.tla", _cfg("MC_Filter_restart_run.cfg", base.format(layout="restart", wide="FALSE")),
                    timeout=1200, coverage=False)
    lib.expect_mc_violation(r2, "MC_Filter restart layout (S08a)", {"FlatEqualsTree"})
    s = _family(v, "filter", {"C08"}, 10 if quick else 150, 40 if quick else 80)
    v.coverage.update({
        "states": mc["distinct"], "transitions": mc["states"],
        "traces_validated_against_impl": s["scenarios"], "requests_judged": s["requests"],
        "mc_bounds": "every document with <=2 comments x <=1 reply (values x/y, votes 1/2) x every filter of the grammar (nested, and, not to depth 3): flattened-column evaluation = tree semantics",
        "pre_fix_layout_refuted_by_model": True,
        "samples": s["samples"], "exhaustive": False,
    })
    v.assumptions += [
        "f64 values and bounds are multiples of 1/4 (exact in the trace's fixed point)",
        "case-insensitive means equality of Rust's str::to_lowercase",
        "sibling nested clauses under And are read as Nested(path, And[...]) (applies recursively)",
    ]


def run_c10(v):
    quick = v.tier == "quick"
    cfg = _cfg("MC_Rank_run.cfg", f"""SPECIFICATION Spec
CONSTANT Pairs = {"FALSE" if quick else "TRUE"}
INVARIANT Antisymmetric
INVARIANT Total
INVARIANT Transitive
INVARIANT MissingLast
CHECK_DEADLOCK FALSE
""")
    mc = lib.tlc_mc("MC_Rank.tla", cfg, timeout=3000, coverage=False)
    lib.require_mc_ok(mc, "MC_Rank")
    s = _family(v, "rank", {"C10"}, 8 if quick else 300, 30 if quick else 60)
    v.coverage.update({
        "states": mc["distinct"], "transitions": mc["states"],
        "traces_validated_against_impl": s["scenarios"], "requests_judged": s["requests"],
        "mc_bounds": "CmpKeys is a strict total order with missing-last for all 1-key (thorough: 2-key) plans over multi-valued/missing i64 and keyword values, 3 slots, score ties; LnS accuracy ASSUMEs",
        "samples": s["samples"], "exhaustive": False,
    })
    v.assumptions += [
        "scores are judged in fixed point (scale 1e4) with tolerance 1 % + 0.002; order is judged exactly on the f32 bit patterns",
        "absolute BM25 values are asserted on corpora without deleted documents (segment statistics unambiguous) and for queries without function_score wrappers",
        "k1 = 1.2, b = 0.75 (the harness's IndexOptions)",
    ]


WAND_CFG = """SPECIFICATION Spec
CONSTANTS
  Terms = {{"t1", "t2"}}
  NDocs = {ndocs}
  W = 2
  KMax = 2
  BlockSizes = {blocks}
  Mults = {mults}
  Mode = "{mode}"
  NoPruneWithHook = {noprune}
  StoredBlock = {stored}
INVARIANT PrunedEqualsExhaustive
PROPERTY Progress
CHECK_DEADLOCK FALSE
"""


def _wand_mc(v):
    """Wand.tla: the pruned loop equals exhaustive evaluation; the two repaired defects are refuted as built."""
    quick = v.tier == "quick"
    nd = 4 if quick else 5
    total_states = 0
    total_trans = 0
    runs = [("wand", "{1}", "{1}", "wand", "TRUE"), ("bmw_safe", "{1, 2}", "{1}", "bmw_safe", "TRUE")]
    if not quick:
        runs.append(("hook", "{1, 2}", "{1, 2}", "bmw_safe", "TRUE"))
    for name, blocks, mults, mode, noprune in runs:
        cfg = _cfg(f"MC_Wand_{name}_run.cfg", WAND_CFG.format(ndocs=nd if name != "hook" else 4, blocks=blocks, mults=mults, mode=mode, noprune=noprune, stored=0))
        r = lib.tlc_mc("Wand.tla", cfg, timeout=5000, coverage=False)
        lib.require_mc_ok(r, f"Wand {name}")
        total_states += r["distinct"]
        total_trans += r["states"]
    refuted = []
    for name, blocks, mults, mode, noprune, stored in [("bmw_cur", "{1, 2}", "{1}", "bmw_cur", "TRUE", 0), ("hook_prunes", "{1}", "{1, 2}", "wand", "FALSE", 0),
                                                       ("finer_stored_metadata_reused", "{2}", "{1}", "bmw_safe", "TRUE", 1)]:
        cfg = _cfg(f"MC_Wand_{name}_run.cfg", WAND_CFG.format(ndocs=4, blocks=blocks, mults=mults, mode=mode, noprune=noprune, stored=stored))
        r = lib.tlc_mc("Wand.tla", cfg, timeout=1800, coverage=False)
        lib.expect_mc_violation(r, f"Wand {name}", {"PrunedEqualsExhaustive"})
        refuted.append(name)
    return total_states, total_trans, refuted


def run_c09(v):
    quick = v.tier == "quick"
    states, trans, refuted = _wand_mc(v)
    s = _family(v, "relate", {"C09"}, 8 if quick else 80, 30 if quick else 60)
    v.coverage.update({
        "states": states, "transitions": trans,
        "traces_validated_against_impl": s["scenarios"], "requests_judged": s["requests"],
        "mc_bounds": "2 terms x 4-5 documents x contributions 0..2 x k 1..2 x block sizes 1..2: heap at termination = exhaustive top-k incl. tie-break; per-term bounds, repaired block-max refinement, no pruning under a score hook",
        "as_built_defects_refuted_by_model": refuted,
        "samples": s["samples"], "exhaustive": False,
    })
    v.assumptions += [
        "integer contributions abstract BM25 (monotone in tf); the binding to the code is by outputs: every request runs under bm25, wand, bmw with block sizes 1..300 and limits 1..50, incl. posting lists of 300-900 documents",
        "scores of one document may differ by a few ULP between strategies (f32 summation order): rankings are compared with a 64-ulp tolerance, positions may differ only inside near-tie runs",
    ]


PAGING_CFG = """SPECIFICATION Spec
CONSTANTS
  MaxHits = {hits}
  MaxLimit = 3
  Strict = {strict}
  FullKey = {fullkey}
  FetchExtra = {fetch}
  CheckGen = {gen}
INVARIANT WalkComplete
INVARIANT NoDuplicates
INVARIANT InOrder
INVARIANT NoEmptyLastPage
INVARIANT CursorOnlyIfMore
PROPERTY StaleRejected
PROPERTY Terminates
CHECK_DEADLOCK FALSE
"""


def run_c11(v):
    quick = v.tier == "quick"
    T, F = "TRUE", "FALSE"
    mc = lib.tlc_mc("MC_Paging.tla", _cfg("MC_Paging_ideal_run.cfg", PAGING_CFG.format(hits=6 if quick else 8, strict=T, fullkey=T, fetch=T, gen=T)),
                    timeout=3000, coverage=False)
    lib.require_mc_ok(mc, "MC_Paging")
    refuted = []
    for name, (a, b, c, d), inv in [("nonstrict", (F, T, T, T), {"NoDuplicates", "WalkComplete", "InOrder"}),
                                     ("visible_key_only", (T, F, T, T), {"WalkComplete", "NoDuplicates"}),
                                     ("no_extra_fetch", (T, T, F, T), {"CursorOnlyIfMore", "NoEmptyLastPage"}),
                                     ("no_generation_check", (T, T, T, F), {"StaleRejected", "temporal"})]:
        r = lib.tlc_mc("MC_Paging.tla", _cfg(f"MC_Paging_{name}_run.cfg", PAGING_CFG.format(hits=6, strict=a, fullkey=b, fetch=c, gen=d)),
                       timeout=1200, coverage=False)
        lib.expect_mc_violation(r, f"MC_Paging {name}", inv)
        refuted.append(name)
    s = _family(v, "paging", {"C11"}, 8 if quick else 300, 20 if quick else 40)
    v.coverage.update({
        "states": mc["distinct"], "transitions": mc["states"],
        "traces_validated_against_impl": s["scenarios"], "requests_judged": s["requests"],
        "mc_bounds": "<= 6-8 hits with ties in the visible key, page sizes 1..3, one generation / plan change between pages",
        "protocol_mutations_refuted_by_model": refuted,
        "samples": s["samples"], "exhaustive": False,
    })
    v.assumptions += [
        "'different index generation' is the code's notion (maximum segment generation); cursors are replayed after a commit that adds a segment, after compaction, and against another sort plan",
        "total_hits_estimate: bounded by the number of matches on every page; exact under bm25 execution or when the query has no scored term",
    ]


def run_c20(v):
    quick = v.tier == "quick"
    s = _family(v, "relate", {"C20"}, 8 if quick else 200, 30 if quick else 60)
    v.level = "exploration"
    n20 = (s["requests"] + 1) // 2
    v.coverage.update({
        "evaluations": n20 * 4, "distinct_nontrivial": n20,
        "rule": "random corpora (small, and 300-900 documents) and random requests (queries to depth 2 incl. function_score, filters, sort plans, limits 1..50, aggregations); each request is executed under the 4 explain/profile combinations; a request counts once; Trace_Search.tla (Rank.tla CheckSame20) requires equal ids, scores, totals, cursor strings and aggregations, and final_score = hit score",
        "traces_validated_against_impl": s["scenarios"],
        "samples": s["samples"], "exhaustive": False,
    })
    v.assumptions += ["aggregations and cursors are compared as serialised strings"]


def run_c29(v):
    quick = v.tier == "quick"
    mc = lib.tlc_mc("MC_Vector.tla", "MC_Vector.cfg", timeout=3000, coverage=False)
    lib.require_mc_ok(mc, "MC_Vector")
    s = _family(v, "vector", {"C29"}, 10 if quick else 800, 24 if quick else 60)
    v.coverage.update({
        "states": mc["distinct"], "transitions": mc["states"],
        "traces_validated_against_impl": s["scenarios"], "requests_judged": s["requests"],
        "mc_bounds": "all query/vector triples with components -2..2 in dimension 2, cosine and L2: the exact similarity comparison is a strict weak order, agrees with squared distance, unit scores only for parallel / orthogonal vectors",
        "samples": s["samples"], "exhaustive": False,
    })
    v.assumptions += [
        "vector components are small integers (exact in f32); similarities are judged by squared / cross-multiplied integer comparisons, scores in fixed point 1e-3",
        "segments hold at most 14 vectors (< HNSW neighbour limit 16): the graph search is exhaustive, so exact k-NN is asserted; recall above that limit is not",
        "hybrid requests use plain term queries (outside known finding S07a) with 0 < alpha < 1; the text score is the observation of the same request without the vector clause",
        "a wrong-dimension vector counts as rejected when add or the following commit refuses it (the add/commit disagreement is C15's subject)",
    ]
