"""C07-C11, C18-C22, C29: the search oracle (Search.tla / Rank.tla) bound by Trace_Search.tla."""
import json
import os

from . import lib


def _cfg(name, text):
    return lib.write_cfg(name, text)


def _family(v, fam, props, scenarios, requests, extra=()):
    """Run one driver family and judge its trace. Returns the driver summary."""
    binary = lib.build_harness()
    trace = lib.outpath(v.prop, f"search-{fam}.ndjson")
    s = lib.svh(binary, ["search", "--family", fam, "--seed", v.seed, "--out", trace,
                         "--scenarios", scenarios, "--requests", requests] + list(extra), timeout=7200)
    msgs, dt, _ = lib.tlc_trace("Trace_Search.tla", trace, timeout=7200, xmx="8g")
    tool = [m for m in msgs if m.get("kind") == "TOOL"]
    if tool:
        raise lib.ToolError("trace spec reported a harness inconsistency: " + json.dumps(tool[:3]))
    lib.judge_trace(v, msgs, props)
    samples = []
    for e in lib.read_ndjson(trace, 60):
        if e.get("ev") == "search":
            samples.append({"request": e.get("req", ""), "abstract_query": e.get("q"), "observed_ids": e["obs"].get("ids")})
            if len(samples) >= 3:
                break
    s["samples"] = samples
    s["tlc_s"] = round(dt, 1)
    return s


def run_c07(v):
    quick = v.tier == "quick"
    cfg = _cfg("MC_Query_run.cfg", f"""SPECIFICATION Spec
CONSTANT Small = {"TRUE" if quick else "FALSE"}
CONSTANT CheckAsBuilt = FALSE
INVARIANT EveryWordFinds
INVARIANT ShouldOptional
INVARIANT MustNotShrinks
INVARIANT AsBuiltSound
CHECK_DEADLOCK FALSE
""")
    mc = lib.tlc_mc("MC_Query.tla", cfg, timeout=3000, coverage=False)
    lib.require_mc_ok(mc, "MC_Query")
    cfg2 = _cfg("MC_Query_asbuilt_run.cfg", """SPECIFICATION Spec
CONSTANT Small = TRUE
CONSTANT CheckAsBuilt = TRUE
INVARIANT AsBuiltComplete
CHECK_DEADLOCK FALSE
""")
    r2 = lib.tlc_mc("MC_Query.tla", cfg2, timeout=1200, coverage=False)
    lib.expect_mc_violation(r2, "MC_Query as-built (S07a)", {"AsBuiltComplete"})
    s = _family(v, "query", {"C07"}, 8 if quick else 120, 40 if quick else 80)
    v.coverage.update({
        "states": mc["distinct"], "transitions": mc["states"],
        "traces_validated_against_impl": s["scenarios"], "requests_judged": s["requests"],
        "mc_bounds": "all corpora of <=3 documents over 2 tokens x all query trees to depth 2 (term, match_all, bool, dis_max)",
        "as_built_candidate_rule_refuted_by_model": True,
        "samples": s["samples"], "exhaustive": False,
    })
    v.assumptions += [
        "analysis (tokenisation, stemming, synonyms) is input: tokens come from the repository's analyzer objects",
        "prefix/wildcard expansions are asserted only below their expansion caps; regex and fuzzy are not in the absolute oracle",
        "phrases are asserted on text fields whose analysed phrase has no position gaps",
    ]


def run_c08(v):
    quick = v.tier == "quick"
    base = """SPECIFICATION Spec
CONSTANTS
  Layout = "{layout}"
  Deep = FALSE
  Wide = {wide}
INVARIANT FlatEqualsTree
CHECK_DEADLOCK FALSE
"""
    mc = lib.tlc_mc("MC_Filter.tla", _cfg("MC_Filter_run.cfg", base.format(layout="global", wide="FALSE" if quick else "TRUE")),
                    timeout=3000, coverage=False)
    lib.require_mc_ok(mc, "MC_Filter")
    r2 = lib.tlc_mc("MC_Filter.tla", _cfg("MC_Filter_restart_run.cfg", base.format(layout="restart", wide="FALSE")),
                    timeout=1200, coverage=False)
    lib.expect_mc_violation(r2, "MC_Filter restart layout (S08a)", {"FlatEqualsTree"})
    s = _family(v, "filter", {"C08"}, 10 if quick else 150, 40 if quick else 80)
    v.coverage.update({
        "states": mc["distinct"], "transitions": mc["states"],
        "traces_validated_against_impl": s["scenarios"], "requests_judged": s["requests"],
        "mc_bounds": "every document with <=2 comments x <=1 reply (values x/y, votes 1/2) x every filter of the grammar (nested, and, not to depth 3): flattened-column evaluation = tree semantics",
        "pre_fix_layout_refuted_by_model": True,
        "samples": s["samples"], "exhaustive": False,
    })
    v.assumptions += [
        "f64 values and bounds are multiples of 1/4 (exact in the trace's fixed point)",
        "case-insensitive means equality of Rust's str::to_lowercase",
        "sibling nested clauses under And are read as Nested(path, And[...]) (applies recursively)",
    ]


def run_c10(v):
    quick = v.tier == "quick"
    cfg = _cfg("MC_Rank_run.cfg", f"""SPECIFICATION Spec
CONSTANT Pairs = {"FALSE" if quick else "TRUE"}
INVARIANT Antisymmetric
INVARIANT Total
INVARIANT Transitive
INVARIANT MissingLast
CHECK_DEADLOCK FALSE
""")
    mc = lib.tlc_mc("MC_Rank.tla", cfg, timeout=3000, coverage=False)
    lib.require_mc_ok(mc, "MC_Rank")
    s = _family(v, "rank", {"C10"}, 8 if quick else 100, 30 if quick else 60)
    v.coverage.update({
        "states": mc["distinct"], "transitions": mc["states"],
        "traces_validated_against_impl": s["scenarios"], "requests_judged": s["requests"],
        "mc_bounds": "CmpKeys is a strict total order with missing-last for all 1-key (thorough: 2-key) plans over multi-valued/missing i64 and keyword values, 3 slots, score ties; LnS accuracy ASSUMEs",
        "samples": s["samples"], "exhaustive": False,
    })
    v.assumptions += [
        "scores are judged in fixed point (scale 1e4) with tolerance 1 % + 0.002; order is judged exactly on the f32 bit patterns",
        "absolute BM25 values are asserted on corpora without deleted documents (segment statistics unambiguous) and for queries without function_score wrappers",
        "k1 = 1.2, b = 0.75 (the harness's IndexOptions)",
    ]
