"""property id -> (module under checks/, function)"""
TABLE = {
    "C04": ("core", "run_c04"),
    "C14": ("core", "run_c14"),
}
