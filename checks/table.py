"""property id -> (module under checks/, function)"""
TABLE = {
    "C01": ("durability", "run_c01"),
    "C02": ("durability", "run_c02"),
    "C04": ("core", "run_c04"),
    "C14": ("core", "run_c14"),
}
