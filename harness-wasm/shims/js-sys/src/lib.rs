//! Native shim of the part of `js-sys` that wasm.rs touches: global object, Reflect::get,
//! Array, Uint8Array, Function, Object.
use std::cell::RefCell;
use std::collections::HashMap;
use std::rc::Rc;

use wasm_bindgen::{js_class, JsValue};

/// A plain JS object: a property bag.
pub struct ObjectData {
  pub props: RefCell<HashMap<String, JsValue>>,
}

pub struct ArrayData {
  pub items: RefCell<Vec<JsValue>>,
}

pub struct BytesData {
  pub bytes: RefCell<Vec<u8>>,
}

js_class!(Object, |v| v.is_obj::<ObjectData>());
js_class!(Array, |v| v.is_obj::<ArrayData>());
js_class!(Uint8Array, |v| v.is_obj::<BytesData>());
// A function is whatever `Closure::wrap` produced; the callee's signature is checked by the caller.
js_class!(Function, |v| matches!(v.inner, wasm_bindgen::Inner::Obj(_)));

thread_local! {
  static GLOBAL: Object = Object::new();
}

/// `globalThis` of the simulated page (one per thread).
pub fn global() -> Object {
  GLOBAL.with(|g| g.clone())
}

impl Object {
  pub fn new() -> Object {
    Object { obj: JsValue::from_obj(Rc::new(ObjectData { props: RefCell::new(HashMap::new()) })) }
  }
  pub fn set_prop(&self, key: &str, value: JsValue) {
    self.obj.obj::<ObjectData>().expect("object").props.borrow_mut().insert(key.to_string(), value);
  }
}

impl Default for Object {
  fn default() -> Self {
    Object::new()
  }
}

#[allow(non_snake_case)]
pub mod Reflect {
  use super::*;
  pub fn get(target: &JsValue, key: &JsValue) -> Result<JsValue, JsValue> {
    let key = key.as_string().ok_or_else(|| JsValue::from_str("TypeError: key"))?;
    match target.obj::<ObjectData>() {
      Some(o) => Ok(o.props.borrow().get(&key).cloned().unwrap_or(JsValue::UNDEFINED)),
      None => Err(JsValue::from_str("TypeError: Reflect.get called on non-object")),
    }
  }
}

impl Array {
  pub fn new() -> Array {
    Array { obj: JsValue::from_obj(Rc::new(ArrayData { items: RefCell::new(Vec::new()) })) }
  }
  pub fn push(&self, v: &JsValue) -> u32 {
    let d = self.obj.obj::<ArrayData>().expect("array");
    d.items.borrow_mut().push(v.clone());
    let n = d.items.borrow().len();
    n as u32
  }
  pub fn length(&self) -> u32 {
    self.obj.obj::<ArrayData>().expect("array").items.borrow().len() as u32
  }
  pub fn get(&self, i: u32) -> JsValue {
    let d = self.obj.obj::<ArrayData>().expect("array");
    let v = d.items.borrow().get(i as usize).cloned();
    v.unwrap_or(JsValue::UNDEFINED)
  }
  pub fn iter(&self) -> std::vec::IntoIter<JsValue> {
    let d = self.obj.obj::<ArrayData>().expect("array");
    let v = d.items.borrow().clone();
    v.into_iter()
  }
}

impl Default for Array {
  fn default() -> Self {
    Array::new()
  }
}

impl Uint8Array {
  /// `new Uint8Array(x)`: a copy of another typed array, or empty for anything else.
  pub fn new(value: &JsValue) -> Uint8Array {
    let bytes = match value.obj::<BytesData>() {
      Some(b) => b.bytes.borrow().clone(),
      None => Vec::new(),
    };
    Uint8Array::from(bytes.as_slice())
  }
  pub fn to_vec(&self) -> Vec<u8> {
    self.obj.obj::<BytesData>().expect("typed array").bytes.borrow().clone()
  }
  pub fn length(&self) -> u32 {
    self.obj.obj::<BytesData>().expect("typed array").bytes.borrow().len() as u32
  }
}

impl From<&[u8]> for Uint8Array {
  fn from(data: &[u8]) -> Uint8Array {
    Uint8Array { obj: JsValue::from_obj(Rc::new(BytesData { bytes: RefCell::new(data.to_vec()) })) }
  }
}
