//! Native shim of `serde-wasm-bindgen`: a JS value that crossed the boundary is carried as a
//! `serde_json::Value` object.
use std::fmt;
use std::rc::Rc;

use wasm_bindgen::JsValue;

pub struct JsonData(pub serde_json::Value);

#[derive(Debug)]
pub struct Error(String);

impl fmt::Display for Error {
  fn fmt(&self, f: &mut fmt::Formatter<'_>) -> fmt::Result {
    f.write_str(&self.0)
  }
}
impl std::error::Error for Error {}

impl From<Error> for JsValue {
  fn from(e: Error) -> JsValue {
    JsValue::from_str(&e.0)
  }
}

pub fn to_value<T: serde::Serialize + ?Sized>(value: &T) -> Result<JsValue, Error> {
  let v = serde_json::to_value(value).map_err(|e| Error(e.to_string()))?;
  Ok(JsValue::from_obj(Rc::new(JsonData(v))))
}

pub fn from_value<T: serde::de::DeserializeOwned>(value: JsValue) -> Result<T, Error> {
  let v = if let Some(j) = value.obj::<JsonData>() {
    j.0.clone()
  } else if let Some(s) = value.as_string() {
    serde_json::Value::String(s)
  } else if value.is_null() || value.is_undefined() {
    serde_json::Value::Null
  } else {
    return Err(Error("unsupported JsValue in simulated serde bridge".into()));
  };
  serde_json::from_value(v).map_err(|e| Error(e.to_string()))
}
