//! Native shim of `wasm-bindgen-futures`: `spawn_local` hands the future to a deterministic
//! single-threaded executor that never runs anything by itself. The driver (harness) asks which
//! tasks are ready and polls exactly the one its schedule names (`sim::poll`).
use std::cell::RefCell;
use std::future::Future;
use std::pin::Pin;
use std::sync::atomic::{AtomicBool, AtomicU64, Ordering};
use std::sync::Arc;
use std::task::{Context, Poll, Wake, Waker};

pub fn spawn_local<F>(future: F)
where
  F: Future<Output = ()> + 'static,
{
  sim::spawn(std::any::type_name::<F>(), Box::pin(future));
}

pub mod sim {
  use super::*;

  static CLOCK: AtomicU64 = AtomicU64::new(1);

  /// Wake-up flag of a task; `stamp` orders the ready tasks FIFO by the time they were woken.
  struct Flag {
    woken: AtomicBool,
    stamp: AtomicU64,
  }
  impl Flag {
    fn set(&self) {
      if !self.woken.swap(true, Ordering::SeqCst) {
        self.stamp.store(CLOCK.fetch_add(1, Ordering::SeqCst), Ordering::SeqCst);
      }
    }
  }
  impl Wake for Flag {
    fn wake(self: Arc<Self>) {
      self.set();
    }
    fn wake_by_ref(self: &Arc<Self>) {
      self.set();
    }
  }

  struct Task {
    id: usize,
    origin: &'static str,
    fut: Option<Pin<Box<dyn Future<Output = ()>>>>,
    woken: Arc<Flag>,
  }

  #[derive(Default)]
  struct Rt {
    tasks: Vec<Task>,
    next_id: usize,
    spawned_log: Vec<(usize, &'static str)>,
  }

  thread_local! {
    static RT: RefCell<Rt> = RefCell::new(Rt::default());
  }

  pub fn spawn(origin: &'static str, fut: Pin<Box<dyn Future<Output = ()>>>) -> usize {
    RT.with(|rt| {
      let mut rt = rt.borrow_mut();
      let id = rt.next_id;
      rt.next_id += 1;
      let flag = Arc::new(Flag { woken: AtomicBool::new(false), stamp: AtomicU64::new(0) });
      flag.set();
      rt.tasks.push(Task { id, origin, fut: Some(fut), woken: flag });
      rt.spawned_log.push((id, origin));
      id
    })
  }

  /// Tasks spawned since the last call: (id, type name of the future = where it was spawned).
  pub fn take_spawned() -> Vec<(usize, &'static str)> {
    RT.with(|rt| std::mem::take(&mut rt.borrow_mut().spawned_log))
  }

  /// Ready (woken, unfinished) task ids in FIFO order of their wake-up.
  pub fn ready() -> Vec<usize> {
    RT.with(|rt| {
      let rt = rt.borrow();
      let mut v: Vec<(u64, usize)> = Vec::new();
      for t in rt.tasks.iter() {
        if t.fut.is_some() && t.woken.woken.load(Ordering::SeqCst) {
          v.push((t.woken.stamp.load(Ordering::SeqCst), t.id));
        }
      }
      v.sort();
      v.into_iter().map(|x| x.1).collect()
    })
  }

  /// Id the next spawned task will get.
  pub fn next_id() -> usize {
    RT.with(|rt| rt.borrow().next_id)
  }

  /// Where a task was spawned (type name of its future).
  pub fn origin(id: usize) -> Option<&'static str> {
    RT.with(|rt| rt.borrow().tasks.iter().find(|t| t.id == id).map(|t| t.origin))
  }

  pub fn alive() -> Vec<usize> {
    RT.with(|rt| rt.borrow().tasks.iter().filter(|t| t.fut.is_some()).map(|t| t.id).collect())
  }

  /// Poll one task once. Returns Some(true) when it finished, Some(false) when it is pending,
  /// None when there is no such unfinished task.
  pub fn poll(id: usize) -> Option<bool> {
    let (mut fut, flag) = RT.with(|rt| {
      let mut rt = rt.borrow_mut();
      let t = rt.tasks.iter_mut().find(|t| t.id == id)?;
      let fut = t.fut.take()?;
      t.woken.woken.store(false, Ordering::SeqCst);
      Some((fut, t.woken.clone()))
    })?;
    let waker = Waker::from(flag);
    let mut cx = Context::from_waker(&waker);
    // the RT borrow is released here: the task may call spawn_local
    let done = matches!(fut.as_mut().poll(&mut cx), Poll::Ready(()));
    RT.with(|rt| {
      let mut rt = rt.borrow_mut();
      if done {
        rt.tasks.retain(|t| t.id != id);
        drop(rt);
        drop(fut);
      } else if let Some(t) = rt.tasks.iter_mut().find(|t| t.id == id) {
        t.fut = Some(fut);
      } else {
        // the page was closed while this task ran: it belongs to the dead page
        std::mem::forget(fut);
      }
    });
    Some(done)
  }

  /// The page goes away: nothing runs any more and no destructor runs either.
  pub fn close_page() {
    RT.with(|rt| {
      let mut rt = rt.borrow_mut();
      for t in rt.tasks.drain(..) {
        std::mem::forget(t.fut);
      }
      rt.spawned_log.clear();
      rt.next_id = 0;
    });
  }
}
