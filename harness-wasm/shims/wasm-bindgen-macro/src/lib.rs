//! Shim: `#[wasm_bindgen]` does nothing natively (the item is compiled as plain Rust).
use proc_macro::TokenStream;

#[proc_macro_attribute]
pub fn wasm_bindgen(_attr: TokenStream, item: TokenStream) -> TokenStream {
  item
}
