//! Native shim of the part of `wasm-bindgen` that /repo/searchlite-wasm/src/wasm.rs touches.
//!
//! A `JsValue` is a dynamically typed value; every "JavaScript class" of the other shims
//! (js-sys, web-sys) is a `#[repr(transparent)]` newtype around `JsValue`, exactly as in the real
//! crate, so `unchecked_ref` is the same pointer cast. Nothing here knows about searchlite.
use std::any::Any;
use std::cell::{Cell, RefCell};
use std::fmt;
use std::rc::Rc;

pub use wasm_bindgen_macro::wasm_bindgen;

#[derive(Clone)]
pub enum Inner {
  Undefined,
  Null,
  Bool(bool),
  Num(f64),
  Str(Rc<str>),
  /// Any simulated object; the concrete Rust type behind it is the "class".
  Obj(Rc<dyn Any>),
}

#[derive(Clone)]
pub struct JsValue {
  pub inner: Inner,
}

impl JsValue {
  pub const NULL: JsValue = JsValue { inner: Inner::Null };
  pub const UNDEFINED: JsValue = JsValue { inner: Inner::Undefined };

  pub fn from_str(s: &str) -> JsValue {
    JsValue { inner: Inner::Str(Rc::from(s)) }
  }
  pub fn from_f64(x: f64) -> JsValue {
    JsValue { inner: Inner::Num(x) }
  }
  pub fn from_bool(b: bool) -> JsValue {
    JsValue { inner: Inner::Bool(b) }
  }
  pub fn null() -> JsValue {
    JsValue::NULL
  }
  pub fn undefined() -> JsValue {
    JsValue::UNDEFINED
  }
  pub fn from_obj<T: Any>(obj: Rc<T>) -> JsValue {
    JsValue { inner: Inner::Obj(obj as Rc<dyn Any>) }
  }
  pub fn is_null(&self) -> bool {
    matches!(self.inner, Inner::Null)
  }
  pub fn is_undefined(&self) -> bool {
    matches!(self.inner, Inner::Undefined)
  }
  pub fn as_string(&self) -> Option<String> {
    match &self.inner {
      Inner::Str(s) => Some(s.to_string()),
      _ => None,
    }
  }
  pub fn as_f64(&self) -> Option<f64> {
    match &self.inner {
      Inner::Num(x) => Some(*x),
      _ => None,
    }
  }
  pub fn as_bool(&self) -> Option<bool> {
    match &self.inner {
      Inner::Bool(x) => Some(*x),
      _ => None,
    }
  }
  /// The simulated object behind this value, if it is an instance of `T`.
  pub fn obj<T: Any>(&self) -> Option<Rc<T>> {
    match &self.inner {
      Inner::Obj(rc) => rc.clone().downcast::<T>().ok(),
      _ => None,
    }
  }
  pub fn is_obj<T: Any>(&self) -> bool {
    match &self.inner {
      Inner::Obj(rc) => rc.is::<T>(),
      _ => false,
    }
  }
}

impl fmt::Debug for JsValue {
  fn fmt(&self, f: &mut fmt::Formatter<'_>) -> fmt::Result {
    match &self.inner {
      Inner::Undefined => write!(f, "JsValue(undefined)"),
      Inner::Null => write!(f, "JsValue(null)"),
      Inner::Bool(b) => write!(f, "JsValue({b})"),
      Inner::Num(x) => write!(f, "JsValue({x})"),
      Inner::Str(s) => write!(f, "JsValue({s:?})"),
      Inner::Obj(_) => write!(f, "JsValue(Object)"),
    }
  }
}

impl From<&str> for JsValue {
  fn from(s: &str) -> Self {
    JsValue::from_str(s)
  }
}
impl From<String> for JsValue {
  fn from(s: String) -> Self {
    JsValue::from_str(&s)
  }
}
impl From<bool> for JsValue {
  fn from(b: bool) -> Self {
    JsValue::from_bool(b)
  }
}
impl From<f64> for JsValue {
  fn from(x: f64) -> Self {
    JsValue::from_f64(x)
  }
}
impl<T: Into<JsValue>> From<Option<T>> for JsValue {
  fn from(v: Option<T>) -> Self {
    match v {
      Some(x) => x.into(),
      None => JsValue::UNDEFINED,
    }
  }
}

impl AsRef<JsValue> for JsValue {
  fn as_ref(&self) -> &JsValue {
    self
  }
}

/// Same contract as the real trait: implementors are transparent wrappers of `JsValue`.
pub trait JsCast: AsRef<JsValue> + Into<JsValue> + Sized {
  fn instanceof(val: &JsValue) -> bool;
  fn unchecked_from_js(val: JsValue) -> Self;
  fn unchecked_from_js_ref(val: &JsValue) -> &Self;

  fn has_type<T: JsCast>(&self) -> bool {
    T::instanceof(self.as_ref())
  }
  fn dyn_into<T: JsCast>(self) -> Result<T, Self> {
    if self.has_type::<T>() {
      Ok(self.unchecked_into())
    } else {
      Err(self)
    }
  }
  fn dyn_ref<T: JsCast>(&self) -> Option<&T> {
    if self.has_type::<T>() {
      Some(self.unchecked_ref())
    } else {
      None
    }
  }
  fn unchecked_into<T: JsCast>(self) -> T {
    T::unchecked_from_js(self.into())
  }
  fn unchecked_ref<T: JsCast>(&self) -> &T {
    T::unchecked_from_js_ref(self.as_ref())
  }
}

impl JsCast for JsValue {
  fn instanceof(_val: &JsValue) -> bool {
    true
  }
  fn unchecked_from_js(val: JsValue) -> Self {
    val
  }
  fn unchecked_from_js_ref(val: &JsValue) -> &Self {
    val
  }
}

/// Declares a simulated JS class: `js_class!(Name, |v| <instanceof test on &JsValue>)`.
#[macro_export]
macro_rules! js_class {
  ($name:ident, $test:expr) => {
    #[derive(Clone, Debug)]
    #[repr(transparent)]
    pub struct $name {
      pub obj: $crate::JsValue,
    }
    impl AsRef<$crate::JsValue> for $name {
      fn as_ref(&self) -> &$crate::JsValue {
        &self.obj
      }
    }
    impl From<$name> for $crate::JsValue {
      fn from(v: $name) -> $crate::JsValue {
        v.obj
      }
    }
    impl std::ops::Deref for $name {
      type Target = $crate::JsValue;
      fn deref(&self) -> &$crate::JsValue {
        &self.obj
      }
    }
    impl $crate::JsCast for $name {
      fn instanceof(val: &$crate::JsValue) -> bool {
        let test: fn(&$crate::JsValue) -> bool = $test;
        test(val)
      }
      fn unchecked_from_js(val: $crate::JsValue) -> Self {
        $name { obj: val }
      }
      fn unchecked_from_js_ref(val: &$crate::JsValue) -> &Self {
        // SAFETY: #[repr(transparent)] over JsValue (the real crate does the same cast).
        unsafe { &*(val as *const $crate::JsValue as *const $name) }
      }
    }
  };
}

pub mod closure {
  use super::*;

  /// The callable behind a `Closure`, shared with the simulated JS function object.
  pub struct ClosureCell<T: ?Sized> {
    pub f: RefCell<Option<Box<T>>>,
    pub dropped: Cell<bool>,
  }

  impl<T: ?Sized> ClosureCell<T> {
    /// Run `call` with the boxed callable. The callable is moved out while it runs, so a
    /// handler may drop its own `Closure` (wasm.rs `clear_request_handlers` does) without a
    /// re-entrant borrow; it is put back afterwards unless the Rust side dropped the closure.
    /// Returns false when the closure was already dropped (the real glue throws in that case).
    pub fn invoke(&self, call: impl FnOnce(&mut Box<T>)) -> bool {
      let taken = self.f.borrow_mut().take();
      match taken {
        None => false,
        Some(mut b) => {
          call(&mut b);
          if !self.dropped.get() {
            *self.f.borrow_mut() = Some(b);
          }
          true
        }
      }
    }
  }

  pub struct Closure<T: ?Sized + 'static> {
    cell: Rc<ClosureCell<T>>,
    js: JsValue,
  }

  impl<T: ?Sized + 'static> Closure<T> {
    pub fn wrap(data: Box<T>) -> Closure<T> {
      let cell = Rc::new(ClosureCell { f: RefCell::new(Some(data)), dropped: Cell::new(false) });
      let js = JsValue::from_obj(cell.clone());
      Closure { cell, js }
    }
    pub fn forget(self) {
      std::mem::forget(self)
    }
  }

  impl<T: ?Sized + 'static> AsRef<JsValue> for Closure<T> {
    fn as_ref(&self) -> &JsValue {
      &self.js
    }
  }

  impl<T: ?Sized + 'static> Drop for Closure<T> {
    fn drop(&mut self) {
      // Dropping the Rust closure invalidates the JS function (later calls do nothing).
      self.cell.dropped.set(true);
      if let Ok(mut g) = self.cell.f.try_borrow_mut() {
        g.take();
      }
    }
  }
}

pub mod prelude {
  pub use crate::closure::Closure;
  pub use crate::wasm_bindgen;
  pub use crate::JsCast;
  pub use crate::JsValue;
}
