//! Native shim of the part of `web-sys` that wasm.rs touches, backed by a SIMULATED IndexedDB
//! (`sim`). A request never completes by itself: the driver picks which pending request
//! completes next (`sim::complete`), which applies its effect to the database (the request's
//! transaction commits at that moment - each read-write transaction of wasm.rs carries exactly
//! one request) and dispatches `upgradeneeded`/`success` to the handlers synchronously.
use std::cell::{Cell, RefCell};
use std::collections::{BTreeMap, HashMap};
use std::rc::Rc;

use js_sys::Function;
use wasm_bindgen::closure::ClosureCell;
use wasm_bindgen::{js_class, JsCast, JsValue};

#[derive(Clone, Copy, Debug, PartialEq, Eq)]
pub enum IdbTransactionMode {
  Readonly,
  Readwrite,
}

#[derive(Clone, Debug, PartialEq)]
pub enum ReqKind {
  Open { name: String },
  GetAllKeys { db: String, store: String },
  GetAll { db: String, store: String },
  Put { db: String, store: String, key: String, bytes: Vec<u8> },
  Delete { db: String, store: String, key: String },
}

pub struct ReqData {
  pub id: usize,
  pub tx: usize,
  pub is_open: bool,
  pub kind: ReqKind,
  pub done: Cell<bool>,
  pub result: RefCell<JsValue>,
  pub onsuccess: RefCell<Option<Function>>,
  pub onerror: RefCell<Option<Function>>,
  pub onupgradeneeded: RefCell<Option<Function>>,
}

pub struct FactoryData;
pub struct DbData {
  pub name: String,
}
pub struct TxData {
  pub id: usize,
  pub db: String,
  pub mode: IdbTransactionMode,
}
pub struct StoreData {
  pub tx: usize,
  pub db: String,
  pub name: String,
}
pub struct EventData {
  pub target: JsValue,
}
pub struct DomExceptionData {
  pub message: String,
}

js_class!(IdbFactory, |v| v.is_obj::<FactoryData>());
js_class!(IdbRequest, |v| v.is_obj::<ReqData>());
js_class!(IdbOpenDbRequest, |v| v.obj::<ReqData>().map(|r| r.is_open).unwrap_or(false));
js_class!(IdbDatabase, |v| v.is_obj::<DbData>());
js_class!(IdbTransaction, |v| v.is_obj::<TxData>());
js_class!(IdbObjectStore, |v| v.is_obj::<StoreData>());
js_class!(Event, |v| v.is_obj::<EventData>());
js_class!(EventTarget, |v| v.is_obj::<ReqData>());
js_class!(DomException, |v| v.is_obj::<DomExceptionData>());

impl From<IdbOpenDbRequest> for IdbRequest {
  fn from(r: IdbOpenDbRequest) -> IdbRequest {
    IdbRequest { obj: r.obj }
  }
}

fn dom_err(name: &str, msg: &str) -> JsValue {
  JsValue::from_obj(Rc::new(DomExceptionData { message: format!("{name}: {msg}") }))
}

impl Event {
  pub fn target(&self) -> Option<EventTarget> {
    let d = self.obj.obj::<EventData>()?;
    if d.target.is_null() || d.target.is_undefined() {
      None
    } else {
      Some(EventTarget { obj: d.target.clone() })
    }
  }
}

impl IdbFactory {
  pub fn open_with_u32(&self, name: &str, _version: u32) -> Result<IdbOpenDbRequest, JsValue> {
    let req = sim::new_request(0, true, ReqKind::Open { name: name.to_string() });
    Ok(IdbOpenDbRequest { obj: req })
  }
}

fn req_data(v: &JsValue) -> Rc<ReqData> {
  v.obj::<ReqData>().expect("IdbRequest")
}

impl IdbRequest {
  pub fn result(&self) -> Result<JsValue, JsValue> {
    let d = req_data(&self.obj);
    if d.done.get() {
      Ok(d.result.borrow().clone())
    } else {
      Err(dom_err("InvalidStateError", "request is pending"))
    }
  }
  pub fn error(&self) -> Result<Option<DomException>, JsValue> {
    let d = req_data(&self.obj);
    if d.done.get() {
      Ok(None)
    } else {
      Err(dom_err("InvalidStateError", "request is pending"))
    }
  }
  pub fn set_onsuccess(&self, f: Option<&Function>) {
    *req_data(&self.obj).onsuccess.borrow_mut() = f.cloned();
  }
  pub fn set_onerror(&self, f: Option<&Function>) {
    *req_data(&self.obj).onerror.borrow_mut() = f.cloned();
  }
}

impl IdbOpenDbRequest {
  pub fn result(&self) -> Result<JsValue, JsValue> {
    IdbRequest { obj: self.obj.clone() }.result()
  }
  pub fn set_onupgradeneeded(&self, f: Option<&Function>) {
    *req_data(&self.obj).onupgradeneeded.borrow_mut() = f.cloned();
  }
  pub fn set_onsuccess(&self, f: Option<&Function>) {
    *req_data(&self.obj).onsuccess.borrow_mut() = f.cloned();
  }
  pub fn set_onerror(&self, f: Option<&Function>) {
    *req_data(&self.obj).onerror.borrow_mut() = f.cloned();
  }
}

impl IdbDatabase {
  pub fn name(&self) -> String {
    self.obj.obj::<DbData>().expect("db").name.clone()
  }
  pub fn create_object_store(&self, name: &str) -> Result<IdbObjectStore, JsValue> {
    let db = self.name();
    sim::create_store(&db, name);
    Ok(IdbObjectStore {
      obj: JsValue::from_obj(Rc::new(StoreData { tx: 0, db, name: name.to_string() })),
    })
  }
  pub fn transaction_with_str_and_mode(
    &self,
    store: &str,
    mode: IdbTransactionMode,
  ) -> Result<IdbTransaction, JsValue> {
    let db = self.name();
    if !sim::has_store(&db, store) {
      return Err(dom_err("NotFoundError", "object store not found"));
    }
    let id = sim::new_tx();
    Ok(IdbTransaction { obj: JsValue::from_obj(Rc::new(TxData { id, db, mode })) })
  }
}

impl IdbTransaction {
  pub fn object_store(&self, name: &str) -> Result<IdbObjectStore, JsValue> {
    let t = self.obj.obj::<TxData>().expect("tx");
    if !sim::has_store(&t.db, name) {
      return Err(dom_err("NotFoundError", "object store not found"));
    }
    Ok(IdbObjectStore {
      obj: JsValue::from_obj(Rc::new(StoreData { tx: t.id, db: t.db.clone(), name: name.to_string() })),
    })
  }
}

fn key_string(key: &JsValue) -> Result<String, JsValue> {
  key.as_string().ok_or_else(|| dom_err("DataError", "only string keys are simulated"))
}

impl IdbObjectStore {
  fn data(&self) -> Rc<StoreData> {
    self.obj.obj::<StoreData>().expect("store")
  }
  pub fn get_all_keys(&self) -> Result<IdbRequest, JsValue> {
    let s = self.data();
    let kind = ReqKind::GetAllKeys { db: s.db.clone(), store: s.name.clone() };
    Ok(IdbRequest { obj: sim::new_request(s.tx, false, kind) })
  }
  pub fn get_all(&self) -> Result<IdbRequest, JsValue> {
    let s = self.data();
    let kind = ReqKind::GetAll { db: s.db.clone(), store: s.name.clone() };
    Ok(IdbRequest { obj: sim::new_request(s.tx, false, kind) })
  }
  pub fn put_with_key(&self, value: &JsValue, key: &JsValue) -> Result<IdbRequest, JsValue> {
    let s = self.data();
    let key = key_string(key)?;
    let bytes = match value.dyn_ref::<js_sys::Uint8Array>() {
      Some(a) => a.to_vec(),
      None => return Err(dom_err("DataCloneError", "only Uint8Array values are simulated")),
    };
    let kind = ReqKind::Put { db: s.db.clone(), store: s.name.clone(), key, bytes };
    Ok(IdbRequest { obj: sim::new_request(s.tx, false, kind) })
  }
  pub fn delete(&self, key: &JsValue) -> Result<IdbRequest, JsValue> {
    let s = self.data();
    let key = key_string(key)?;
    let kind = ReqKind::Delete { db: s.db.clone(), store: s.name.clone(), key };
    Ok(IdbRequest { obj: sim::new_request(s.tx, false, kind) })
  }
}

pub mod console {
  use super::*;
  thread_local! {
    pub static LOG: RefCell<Vec<String>> = RefCell::new(Vec::new());
  }
  fn push(level: &str, v: &JsValue) {
    let s = v.as_string().unwrap_or_else(|| format!("{v:?}"));
    LOG.with(|l| l.borrow_mut().push(format!("{level}: {s}")));
  }
  pub fn error_1(v: &JsValue) {
    push("error", v)
  }
  pub fn warn_1(v: &JsValue) {
    push("warn", v)
  }
  pub fn log_1(v: &JsValue) {
    push("log", v)
  }
  pub fn take() -> Vec<String> {
    LOG.with(|l| std::mem::take(&mut *l.borrow_mut()))
  }
}

/// The simulated IndexedDB and its control surface for the driver.
pub mod sim {
  use super::*;

  type Files = BTreeMap<String, Vec<u8>>;

  #[derive(Default)]
  struct Sim {
    /// database name -> object store name -> key -> bytes (the durable state)
    dbs: HashMap<String, HashMap<String, Files>>,
    pending: Vec<Rc<ReqData>>,
    next_req: usize,
    next_tx: usize,
  }

  thread_local! {
    static SIM: RefCell<Sim> = RefCell::new(Sim::default());
  }

  /// Make `globalThis.indexedDB` exist on this thread.
  pub fn install() {
    js_sys::global().set_prop("indexedDB", JsValue::from_obj(Rc::new(FactoryData)));
  }

  pub fn new_tx() -> usize {
    SIM.with(|s| {
      let mut s = s.borrow_mut();
      s.next_tx += 1;
      s.next_tx
    })
  }

  pub fn new_request(tx: usize, is_open: bool, kind: ReqKind) -> JsValue {
    SIM.with(|s| {
      let mut s = s.borrow_mut();
      s.next_req += 1;
      let r = Rc::new(ReqData {
        id: s.next_req,
        tx,
        is_open,
        kind,
        done: Cell::new(false),
        result: RefCell::new(JsValue::UNDEFINED),
        onsuccess: RefCell::new(None),
        onerror: RefCell::new(None),
        onupgradeneeded: RefCell::new(None),
      });
      s.pending.push(r.clone());
      JsValue::from_obj(r)
    })
  }

  /// Id of the most recently created request.
  pub fn last_req() -> usize {
    SIM.with(|s| s.borrow().next_req)
  }

  pub fn has_store(db: &str, store: &str) -> bool {
    SIM.with(|s| s.borrow().dbs.get(db).map(|d| d.contains_key(store)).unwrap_or(false))
  }

  pub fn create_store(db: &str, store: &str) {
    SIM.with(|s| {
      s.borrow_mut().dbs.entry(db.to_string()).or_default().entry(store.to_string()).or_default();
    })
  }

  /// One pending request as the driver sees it (creation order = ascending id).
  #[derive(Clone, Debug)]
  pub struct Pending {
    pub id: usize,
    pub tx: usize,
    pub op: &'static str,
    pub key: String,
    pub len: usize,
  }

  pub fn pending() -> Vec<Pending> {
    SIM.with(|s| {
      s.borrow()
        .pending
        .iter()
        .map(|r| {
          let (op, key, len) = match &r.kind {
            ReqKind::Open { name } => ("open", name.clone(), 0),
            ReqKind::GetAllKeys { .. } => ("getAllKeys", String::new(), 0),
            ReqKind::GetAll { .. } => ("getAll", String::new(), 0),
            ReqKind::Put { key, bytes, .. } => ("put", key.clone(), bytes.len()),
            ReqKind::Delete { key, .. } => ("delete", key.clone(), 0),
          };
          Pending { id: r.id, tx: r.tx, op, key, len }
        })
        .collect()
    })
  }

  /// The bytes a pending put request carries (for classifying snapshots).
  pub fn pending_bytes(id: usize) -> Option<Vec<u8>> {
    SIM.with(|s| {
      s.borrow().pending.iter().find(|r| r.id == id).and_then(|r| match &r.kind {
        ReqKind::Put { bytes, .. } => Some(bytes.clone()),
        _ => None,
      })
    })
  }

  fn call(f: Option<Function>, target: &JsValue) {
    if let Some(f) = f {
      if let Some(cell) = f.obj.obj::<ClosureCell<dyn FnMut(Event)>>() {
        let ev = Event { obj: JsValue::from_obj(Rc::new(EventData { target: target.clone() })) };
        let mut ev = Some(ev);
        cell.invoke(|b| (b)(ev.take().expect("event")));
      }
    }
  }

  /// Complete one pending request: apply it, then dispatch its events. Returns false when no
  /// such request is pending.
  pub fn complete(id: usize) -> bool {
    let req = SIM.with(|s| {
      let mut s = s.borrow_mut();
      let pos = s.pending.iter().position(|r| r.id == id)?;
      Some(s.pending.remove(pos))
    });
    let req = match req {
      Some(r) => r,
      None => return false,
    };
    let target = JsValue::from_obj(req.clone());
    let mut upgrade = false;
    let result = SIM.with(|s| {
      let mut s = s.borrow_mut();
      match &req.kind {
        ReqKind::Open { name } => {
          if !s.dbs.contains_key(name) {
            s.dbs.insert(name.clone(), HashMap::new());
            upgrade = true;
          }
          JsValue::from_obj(Rc::new(DbData { name: name.clone() }))
        }
        ReqKind::GetAllKeys { db, store } => {
          let arr = js_sys::Array::new();
          if let Some(files) = s.dbs.get(db).and_then(|d| d.get(store)) {
            for k in files.keys() {
              arr.push(&JsValue::from_str(k));
            }
          }
          arr.into()
        }
        ReqKind::GetAll { db, store } => {
          let arr = js_sys::Array::new();
          if let Some(files) = s.dbs.get(db).and_then(|d| d.get(store)) {
            for v in files.values() {
              arr.push(&js_sys::Uint8Array::from(v.as_slice()).into());
            }
          }
          arr.into()
        }
        ReqKind::Put { db, store, key, bytes } => {
          if let Some(files) = s.dbs.get_mut(db).and_then(|d| d.get_mut(store)) {
            files.insert(key.clone(), bytes.clone());
          }
          JsValue::from_str(key)
        }
        ReqKind::Delete { db, store, key } => {
          if let Some(files) = s.dbs.get_mut(db).and_then(|d| d.get_mut(store)) {
            files.remove(key);
          }
          JsValue::UNDEFINED
        }
      }
    });
    *req.result.borrow_mut() = result;
    req.done.set(true);
    if upgrade {
      let f = req.onupgradeneeded.borrow().clone();
      call(f, &target);
    }
    let f = req.onsuccess.borrow().clone();
    call(f, &target);
    true
  }

  /// The page goes away: requests that did not complete never will (and run no destructor).
  pub fn close_page() {
    SIM.with(|s| {
      let mut s = s.borrow_mut();
      for r in s.pending.drain(..) {
        std::mem::forget(r);
      }
    })
  }

  /// Durable contents of one object store.
  pub fn snapshot(db: &str, store: &str) -> BTreeMap<String, Vec<u8>> {
    SIM.with(|s| s.borrow().dbs.get(db).and_then(|d| d.get(store)).cloned().unwrap_or_default())
  }

  pub fn delete_database(db: &str) {
    SIM.with(|s| {
      s.borrow_mut().dbs.remove(db);
    })
  }
}
