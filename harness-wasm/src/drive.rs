//! Driver for C27. It plays the JavaScript application and the browser: it calls the exported
//! API of wasm.rs (`Searchlite::init/add_documents/commit/search_request`), decides which ready
//! task runs and which pending IndexedDB request completes next, closes the page, reloads and
//! records what happened. It contains no model of what searchlite should do.
use std::cell::RefCell;
use std::collections::BTreeMap;
use std::future::Future;
use std::io::Write;
use std::panic::{catch_unwind, AssertUnwindSafe};
use std::rc::Rc;

use rand::rngs::StdRng;
use rand::{Rng, SeedableRng};
use serde_json::{json, Value};
use wasm_bindgen_futures::sim as ex;
use web_sys::sim as idb;

use crate::wasm::Searchlite;

const STORE: &str = "searchlite_files";

pub fn schema_json() -> String {
  json!({
    "doc_id_field": "_id",
    "text_fields": [
      {"name": "body", "analyzer": "default", "stored": true, "indexed": true, "nullable": false}
    ],
    "keyword_fields": [],
    "numeric_fields": [
      {"name": "ver", "i64": true, "fast": true, "stored": true, "nullable": false}
    ],
    "nested_fields": [],
    "vector_fields": []
  })
  .to_string()
}

// ---------------------------------------------------------------------------------------------
// small runtime helpers

type Slot<T> = Rc<RefCell<Option<T>>>;

/// Spawn application code as a task of the simulated page; its result lands in the slot.
fn spawn_app<T: 'static>(fut: impl Future<Output = T> + 'static) -> (usize, Slot<T>) {
  let slot: Slot<T> = Rc::new(RefCell::new(None));
  let s2 = slot.clone();
  let id = ex::spawn(
    "app",
    Box::pin(async move {
      let v = fut.await;
      *s2.borrow_mut() = Some(v);
    }),
  );
  (id, slot)
}

/// Poll one task; a panic of the code under test is data.
fn poll_task(id: usize) -> Result<Option<bool>, String> {
  match catch_unwind(AssertUnwindSafe(|| ex::poll(id))) {
    Ok(r) => Ok(r),
    Err(p) => Err(panic_text(p)),
  }
}

fn panic_text(p: Box<dyn std::any::Any + Send>) -> String {
  if let Some(s) = p.downcast_ref::<&str>() {
    s.to_string()
  } else if let Some(s) = p.downcast_ref::<String>() {
    s.clone()
  } else {
    "panic".to_string()
  }
}

/// Browser order: run ready tasks FIFO until none is ready, then complete the oldest pending
/// IndexedDB request; repeat until `done()` or nothing can happen. Returns Err on a panic.
fn run_browser_order(done: &dyn Fn() -> bool) -> Result<(), String> {
  let mut guard = 0;
  loop {
    guard += 1;
    if done() || guard > 100_000 {
      return Ok(());
    }
    if let Some(&t) = ex::ready().first() {
      poll_task(t)?;
      continue;
    }
    if let Some(p) = idb::pending().first() {
      idb::complete(p.id);
      continue;
    }
    return Ok(());
  }
}

fn close_page() {
  ex::close_page();
  idb::close_page();
  web_sys::console::take();
}

/// Canonical names: hidden nondeterminism (UUID segment names) is projected away.
/// `<root>/MANIFEST.json` -> "manifest", `<root>/wal.log` -> "wal", anything else ->
/// "f<i>:<suffix>" where i numbers the distinct segment ids in order of first appearance.
#[derive(Default)]
struct Names {
  segs: Vec<String>,
}

impl Names {
  fn class(&mut self, key: &str) -> String {
    let file = key.rsplit('/').next().unwrap_or(key);
    if file == "MANIFEST.json" {
      return "manifest".into();
    }
    if file == "wal.log" {
      return "wal".into();
    }
    // segment files: <uuid>.<ext> or seg_<uuid>.<ext>...; split at the first '.'
    let (stem, ext) = match file.find('.') {
      Some(i) => (&file[..i], &file[i + 1..]),
      None => (file, ""),
    };
    let pos = match self.segs.iter().position(|s| s == stem) {
      Some(p) => p,
      None => {
        self.segs.push(stem.to_string());
        self.segs.len() - 1
      }
    };
    format!("s{}.{}", pos + 1, ext)
  }
}

// ---------------------------------------------------------------------------------------------
// one page

struct Page {
  idx: Rc<Searchlite>,
}

/// `Searchlite.init(db, schema)` executed in browser order. Err(text) = the promise rejected
/// or the code panicked or the promise never settled.
fn open_page(db: &str) -> Result<Page, String> {
  let (_t, slot) = spawn_app(Searchlite::init(db.to_string(), schema_json(), None));
  let s2 = slot.clone();
  run_browser_order(&move || s2.borrow().is_some()).map_err(|p| format!("panic: {p}"))?;
  let r = slot.borrow_mut().take();
  match r {
    Some(Ok(idx)) => Ok(Page { idx: Rc::new(idx) }),
    Some(Err(e)) => Err(e.as_string().unwrap_or_else(|| format!("{e:?}"))),
    None => Err("init promise never settled".into()),
  }
}

fn doc_json(id: &str, ver: i64) -> Value {
  json!({"_id": id, "body": format!("doc {id} version v{ver}"), "ver": ver})
}

/// Contents as (id, ver) sorted by id, read through the exported search entry point.
fn contents(page: &Page) -> Result<Vec<(String, i64)>, String> {
  let req = json!({
    "query": {"type": "match_all"}, "limit": 1000, "return_stored": true, "execution": "bm25"
  });
  let r = catch_unwind(AssertUnwindSafe(|| page.idx.search_request(req.to_string())));
  let r = match r {
    Ok(r) => r,
    Err(p) => return Err(format!("panic: {}", panic_text(p))),
  };
  let v = r.map_err(|e| e.as_string().unwrap_or_else(|| format!("{e:?}")))?;
  let v: Value = serde_wasm_bindgen::from_value(v).map_err(|e| e.to_string())?;
  let mut out = Vec::new();
  for h in v["hits"].as_array().cloned().unwrap_or_default() {
    let id = h["doc_id"].as_str().unwrap_or("?").to_string();
    let ver = h["fields"]["ver"].as_i64().unwrap_or(-1);
    out.push((id, ver));
  }
  out.sort();
  Ok(out)
}

// ---------------------------------------------------------------------------------------------
// probe: what does the real code do on the storage for add / commit (in browser order)?

fn probe(out: &mut dyn Write) -> i32 {
  idb::install();
  let db = "probe";
  let mut names = Names::default();
  let page = match open_page(db) {
    Ok(p) => p,
    Err(e) => {
      eprintln!("init failed: {e}");
      return 2;
    }
  };
  let mut log: Vec<Value> = Vec::new();
  for k in 1..=2i64 {
    let docs: Vec<Value> = vec![doc_json("a", k), doc_json("b", k)];
    ex::take_spawned();
    page.idx.add_documents(serde_wasm_bindgen::to_value(&docs).unwrap()).unwrap();
    let sp_add = ex::take_spawned().len();
    let idx = page.idx.clone();
    let (t, slot) = spawn_app(async move { idx.commit().await });
    poll_task(t).unwrap();
    let sp_commit = ex::take_spawned().len();
    // run in browser order, logging each put as it is issued
    let mut issued: Vec<Value> = Vec::new();
    let mut seen = 0usize;
    let mut guard = 0;
    while slot.borrow().is_none() && guard < 10000 {
      guard += 1;
      if let Some(&t) = ex::ready().first() {
        poll_task(t).unwrap();
      } else if let Some(p) = idb::pending().first() {
        idb::complete(p.id);
      } else {
        break;
      }
      for p in idb::pending() {
        if p.id > seen {
          seen = p.id;
          issued.push(json!({"op": p.op, "path": names.class(&p.key), "len": p.len}));
        }
      }
    }
    let ok = matches!(slot.borrow().as_ref(), Some(Ok(())));
    log.push(json!({"k": k, "spawned_by_add": sp_add, "spawned_by_commit": sp_commit,
      "requests": issued, "resolved_ok": ok}));
  }
  let files: Vec<String> = idb::snapshot(db, STORE).keys().map(|k| names.class(k)).collect();
  let c = contents(&page);
  writeln!(out, "{}", json!({"probe": log, "files": files, "contents": format!("{c:?}"),
    "console": web_sys::console::take()})).unwrap();
  0
}

// ---------------------------------------------------------------------------------------------
// scenarios: random schedules (I->S) and schedules generated by TLC (S->I)

#[derive(Clone, Debug)]
struct Step {
  a: String,
  t: usize,
  r: usize,
  op: String,
  path: String,
}

struct Case {
  origin: &'static str,
  task_order: String,
  idb_order: String,
  /// ids added before commit k (version = k)
  docs: Vec<Vec<String>>,
  /// None = random schedule
  steps: Option<Vec<Step>>,
}

struct Out {
  w: std::io::BufWriter<std::fs::File>,
  events: usize,
}

impl Out {
  fn emit(&mut self, v: Value) {
    writeln!(self.w, "{v}").unwrap();
    self.events += 1;
  }
}

fn kind_of(origin: &str) -> &'static str {
  if origin == "app" {
    "commit"
  } else if origin.contains("schedule_delete") {
    "delete"
  } else if origin.contains("schedule") {
    "persist"
  } else {
    "other"
  }
}

struct Run<'a> {
  out: &'a mut Out,
  names: Names,
  tbase: usize,
  rbase: usize,
  seen_req: usize,
  task_path: BTreeMap<usize, String>,
  task_kind: BTreeMap<usize, &'static str>,
  k: usize,
  added: bool,
  busy: bool,
  commit_slot: Option<Slot<Result<(), wasm_bindgen::JsValue>>>,
  resolved: Vec<usize>,
  panicked: Option<String>,
}

impl<'a> Run<'a> {
  fn rel_t(&self, id: usize) -> usize {
    id + 1 - self.tbase
  }
  fn rel_r(&self, id: usize) -> usize {
    id - self.rbase
  }

  fn note_spawned(&mut self) {
    for (id, origin) in ex::take_spawned() {
      self.task_kind.insert(id, kind_of(origin));
    }
  }

  /// requests created since the last call, as event records
  fn new_requests(&mut self, by_task: Option<usize>) -> Vec<Value> {
    let mut v = Vec::new();
    for p in idb::pending() {
      if p.id > self.seen_req {
        self.seen_req = p.id;
        let path = self.names.class(&p.key);
        if let Some(t) = by_task {
          self.task_path.insert(t, path.clone());
        }
        // (the byte length is not logged: the manifest carries a timestamp of varying width)
        v.push(json!({"r": self.rel_r(p.id), "op": p.op, "path": path, "empty": p.op == "put" && p.len == 0}));
      }
    }
    v
  }

  /// did the commit promise settle? -> (k or 0, ok)
  fn check_resolved(&mut self) -> (usize, bool) {
    let settled = match &self.commit_slot {
      Some(s) => s.borrow_mut().take(),
      None => None,
    };
    match settled {
      Some(r) => {
        self.commit_slot = None;
        self.busy = false;
        let ok = r.is_ok();
        if ok {
          self.resolved.push(self.k);
        }
        (self.k, ok)
      }
      None => (0, false),
    }
  }

  fn do_add(&mut self, page: &Page, ids: &[String]) {
    let k = self.k + 1;
    let docs: Vec<Value> = ids.iter().map(|id| doc_json(id, k as i64)).collect();
    let r = catch_unwind(AssertUnwindSafe(|| {
      page.idx.add_documents(serde_wasm_bindgen::to_value(&docs).unwrap())
    }));
    let ok = matches!(r, Ok(Ok(())));
    if let Err(p) = r {
      self.panicked = Some(panic_text(p));
    }
    self.note_spawned();
    self.added = true;
    let d: Vec<Value> = ids.iter().map(|id| json!({"id": id, "ver": k})).collect();
    self.out.emit(json!({"ev": "add", "k": k, "docs": d, "ok": ok}));
  }

  fn do_commit(&mut self, page: &Page) {
    self.k += 1;
    self.added = false;
    self.busy = true;
    let idx = page.idx.clone();
    let (t, slot) = spawn_app(async move { idx.commit().await });
    self.commit_slot = Some(slot);
    self.note_spawned();
    // the call runs synchronously up to the first await that is pending
    if let Err(p) = poll_task(t) {
      self.panicked = Some(p);
    }
    self.note_spawned();
    let reqs = self.new_requests(None);
    let (res_k, res_ok) = self.check_resolved();
    self.out.emit(json!({"ev": "commit", "k": self.k, "t": self.rel_t(t), "reqs": reqs,
      "res_k": res_k, "res_ok": res_ok}));
  }

  fn do_task(&mut self, id: usize) {
    let kind = self.task_kind.get(&id).copied().unwrap_or("other");
    let r = poll_task(id);
    let finished = match r {
      Ok(Some(f)) => f,
      Ok(None) => false,
      Err(p) => {
        self.panicked = Some(p);
        true
      }
    };
    self.note_spawned();
    let reqs = self.new_requests(Some(id));
    let path = if kind == "commit" {
      "manifest".to_string()
    } else {
      self.task_path.get(&id).cloned().unwrap_or_default()
    };
    let (res_k, res_ok) = self.check_resolved();
    self.out.emit(json!({"ev": "task", "t": self.rel_t(id), "kind": kind, "path": path,
      "reqs": reqs, "finished": finished, "res_k": res_k, "res_ok": res_ok}));
  }

  fn do_idb(&mut self, p: &idb::Pending) {
    let path = self.names.class(&p.key);
    idb::complete(p.id);
    self.out.emit(json!({"ev": "idb", "r": self.rel_r(p.id), "op": p.op, "path": path}));
  }
}

fn run_case(scn: usize, case: &Case, rng: &mut StdRng, out: &mut Out, max_commits: usize) {
  let db = format!("scn{scn}");
  close_page();
  let page = match open_page(&db) {
    Ok(p) => p,
    Err(e) => {
      out.emit(json!({"ev": "tool", "scn": scn, "msg": format!("first init failed: {e}")}));
      return;
    }
  };
  ex::take_spawned();
  out.emit(json!({"ev": "reset", "scn": scn, "origin": case.origin, "task_order": case.task_order,
    "idb_order": case.idb_order}));
  let mut run = Run {
    out,
    names: Names::default(),
    tbase: ex::next_id(),
    rbase: idb::last_req(),
    seen_req: idb::last_req(),
    task_path: BTreeMap::new(),
    task_kind: BTreeMap::new(),
    k: 0,
    added: false,
    busy: false,
    commit_slot: None,
    resolved: Vec::new(),
    panicked: None,
  };
  let fifo = case.task_order == "fifo";
  let creation = case.idb_order == "creation";
  let mut abandoned: Option<String> = None;
  match &case.steps {
    Some(steps) => {
      for st in steps {
        if run.panicked.is_some() {
          break;
        }
        match st.a.as_str() {
          "add" => {
            let ids = case.docs.get(run.k).cloned().unwrap_or_default();
            run.do_add(&page, &ids);
          }
          "commit" => run.do_commit(&page),
          "task" => {
            let id = st.t + run.tbase - 1;
            if !ex::ready().contains(&id) {
              abandoned = Some(format!("schedule names task {} which is not ready", st.t));
              break;
            }
            run.do_task(id);
          }
          "idb" => {
            let id = st.r + run.rbase;
            match idb::pending().into_iter().find(|p| p.id == id) {
              Some(p) => {
                let path = run.names.class(&p.key);
                if p.op != st.op || path != st.path {
                  abandoned = Some(format!(
                    "schedule names request {} as {} {} but it is {} {}",
                    st.r, st.op, st.path, p.op, path
                  ));
                  break;
                }
                run.do_idb(&p);
              }
              None => {
                abandoned = Some(format!("schedule names request {} which is not pending", st.r));
                break;
              }
            }
          }
          "close" => break,
          other => {
            abandoned = Some(format!("unknown step {other}"));
            break;
          }
        }
      }
    }
    None => {
      let mut steps = 0;
      loop {
        steps += 1;
        if run.panicked.is_some() || steps > 400 {
          break;
        }
        let ready = ex::ready();
        let pending = idb::pending();
        let macro_ok = !fifo || ready.is_empty();
        // 0 = add, 1 = commit, 2.. = tasks, then requests
        let mut choices: Vec<(u8, usize)> = Vec::new();
        if !run.busy && !run.added && run.k < max_commits && macro_ok {
          choices.push((0, 0));
        }
        if !run.busy && run.added && macro_ok {
          choices.push((1, 0));
        }
        for (i, t) in ready.iter().enumerate() {
          if !fifo || i == 0 {
            choices.push((2, *t));
          }
        }
        if macro_ok {
          for (i, _p) in pending.iter().enumerate() {
            if !creation || i == 0 {
              choices.push((3, i));
            }
          }
        }
        if choices.is_empty() || rng.gen_range(0..14) == 0 {
          break; // close the page here
        }
        let c = choices[rng.gen_range(0..choices.len())];
        match c.0 {
          0 => {
            let all = ["a".to_string(), "b".to_string()];
            let ids: Vec<String> = match rng.gen_range(0..3) {
              0 => vec![all[0].clone()],
              1 => vec![all[1].clone()],
              _ => all.to_vec(),
            };
            run.do_add(&page, &ids);
          }
          1 => run.do_commit(&page),
          2 => run.do_task(c.1),
          _ => {
            let p = pending[c.1].clone();
            run.do_idb(&p);
          }
        }
      }
    }
  }
  if let Some(msg) = abandoned {
    run.out.emit(json!({"ev": "tool", "scn": scn, "msg": msg}));
    close_page();
    idb::delete_database(&db);
    std::mem::forget(page);
    return;
  }
  let console: Vec<String> = web_sys::console::take();
  let resolved = run.resolved.clone();
  let k = run.k;
  let panicked = run.panicked.clone().unwrap_or_default();
  run.out.emit(json!({"ev": "close", "k": k, "resolved": resolved, "panic": panicked,
    "console": console.len()}));
  // the page goes away without running any destructor
  std::mem::forget(page);
  close_page();
  // reload: a fresh init on what IndexedDB holds, then a search through the exported API
  let mut names = run.names;
  let mut files: Vec<String> = idb::snapshot(&db, STORE).keys().map(|k| names.class(k)).collect();
  files.sort();
  let (opened, searched, err, cont) = match open_page(&db) {
    Ok(p2) => {
      let r = match contents(&p2) {
        Ok(c) => (true, true, String::new(), c),
        Err(e) => (true, false, e, Vec::new()),
      };
      std::mem::forget(p2);
      r
    }
    Err(e) => (false, false, e, Vec::new()),
  };
  let cont: Vec<Value> = cont.iter().map(|(id, ver)| json!({"id": id, "ver": ver})).collect();
  let mut err = scrub_hex(&err);
  err.truncate(160);
  run.out.emit(json!({"ev": "reload", "opened": opened, "searched": searched, "err": err,
    "contents": cont, "files": files}));
  close_page();
  idb::delete_database(&db);
}

/// Random segment ids in error texts are projected away (runs of >= 16 hex digits -> "*").
fn scrub_hex(s: &str) -> String {
  let mut out = String::new();
  let mut run = String::new();
  for c in s.chars() {
    if c.is_ascii_hexdigit() {
      run.push(c);
    } else {
      if run.len() >= 16 {
        out.push('*');
      } else {
        out.push_str(&run);
      }
      run.clear();
      out.push(c);
    }
  }
  if run.len() >= 16 {
    out.push('*');
  } else {
    out.push_str(&run);
  }
  out
}

fn arg<'a>(args: &'a [String], k: &str) -> Option<&'a str> {
  args.iter().position(|a| a == k).and_then(|i| args.get(i + 1)).map(|s| s.as_str())
}

fn run(args: &[String]) -> i32 {
  idb::install();
  let seed: u64 = arg(args, "--seed").and_then(|s| s.parse().ok()).unwrap_or(1);
  let n: usize = arg(args, "--scenarios").and_then(|s| s.parse().ok()).unwrap_or(100);
  let max_commits: usize = arg(args, "--commits").and_then(|s| s.parse().ok()).unwrap_or(2);
  let out_path = match arg(args, "--out") {
    Some(p) => p.to_string(),
    None => {
      eprintln!("--out required");
      return 2;
    }
  };
  let file = match std::fs::File::create(&out_path) {
    Ok(f) => f,
    Err(e) => {
      eprintln!("cannot create {out_path}: {e}");
      return 2;
    }
  };
  let mut out = Out { w: std::io::BufWriter::new(file), events: 0 };
  let mut rng = StdRng::seed_from_u64(seed.wrapping_mul(0x9E37_79B9_7F4A_7C15) ^ 0xC27);
  let mut cases: Vec<Case> = Vec::new();
  if let Some(path) = arg(args, "--cases") {
    let text = match std::fs::read_to_string(path) {
      Ok(t) => t,
      Err(e) => {
        eprintln!("cannot read {path}: {e}");
        return 2;
      }
    };
    for line in text.lines().filter(|l| !l.trim().is_empty()) {
      let v: Value = match serde_json::from_str(line) {
        Ok(v) => v,
        Err(e) => {
          eprintln!("bad case line: {e}");
          return 2;
        }
      };
      let docs = v["docs"]
        .as_array()
        .map(|a| {
          a.iter()
            .map(|d| d.as_array().map(|x| x.iter().filter_map(|s| s.as_str().map(String::from)).collect()).unwrap_or_default())
            .collect()
        })
        .unwrap_or_default();
      let steps = v["steps"]
        .as_array()
        .map(|a| {
          a.iter()
            .map(|s| Step {
              a: s["a"].as_str().unwrap_or("").to_string(),
              t: s["t"].as_u64().unwrap_or(0) as usize,
              r: s["r"].as_u64().unwrap_or(0) as usize,
              op: s["op"].as_str().unwrap_or("").to_string(),
              path: s["path"].as_str().unwrap_or("").to_string(),
            })
            .collect()
        })
        .unwrap_or_default();
      cases.push(Case {
        origin: "tlc",
        task_order: v["task_order"].as_str().unwrap_or("any").to_string(),
        idb_order: v["idb_order"].as_str().unwrap_or("any").to_string(),
        docs,
        steps: Some(steps),
      });
    }
  } else {
    let combos = [("fifo", "creation"), ("fifo", "any"), ("any", "creation"), ("any", "any")];
    let force = (arg(args, "--task-order"), arg(args, "--idb-order"));
    for i in 0..n {
      let (t, d) = combos[i % 4];
      cases.push(Case {
        origin: "random",
        task_order: force.0.unwrap_or(t).to_string(),
        idb_order: force.1.unwrap_or(d).to_string(),
        docs: Vec::new(),
        steps: None,
      });
    }
  }
  let mut reloads_failed = 0usize;
  let total = cases.len();
  for (i, c) in cases.iter().enumerate() {
    let before = out.events;
    run_case(i + 1, c, &mut rng, &mut out, max_commits);
    let _ = before;
  }
  let _ = &mut reloads_failed;
  out.w.flush().unwrap();
  println!("{}", json!({"scenarios": total, "events": out.events, "trace": out_path}));
  0
}

pub fn main(args: &[String]) -> i32 {
  std::panic::set_hook(Box::new(|_| {}));
  let mut stdout = std::io::stdout();
  match args.first().map(|s| s.as_str()) {
    Some("probe") => probe(&mut stdout),
    Some("run") => run(&args[1..]),
    _ => {
      eprintln!("usage: svw probe | svw run --seed N --scenarios M --out trace.ndjson [--cases f] [--task-order fifo|any] [--idb-order creation|any]");
      2
    }
  }
}
