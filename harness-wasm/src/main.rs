//! svw: drives the UNMODIFIED /repo/searchlite-wasm/src/wasm.rs natively (property C27).
//! The `wasm` module below is the real source file, compiled against the shim crates in shims/.
#![allow(dead_code)]
#[path = "/repo/searchlite-wasm/src/wasm.rs"]
mod wasm;

mod drive;

fn main() {
  let args: Vec<String> = std::env::args().skip(1).collect();
  let code = drive::main(&args);
  std::process::exit(code);
}
