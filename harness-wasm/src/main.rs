#![allow(dead_code)]
#[path = "/repo/searchlite-wasm/src/wasm.rs"]
mod wasm;

fn main() {
  println!("ok");
}
