//! `svh adhoc --spec file.json`: build an index from a literal description and run literal
//! requests; prints one JSON line per request. Used to confirm witnesses that TLC produced.
//! spec = {"schema": {...}, "commits": [[doc, ...], ...], "deletes": [[id..] per commit] (optional),
//!         "requests": [search request JSON, ...]}
use anyhow::Result;
use serde_json::{json, Value};

use searchlite_core::api::types::StorageType;
use searchlite_core::api::Index;

use crate::util::*;

pub fn main(args: &Args) -> Result<()> {
  let spec: Value = serde_json::from_str(&std::fs::read_to_string(args.str("spec", "spec.json"))?)?;
  let scratch = Scratch::new("adhoc");
  let root = scratch.join("idx");
  let schema = schema_from_json(spec["schema"].clone());
  let idx = Index::create(&root, schema, opts(&root, StorageType::Filesystem))?;
  let mut w = idx.writer()?;
  for (i, commit) in spec["commits"].as_array().cloned().unwrap_or_default().iter().enumerate() {
    for d in commit.as_array().cloned().unwrap_or_default() {
      w.add_document(&doc_from_json(d))?;
    }
    if let Some(ids) = spec["deletes"].get(i).and_then(|x| x.as_array()) {
      for id in ids {
        w.delete_document(id.as_str().unwrap_or(""))?;
      }
    }
    w.commit()?;
  }
  drop(w);
  let reader = idx.reader()?;
  for req in spec["requests"].as_array().cloned().unwrap_or_default() {
    let res = crate::search::run_search(&reader, &req);
    match res {
      Ok(r) => println!(
        "{}",
        json!({"ok": true, "total": r.total_hits_estimate,
               "hits": r.hits.iter().map(|h| json!([h.doc_id, h.score])).collect::<Vec<_>>(),
               "aggs": r.aggregations, "cursor": r.next_cursor})
      ),
      Err(e) => println!("{}", json!({"ok": false, "err": e})),
    }
  }
  Ok(())
}
