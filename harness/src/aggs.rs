//! Aggregation drivers (C12, C13, C30): random aggregation trees over random corpora, executed by
//! the real reader and logged as CANONICAL abstract structures (bucket keys as strings / integers,
//! counts, metrics as fixed-point integers; no floats, no nulls) for Trace_Aggs.tla.
//!
//!   --mode layouts  (C12) one corpus committed under 3-5 segment layouts, same requests on each
//!   --mode paging   (C13) one request under many variations (cursor walk pages, limits, sort
//!                         plans, return_hits, execution strategies, explain/profile, rescore)
//!   --mode walks    (C30) composite aggregations paged by feeding after_key back as after
//!
//! The harness only renders requests, runs them and re-shapes the responses; the expected values
//! are computed by the specification (spec/Aggs.tla).

use std::collections::BTreeMap;

use anyhow::{anyhow, bail, Result};
use rand::rngs::StdRng;
use rand::seq::SliceRandom;
use rand::Rng;
use serde_json::{json, Value};

use searchlite_core::api::reader::SearchResult;
use searchlite_core::api::{Index, IndexReader};

use crate::corpus::*;
use crate::qgen::*;
use crate::search::{abstract_sort, base_request, gen_sort, render_sort, run_search, sbits, SortSpecA};
use crate::util::*;

// ------------------------------------------------------------------------------------------------
// aggregation trees
// ------------------------------------------------------------------------------------------------

#[derive(Clone, Debug)]
pub struct Src {
  pub terms: bool,
  pub name: String,
  pub field: String,
  pub fk: &'static str,
  pub iv4: i64,
  /// an interval that is no multiple of 1/4 (0.7, 0.1): only the relational clauses of C30 are
  /// judged then (keys are compared as text)
  pub iv_raw: Option<f64>,
}

#[derive(Clone, Debug)]
pub struct RangeA {
  pub key: Option<String>,
  pub from8: Option<i64>,
  pub to8: Option<i64>,
}

type Subs = Vec<(String, A)>;

#[derive(Clone, Debug)]
pub enum A {
  Terms { field: String, size: Option<usize>, shard: Option<usize>, mdc: Option<u64>, missing: Option<String>, subs: Subs },
  Rare { field: String, maxdc: Option<u64>, size: Option<usize>, subs: Subs },
  /// `date`: rendered as date_range (bounds as strings)
  Range { field: String, fk: &'static str, date: bool, keyed: bool, ranges: Vec<RangeA>, missing4: Option<i64>, subs: Subs },
  /// `date`: rendered as date_histogram with a fixed_interval in whole milliseconds over an i64 field
  Hist { field: String, fk: &'static str, date: bool, iv4: i64, off4: Option<i64>, mdc: Option<u64>, ext4: Option<(i64, i64)>, hard8: Option<(i64, i64)>, missing4: Option<i64>, subs: Subs },
  Metric { kind: &'static str, field: String, fk: &'static str, missing4: Option<i64> },
  Card { field: String, fk: &'static str, missing: Option<String>, missing4: Option<i64>, threshold: Option<usize> },
  Pct { field: String, fk: &'static str, percents: Option<Vec<i64>>, missing4: Option<i64> },
  Pctr { field: String, fk: &'static str, values4: Vec<i64>, missing4: Option<i64> },
  Filter { f: F, subs: Subs },
  Comp { sources: Vec<Src>, size: usize, after: Option<Value>, after_parts: Vec<Value>, subs: Subs },
  TopHits { size: usize, from: usize, sort: Vec<SortSpecA> },
}

const KW_FIELDS: [&str; 2] = ["tag", "cat"];
/// (field, kind, lowest value, highest value) in natural units
const NUM_FIELDS: [(&str, &str, i64, i64); 4] = [("year", "i64", 2018, 2024), ("rank", "i64", 0, 6), ("price", "f64", 0, 6), ("ver", "i64", 1, 30)];

fn num_field(r: &mut StdRng) -> (&'static str, &'static str, i64, i64) {
  // `ver` rarely: its values differ per document, which makes buckets trivial
  if chance(r, 1, 10) {
    NUM_FIELDS[3]
  } else {
    NUM_FIELDS[r.gen_range(0..3)]
  }
}

/// a `missing` fill in quarters: whole numbers for i64 fields, quarters for the f64 field
fn gen_missing4(r: &mut StdRng, fk: &str, lo: i64, hi: i64) -> Option<i64> {
  if !chance(r, 1, 3) {
    return None;
  }
  Some(if fk == "i64" { 4 * r.gen_range(lo..=hi + 2) } else { r.gen_range(4 * lo..=4 * hi + 8) })
}

fn opt<T>(r: &mut StdRng, num: u32, den: u32, f: impl FnOnce(&mut StdRng) -> T) -> Option<T> {
  if chance(r, num, den) {
    Some(f(r))
  } else {
    None
  }
}

pub struct AggCfg {
  pub composite: bool,
  pub top_hits: bool,
}

fn gen_subs(r: &mut StdRng, depth: usize, cfg: &AggCfg) -> Subs {
  if depth == 0 {
    return vec![];
  }
  let n = *pick(r, &[0usize, 0, 1, 1, 1, 2]);
  (0..n).map(|i| (format!("s{i}"), gen_agg(r, depth - 1, cfg))).collect()
}

fn gen_metric(r: &mut StdRng, cfg: &AggCfg) -> A {
  let (f, fk, lo, hi) = num_field(r);
  let field = f.to_string();
  match r.gen_range(0..9) {
    0 | 1 => A::Metric { kind: "stats", field, fk, missing4: gen_missing4(r, fk, lo, hi) },
    2 => A::Metric { kind: "estats", field, fk, missing4: gen_missing4(r, fk, lo, hi) },
    3 => A::Metric { kind: "vcount", field, fk, missing4: gen_missing4(r, fk, lo, hi) },
    4 => {
      if chance(r, 1, 2) {
        let kf = pick(r, &KW_FIELDS).to_string();
        let missing = opt(r, 1, 3, |r| pick(r, &["zz", "red", "news"]).to_string());
        A::Card { field: kf, fk: "kw", missing, missing4: None, threshold: opt(r, 1, 3, |r| r.gen_range(100..=3000)) }
      } else {
        A::Card { field, fk, missing: None, missing4: gen_missing4(r, fk, lo, hi), threshold: opt(r, 1, 3, |r| r.gen_range(100..=3000)) }
      }
    }
    5 => {
      let percents = opt(r, 2, 3, |r| {
        let mut p: Vec<i64> = [0i64, 1, 5, 25, 50, 75, 95, 99, 100].iter().copied().filter(|_| chance(r, 1, 3)).collect();
        if p.is_empty() {
          p.push(50);
        }
        p
      });
      A::Pct { field, fk, percents, missing4: gen_missing4(r, fk, lo, hi) }
    }
    6 => {
      let n = r.gen_range(1..=3);
      let values4 = (0..n).map(|_| if fk == "i64" && chance(r, 2, 3) { 4 * r.gen_range(lo - 1..=hi + 1) } else { r.gen_range(4 * lo - 2..=4 * hi + 2) }).collect();
      A::Pctr { field, fk, values4, missing4: gen_missing4(r, fk, lo, hi) }
    }
    7 if cfg.top_hits => {
      let mut sort: Vec<SortSpecA> = gen_sort(r).into_iter().filter(|s| s.kind != "score").collect();
      if sort.is_empty() {
        sort.push(SortSpecA { field: "year".into(), kind: "i64", desc: Some(chance(r, 1, 2)) });
      }
      A::TopHits { size: r.gen_range(1..=3), from: if chance(r, 1, 4) { 1 } else { 0 }, sort }
    }
    _ => A::Metric { kind: "stats", field, fk, missing4: None },
  }
}

pub fn gen_comp(r: &mut StdRng, size: usize, subs: Subs) -> A {
  let n = *pick(r, &[1usize, 2, 2, 3]);
  let mut sources: Vec<Src> = Vec::new();
  for i in 0..n {
    if chance(r, 1, 2) {
      let f = *pick(r, &KW_FIELDS);
      sources.push(Src { terms: true, name: format!("k{i}"), field: f.to_string(), fk: "kw", iv4: 0, iv_raw: None });
    } else {
      let (f, fk, _, _) = num_field(r);
      let iv4 = *pick(r, &[4i64, 8, 2, 6, 12, 1]);
      sources.push(Src { terms: false, name: format!("k{i}"), field: f.to_string(), fk, iv4, iv_raw: None });
    }
  }
  A::Comp { sources, size, after: None, after_parts: vec![], subs }
}

pub fn gen_agg(r: &mut StdRng, depth: usize, cfg: &AggCfg) -> A {
  if depth == 0 {
    return gen_metric(r, cfg);
  }
  match r.gen_range(0..12) {
    0..=2 => {
      let field = pick(r, &KW_FIELDS).to_string();
      A::Terms {
        field,
        size: opt(r, 1, 2, |r| r.gen_range(1..=4)),
        shard: opt(r, 1, 6, |_| 50),
        mdc: opt(r, 1, 2, |r| r.gen_range(1..=3)),
        missing: opt(r, 1, 4, |r| pick(r, &["zz", "red", "news", "Blue"]).to_string()),
        subs: gen_subs(r, depth, cfg),
      }
    }
    3 => A::Rare {
      field: pick(r, &KW_FIELDS).to_string(),
      maxdc: opt(r, 2, 3, |r| r.gen_range(1..=3)),
      size: opt(r, 1, 3, |r| r.gen_range(1..=3)),
      subs: gen_subs(r, depth, cfg),
    },
    4 | 5 => {
      let (f, fk, lo, hi) = num_field(r);
      let n = r.gen_range(1..=3);
      let keyed_names = chance(r, 2, 3);
      let ranges = (0..n)
        .map(|i| {
          // bounds in eighths, odd: never equal to a value (quarters)
          let a = 2 * r.gen_range(4 * lo - 2..=4 * hi + 2) + 1;
          let b = a + 2 * r.gen_range(1..=12);
          let (from8, to8) = match r.gen_range(0..5) {
            0 => (None, Some(b)),
            1 => (Some(a), None),
            _ => (Some(a), Some(b)),
          };
          RangeA { key: if keyed_names { Some(format!("r{i}")) } else { None }, from8, to8 }
        })
        .collect();
      // distinct bounds, except for one deliberate duplicate (same range and key twice: both buckets must
      // carry the same count; known finding S12c) - then without sub-aggregations
      let mut ranges: Vec<RangeA> = ranges;
      let mut seen: Vec<(Option<i64>, Option<i64>)> = Vec::new();
      ranges.retain(|x| {
        let k = (x.from8, x.to8);
        if seen.contains(&k) {
          false
        } else {
          seen.push(k);
          true
        }
      });
      let dup = ranges.len() < 3 && chance(r, 1, 8);
      if dup {
        ranges.push(ranges[0].clone());
      }
      let subs = if dup { vec![] } else { gen_subs(r, depth, cfg) };
      A::Range { field: f.to_string(), fk, date: chance(r, 1, 4), keyed: chance(r, 1, 3), ranges, missing4: gen_missing4(r, fk, lo, hi), subs }
    }
    6 if chance(r, 1, 2) => {
      // date_histogram: the i64 fields read as milliseconds, whole-millisecond interval / offset / bounds
      let (f, fk, lo, hi) = NUM_FIELDS[*pick(r, &[0usize, 0, 1, 3])];
      let iv4 = 4 * *pick(r, &[1i64, 2, 2, 3, 5]);
      let off4 = opt(r, 1, 3, |r| 4 * r.gen_range(0..(iv4 / 4).max(2)));
      let ext4 = opt(r, 1, 3, |r| {
        let a = 4 * r.gen_range(lo - 3..=hi);
        (a, a + 4 * r.gen_range(0..=6))
      });
      let mdc = match r.gen_range(0..4) {
        0 => None,
        1 => Some(0),
        2 => Some(1),
        _ => Some(r.gen_range(2..=3)),
      };
      let missing4 = opt(r, 1, 4, |r| 4 * r.gen_range(lo..=hi + 2));
      A::Hist { field: f.to_string(), fk, date: true, iv4, off4, mdc, ext4, hard8: None, missing4, subs: gen_subs(r, depth, cfg) }
    }
    6..=8 => {
      let (f, fk, lo, hi) = num_field(r);
      let iv4 = *pick(r, &[4i64, 8, 2, 6, 12, 1, 4, 8]);
      let off4 = opt(r, 1, 3, |r| r.gen_range(0..iv4.max(2)));
      let (mut ext4, mut hard8) = (None, None);
      match r.gen_range(0..6) {
        0 | 1 => {
          let a = r.gen_range(4 * lo - 8..=4 * hi);
          ext4 = Some((a, a + r.gen_range(0..=16)));
        }
        2 => {
          let a = 2 * r.gen_range(4 * lo - 4..=4 * hi) + 1;
          hard8 = Some((a, a + 2 * r.gen_range(2..=16)));
        }
        _ => {}
      }
      let mdc = match r.gen_range(0..4) {
        0 => None,
        1 => Some(0),
        2 => Some(1),
        _ => Some(r.gen_range(2..=3)),
      };
      A::Hist { field: f.to_string(), fk, date: false, iv4, off4, mdc, ext4, hard8, missing4: gen_missing4(r, fk, lo, hi), subs: gen_subs(r, depth, cfg) }
    }
    9 => A::Filter { f: gen_filter(r, 1, false, ""), subs: gen_subs(r, depth, cfg) },
    10 if cfg.composite => {
      let size = if chance(r, 1, 2) { 1000 } else { r.gen_range(1..=5) };
      let subs = gen_subs(r, depth, cfg);
      gen_comp(r, size, subs)
    }
    _ => gen_metric(r, cfg),
  }
}

pub fn gen_aggs(r: &mut StdRng, cfg: &AggCfg) -> Subs {
  let n = *pick(r, &[1usize, 1, 2, 2, 3]);
  (0..n)
    .map(|i| {
      let depth = *pick(r, &[0usize, 1, 1, 2, 2, 3]);
      (format!("a{i}"), gen_agg(r, depth, cfg))
    })
    .collect()
}

// ------------------------------------------------------------------------------------------------
// rendering to the public API
// ------------------------------------------------------------------------------------------------

fn q4f(v4: i64) -> f64 {
  v4 as f64 / 4.0
}

fn missing_num(fk: &str, m4: &Option<i64>) -> Value {
  match m4 {
    None => Value::Null,
    Some(v) if fk == "i64" => json!(v / 4),
    Some(v) => json!(q4f(*v)),
  }
}

fn render_subs(subs: &Subs) -> Value {
  let mut m = serde_json::Map::new();
  for (name, a) in subs {
    m.insert(name.clone(), render_agg(a));
  }
  Value::Object(m)
}

fn with_subs(mut v: Value, subs: &Subs) -> Value {
  if !subs.is_empty() {
    v["aggs"] = render_subs(subs);
  }
  v
}

pub fn render_agg(a: &A) -> Value {
  match a {
    A::Terms { field, size, shard, mdc, missing, subs } => with_subs(json!({"type": "terms", "field": field, "size": size, "shard_size": shard, "min_doc_count": mdc, "missing": missing}), subs),
    A::Rare { field, maxdc, size, subs } => {
      let mut v = json!({"type": "rare_terms", "field": field});
      if let Some(m) = maxdc {
        v["max_doc_count"] = json!(m);
      }
      if let Some(s) = size {
        v["size"] = json!(s);
      }
      with_subs(v, subs)
    }
    A::Range { field, fk, date: true, keyed, ranges, missing4, subs } => with_subs(
      json!({"type": "date_range", "field": field, "keyed": keyed, "format": null, "missing": missing_num(fk, missing4),
             "ranges": ranges.iter().map(|x| json!({"key": x.key, "from": x.from8.map(|v| format!("{}", v as f64 / 8.0)), "to": x.to8.map(|v| format!("{}", v as f64 / 8.0))})).collect::<Vec<_>>()}),
      subs,
    ),
    A::Hist { field, date: true, iv4, off4, mdc, ext4, missing4, subs, .. } => with_subs(
      json!({"type": "date_histogram", "field": field, "calendar_interval": null, "fixed_interval": format!("{}ms", iv4 / 4),
             "offset": off4.map(|o| format!("{}ms", o / 4)), "format": null, "min_doc_count": mdc,
             "extended_bounds": ext4.map(|(a, b)| json!({"min": format!("{}", a / 4), "max": format!("{}", b / 4)})),
             "hard_bounds": null, "missing": missing4.map(|m| format!("{}", m / 4))}),
      subs,
    ),
    A::Range { field, fk, keyed, ranges, missing4, subs, .. } => with_subs(
      json!({"type": "range", "field": field, "keyed": keyed, "missing": missing_num(fk, missing4),
             "ranges": ranges.iter().map(|x| json!({"key": x.key, "from": x.from8.map(|v| v as f64 / 8.0), "to": x.to8.map(|v| v as f64 / 8.0)})).collect::<Vec<_>>()}),
      subs,
    ),
    A::Hist { field, iv4, off4, mdc, ext4, hard8, missing4, subs, .. } => with_subs(
      json!({"type": "histogram", "field": field, "interval": q4f(*iv4), "offset": off4.map(q4f), "min_doc_count": mdc,
             "extended_bounds": ext4.map(|(a, b)| json!({"min": q4f(a), "max": q4f(b)})),
             "hard_bounds": hard8.map(|(a, b)| json!({"min": a as f64 / 8.0, "max": b as f64 / 8.0})),
             "missing": missing4.map(q4f)}),
      subs,
    ),
    A::Metric { kind, field, fk, missing4 } => {
      let t = match *kind {
        "stats" => "stats",
        "estats" => "extended_stats",
        _ => "value_count",
      };
      json!({"type": t, "field": field, "missing": missing_num(fk, missing4)})
    }
    A::Card { field, fk, missing, missing4, threshold } => {
      let mut v = json!({"type": "cardinality", "field": field});
      if let Some(m) = missing {
        v["missing"] = json!(m);
      } else if missing4.is_some() {
        v["missing"] = missing_num(fk, missing4);
      }
      if let Some(t) = threshold {
        v["precision_threshold"] = json!(t);
      }
      v
    }
    A::Pct { field, fk, percents, missing4 } => {
      let mut v = json!({"type": "percentiles", "field": field});
      if let Some(p) = percents {
        v["percents"] = json!(p.iter().map(|x| *x as f64).collect::<Vec<_>>());
      }
      if missing4.is_some() {
        v["missing"] = missing_num(fk, missing4);
      }
      v
    }
    A::Pctr { field, fk, values4, missing4 } => {
      let mut v = json!({"type": "percentile_ranks", "field": field, "values": values4.iter().map(|x| q4f(*x)).collect::<Vec<_>>()});
      if missing4.is_some() {
        v["missing"] = missing_num(fk, missing4);
      }
      v
    }
    A::Filter { f, subs } => with_subs(json!({"type": "filter", "filter": render_filter(f)}), subs),
    A::Comp { sources, size, after, subs, .. } => {
      let mut v = json!({"type": "composite", "size": size,
        "sources": sources.iter().map(|s| if s.terms { json!({"type": "terms", "name": s.name, "field": s.field}) }
                                          else { json!({"type": "histogram", "name": s.name, "field": s.field, "interval": s.iv_raw.unwrap_or(q4f(s.iv4))}) }).collect::<Vec<_>>()});
      if let Some(a) = after {
        v["after"] = a.clone();
      }
      with_subs(v, subs)
    }
    A::TopHits { size, from, sort } => json!({"type": "top_hits", "size": size, "from": from, "sort": render_sort(sort)}),
  }
}

// ------------------------------------------------------------------------------------------------
// abstract form for the specification (spec/Aggs.tla, header comment)
// ------------------------------------------------------------------------------------------------

fn abstract_subs(subs: &Subs, dict: &mut Dict) -> Value {
  Value::Array(subs.iter().map(|(n, a)| json!({"name": n, "a": abstract_agg(a, dict)})).collect())
}

pub fn abstract_agg(a: &A, dict: &mut Dict) -> Value {
  let m4 = |m: &Option<i64>| (m.is_some(), m.unwrap_or(0));
  match a {
    A::Terms { field, size, shard, mdc, missing, subs } => {
      if let Some(m) = missing {
        dict.add(m);
      }
      json!({"t": "terms", "f": field, "size": size.unwrap_or(0), "hassize": size.is_some(), "shard": shard.unwrap_or(0),
             "hasshard": shard.is_some(), "mdc": mdc.unwrap_or(1), "hasmissing": missing.is_some(),
             "missing": missing.clone().unwrap_or_default(), "subs": abstract_subs(subs, dict)})
    }
    A::Rare { field, maxdc, size, subs } => json!({"t": "rare", "f": field, "maxdc": maxdc.unwrap_or(1), "size": size.unwrap_or(0),
             "hassize": size.is_some(), "hasmissing": false, "missing": "", "subs": abstract_subs(subs, dict)}),
    A::Range { field, fk, ranges, missing4, subs, .. } => json!({"t": "range", "f": field, "fk": fk,
             "ranges": ranges.iter().map(|x| json!({"key": x.key.clone().unwrap_or_else(|| range_id(x.from8, x.to8)), "hasfrom": x.from8.is_some(), "from8": x.from8.unwrap_or(0),
                                                     "hasto": x.to8.is_some(), "to8": x.to8.unwrap_or(0)})).collect::<Vec<_>>(),
             "hasmissing": m4(missing4).0, "missing4": m4(missing4).1, "subs": abstract_subs(subs, dict)}),
    A::Hist { field, fk, date, iv4, off4, mdc, ext4, hard8, missing4, subs } => json!({"t": "hist", "f": field, "fk": fk, "iv4": iv4, "off4": off4.unwrap_or(0),
             "hasmdc": mdc.is_some(), "mdc": mdc.unwrap_or(0), "hasext": ext4.is_some(), "extmin4": ext4.map(|x| x.0).unwrap_or(0),
             "extmax4": ext4.map(|x| x.1).unwrap_or(0), "hashard": hard8.is_some(), "hardmin8": hard8.map(|x| x.0).unwrap_or(0),
             "hardmax8": hard8.map(|x| x.1).unwrap_or(0), "hasmissing": m4(missing4).0, "missing4": m4(missing4).1,
             "rnd": if *date { "either" } else { "floor" }, "subs": abstract_subs(subs, dict)}),
    A::Metric { kind, field, fk, missing4 } => json!({"t": kind, "f": field, "fk": fk, "hasmissing": m4(missing4).0, "missing4": m4(missing4).1}),
    A::Card { field, fk, missing, missing4, .. } => {
      if let Some(m) = missing {
        dict.add(m);
      }
      json!({"t": "card", "f": field, "fk": fk, "hasmissing": missing.is_some() || missing4.is_some(),
             "missing": missing.clone().unwrap_or_default(), "missing4": missing4.unwrap_or(0)})
    }
    A::Pct { field, fk, percents, missing4 } => json!({"t": "pct", "f": field, "fk": fk,
             "percents": percents.clone().unwrap_or_else(|| vec![1, 5, 25, 50, 75, 95, 99]),
             "hasmissing": m4(missing4).0, "missing4": m4(missing4).1}),
    A::Pctr { field, fk, values4, missing4 } => json!({"t": "pctr", "f": field, "fk": fk, "values4": values4,
             "hasmissing": m4(missing4).0, "missing4": m4(missing4).1}),
    A::Filter { f, subs } => json!({"t": "filter", "g": abstract_filter(f, dict), "subs": abstract_subs(subs, dict)}),
    A::Comp { sources, size, after, after_parts, subs } => json!({"t": "comp",
             "sources": sources.iter().map(|s| json!({"k": if s.terms { "terms" } else { "hist" }, "name": s.name, "f": s.field, "fk": s.fk, "iv4": s.iv4})).collect::<Vec<_>>(),
             "size": size, "hasafter": after.is_some(), "after": after_parts, "subs": abstract_subs(subs, dict)}),
    A::TopHits { size, from, sort } => json!({"t": "tophits", "size": size, "from": from, "sort": abstract_sort(sort)}),
  }
}

pub fn abstract_aggs(aggs: &Subs, dict: &mut Dict) -> Value {
  abstract_subs(aggs, dict)
}

// ------------------------------------------------------------------------------------------------
// canonical responses
// ------------------------------------------------------------------------------------------------

/// x * scale as an integer and whether that is exact (to 1e-6)
fn fixed(x: f64, scale: f64) -> (i64, bool) {
  let y = x * scale;
  let r = y.round();
  let ok = y.is_finite() && (y - r).abs() < 1e-6 && r.abs() < 2.0e9;
  (if y.is_finite() && r.abs() < 2.0e9 { r as i64 } else { 2_000_000_000 }, ok)
}

fn rnd(x: f64, scale: f64) -> i64 {
  fixed(x, scale).0
}

/// identity of a range without a `key`: its bounds in eighths (the response carries them as an object)
fn range_id(from8: Option<i64>, to8: Option<i64>) -> String {
  let f = |v: Option<i64>| v.map(|x| x.to_string()).unwrap_or_else(|| "-".to_string());
  format!("#{}:{}", f(from8), f(to8))
}

fn range_key(k: &Value) -> Value {
  match k.as_str() {
    Some(s) => kstr(s),
    None => {
      let g = |name: &str| k.get(name).and_then(|v| v.as_f64()).map(|x| rnd(x, 8.0));
      kstr(&range_id(g("from"), g("to")))
    }
  }
}

fn kstr(s: &str) -> Value {
  json!({"s": s, "n": 0, "isnum": false})
}

fn knum(v: &Value) -> Value {
  match v.as_f64() {
    Some(x) => {
      let (n, ok) = fixed(x, 4.0);
      if ok {
        json!({"s": "", "n": n, "isnum": true})
      } else {
        json!({"s": format!("inexact:{x}"), "n": n, "isnum": true})
      }
    }
    None => json!({"s": format!("notnum:{v}"), "n": 0, "isnum": true}),
  }
}

fn comp_key(sources: &[Src], key: &Value) -> Vec<Value> {
  sources
    .iter()
    .map(|s| {
      let v = key.get(&s.name).cloned().unwrap_or(Value::Null);
      if s.terms {
        match v.as_str() {
          Some(x) => kstr(x),
          None => kstr(&format!("notstr:{v}")),
        }
      } else if s.iv_raw.is_some() {
        kstr(&v.to_string())
      } else {
        knum(&v)
      }
    })
    .collect()
}

fn canon_subs(subs: &Subs, resp: Option<&Value>) -> Value {
  Value::Array(
    subs
      .iter()
      .map(|(name, a)| {
        let r = resp.and_then(|m| m.get(name));
        json!({"name": name, "r": match r { Some(x) => canon(a, x), None => json!({"t": "absent"}) }})
      })
      .collect(),
  )
}

fn canon_buckets(a: &A, subs: &Subs, resp: &Value, key_of: &dyn Fn(&Value) -> Vec<Value>) -> Value {
  let bs: Vec<Value> = resp["buckets"]
    .as_array()
    .cloned()
    .unwrap_or_default()
    .iter()
    .map(|b| json!({"key": key_of(&b["key"]), "n": b["doc_count"].as_u64().unwrap_or(0), "subs": canon_subs(subs, b.get("aggregations"))}))
    .collect();
  let (hasafter, after) = match (a, resp.get("after_key")) {
    (A::Comp { sources, .. }, Some(k)) if !k.is_null() => (true, comp_key(sources, k)),
    _ => (false, vec![]),
  };
  json!({"t": "buckets", "bs": bs, "hasafter": hasafter, "after": after})
}

/// Re-shape one aggregation response (as serialised by the library) along its request.
pub fn canon(a: &A, resp: &Value) -> Value {
  let ty = resp["type"].as_str().unwrap_or("");
  let want = match a {
    A::Terms { .. } => "terms",
    A::Rare { .. } => "rare_terms",
    A::Range { date: true, .. } => "date_range",
    A::Range { .. } => "range",
    A::Hist { date: true, .. } => "date_histogram",
    A::Hist { .. } => "histogram",
    A::Metric { kind, .. } => match *kind {
      "stats" => "stats",
      "estats" => "extended_stats",
      _ => "value_count",
    },
    A::Card { .. } => "cardinality",
    A::Pct { .. } => "percentiles",
    A::Pctr { .. } => "percentile_ranks",
    A::Filter { .. } => "filter",
    A::Comp { .. } => "composite",
    A::TopHits { .. } => "top_hits",
  };
  if ty != want {
    return json!({"t": format!("unexpected:{ty}")});
  }
  match a {
    A::Terms { subs, .. } | A::Rare { subs, .. } => canon_buckets(a, subs, resp, &|k| vec![match k.as_str() { Some(s) => kstr(s), None => kstr(&k.to_string()) }]),
    A::Range { subs, .. } => canon_buckets(a, subs, resp, &|k| vec![range_key(k)]),
    A::Hist { subs, .. } => canon_buckets(a, subs, resp, &|k| vec![knum(k)]),
    A::Comp { subs, sources, .. } => canon_buckets(a, subs, resp, &|k| comp_key(sources, k)),
    A::Filter { subs, .. } => json!({"t": "filter", "n": resp["doc_count"].as_u64().unwrap_or(0), "subs": canon_subs(subs, resp.get("aggregations"))}),
    A::Metric { kind, .. } if *kind == "vcount" => json!({"t": "value", "v": resp["value"].as_u64().unwrap_or(0)}),
    A::Card { .. } => json!({"t": "value", "v": resp["value"].as_u64().unwrap_or(0)}),
    A::Metric { kind, .. } => {
      let g = |k: &str| resp[k].as_f64().unwrap_or(f64::NAN);
      let (min4, e1) = fixed(g("min"), 4.0);
      let (max4, e2) = fixed(g("max"), 4.0);
      let (sum4, e3) = fixed(g("sum"), 4.0);
      let mut v = json!({"t": kind, "count": resp["count"].as_u64().unwrap_or(0), "min4": min4, "max4": max4, "sum4": sum4,
                         "avg_e4": rnd(g("avg"), 1e4), "exact": e1 && e2 && e3});
      if *kind == "estats" {
        v["var_e4"] = json!(rnd(g("variance"), 1e4));
        v["sd_e2"] = json!(rnd(g("std_deviation"), 1e2));
      }
      v
    }
    A::Pct { percents, .. } => {
      let ps = percents.clone().unwrap_or_else(|| vec![1, 5, 25, 50, 75, 95, 99]);
      let vals: Vec<Value> = ps
        .iter()
        .map(|p| match resp["values"].get(format!("{}", *p as f64)).and_then(|x| x.as_f64()) {
          Some(x) => json!({"p": p, "found": true, "v_e4": rnd(x, 1e4)}),
          None => json!({"p": p, "found": false, "v_e4": 0}),
        })
        .collect();
      json!({"t": "pct", "vals": vals})
    }
    A::Pctr { values4, .. } => {
      let vals: Vec<Value> = values4
        .iter()
        .map(|v| match resp["values"].get(format!("{}", q4f(*v))).and_then(|x| x.as_f64()) {
          Some(x) => json!({"found": true, "v_e4": rnd(x, 1e4)}),
          None => json!({"found": false, "v_e4": 0}),
        })
        .collect();
      json!({"t": "pctr", "vals": vals})
    }
    A::TopHits { .. } => json!({"t": "tophits", "total": resp["total"].as_u64().unwrap_or(0),
      "ids": resp["hits"].as_array().cloned().unwrap_or_default().iter().map(|h| h["doc_id"].as_str().unwrap_or("").to_string()).collect::<Vec<_>>()}),
  }
}

pub fn canon_all(aggs: &Subs, res: &std::result::Result<SearchResult, String>) -> Value {
  match res {
    Ok(r) => {
      let v = serde_json::to_value(&r.aggregations).unwrap_or(Value::Null);
      json!({"ok": true, "err": "", "aggs": canon_subs(aggs, Some(&v)),
             "suggest": serde_json::to_string(&r.suggest).unwrap_or_default()})
    }
    Err(e) => json!({"ok": false, "err": e, "aggs": [], "suggest": ""}),
  }
}

fn aggs_json(aggs: &Subs) -> Value {
  render_subs(aggs)
}

// ------------------------------------------------------------------------------------------------
// corpora and layouts
// ------------------------------------------------------------------------------------------------

#[derive(Clone, Debug)]
pub struct Commit {
  pub adds: Vec<(String, u64)>,
  pub deletes: Vec<String>,
}

/// Final contents plus superseded versions and ghost documents used by the layouts.
pub struct Contents {
  pub schema_json: Value,
  pub finals: Vec<(String, u64)>,
  pub olds: Vec<(String, u64)>,
  pub ghosts: Vec<(String, u64)>,
  pub versions: BTreeMap<(String, u64), Value>,
}

fn agg_doc(r: &mut StdRng, k: &Knobs, id: &str, ver: u64, vocab: usize) -> Value {
  let mut d = make_doc(r, k, id, ver, vocab);
  // multi-valued f64 field (make_doc writes a single price)
  if chance(r, 1, 3) {
    let n = r.gen_range(1..=3);
    let v: Vec<f64> = (0..n).map(|_| r.gen_range(0..=24) as f64 / 4.0).collect();
    d["price"] = json!(v);
  }
  // numbers whose decimal text and numeric order differ (5 < 10 < 100, negative values): bucket keys
  // are compared as typed values, not as text
  if chance(r, 1, 3) {
    d["rank"] = json!(*pick(r, &[-3i64, 0, 5, 10, 12, 100, 20, 7]));
  }
  if chance(r, 1, 4) {
    d["price"] = json!(*pick(r, &[10.0f64, 12.5, 25.0, 100.0, 7.5, 5.0]));
  }
  d
}

pub fn agg_knobs(lo: usize, hi: usize) -> Knobs {
  let mut k = Knobs::default();
  k.nested = false;
  k.n_docs = (lo, hi);
  k.analyzers = vec!["default", "ws"];
  k
}

pub fn gen_contents(r: &mut StdRng, k: &Knobs) -> Contents {
  let schema_json = make_schema(r, k);
  let n = r.gen_range(k.n_docs.0..=k.n_docs.1);
  let vocab = r.gen_range(4..=8);
  let mut versions = BTreeMap::new();
  let mut finals = Vec::new();
  let mut olds = Vec::new();
  let mut ghosts = Vec::new();
  for i in 0..n {
    let id = format!("d{i:02}");
    let ver = (i + 1) as u64;
    versions.insert((id.clone(), ver), agg_doc(r, k, &id, ver, vocab));
    finals.push((id.clone(), ver));
    if chance(r, 1, 3) {
      let old = 100 + ver;
      versions.insert((id.clone(), old), agg_doc(r, k, &id, old, vocab));
      olds.push((id, old));
    }
  }
  for i in 0..r.gen_range(1..=3) {
    let id = format!("g{i:02}");
    let ver = 200 + i as u64;
    versions.insert((id.clone(), ver), agg_doc(r, k, &id, ver, vocab));
    ghosts.push((id, ver));
  }
  Contents { schema_json, finals, olds, ghosts, versions }
}

/// kind 0: one segment; 1: one segment per document; 2: random split; 3: superseded versions,
/// deletions, ghosts and re-adds - always the same final contents.
pub fn gen_layout(r: &mut StdRng, c: &Contents, kind: usize) -> Vec<Commit> {
  let mut docs = c.finals.clone();
  docs.shuffle(r);
  match kind {
    0 => vec![Commit { adds: docs, deletes: vec![] }],
    1 => docs.into_iter().map(|d| Commit { adds: vec![d], deletes: vec![] }).collect(),
    2 => {
      let k = r.gen_range(2..=4usize).min(docs.len());
      let mut commits: Vec<Commit> = (0..k).map(|_| Commit { adds: vec![], deletes: vec![] }).collect();
      for (i, d) in docs.into_iter().enumerate() {
        let c = if i < k { i } else { r.gen_range(0..k) };
        commits[c].adds.push(d);
      }
      commits
    }
    _ => {
      // commit 1: old versions + ghosts + some finals; commit 2: deletes (ghosts, some finals),
      // upserts of the old versions, more finals; commit 3: re-adds of the deleted finals + rest
      let mut c1 = Commit { adds: vec![], deletes: vec![] };
      let mut c2 = Commit { adds: vec![], deletes: vec![] };
      let mut c3 = Commit { adds: vec![], deletes: vec![] };
      for g in c.ghosts.iter() {
        c1.adds.push(g.clone());
        c2.deletes.push(g.0.clone());
      }
      for d in docs.into_iter() {
        if let Some(old) = c.olds.iter().find(|o| o.0 == d.0) {
          c1.adds.push(old.clone());
          if chance(r, 1, 2) { c2.adds.push(d) } else { c3.adds.push(d) }
        } else {
          match r.gen_range(0..4) {
            0 => {
              c1.adds.push(d.clone());
              c2.deletes.push(d.0.clone());
              c3.adds.push(d);
            }
            1 => c1.adds.push(d),
            2 => c2.adds.push(d),
            _ => c3.adds.push(d),
          }
        }
      }
      c1.adds.shuffle(r);
      vec![c1, c2, c3].into_iter().filter(|c| !c.adds.is_empty() || !c.deletes.is_empty()).collect()
    }
  }
}

/// Build an index from an explicit commit list.
pub fn build_layout(c: &Contents, commits: &[Commit], storage: &str) -> Result<Built> {
  let scratch = Scratch::new("aggs");
  let root = scratch.join("idx");
  let schema = schema_from_json(c.schema_json.clone());
  let (st, stype) = storage_arc(storage, &root);
  let idx = Index::create_with_storage(&root, schema.clone(), opts(&root, stype), st)?;
  let mut w = idx.writer()?;
  for commit in commits {
    for id in commit.deletes.iter() {
      w.delete_document(id)?;
    }
    for key in commit.adds.iter() {
      let d = c.versions.get(key).ok_or_else(|| anyhow!("unknown version {key:?}"))?;
      w.add_document(&doc_from_json(d.clone()))?;
    }
    w.commit()?;
  }
  drop(w);
  Ok(Built { scratch, idx, schema, schema_json: c.schema_json.clone(), versions: c.versions.clone(), n_commits: commits.len() })
}

/// The live documents of a corpus event as (id, ver), sorted.
fn live_of(corpus: &Value) -> Vec<(String, u64)> {
  let mut v: Vec<(String, u64)> = corpus["docs"]
    .as_array()
    .cloned()
    .unwrap_or_default()
    .iter()
    .filter(|d| d["live"].as_bool().unwrap_or(false))
    .map(|d| (d["id"].as_str().unwrap_or("").to_string(), d["ver"].as_u64().unwrap_or(0)))
    .collect();
  v.sort();
  v
}

fn default_fields() -> Vec<String> {
  TEXT_FIELDS.iter().map(|s| s.to_string()).collect()
}

fn gen_query_filter(r: &mut StdRng) -> (Q, Option<F>) {
  let cfg = GenCfg { depth: 2, boosts: false, scoring_wrappers: false, filters_in_bool: true, expansions: true, nested_filters: false };
  let q = match r.gen_range(0..11) {
    0..=3 => Q::All,
    // a clause that matches but weighs nothing (boost 0): its documents still belong to the
    // matched set under every execution strategy
    10 => Q::Bool {
      must: vec![],
      should: vec![
        Q::Term { field: "body".into(), value: pick(r, &WORDS).to_string(), boost: None },
        Q::Term { field: pick(r, &["body", "title"]).to_string(), value: pick(r, &WORDS).to_string(), boost: Some(0.0) },
      ],
      must_not: vec![], filter: vec![], msm: None, boost: None,
    },
    4..=6 => gen_query(r, 0, &cfg),
    _ => {
      let depth = r.gen_range(1..=cfg.depth);
      gen_query(r, depth, &cfg)
    }
  };
  let filt = if chance(r, 1, 4) { Some(gen_filter(r, 1, false, "")) } else { None };
  (q, filt)
}

fn agg_request(q: &Q, filt: Option<&F>, limit: usize, exec: &str, aggs: &Subs) -> Value {
  let mut req = base_request(q, filt, limit, exec);
  req["aggs"] = aggs_json(aggs);
  req
}

// ------------------------------------------------------------------------------------------------
// (a) layouts - C12
// ------------------------------------------------------------------------------------------------

fn mode_layouts(r: &mut StdRng, scn: usize, n_req: usize, out: &mut Vec<Value>) -> Result<usize> {
  let knobs = agg_knobs(5, 14);
  let contents = gen_contents(r, &knobs);
  let schema = schema_from_json(contents.schema_json.clone());
  let cfg = AggCfg { composite: true, top_hits: true };
  let mut dict = Dict::new();
  struct Req {
    q: Q,
    filt: Option<F>,
    aggs: Subs,
    exec: &'static str,
    limit: usize,
  }
  let reqs: Vec<Req> = (0..n_req)
    .map(|_| {
      let (q, filt) = gen_query_filter(r);
      Req { q, filt, aggs: gen_aggs(r, &cfg), exec: *pick(r, &["bm25", "bm25", "wand", "bmw"]), limit: r.gen_range(1..=5) }
    })
    .collect();
  // two fixed shapes per scenario: a small first page of a composite over a numeric histogram
  // source (many keys of mixed magnitude, match_all) - bucket limits apply to the merged, typed order
  let mut reqs = reqs;
  for (f, fk) in [("rank", "i64"), ("price", "f64")] {
    let src = Src { terms: false, name: "k0".into(), field: f.to_string(), fk, iv4: *pick(r, &[4i64, 8, 20]), iv_raw: None };
    let comp = A::Comp { sources: vec![src], size: r.gen_range(1..=3), after: None, after_parts: vec![], subs: vec![] };
    reqs.push(Req { q: Q::All, filt: None, aggs: vec![("c0".to_string(), comp)], exec: "bm25", limit: 1 });
  }
  let mut kinds = vec![0usize, 1, 3];
  for _ in 0..r.gen_range(0..=2) {
    kinds.push(*pick(r, &[2usize, 2, 3]));
  }
  kinds.shuffle(r);
  let mut want_live = contents.finals.clone();
  want_live.sort();
  let mut events = Vec::new();
  let mut n = 0;
  for (li, kind) in kinds.iter().enumerate() {
    let commits = gen_layout(r, &contents, *kind);
    let storage = storage_kind(r);
    let b = build_layout(&contents, &commits, storage)?;
    let reader = b.idx.reader()?;
    let mut corpus = corpus_event(&b, &reader, scn, &mut dict)?;
    if live_of(&corpus) != want_live {
      bail!("layout {li} (kind {kind}) does not hold the final contents");
    }
    corpus["layout"] = json!(li);
    corpus["kind"] = json!(kind);
    events.push(corpus);
    for (rid, rq) in reqs.iter().enumerate() {
      let req = agg_request(&rq.q, rq.filt.as_ref(), rq.limit, rq.exec, &rq.aggs);
      let res = run_search(&reader, &req);
      let filters: Vec<Value> = rq.filt.iter().map(|f| abstract_filter(f, &mut dict)).collect();
      events.push(json!({
        "ev": "agg", "check": "layout", "prop": "C12", "rid": rid + 1, "layout": li, "nseg": reader.segments.len(),
        "q": abstract_query(&schema, &rq.q, &default_fields(), true, 1.0, &mut dict),
        "filters": filters, "aggs": abstract_aggs(&rq.aggs, &mut dict), "obs": canon_all(&rq.aggs, &res),
        "req": req.to_string(),
      }));
      n += 1;
    }
  }
  out.push(json!({"ev": "reset", "scn": scn, "fam": "aggs-layouts", "nreq": reqs.len(), "layouts": kinds}));
  out.push(json!({"ev": "dict", "entries": dict.to_json()}));
  out.extend(events);
  Ok(n)
}

// ------------------------------------------------------------------------------------------------
// (b) paging and other variations - C13
// ------------------------------------------------------------------------------------------------

fn hit_list(res: &std::result::Result<SearchResult, String>) -> (Vec<String>, Vec<i64>) {
  match res {
    Ok(r) => (r.hits.iter().map(|h| h.doc_id.clone()).collect(), r.hits.iter().map(|h| sbits(h.score)).collect()),
    Err(_) => (vec![], vec![]),
  }
}

fn mode_paging(r: &mut StdRng, scn: usize, n_req: usize, out: &mut Vec<Value>) -> Result<usize> {
  let knobs = agg_knobs(6, 16);
  let storage = storage_kind(r);
  let b = build_index(r, &knobs, storage)?;
  let reader = b.idx.reader()?;
  let mut dict = Dict::new();
  let corpus = corpus_event(&b, &reader, scn, &mut dict)?;
  let n_slots = corpus["docs"].as_array().map(|a| a.len()).unwrap_or(0);
  let cfg = AggCfg { composite: true, top_hits: false };
  let mut events = Vec::new();
  for _ in 0..n_req {
    let (q, filt) = gen_query_filter(r);
    let aggs: Subs = {
      let n = *pick(r, &[1usize, 1, 2]);
      (0..n)
        .map(|i| {
          let depth = *pick(r, &[0usize, 1, 1, 2]);
          (format!("a{i}"), gen_agg(r, depth, &cfg))
        })
        .collect()
    };
    let suggest = json!({"sg": {"type": "completion", "field": *pick(r, &["body", "title"]),
                                 "prefix": *pick(r, &["ru", "r", "go", "s", "ja", "q", "x"]), "size": r.gen_range(1..=5)}});
    let mk = |limit: usize, exec: &str, sort: &[SortSpecA]| -> Value {
      let mut req = agg_request(&q, filt.as_ref(), limit, exec, &aggs);
      req["sort"] = render_sort(sort);
      req["suggest"] = suggest.clone();
      req
    };
    let mut variants: Vec<Value> = Vec::new();
    let push = |label: String, after: Option<(String, i64)>, req: &Value, variants: &mut Vec<Value>| -> std::result::Result<SearchResult, String> {
      let res = run_search(&reader, req);
      variants.push(json!({"label": label, "haspos": after.is_some(), "afterid": after.as_ref().map(|a| a.0.clone()).unwrap_or_default(),
                           "aftersb": after.as_ref().map(|a| a.1).unwrap_or(0), "obs": canon_all(&aggs, &res)}));
      res
    };
    // 1. the reference execution
    push("base".into(), None, &mk(n_slots + 5, "bm25", &[]), &mut variants).ok();
    // 2. a cursor walk and the covering request of its plan
    let wsort = gen_sort(r);
    let wexec = *pick(r, &["bm25", "wand", "bmw"]);
    let psize = r.gen_range(1..=5);
    let full = push(format!("covering sort={} exec={wexec}", render_sort(&wsort)), None, &mk(n_slots + 5, wexec, &wsort), &mut variants);
    let (full_ids, full_sb) = hit_list(&full);
    let mut cursor: Option<String> = None;
    let mut last: Option<(String, i64)> = None;
    for page in 0..60 {
      let mut req = mk(psize, wexec, &wsort);
      if let Some(c) = &cursor {
        req["cursor"] = json!(c);
      }
      let res = push(format!("page {} of walk psize={psize}", page + 1), last.clone(), &req, &mut variants);
      match res {
        Ok(sr) => {
          last = sr.hits.last().map(|h| (h.doc_id.clone(), sbits(h.score)));
          match sr.next_cursor {
            Some(c) => cursor = Some(c),
            None => break,
          }
        }
        Err(_) => break,
      }
    }
    // 3. limits, sort plans, return_hits, strategies, explain / profile, rescore
    for _ in 0..2 {
      let l = r.gen_range(1..=50);
      push(format!("limit {l}"), None, &mk(l, "bm25", &[]), &mut variants).ok();
    }
    for _ in 0..2 {
      let s = gen_sort(r);
      push(format!("sort {}", render_sort(&s)), None, &mk(r.gen_range(1..=50), "bm25", &s), &mut variants).ok();
    }
    {
      let mut req = mk(r.gen_range(1..=10), *pick(r, &["bm25", "wand", "bmw"]), &[]);
      req["return_hits"] = json!(false);
      push("return_hits=false".into(), None, &req, &mut variants).ok();
    }
    for exec in ["wand", "bmw"] {
      let mut req = mk(r.gen_range(1..=50), exec, &[]);
      if exec == "bmw" && chance(r, 1, 2) {
        req["bmw_block_size"] = json!(r.gen_range(1..=8));
      }
      push(format!("execution {exec}"), None, &req, &mut variants).ok();
      // pruning only starts once the top-k is full: small limits, small blocks
      let mut req = mk(r.gen_range(1..=3), exec, &[]);
      if exec == "bmw" {
        req["bmw_block_size"] = json!(r.gen_range(1..=3));
      }
      push(format!("execution {exec}, small limit"), None, &req, &mut variants).ok();
    }
    for (ex, pr) in [(true, false), (false, true), (true, true)] {
      let mut req = mk(r.gen_range(1..=50), *pick(r, &["bm25", "wand", "bmw"]), &[]);
      req["explain"] = json!(ex);
      req["profile"] = json!(pr);
      push(format!("explain={ex} profile={pr}"), None, &req, &mut variants).ok();
    }
    {
      let mut req = mk(r.gen_range(1..=50), "bm25", &[]);
      let w = *pick(r, &WORDS);
      req["rescore"] = json!({"window_size": r.gen_range(1..=5), "query": {"type": "term", "field": "body", "value": w},
                              "score_mode": *pick(r, &["total", "multiply", "max"])});
      push("rescore".into(), None, &req, &mut variants).ok();
    }
    let filters: Vec<Value> = filt.iter().map(|f| abstract_filter(f, &mut dict)).collect();
    events.push(json!({
      "ev": "agg", "check": "paging", "prop": "C13", "nseg": reader.segments.len(),
      "q": abstract_query(&b.schema, &q, &default_fields(), true, 1.0, &mut dict),
      "filters": filters, "aggs": abstract_aggs(&aggs, &mut dict), "sort": abstract_sort(&wsort),
      "fullids": full_ids, "fullsb": full_sb, "variants": variants,
      "req": mk(psize, wexec, &wsort).to_string(),
    }));
  }
  out.push(json!({"ev": "reset", "scn": scn, "fam": "aggs-paging", "nreq": n_req, "layouts": []}));
  out.push(json!({"ev": "dict", "entries": dict.to_json()}));
  out.push(corpus);
  let n = events.len();
  out.extend(events);
  Ok(n)
}

// ------------------------------------------------------------------------------------------------
// (c) composite walks - C30
// ------------------------------------------------------------------------------------------------

fn mode_walks(r: &mut StdRng, scn: usize, n_req: usize, out: &mut Vec<Value>) -> Result<usize> {
  let knobs = agg_knobs(5, 16);
  let storage = storage_kind(r);
  let b = build_index(r, &knobs, storage)?;
  let reader = b.idx.reader()?;
  let mut dict = Dict::new();
  let corpus = corpus_event(&b, &reader, scn, &mut dict)?;
  let cfg = AggCfg { composite: false, top_hits: false };
  let mut events = Vec::new();
  for _ in 0..n_req {
    // queries without optional scored clauses: the matched set is the ideal one (no S07a exposure)
    let q = match r.gen_range(0..4) {
      0 | 1 => Q::All,
      2 => Q::Term { field: "body".into(), value: pick(r, &WORDS).to_string(), boost: None },
      _ => Q::ConstantScore { filter: gen_filter(r, 1, false, ""), boost: None },
    };
    let filt = if chance(r, 1, 4) { Some(gen_filter(r, 1, false, "")) } else { None };
    let subs: Subs = if chance(r, 1, 3) { vec![("s0".to_string(), gen_metric(r, &cfg))] } else { vec![] };
    let mut comp = gen_comp(r, 1000, subs);
    // every fourth walk: a histogram source whose interval is not exact in binary (bucket keys
    // like 2.0999999999999996 come back as `after`)
    let mut relonly = false;
    if chance(r, 1, 4) {
      if let A::Comp { sources, .. } = &mut comp {
        let raw = *pick(r, &[0.7f64, 0.1, 0.3, 1.1]);
        if let Some(s0) = sources.iter_mut().find(|s| !s.terms) {
          s0.iv_raw = Some(raw);
          relonly = true;
        } else if let Some(s0) = sources.first_mut() {
          *s0 = Src { terms: false, name: s0.name.clone(), field: "price".into(), fk: "f64", iv4: 4, iv_raw: Some(raw) };
          relonly = true;
        }
      }
    }
    let psize = r.gen_range(1..=5);
    let exec = *pick(r, &["bm25", "wand", "bmw"]);
    let one = |a: &A| -> Subs { vec![("c".to_string(), a.clone())] };
    let unpaged_req = agg_request(&q, filt.as_ref(), 1, exec, &one(&comp));
    let unpaged = canon_all(&one(&comp), &run_search(&reader, &unpaged_req));
    let mut pages = Vec::new();
    let mut after: Option<Value> = None;
    let mut guard = false;
    loop {
      let page_agg = match &comp {
        A::Comp { sources, subs, .. } => A::Comp { sources: sources.clone(), size: psize, after: after.clone(), after_parts: vec![], subs: subs.clone() },
        _ => unreachable!(),
      };
      let req = agg_request(&q, filt.as_ref(), 1, exec, &one(&page_agg));
      let res = run_search(&reader, &req);
      pages.push(canon_all(&one(&page_agg), &res));
      let next = res.ok().and_then(|sr| serde_json::to_value(&sr.aggregations).ok()).and_then(|v| v["c"].get("after_key").cloned()).filter(|k| !k.is_null());
      match next {
        Some(k) if pages.len() < 200 => after = Some(k),
        Some(_) => {
          guard = true;
          break;
        }
        None => break,
      }
    }
    let filters: Vec<Value> = filt.iter().map(|f| abstract_filter(f, &mut dict)).collect();
    events.push(json!({
      "ev": "agg", "check": "walk", "prop": "C30", "nseg": reader.segments.len(), "psize": psize, "guard": guard, "relonly": relonly,
      "q": abstract_query(&b.schema, &q, &default_fields(), true, 1.0, &mut dict),
      "filters": filters, "aggs": abstract_aggs(&one(&comp), &mut dict), "unpaged": unpaged, "pages": pages,
      "req": unpaged_req.to_string(),
    }));
  }
  out.push(json!({"ev": "reset", "scn": scn, "fam": "aggs-walks", "nreq": n_req, "layouts": []}));
  out.push(json!({"ev": "dict", "entries": dict.to_json()}));
  out.push(corpus);
  let n = events.len();
  out.extend(events);
  Ok(n)
}

pub fn main(args: &Args) -> Result<()> {
  let seed = args.u64("seed", 1);
  let mode = args.str("mode", "layouts");
  let out = args.str("out", "/verif/out/aggs.ndjson");
  let n_scn = args.usize("scenarios", 6);
  let n_req = args.usize("requests", 12);
  let mut tr = Tracer::create(std::path::Path::new(&out))?;
  let mut total = 0usize;
  for scn in 0..n_scn {
    let stream = match mode.as_str() {
      "layouts" => 12_000_000,
      "paging" => 13_000_000,
      _ => 30_000_000,
    };
    let mut r = rng(seed, stream + scn as u64);
    let mut evs = Vec::new();
    total += match mode.as_str() {
      "layouts" => mode_layouts(&mut r, scn, n_req, &mut evs)?,
      "paging" => mode_paging(&mut r, scn, n_req, &mut evs)?,
      "walks" => mode_walks(&mut r, scn, n_req, &mut evs)?,
      other => bail!("unknown aggs mode {other}"),
    };
    for e in evs {
      tr.emit(e);
    }
  }
  let lines = tr.finish();
  println!("{}", json!({"scenarios": n_scn, "requests": total, "events": lines, "out": out, "mode": mode}));
  Ok(())
}

#[allow(dead_code)]
fn _unused(_: &IndexReader) {}
