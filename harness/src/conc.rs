//! (stub) family `conc` - see CONTRIBUTING.md
use anyhow::{bail, Result};

use crate::util::Args;

pub fn main(_args: &Args) -> Result<()> {
  bail!("family conc is not implemented yet")
}
