//! C05 / C06 drivers: real threads over one Index with the stage-point hooks
//! (searchlite_core::verif::point / Section).
//!   mode stress : 2-4 writer threads (own handles) + optional compaction thread + reader thread,
//!                 free running, perturbed by seeded yields/sleeps at every stage point.
//!   mode sched  : a deterministic scheduler: every thread stops at every stage point and moves
//!                 only when granted; schedules (sequences of thread names) come from TLC
//!                 (--cases, MC_Conc simulation) or from the seeded RNG. A grant that does not
//!                 make the thread reach its next point within a timeout is recorded as blocked
//!                 (the thread waits on a real lock) and the schedule moves on.
//! The merged event log (hook events in their global sequence order + harness call records)
//! is judged by spec/Trace_Conc.tla.

use std::collections::{BTreeMap, HashMap, HashSet};
use std::sync::{Arc, Condvar, Mutex};
use std::time::Duration;

use anyhow::Result;
use rand::Rng;
use serde_json::{json, Value};

use searchlite_core::api::types::StorageType;
use searchlite_core::api::Index;
use searchlite_core::verif;

use crate::history::schema_family;
use crate::util::*;

fn doc_for(id: &str, ver: u64) -> Value {
  json!({"_id": id, "body": format!("w{ver} common {id}"), "ver": ver})
}

fn id_ver(idx: &Index) -> std::result::Result<Vec<(String, u64)>, String> {
  contents(idx)
    .map(|l| l.into_iter().map(|(id, f)| (id, f.get("ver").and_then(|v| v.as_u64()).unwrap_or(0))).collect())
    .map_err(|e| format!("{e:#}"))
}

fn idver_json(l: &[(String, u64)]) -> Value {
  Value::Array(l.iter().map(|(i, v)| json!({"id": i, "ver": v})).collect())
}

// ------------------------------------------------------------------------------------------------
// scheduler
// ------------------------------------------------------------------------------------------------

#[derive(Default)]
struct SchedState {
  allowed: HashMap<u64, usize>,
  arrived: HashMap<u64, usize>,
  done: HashSet<u64>,
  gated: bool,
  marks: HashSet<String>,
}

struct Sched {
  st: Mutex<SchedState>,
  cv: Condvar,
}

impl Sched {
  fn new(gated: bool) -> Arc<Self> {
    Arc::new(Self { st: Mutex::new(SchedState { gated, ..Default::default() }), cv: Condvar::new() })
  }
  /// called from the hook at every stage point
  fn at_point(&self) {
    let t = verif::thread_id();
    let mut g = self.st.lock().unwrap();
    if !g.gated {
      return;
    }
    *g.arrived.entry(t).or_insert(0) += 1;
    self.cv.notify_all();
    loop {
      let a = *g.arrived.get(&t).unwrap_or(&0);
      let al = *g.allowed.get(&t).unwrap_or(&0);
      if al >= a || !g.gated {
        return;
      }
      g = self.cv.wait(g).unwrap();
    }
  }
  fn finish(&self) {
    let t = verif::thread_id();
    let mut g = self.st.lock().unwrap();
    g.done.insert(t);
    self.cv.notify_all();
  }
  /// let thread t pass its current point; true if it reached the next point or finished
  fn grant(&self, t: u64, timeout: Duration) -> bool {
    let mut g = self.st.lock().unwrap();
    if g.done.contains(&t) {
      return false;
    }
    let before = *g.arrived.get(&t).unwrap_or(&0);
    let al = g.allowed.entry(t).or_insert(0);
    if *al < before {
      *al = before;
    } else {
      // already allowed past its last arrival: the thread is running or blocked on a lock
    }
    self.cv.notify_all();
    let deadline = std::time::Instant::now() + timeout;
    loop {
      if g.done.contains(&t) || *g.arrived.get(&t).unwrap_or(&0) > before {
        return true;
      }
      let now = std::time::Instant::now();
      if now >= deadline {
        return false;
      }
      let (ng, _) = self.cv.wait_timeout(g, deadline - now).unwrap();
      g = ng;
    }
  }
  fn mark(&self, m: &str) {
    self.st.lock().unwrap().marks.insert(m.to_string());
  }
  fn has(&self, m: &str) -> bool {
    self.st.lock().unwrap().marks.contains(m)
  }
  fn all_done(&self, n: usize) -> bool {
    self.st.lock().unwrap().done.len() >= n
  }
  fn open_gates(&self) {
    let mut g = self.st.lock().unwrap();
    g.gated = false;
    self.cv.notify_all();
  }
}

// ------------------------------------------------------------------------------------------------
// thread programs
// ------------------------------------------------------------------------------------------------

#[derive(Clone, Debug)]
enum Step {
  NewWriter,
  Add(String, u64),
  Delete(String),
  Commit,
  Rollback,
  Compact,
  Read,
  /// open a reader and keep it
  OpenReader,
  /// search through the kept reader
  ReadHeld,
}

fn step_json(s: &Step) -> Value {
  match s {
    Step::NewWriter => json!({"op": "new_writer", "id": "", "ver": 0}),
    Step::Add(id, v) => json!({"op": "add", "id": id, "ver": v}),
    Step::Delete(id) => json!({"op": "delete", "id": id, "ver": 0}),
    Step::Commit => json!({"op": "commit", "id": "", "ver": 0}),
    Step::Rollback => json!({"op": "rollback", "id": "", "ver": 0}),
    Step::Compact => json!({"op": "compact", "id": "", "ver": 0}),
    Step::Read => json!({"op": "read", "id": "", "ver": 0}),
    Step::OpenReader => json!({"op": "open_reader", "id": "", "ver": 0}),
    Step::ReadHeld => json!({"op": "read_held", "id": "", "ver": 0}),
  }
}

struct ThreadOut {
  name: String,
  tid: u64,
  /// per call: (step, ok, error text, reader contents)
  calls: Vec<(Step, bool, String, Option<Vec<(String, u64)>>)>,
}

fn run_program(idx: Arc<Index>, name: String, prog: Vec<Step>, sched: Arc<Sched>) -> ThreadOut {
  let tid = verif::thread_id();
  verif::point("thread.start", &name);
  let mut calls = Vec::new();
  let mut writer = None;
  let mut held: Option<searchlite_core::api::IndexReader> = None;
  for st in prog {
    let r = std::panic::catch_unwind(std::panic::AssertUnwindSafe(|| -> (bool, String, Option<Vec<(String, u64)>>) {
      match &st {
        Step::NewWriter => match idx.writer() {
          Ok(w) => {
            writer = Some(w);
            (true, String::new(), None)
          }
          Err(e) => (false, format!("{e:#}"), None),
        },
        Step::Add(id, v) => match writer.as_mut() {
          Some(w) => match w.add_document(&doc_from_json(doc_for(id, *v))) {
            Ok(_) => (true, String::new(), None),
            Err(e) => (false, format!("{e:#}"), None),
          },
          None => (false, "no writer".into(), None),
        },
        Step::Delete(id) => match writer.as_mut() {
          Some(w) => match w.delete_document(id) {
            Ok(_) => (true, String::new(), None),
            Err(e) => (false, format!("{e:#}"), None),
          },
          None => (false, "no writer".into(), None),
        },
        Step::Commit => match writer.as_mut() {
          Some(w) => match w.commit() {
            Ok(_) => (true, String::new(), None),
            Err(e) => (false, format!("{e:#}"), None),
          },
          None => (false, "no writer".into(), None),
        },
        Step::Rollback => match writer.as_mut() {
          Some(w) => match w.rollback() {
            Ok(_) => (true, String::new(), None),
            Err(e) => (false, format!("{e:#}"), None),
          },
          None => (false, "no writer".into(), None),
        },
        Step::Compact => match idx.compact() {
          Ok(_) => (true, String::new(), None),
          Err(e) => (false, format!("{e:#}"), None),
        },
        Step::OpenReader => {
          verif::point("harness.read_begin", &name);
          let out = match idx.reader() {
            Ok(rd) => {
              held = Some(rd);
              (true, String::new(), None)
            }
            Err(e) => (false, format!("{e:#}"), None),
          };
          sched.mark(&format!("{name}.opened"));
          verif::point("harness.open_end", &name);
          out
        }
        Step::ReadHeld => {
          verif::point("harness.held_begin", &name);
          let out = match held.as_ref() {
            Some(rd) => match rd.search(&match_all_request(10_000)) {
              Ok(res) => {
                let mut c: Vec<(String, u64)> = res
                  .hits
                  .into_iter()
                  .map(|h| (h.doc_id, h.fields.as_ref().and_then(|f| f.get("ver")).and_then(|v| v.as_u64()).unwrap_or(0)))
                  .collect();
                c.sort();
                (true, String::new(), Some(c))
              }
              Err(e) => (false, format!("{e:#}"), Some(Vec::new())),
            },
            None => (false, "no reader was opened".to_string(), Some(Vec::new())),
          };
          verif::point("harness.held_end", &name);
          out
        }
        Step::Read => {
          verif::point("harness.read_begin", &name);
          let res = id_ver(&idx);
          let out = match res {
            Ok(c) => (true, String::new(), Some(c)),
            Err(e) => (false, e, Some(Vec::new())),
          };
          verif::point("harness.read_end", &name);
          out
        }
      }
    }));
    match r {
      Ok((ok, err, c)) => calls.push((st, ok, err, c)),
      Err(_) => calls.push((st, false, "PANIC".into(), None)),
    }
  }
  drop(writer);
  sched.finish();
  ThreadOut { name, tid, calls }
}

fn setup_index(n_segments: usize, ver: &mut u64) -> Result<(Scratch, Arc<Index>, Vec<(String, u64)>)> {
  let scratch = Scratch::new("conc");
  let root = scratch.join("idx");
  let schema = schema_from_json(schema_family(2));
  let idx = Index::create(&root, schema, opts(&root, StorageType::Filesystem))?;
  {
    let mut w = idx.writer()?;
    for s in 0..n_segments {
      *ver += 1;
      w.add_document(&doc_from_json(doc_for(&format!("s{s}"), *ver)))?;
      w.commit()?;
    }
  }
  let c = id_ver(&idx).map_err(|e| anyhow::anyhow!(e))?;
  Ok((scratch, Arc::new(idx), c))
}

/// Emit the merged log of one scenario.
fn emit(tr: &mut Tracer, scn: usize, mode: &str, initial: &[(String, u64)], outs: &[ThreadOut], events: Vec<verif::Event>,
        blocked: &[Value], final_c: &std::result::Result<Vec<(String, u64)>, String>, reopen_c: &std::result::Result<Vec<(String, u64)>, String>) {
  let names: BTreeMap<u64, String> = outs.iter().map(|o| (o.tid, o.name.clone())).collect();
  tr.emit(json!({"ev": "reset", "scn": scn, "mode": mode, "initial": idver_json(initial),
                 "threads": outs.iter().map(|o| o.name.clone()).collect::<Vec<_>>()}));
  // k-th section enter of a thread belongs to its k-th sectioned call
  let mut next_call: HashMap<u64, usize> = HashMap::new();
  let mut next_read: HashMap<u64, usize> = HashMap::new();
  let mut next_open: HashMap<u64, usize> = HashMap::new();
  let mut next_held: HashMap<u64, usize> = HashMap::new();
  for ev in events.iter().filter(|e| e.op == "point") {
    let Some(name) = names.get(&ev.thread) else { continue };
    let pt = ev.path.clone();
    let detail = ev.path2.clone();
    let out = outs.iter().find(|o| o.tid == ev.thread).unwrap();
    let sectioned: Vec<&(Step, bool, String, Option<Vec<(String, u64)>>)> =
      out.calls.iter().filter(|c| !matches!(c.0, Step::Read | Step::OpenReader | Step::ReadHeld)).collect();
    let reads: Vec<&(Step, bool, String, Option<Vec<(String, u64)>>)> =
      out.calls.iter().filter(|c| matches!(c.0, Step::Read)).collect();
    let opens: Vec<&(Step, bool, String, Option<Vec<(String, u64)>>)> =
      out.calls.iter().filter(|c| matches!(c.0, Step::OpenReader)).collect();
    let helds: Vec<&(Step, bool, String, Option<Vec<(String, u64)>>)> =
      out.calls.iter().filter(|c| matches!(c.0, Step::ReadHeld)).collect();
    let is_section = pt.starts_with("writer.") || pt == "index.compact";
    if is_section && detail.starts_with("enter") {
      let k = *next_call.get(&ev.thread).unwrap_or(&0);
      let call = sectioned.get(k).map(|c| step_json(&c.0)).unwrap_or(json!({"op": "unknown", "id": "", "ver": 0}));
      let ok = sectioned.get(k).map(|c| c.1).unwrap_or(false);
      tr.emit(json!({"ev": "enter", "t": name, "section": pt, "call": call, "ok": ok}));
    } else if is_section && detail.starts_with("exit") {
      *next_call.entry(ev.thread).or_insert(0) += 1;
      tr.emit(json!({"ev": "exit", "t": name, "section": pt}));
    } else if pt == "harness.read_begin" {
      tr.emit(json!({"ev": "read_begin", "t": name}));
    } else if pt == "harness.read_end" {
      let k = *next_read.get(&ev.thread).unwrap_or(&0);
      *next_read.entry(ev.thread).or_insert(0) += 1;
      let (ok, err, c) = reads.get(k).map(|c| (c.1, c.2.clone(), c.3.clone().unwrap_or_default())).unwrap_or((false, "missing".into(), vec![]));
      tr.emit(json!({"ev": "read_end", "t": name, "ok": ok, "err": err, "contents": idver_json(&c)}));
    } else if pt == "harness.open_end" {
      let k = *next_open.get(&ev.thread).unwrap_or(&0);
      *next_open.entry(ev.thread).or_insert(0) += 1;
      let (ok, err) = opens.get(k).map(|c| (c.1, c.2.clone())).unwrap_or((false, "missing".into()));
      tr.emit(json!({"ev": "open_end", "t": name, "ok": ok, "err": err}));
    } else if pt == "harness.held_end" {
      let k = *next_held.get(&ev.thread).unwrap_or(&0);
      *next_held.entry(ev.thread).or_insert(0) += 1;
      let (ok, err, c) = helds.get(k).map(|c| (c.1, c.2.clone(), c.3.clone().unwrap_or_default())).unwrap_or((false, "missing".into(), vec![]));
      tr.emit(json!({"ev": "held_read", "t": name, "ok": ok, "err": err, "contents": idver_json(&c)}));
    } else if pt != "thread.start" {
      tr.emit(json!({"ev": "pt", "t": name, "name": pt}));
    }
  }
  for o in outs {
    for (i, c) in o.calls.iter().enumerate() {
      if !c.1 {
        tr.emit(json!({"ev": "call_failed", "t": o.name, "n": i, "call": step_json(&c.0), "err": c.2}));
      }
    }
  }
  for b in blocked {
    tr.emit(b.clone());
  }
  let (fok, fc) = match final_c {
    Ok(c) => (true, c.clone()),
    Err(_) => (false, vec![]),
  };
  let (rok, rc) = match reopen_c {
    Ok(c) => (true, c.clone()),
    Err(_) => (false, vec![]),
  };
  tr.emit(json!({"ev": "final", "ok": fok, "contents": idver_json(&fc), "reopen_ok": rok, "reopen": idver_json(&rc)}));
}

fn programs(r: &mut rand::rngs::StdRng, n_writers: usize, compactor: bool, reader: bool, ver: &mut u64, calls: usize) -> Vec<(String, Vec<Step>)> {
  let ids = ["a", "b", "c"];
  let mut out = Vec::new();
  for w in 0..n_writers {
    let mut p = vec![Step::NewWriter];
    for _ in 0..calls {
      let roll = r.gen_range(0..100);
      p.push(match roll {
        0..=44 => {
          *ver += 1;
          Step::Add(pick(r, &ids).to_string(), *ver)
        }
        45..=59 => Step::Delete(pick(r, &ids).to_string()),
        60..=89 => Step::Commit,
        90..=94 => Step::Rollback,
        _ => Step::NewWriter,
      });
    }
    p.push(Step::Commit);
    out.push((format!("w{}", w + 1), p));
  }
  if compactor {
    out.push(("k1".to_string(), (0..r.gen_range(1..=3)).map(|_| Step::Compact).collect()));
  }
  if reader {
    out.push(("r1".to_string(), (0..r.gen_range(1..=4)).map(|_| Step::Read).collect()));
    if chance(r, 1, 2) {
      // a reader that is kept while the writers and the compaction go on
      let mut p = vec![Step::OpenReader];
      p.extend((0..r.gen_range(1..=3)).map(|_| Step::ReadHeld));
      out.push(("h1".to_string(), p));
    }
  }
  out
}

fn run_scenario(scn: usize, seed: u64, mode: &str, schedule: Option<Vec<String>>, tr: &mut Tracer) -> Result<()> {
  let mut r = rng(seed, 9_000_000 + scn as u64);
  let mut ver = 0u64;
  let (scratch, idx, initial) = setup_index(r.gen_range(1..=3), &mut ver)?;
  let gated = mode == "sched";
  let sched = Sched::new(gated);
  let progs = if gated {
    // fixed small programs (those of MC_Conc "mixed"): a writer, a compactor, a reader
    ver += 3;
    vec![
      ("w1".to_string(), vec![Step::NewWriter, Step::Add("a".into(), ver - 2), Step::Commit, Step::Add("b".into(), ver - 1), Step::Commit]),
      ("k1".to_string(), vec![Step::Compact]),
      ("r1".to_string(), vec![Step::Read, Step::Read]),
      ("h1".to_string(), vec![Step::OpenReader, Step::ReadHeld, Step::ReadHeld]),
    ]
  } else {
    let n_writers = r.gen_range(2..=4);
    let calls = r.gen_range(3..=8);
    let with_k = chance(&mut r, 2, 3);
    let with_r = chance(&mut r, 2, 3);
    programs(&mut r, n_writers, with_k, with_r, &mut ver, calls)
  };
  // perturbation for free-running mode
  let pseed = rand_u64(&mut r);
  let sched_for_ctl = sched.clone();
  let stress = mode == "stress";
  verif::set_controller(Some(Arc::new(move |_name: &'static str, _detail: &str| {
    if stress {
      let t = verif::thread_id();
      let n = verif::events_len() as u64;
      let h = pseed ^ t.wrapping_mul(0x9E37_79B9_7F4A_7C15) ^ n.wrapping_mul(0xD1B5_4A32_D192_ED03);
      match (h >> 7) % 8 {
        0 | 1 => std::thread::yield_now(),
        2 => std::thread::sleep(Duration::from_micros(200 + (h % 1500))),
        _ => {}
      }
    } else {
      sched_for_ctl.at_point();
    }
  })));
  verif::start_recording();
  let mut handles = Vec::new();
  let (tx, rx) = std::sync::mpsc::channel::<(String, u64)>();
  for (name, prog) in progs.iter().cloned() {
    let idx2 = idx.clone();
    let s2 = sched.clone();
    let tx2 = tx.clone();
    handles.push(std::thread::spawn(move || {
      tx2.send((name.clone(), verif::thread_id())).unwrap();
      run_program(idx2, name, prog, s2)
    }));
  }
  let mut tids: BTreeMap<String, u64> = BTreeMap::new();
  for _ in 0..progs.len() {
    let (n, t) = rx.recv().unwrap();
    tids.insert(n, t);
  }
  let mut blocked = Vec::new();
  if gated {
    let names: Vec<String> = progs.iter().map(|p| p.0.clone()).collect();
    // wait until every thread reached its start gate
    for n in names.iter() {
      let t = tids[n];
      let deadline = std::time::Instant::now() + Duration::from_secs(10);
      loop {
        if *sched.st.lock().unwrap().arrived.get(&t).unwrap_or(&0) >= 1 || std::time::Instant::now() > deadline {
          break;
        }
        std::thread::sleep(Duration::from_millis(1));
      }
    }
    let mut steps = 0usize;
    // two of three scenarios: the kept reader is opened first, so that its later searches see
    // commits and a compaction (with its file cleanup) that happened after the open
    if chance(&mut r, 2, 3) {
      let t = tids["h1"];
      for _ in 0..60 {
        if sched.has("h1.opened") {
          break;
        }
        sched.grant(t, Duration::from_millis(100));
      }
    }
    let sch = schedule.unwrap_or_default();
    let mut i = 0usize;
    // threads whose last grant timed out (they wait on a real lock): not chosen again until
    // some other thread made progress
    let mut suspects: HashSet<String> = HashSet::new();
    while !sched.all_done(progs.len()) && steps < 400 {
      let name = if i < sch.len() {
        sch[i].clone()
      } else {
        let live: Vec<&String> = names
          .iter()
          .filter(|n| !sched.st.lock().unwrap().done.contains(&tids[*n]) && !suspects.contains(*n))
          .collect();
        if live.is_empty() {
          suspects.clear();
          names[r.gen_range(0..names.len())].clone()
        } else {
          live[r.gen_range(0..live.len())].clone()
        }
      };
      i += 1;
      steps += 1;
      let Some(&t) = tids.get(&name) else { continue };
      if sched.st.lock().unwrap().done.contains(&t) || (i <= sch.len() && suspects.contains(&name)) {
        continue;
      }
      let progressed = sched.grant(t, Duration::from_millis(100));
      if progressed {
        suspects.clear();
      } else if !sched.st.lock().unwrap().done.contains(&t) {
        suspects.insert(name.clone());
        blocked.push(json!({"ev": "blocked", "t": name, "step": steps}));
      }
    }
    sched.open_gates();
  }
  let outs: Vec<ThreadOut> = handles.into_iter().map(|h| h.join().expect("thread")).collect();
  verif::stop_recording();
  verif::set_controller(None);
  let events = verif::take_events();
  let final_c = id_ver(&idx);
  let root = scratch.join("idx");
  drop(idx);
  let reopen_c = Index::open(opts(&root, StorageType::Filesystem)).map_err(|e| format!("{e:#}")).and_then(|i| id_ver(&i));
  emit(tr, scn, mode, &initial, &outs, events, &blocked, &final_c, &reopen_c);
  Ok(())
}

pub fn main(args: &Args) -> Result<()> {
  let seed = args.u64("seed", 1);
  let mode = args.str("mode", "stress");
  let out = args.str("out", "/verif/out/conc.ndjson");
  let n_scn = args.usize("scenarios", 20);
  let mut tr = Tracer::create(std::path::Path::new(&out))?;
  let mut scn = 0usize;
  if let Some(cases) = args.get("cases") {
    for line in std::fs::read_to_string(cases)?.lines().filter(|l| !l.trim().is_empty()) {
      let v: Value = serde_json::from_str(line)?;
      let sch: Vec<String> = v["sched"].as_array().map(|a| a.iter().filter_map(|x| x.as_str().map(|s| s.to_string())).collect()).unwrap_or_default();
      run_scenario(scn, seed, "sched", Some(sch), &mut tr)?;
      scn += 1;
    }
  }
  for _ in 0..n_scn {
    run_scenario(scn, seed, &mode, None, &mut tr)?;
    scn += 1;
  }
  let lines = tr.finish();
  println!("{}", json!({"scenarios": scn, "events": lines, "out": out}));
  Ok(())
}
