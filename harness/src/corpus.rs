//! Search-oracle support: random schema + corpus generation, index construction over several
//! commits with upserts and deletions, and the *abstract corpus event* that Trace_Search.tla
//! consumes (every physical document slot with its analysed tokens, keyword / numeric values and
//! nested object tree). Analysis uses the repository's own analyzer objects because the search
//! properties are stated over the analysed field contents.
#![allow(dead_code)]

use std::collections::{BTreeMap, BTreeSet};

use anyhow::{anyhow, Result};
use rand::rngs::StdRng;
use rand::Rng;
use serde_json::{json, Value};

use searchlite_core::api::types::StorageType;
use searchlite_core::api::{Index, IndexReader};
use searchlite_core::Schema;

use crate::util::*;

pub const WORDS: [&str; 18] = [
  "rust", "rusty", "ruby", "run", "running", "go", "gopher", "java", "jam", "lang", "fast", "quick",
  "safe", "the", "of", "search", "searching", "zig",
];
pub const UNI_WORDS: [&str; 5] = ["vi\u{1ec7}t", "na\u{ef}ve", "\u{65e5}\u{672c}\u{8a9e}", "gr\u{fc}\u{df}e", "\u{451}\u{43b}\u{43a}\u{430}"];
pub const KW_TAGS: [&str; 8] = ["red", "Red", "RED", "green", "blue", "Blue", "grün", "GRÜN"];
pub const KW_CATS: [&str; 4] = ["news", "News", "sport", "tech"];
pub const AUTHORS: [&str; 5] = ["alice", "Alice", "bob", "BOB", "carol"];

#[derive(Clone, Debug)]
pub struct Knobs {
  pub analyzers: Vec<&'static str>, // candidates for text fields
  pub nested: bool,
  pub n_docs: (usize, usize),
  pub max_commits: usize,
  pub deletions: bool,
  pub multi_text: bool,
  pub long_postings: bool,
  /// every document holds the word `zig` once, a few hold it many times (block-max bounds differ between blocks)
  pub spiky: bool,
  /// some bodies end in a word with 2-, 3- or 4-byte characters (edit distances count characters)
  pub unicode_words: bool,
  /// always run the pass that deletes most of the first segment afterwards
  pub heavy_deletion: bool,
}

impl Default for Knobs {
  fn default() -> Self {
    Self {
      analyzers: vec!["default", "ws", "en", "syn"],
      nested: true,
      n_docs: (5, 24),
      max_commits: 4,
      deletions: true,
      multi_text: true,
      long_postings: false,
      spiky: false,
      unicode_words: false,
      heavy_deletion: false,
    }
  }
}

pub fn analyzers_json() -> Value {
  json!([
    {"name": "ws", "tokenizer": "whitespace", "filters": ["lowercase"]},
    {"name": "en", "tokenizer": "default", "filters": [{"stopwords": "en"}, {"stemmer": "english"}]},
    {"name": "syn", "tokenizer": "default", "filters": [{"synonyms": [{"from": ["fast"], "to": ["quick"]}]}]},
    {"name": "uni", "tokenizer": "unicode", "filters": []}
  ])
}

pub fn make_schema(r: &mut StdRng, k: &Knobs) -> Value {
  let a1 = *pick(r, &k.analyzers);
  let a2 = *pick(r, &k.analyzers);
  let mut s = json!({
    "doc_id_field": "_id",
    "analyzers": analyzers_json(),
    "text_fields": [
      {"name": "body", "analyzer": a1, "stored": true, "indexed": true, "nullable": true},
      {"name": "title", "analyzer": a2, "stored": true, "indexed": true, "nullable": true}
    ],
    "keyword_fields": [
      {"name": "tag", "stored": true, "indexed": true, "fast": true, "nullable": true},
      {"name": "cat", "stored": true, "indexed": true, "fast": true, "nullable": true}
    ],
    "numeric_fields": [
      {"name": "ver", "i64": true, "fast": true, "stored": true, "nullable": false},
      {"name": "year", "i64": true, "fast": true, "stored": true, "nullable": true},
      {"name": "rank", "i64": true, "fast": true, "stored": true, "nullable": true},
      {"name": "price", "i64": false, "fast": true, "stored": true, "nullable": true}
    ],
    "nested_fields": []
  });
  if k.nested {
    s["nested_fields"] = json!([
      {"name": "comments", "nullable": true, "fields": [
        {"type": "keyword", "name": "author", "stored": true, "indexed": true, "fast": true, "nullable": true},
        {"type": "numeric", "name": "stars", "i64": true, "fast": true, "stored": true, "nullable": true},
        {"type": "numeric", "name": "score", "i64": false, "fast": true, "stored": true, "nullable": true},
        {"type": "object", "name": "replies", "nullable": true, "fields": [
          {"type": "keyword", "name": "user", "stored": true, "indexed": true, "fast": true, "nullable": true},
          {"type": "numeric", "name": "votes", "i64": true, "fast": true, "stored": true, "nullable": true}
        ]}
      ]},
      {"name": "reviews", "nullable": true, "fields": [
        {"type": "keyword", "name": "author", "stored": true, "indexed": true, "fast": true, "nullable": true},
        {"type": "numeric", "name": "stars", "i64": true, "fast": true, "stored": true, "nullable": true}
      ]}
    ]);
  }
  s
}

fn words(r: &mut StdRng, n: usize, vocab: usize) -> String {
  let mut out = Vec::new();
  for _ in 0..n {
    let w = WORDS[r.gen_range(0..vocab.min(WORDS.len()))];
    let w = match r.gen_range(0..6) {
      0 => w.to_uppercase(),
      1 => {
        let mut c = w.chars();
        c.next().map(|f| f.to_uppercase().collect::<String>() + c.as_str()).unwrap_or_default()
      }
      _ => w.to_string(),
    };
    out.push(w);
  }
  out.join(" ")
}

/// f64 values are multiples of 1/4 so that fixed point (x4) is exact.
fn quarter(r: &mut StdRng, lo: i64, hi: i64) -> f64 {
  r.gen_range(lo * 4..=hi * 4) as f64 / 4.0
}

pub fn make_doc(r: &mut StdRng, k: &Knobs, id: &str, ver: u64, vocab: usize) -> Value {
  let mut d = serde_json::Map::new();
  d.insert("_id".into(), json!(id));
  d.insert("ver".into(), json!(ver));
  if k.spiky {
    let n0 = r.gen_range(1..=3);
    let reps = if chance(r, 1, 150) { r.gen_range(2..=12) } else { 1 };
    let go = if chance(r, 1, 2) { vec!["go"; r.gen_range(1..=2)].join(" ") } else { String::new() };
    d.insert("body".into(), json!(format!("{} {} {}", vec!["zig"; reps].join(" "), go, words(r, n0, vocab))));
  } else if k.long_postings {
    let n0 = r.gen_range(1..=4);
    d.insert("body".into(), json!(words(r, n0, vocab)));
  } else if k.multi_text && chance(r, 1, 6) {
    let n1 = r.gen_range(1..=3);
    let n2 = r.gen_range(1..=3);
    if chance(r, 1, 3) {
      // an empty member still separates its neighbours by a position gap
      d.insert("body".into(), json!([words(r, n1.min(2), vocab), "", words(r, n2.min(2), vocab)]));
    } else {
      d.insert("body".into(), json!([words(r, n1, vocab), words(r, n2, vocab)]));
    }
  } else if !chance(r, 1, 12) {
    let n = r.gen_range(1..=6);
    d.insert("body".into(), json!(words(r, n, vocab)));
  }
  if k.unicode_words && chance(r, 1, 4) {
    if let Some(Value::String(t)) = d.get_mut("body") {
      t.push(' ');
      t.push_str(*pick(r, &UNI_WORDS));
    }
  }
  if chance(r, 2, 3) {
    let n = r.gen_range(1..=3);
    d.insert("title".into(), json!(words(r, n, vocab)));
  }
  match r.gen_range(0..4) {
    0 => {}
    1 => {
      d.insert("tag".into(), json!(*pick(r, &KW_TAGS)));
    }
    _ => {
      let n = r.gen_range(1..=3);
      let v: Vec<&str> = (0..n).map(|_| *pick(r, &KW_TAGS)).collect();
      d.insert("tag".into(), json!(v));
    }
  }
  if chance(r, 3, 4) {
    d.insert("cat".into(), json!(*pick(r, &KW_CATS)));
  }
  if chance(r, 4, 5) {
    d.insert("year".into(), json!(r.gen_range(2018..=2024)));
  }
  match r.gen_range(0..4) {
    0 => {}
    1 => {
      d.insert("rank".into(), json!(r.gen_range(0..=6)));
    }
    _ => {
      let n = r.gen_range(1..=3);
      let v: Vec<i64> = (0..n).map(|_| r.gen_range(0..=6)).collect();
      d.insert("rank".into(), json!(v));
    }
  }
  if chance(r, 3, 4) {
    d.insert("price".into(), json!(quarter(r, 0, 6)));
  }
  if k.nested && chance(r, 2, 3) {
    let n = r.gen_range(1..=3);
    let mut comments = Vec::new();
    for _ in 0..n {
      let mut c = serde_json::Map::new();
      if chance(r, 5, 6) {
        if chance(r, 1, 5) {
          c.insert("author".into(), json!([*pick(r, &AUTHORS), *pick(r, &AUTHORS)]));
        } else {
          c.insert("author".into(), json!(*pick(r, &AUTHORS)));
        }
      }
      if chance(r, 3, 4) {
        c.insert("stars".into(), json!(r.gen_range(1..=5)));
      }
      if chance(r, 1, 2) {
        c.insert("score".into(), json!(quarter(r, 0, 2)));
      }
      if chance(r, 1, 2) {
        let m = r.gen_range(1..=2);
        let mut replies = Vec::new();
        for _ in 0..m {
          let mut rp = serde_json::Map::new();
          if chance(r, 5, 6) {
            rp.insert("user".into(), json!(*pick(r, &AUTHORS)));
          }
          if chance(r, 2, 3) {
            rp.insert("votes".into(), json!(r.gen_range(0..=3)));
          }
          if rp.is_empty() {
            rp.insert("votes".into(), json!(0));
          }
          replies.push(Value::Object(rp));
        }
        c.insert("replies".into(), Value::Array(replies));
      }
      if c.is_empty() {
        c.insert("stars".into(), json!(1));
      }
      comments.push(Value::Object(c));
    }
    d.insert("comments".into(), Value::Array(comments));
    // a second nested path at the same level (sibling nested clauses on different paths)
    if chance(r, 1, 2) {
      let n = r.gen_range(1..=3);
      let mut reviews = Vec::new();
      for _ in 0..n {
        let mut c = serde_json::Map::new();
        if chance(r, 5, 6) {
          c.insert("author".into(), json!(*pick(r, &AUTHORS)));
        }
        if chance(r, 3, 4) {
          c.insert("stars".into(), json!(r.gen_range(1..=5)));
        }
        reviews.push(Value::Object(c));
      }
      d.insert("reviews".into(), Value::Array(reviews));
    }
  }
  Value::Object(d)
}

pub struct Built {
  pub scratch: Scratch,
  pub idx: Index,
  pub schema: Schema,
  pub schema_json: Value,
  /// (id, ver) -> document as written
  pub versions: BTreeMap<(String, u64), Value>,
  pub n_commits: usize,
}

/// Build an index: documents spread over 1..max_commits commits, with upserts and deletions.
pub fn build_index(r: &mut StdRng, k: &Knobs, storage: &str) -> Result<Built> {
  let scratch = Scratch::new("search");
  let root = scratch.join("idx");
  let schema_json = make_schema(r, k);
  let schema = schema_from_json(schema_json.clone());
  let (st, stype) = storage_arc(storage, &root);
  let mut o = opts(&root, stype);
  o.enable_positions = true;
  let idx = Index::create_with_storage(&root, schema.clone(), o, st)?;
  let n_docs = r.gen_range(k.n_docs.0..=k.n_docs.1);
  let vocab = r.gen_range(4..=WORDS.len());
  let n_commits = r.gen_range(1..=k.max_commits);
  let mut versions = BTreeMap::new();
  let mut ver = 0u64;
  let ids: Vec<String> = (0..n_docs).map(|i| format!("d{i:02}")).collect();
  let mut w = idx.writer()?;
  let mut added: Vec<String> = Vec::new();
  for c in 0..n_commits {
    let lo = c * n_docs / n_commits;
    let hi = (c + 1) * n_docs / n_commits;
    for id in ids[lo..hi].iter() {
      ver += 1;
      let d = make_doc(r, k, id, ver, vocab);
      w.add_document(&doc_from_json(d.clone()))?;
      versions.insert((id.clone(), ver), d);
      added.push(id.clone());
    }
    if c > 0 && k.deletions {
      // upserts and deletions of earlier documents
      let n_up = r.gen_range(0..=2);
      for _ in 0..n_up {
        let id = pick(r, &added).clone();
        ver += 1;
        let d = make_doc(r, k, &id, ver, vocab);
        w.add_document(&doc_from_json(d.clone()))?;
        versions.insert((id, ver), d);
      }
      let n_del = r.gen_range(0..=2);
      for _ in 0..n_del {
        let id = pick(r, &added).clone();
        w.delete_document(&id)?;
      }
    }
    w.commit()?;
  }
  // sometimes a segment loses most of its documents afterwards: its postings then outnumber
  // its live documents (statistics with deletions, candidates among tombstones)
  let heavy = k.deletions && n_commits > 0 && chance(r, 1, 3);
  if heavy || (k.deletions && n_commits > 0 && k.heavy_deletion) {
    let victims: Vec<String> = ids[..(n_docs / n_commits).max(1)].to_vec();
    let keep = r.gen_range(0..=victims.len() / 4);
    for id in victims.iter().skip(keep) {
      w.delete_document(id)?;
    }
    if chance(r, 1, 2) {
      ver += 1;
      let id = format!("d{:02}", n_docs);
      let d = make_doc(r, k, &id, ver, vocab);
      w.add_document(&doc_from_json(d.clone()))?;
      versions.insert((id, ver), d);
    }
    w.commit()?;
  }
  drop(w);
  Ok(Built {
    scratch,
    idx,
    schema,
    schema_json,
    versions,
    n_commits,
  })
}

// ------------------------------------------------------------------------------------------------
// Abstract corpus
// ------------------------------------------------------------------------------------------------

pub struct Dict {
  pub strings: BTreeSet<String>,
}

impl Dict {
  pub fn new() -> Self {
    Self {
      strings: BTreeSet::new(),
    }
  }
  pub fn add(&mut self, s: &str) {
    self.strings.insert(s.to_string());
  }
  /// One entry per string: code points, std lowercase, ascii lowercase.
  pub fn to_json(&self) -> Value {
    let mut all = self.strings.clone();
    for s in self.strings.iter() {
      all.insert(s.to_lowercase());
      all.insert(s.to_ascii_lowercase());
    }
    Value::Array(
      all
        .iter()
        .map(|s| {
          json!({
            "s": s,
            "cp": s.chars().map(|c| c as u32).collect::<Vec<u32>>(),
            "lc": s.to_lowercase(),
            "alc": s.to_ascii_lowercase(),
          })
        })
        .collect(),
    )
  }
}

fn strings_of(v: Option<&Value>) -> Vec<String> {
  match v {
    None | Some(Value::Null) => vec![],
    Some(Value::String(s)) => vec![s.clone()],
    Some(Value::Array(a)) => a.iter().filter_map(|x| x.as_str().map(|s| s.to_string())).collect(),
    _ => vec![],
  }
}

fn i64s_of(v: Option<&Value>) -> Vec<i64> {
  match v {
    None | Some(Value::Null) => vec![],
    Some(Value::Array(a)) => a.iter().filter_map(|x| x.as_i64()).collect(),
    Some(x) => x.as_i64().into_iter().collect(),
  }
}

/// f64 values as quarters (x4), exact for the generator's values.
fn q4s_of(v: Option<&Value>) -> Vec<i64> {
  let f = |x: &Value| x.as_f64().map(|f| (f * 4.0).round() as i64);
  match v {
    None | Some(Value::Null) => vec![],
    Some(Value::Array(a)) => a.iter().filter_map(f).collect(),
    Some(x) => f(x).into_iter().collect(),
  }
}

pub fn analyse_index(schema: &Schema, field: &str, text: &str) -> Vec<(String, u32)> {
  let an = schema.build_analyzers().expect("analyzers");
  match an.index_analyzer(field) {
    Some(a) => a.analyze(text).into_iter().map(|t| (t.text, t.position)).collect(),
    None => vec![],
  }
}

pub fn analyse_search(schema: &Schema, field: &str, text: &str) -> Vec<(String, u32)> {
  let an = schema.build_analyzers().expect("analyzers");
  match an.search_analyzer(field) {
    Some(a) => a.analyze(text).into_iter().map(|t| (t.text, t.position)).collect(),
    None => vec![],
  }
}

fn nested_obj_json(o: &Value, dict: &mut Dict) -> Value {
  // comments object: author kw, stars i64, score f64, replies[]
  let authors = strings_of(o.get("author"));
  let users = strings_of(o.get("user"));
  for s in authors.iter().chain(users.iter()) {
    dict.add(s);
  }
  let replies: Vec<Value> = match o.get("replies") {
    Some(Value::Array(a)) => a.iter().map(|x| nested_obj_json(x, dict)).collect(),
    Some(x @ Value::Object(_)) => vec![nested_obj_json(x, dict)],
    _ => vec![],
  };
  json!({
    "kw": [{"f": "author", "vals": authors}, {"f": "user", "vals": users}],
    "i64": [{"f": "stars", "vals": i64s_of(o.get("stars"))}, {"f": "votes", "vals": i64s_of(o.get("votes"))}],
    "f64": [{"f": "score", "vals": q4s_of(o.get("score"))}],
    "nested": [{"path": "replies", "objs": replies}],
  })
}

/// Abstract form of one document (as written) under `schema`.
pub fn abstract_doc(schema: &Schema, d: &Value, dict: &mut Dict) -> Value {
  let mut text = Vec::new();
  for f in ["body", "title"] {
    let vals: Vec<Value> = strings_of(d.get(f))
      .iter()
      .map(|s| {
        Value::Array(
          analyse_index(schema, f, s)
            .into_iter()
            .map(|(t, p)| {
              dict.add(&t);
              json!([t, p])
            })
            .collect(),
        )
      })
      .collect();
    text.push(json!({"f": f, "vals": vals}));
  }
  let mut kw = Vec::new();
  for f in ["tag", "cat"] {
    let vals = strings_of(d.get(f));
    for s in vals.iter() {
      dict.add(s);
    }
    kw.push(json!({"f": f, "vals": vals}));
  }
  let i64s: Vec<Value> = ["ver", "year", "rank"]
    .iter()
    .map(|f| json!({"f": f, "vals": i64s_of(d.get(*f))}))
    .collect();
  let f64s = vec![json!({"f": "price", "vals": q4s_of(d.get("price"))})];
  let comments: Vec<Value> = match d.get("comments") {
    Some(Value::Array(a)) => a.iter().map(|x| nested_obj_json(x, dict)).collect(),
    Some(x @ Value::Object(_)) => vec![nested_obj_json(x, dict)],
    _ => vec![],
  };
  let reviews: Vec<Value> = match d.get("reviews") {
    Some(Value::Array(a)) => a.iter().map(|x| nested_obj_json(x, dict)).collect(),
    Some(x @ Value::Object(_)) => vec![nested_obj_json(x, dict)],
    _ => vec![],
  };
  json!({
    "vec": [{"f": "emb", "vals": i64s_of(d.get("emb"))}],
    "text": text, "kw": kw, "i64": i64s, "f64": f64s,
    "nested": [{"path": "comments", "objs": comments}, {"path": "reviews", "objs": reviews}],
  })
}

/// The corpus event: every physical slot (segment, ord) with liveness and abstract content.
pub fn corpus_event(b: &Built, reader: &IndexReader, scn: usize, dict: &mut Dict) -> Result<Value> {
  let mut docs = Vec::new();
  for (s, seg) in reader.segments.iter().enumerate() {
    for o in 0..seg.meta.doc_count {
      let id = seg.doc_id(o).ok_or_else(|| anyhow!("no id for slot"))?.to_string();
      let stored = seg.get_doc(o)?;
      let ver = stored.get("ver").and_then(|v| v.as_u64()).unwrap_or(0);
      let written = b
        .versions
        .get(&(id.clone(), ver))
        .ok_or_else(|| anyhow!("unknown version {id}/{ver}"))?;
      let mut a = abstract_doc(&b.schema, written, dict);
      let m = a.as_object_mut().unwrap();
      m.insert("id".into(), json!(id));
      m.insert("ver".into(), json!(ver));
      m.insert("seg".into(), json!(s));
      m.insert("ord".into(), json!(o));
      m.insert("live".into(), json!(!seg.is_deleted(o)));
      docs.push(a);
    }
  }
  Ok(json!({"ev": "corpus", "scn": scn, "nseg": reader.segments.len(), "docs": docs}))
}

pub fn storage_kind(r: &mut StdRng) -> &'static str {
  if chance(r, 1, 3) {
    "memory"
  } else {
    "fs"
  }
}

pub fn _unused(_: StorageType) {}
