//! (stub) family `corrupt` - see CONTRIBUTING.md
use anyhow::{bail, Result};

use crate::util::Args;

pub fn main(_args: &Args) -> Result<()> {
  bail!("family corrupt is not implemented yet")
}
