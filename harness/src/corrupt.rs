//! C17 driver: single-fault corruption of every file of small committed indexes.
//!
//! For each scenario a small index is built (2 segments, tombstones, a pending write-ahead log,
//! text/keyword/numeric fields). The pristine observation battery is recorded, then every chosen
//! damage (flip one byte with a mask, or truncate to a length) is applied *in place* (the manifest
//! stores absolute segment paths, so a relocated copy would read the original's files), the real
//! open / reader / search battery / log replay / writer run under `catch_unwind`, and the file is
//! restored. This module only records what happened; spec/Trace_Integrity.tla decides whether the
//! outcome is allowed for the class of the damaged file.

use std::collections::BTreeMap;
use std::panic::AssertUnwindSafe;
use std::path::{Path, PathBuf};

use anyhow::{anyhow, Result};
use rand::rngs::StdRng;
use rand::Rng;
use serde_json::{json, Value};

use searchlite_core::api::types::StorageType;
use searchlite_core::api::Index;
use searchlite_core::storage::FsStorage;
use searchlite_core::wal::{Wal, WalEntry};

use crate::history::IDS;
use crate::util::*;

pub const MASKS: [u8; 3] = [0x01, 0x80, 0xFF];

pub fn schema_json() -> Value {
  json!({
    "doc_id_field": "_id",
    "text_fields": [
      {"name": "body", "analyzer": "default", "stored": true, "indexed": true, "nullable": false}
    ],
    "keyword_fields": [
      {"name": "tag", "stored": true, "indexed": true, "fast": true, "nullable": true}
    ],
    "numeric_fields": [
      {"name": "ver", "i64": true, "fast": true, "stored": true, "nullable": false},
      {"name": "price", "i64": false, "fast": true, "stored": true, "nullable": true}
    ],
    "nested_fields": []
  })
}

pub fn make_doc(id: &str, ver: u64, r: &mut StdRng) -> Value {
  let mut d = serde_json::Map::new();
  d.insert("_id".into(), json!(id));
  d.insert("body".into(), json!(format!("w{ver} common {id} x{}", ver % 2)));
  d.insert("ver".into(), json!(ver));
  d.insert("tag".into(), json!(format!("t{}", ver % 2)));
  if chance(r, 1, 2) {
    d.insert("price".into(), json!(ver as f64 + 0.5));
  }
  Value::Object(d)
}

/// Two committed segments with tombstones in the first one, then 2-3 queued operations that stay
/// in the write-ahead log (the handle is dropped without commit).
/// `with_marker`: the log additionally starts with an already committed add and a commit marker
/// (the state a crash between writing the marker and truncating the log leaves behind).
pub fn build_index(root: &Path, r: &mut StdRng, with_marker: bool) -> Result<Value> {
  let schema = schema_from_json(schema_json());
  let idx = Index::create(root, schema, opts(root, StorageType::Filesystem))?;
  let mut ver = 0u64;
  let n1 = r.gen_range(3..=5usize);
  let ids = &IDS[..7];
  let mut plan = Vec::new();
  {
    let mut w = idx.writer()?;
    for id in ids.iter().take(n1) {
      ver += 1;
      w.add_document(&doc_from_json(make_doc(id, ver, r)))?;
      plan.push(json!({"seg": 1, "op": "add", "id": id, "ver": ver}));
    }
    w.commit()?;
  }
  {
    let mut w = idx.writer()?;
    // upsert one document of the first segment, delete another, add new ones
    let up = ids[r.gen_range(0..n1)];
    let mut del = ids[r.gen_range(0..n1)];
    if del == up {
      del = ids[(ids.iter().position(|x| *x == up).unwrap() + 1) % n1];
    }
    ver += 1;
    w.add_document(&doc_from_json(make_doc(up, ver, r)))?;
    plan.push(json!({"seg": 2, "op": "add", "id": up, "ver": ver}));
    w.delete_documents(&[del.to_string()])?;
    plan.push(json!({"seg": 2, "op": "del", "id": del, "ver": 0}));
    let n2 = r.gen_range(1..=2usize);
    for id in ids.iter().skip(n1).take(n2) {
      ver += 1;
      w.add_document(&doc_from_json(make_doc(id, ver, r)))?;
      plan.push(json!({"seg": 2, "op": "add", "id": id, "ver": ver}));
    }
    w.commit()?;
  }
  if with_marker {
    let storage: std::sync::Arc<dyn searchlite_core::storage::Storage> =
      std::sync::Arc::new(FsStorage::new(root.to_path_buf()));
    let mut wal = Wal::open(storage, &root.join("wal.log"))?;
    wal.append_add_doc(&doc_from_json(make_doc(ids[n1], ver, r)))?;
    wal.append_commit()?;
    wal.sync()?;
    plan.push(json!({"seg": 0, "op": "marker", "id": ids[n1], "ver": ver}));
  }
  {
    let mut w = idx.writer()?;
    let npend = r.gen_range(2..=3usize);
    for k in 0..npend {
      if k == 1 {
        let id = ids[r.gen_range(0..n1)];
        w.delete_documents(&[id.to_string()])?;
        plan.push(json!({"seg": 0, "op": "del", "id": id, "ver": 0}));
      } else {
        ver += 1;
        let id = ids[r.gen_range(0..ids.len())];
        w.add_document(&doc_from_json(make_doc(id, ver, r)))?;
        plan.push(json!({"seg": 0, "op": "add", "id": id, "ver": ver}));
      }
    }
    drop(w); // fsyncs the log, nothing is committed
  }
  Ok(Value::Array(plan))
}

// ------------------------------------------------------------------------------------------------
// observation battery
// ------------------------------------------------------------------------------------------------

pub fn battery() -> Vec<(&'static str, Value)> {
  vec![
    (
      "match_all_stored",
      json!({"query": {"type": "match_all"}, "limit": 100, "return_stored": true,
             "highlight_field": null, "execution": "bm25"}),
    ),
    (
      "term_body_common",
      json!({"query": {"type": "term", "field": "body", "value": "common"}, "limit": 100,
             "return_stored": true, "highlight_field": null, "execution": "bm25"}),
    ),
    (
      "term_body_x1_wand",
      json!({"query": {"type": "term", "field": "body", "value": "x1"}, "limit": 100,
             "return_stored": false, "highlight_field": null, "execution": "wand"}),
    ),
    (
      "filter_tag_t1",
      json!({"query": {"type": "match_all"}, "limit": 100, "return_stored": true,
             "highlight_field": null, "execution": "bm25",
             "filter": {"KeywordEq": {"field": "tag", "value": "t1"}}}),
    ),
    (
      "sort_ver_desc",
      json!({"query": {"type": "match_all"}, "limit": 100, "return_stored": false,
             "highlight_field": null, "execution": "bm25",
             "sort": [{"field": "ver", "order": "desc"}]}),
    ),
  ]
}

pub fn fnv(s: &str) -> String {
  let mut h: u64 = 0xcbf2_9ce4_8422_2325;
  for b in s.bytes() {
    h ^= b as u64;
    h = h.wrapping_mul(0x0000_0100_0000_01b3);
  }
  format!("{h:016x}")
}

/// Canonical text of a search result: total, then hits in returned order with score bits and the
/// stored fields (key-sorted JSON).
fn result_text(res: &searchlite_core::api::reader::SearchResult) -> String {
  let mut s = format!("total={}", res.total_hits_estimate);
  for h in res.hits.iter() {
    s.push_str(&format!(
      " | {} s={:08x} f={}",
      h.doc_id,
      h.score.to_bits(),
      h.fields.as_ref().map(|f| f.to_string()).unwrap_or_default()
    ));
  }
  s
}

#[derive(Clone, Debug, Default)]
pub struct Probe {
  pub open_ok: bool,
  pub reader_ok: bool,
  pub search_ok: bool,
  pub panicked: bool,
  pub err: String,
  pub obs: Vec<String>,   // digests, one per battery query that ran
  pub texts: Vec<String>, // the canonical texts (for witnesses only)
  pub replay_ok: bool,
  pub replay: Vec<String>,
  pub pending: Vec<String>,
  pub writer_ok: bool,
}

fn entry_text(e: &WalEntry) -> String {
  match e {
    WalEntry::AddDoc(d) => format!("add:{}", fnv(&serde_json::to_string(&d.fields).unwrap_or_default())),
    WalEntry::DeleteDocId(id) => format!("del:{id}"),
    WalEntry::Commit => "commit".to_string(),
  }
}

fn short(e: &str) -> String {
  e.chars().take(160).collect()
}

/// Everything the property talks about, on the index currently at `root`.
/// `with_writer`: also create a writer handle when the index did not open or read (it always is
/// created when the reader works; creating one costs an fsync of the log when it is dropped).
pub fn probe(root: &Path, with_writer: bool) -> Probe {
  let root = root.to_path_buf();
  let mut out = Probe::default();
  let res = std::panic::catch_unwind(AssertUnwindSafe(|| {
    let idx = match Index::open(opts(&root, StorageType::Filesystem)) {
      Ok(i) => i,
      Err(e) => {
        out.err = short(&format!("open: {e:#}"));
        return;
      }
    };
    out.open_ok = true;
    match idx.reader() {
      Ok(reader) => {
        out.reader_ok = true;
        out.search_ok = true;
        for (name, req) in battery() {
          match reader.search(&request(req)) {
            Ok(res) => {
              let t = result_text(&res);
              out.obs.push(fnv(&t));
              out.texts.push(t);
            }
            Err(e) => {
              out.search_ok = false;
              out.err = short(&format!("search {name}: {e:#}"));
              break;
            }
          }
        }
      }
      Err(e) => out.err = short(&format!("reader: {e:#}")),
    }
    let storage = FsStorage::new(root.clone());
    let wal_path = root.join("wal.log");
    match (Wal::replay(&storage, &wal_path), Wal::last_pending_ops(&storage, &wal_path)) {
      (Ok(a), Ok(p)) => {
        out.replay_ok = true;
        out.replay = a.iter().map(entry_text).collect();
        out.pending = p.iter().map(entry_text).collect();
      }
      (Err(e), _) | (_, Err(e)) => {
        if out.err.is_empty() {
          out.err = short(&format!("wal: {e:#}"));
        }
      }
    }
    if !(with_writer || out.reader_ok) {
      return;
    }
    match idx.writer() {
      Ok(w) => {
        out.writer_ok = true;
        drop(w);
      }
      Err(e) => {
        if out.err.is_empty() {
          out.err = short(&format!("writer: {e:#}"));
        }
      }
    }
  }));
  if let Err(p) = res {
    out.panicked = true;
    let msg = p
      .downcast_ref::<String>()
      .cloned()
      .or_else(|| p.downcast_ref::<&str>().map(|s| s.to_string()))
      .unwrap_or_else(|| "panic".to_string());
    out.err = short(&format!("panic: {msg}"));
  }
  out
}

/// The harness's own reading of the raw facts (for humans; the trace specification derives the
/// class itself from the raw fields and reports a TOOL message when the two disagree).
pub fn outcome_class(class: &str, p: &Probe, pristine: &Probe) -> &'static str {
  let base = base_class(p, pristine);
  if class == "wal" && base == "SameResults" {
    if !(p.replay_ok && p.writer_ok) {
      return "OpenErr";
    }
    let mut pend: Vec<String> = Vec::new();
    for e in p.replay.iter() {
      if e == "commit" {
        pend.clear();
      } else {
        pend.push(e.clone());
      }
    }
    let prefix = p.replay.len() <= pristine.replay.len() && p.replay[..] == pristine.replay[..p.replay.len()];
    return if prefix && pend == p.pending { "PendingPrefix" } else { "PendingNotPrefix" };
  }
  base
}

fn base_class(p: &Probe, pristine: &Probe) -> &'static str {
  if p.panicked {
    "Panic"
  } else if !p.open_ok || !p.reader_ok {
    "OpenErr"
  } else if !p.search_ok {
    "SearchErr"
  } else if p.obs == pristine.obs {
    "SameResults"
  } else {
    "DifferentResults"
  }
}

// ------------------------------------------------------------------------------------------------
// JSON pointer class of every byte of a JSON text
// ------------------------------------------------------------------------------------------------

/// For every byte of `data` (a JSON document) the pointer class of the token it belongs to:
/// `<pointer with array indices replaced by *>#<role>`, role = key | num | str | bool | null for
/// tokens, `struct` for braces, brackets, commas and colons, `ws` for white space.
pub fn pointer_classes(data: &[u8]) -> Vec<String> {
  let mut cls: Vec<String> = vec![String::new(); data.len()];
  let mut p = JsonWalk { d: data, i: 0, cls: &mut cls };
  p.value("");
  let end = p.i;
  for c in cls.iter_mut().skip(end) {
    if c.is_empty() {
      *c = "#ws".to_string();
    }
  }
  cls
}

struct JsonWalk<'a> {
  d: &'a [u8],
  i: usize,
  cls: &'a mut Vec<String>,
}

impl<'a> JsonWalk<'a> {
  fn mark(&mut self, from: usize, to: usize, ptr: &str, role: &str) {
    for k in from..to.min(self.d.len()) {
      self.cls[k] = format!("{ptr}#{role}");
    }
  }
  fn ws(&mut self, ptr: &str) {
    let s = self.i;
    while self.i < self.d.len() && matches!(self.d[self.i], b' ' | b'\n' | b'\r' | b'\t') {
      self.i += 1;
    }
    self.mark(s, self.i, ptr, "ws");
  }
  fn string(&mut self) -> (usize, usize, String) {
    let s = self.i;
    self.i += 1;
    let mut text = Vec::new();
    while self.i < self.d.len() && self.d[self.i] != b'"' {
      if self.d[self.i] == b'\\' {
        self.i += 1;
      }
      if self.i < self.d.len() {
        text.push(self.d[self.i]);
      }
      self.i += 1;
    }
    self.i = (self.i + 1).min(self.d.len());
    (s, self.i, String::from_utf8_lossy(&text).into_owned())
  }
  fn value(&mut self, ptr: &str) {
    self.ws(ptr);
    if self.i >= self.d.len() {
      return;
    }
    match self.d[self.i] {
      b'{' => {
        self.mark(self.i, self.i + 1, ptr, "struct");
        self.i += 1;
        loop {
          self.ws(ptr);
          if self.i >= self.d.len() {
            return;
          }
          if self.d[self.i] == b'}' {
            self.mark(self.i, self.i + 1, ptr, "struct");
            self.i += 1;
            return;
          }
          if self.d[self.i] == b',' {
            self.mark(self.i, self.i + 1, ptr, "struct");
            self.i += 1;
            continue;
          }
          if self.d[self.i] != b'"' {
            self.i += 1;
            continue;
          }
          let (s, e, key) = self.string();
          let child = format!("{ptr}/{key}");
          self.mark(s, e, &child, "key");
          self.ws(ptr);
          if self.i < self.d.len() && self.d[self.i] == b':' {
            self.mark(self.i, self.i + 1, ptr, "struct");
            self.i += 1;
          }
          self.value(&child);
        }
      }
      b'[' => {
        self.mark(self.i, self.i + 1, ptr, "struct");
        self.i += 1;
        let child = format!("{ptr}/*");
        loop {
          self.ws(ptr);
          if self.i >= self.d.len() {
            return;
          }
          if self.d[self.i] == b']' {
            self.mark(self.i, self.i + 1, ptr, "struct");
            self.i += 1;
            return;
          }
          if self.d[self.i] == b',' {
            self.mark(self.i, self.i + 1, ptr, "struct");
            self.i += 1;
            continue;
          }
          self.value(&child);
        }
      }
      b'"' => {
        let (s, e, _) = self.string();
        self.mark(s, e, ptr, "str");
      }
      _ => {
        let s = self.i;
        while self.i < self.d.len()
          && !matches!(self.d[self.i], b',' | b'}' | b']' | b' ' | b'\n' | b'\r' | b'\t')
        {
          self.i += 1;
        }
        let role = match self.d[s] {
          b't' | b'f' => "bool",
          b'n' => "null",
          _ => "num",
        };
        if self.i == s {
          self.i += 1;
        }
        self.mark(s, self.i, ptr, role);
      }
    }
  }
}

// ------------------------------------------------------------------------------------------------
// files, damages
// ------------------------------------------------------------------------------------------------

pub fn file_class(name: &str) -> &'static str {
  if name == "MANIFEST.json" {
    "manifest"
  } else if name == "wal.log" {
    "wal"
  } else if name.starts_with("seg_") {
    "segment"
  } else {
    "other"
  }
}

pub fn read_tree(root: &Path) -> Result<BTreeMap<String, Vec<u8>>> {
  fn walk(base: &Path, dir: &Path, out: &mut BTreeMap<String, Vec<u8>>) -> Result<()> {
    let mut entries: Vec<PathBuf> = std::fs::read_dir(dir)?.map(|e| e.map(|e| e.path())).collect::<std::io::Result<_>>()?;
    entries.sort();
    for p in entries {
      if p.is_dir() {
        walk(base, &p, out)?;
      } else {
        let rel = p.strip_prefix(base).unwrap().to_string_lossy().into_owned();
        out.insert(rel, std::fs::read(&p)?);
      }
    }
    Ok(())
  }
  let mut out = BTreeMap::new();
  walk(root, root, &mut out)?;
  Ok(out)
}

#[derive(Clone, Copy, Debug)]
pub enum Damage {
  Flip(usize, u8),
  Trunc(usize),
}

/// Damages to try on a file of `len` bytes. Dense: every byte x every mask, every shorter length.
/// Sampled: first/last bytes, `npos` seeded positions x every mask, `npos/4` seeded lengths plus
/// 0 and len-1; `all_bytes_mask01` adds every byte with mask 0x01 (used for the manifest, where
/// 0x01 is the mask that turns one JSON token into another valid one).
fn damages(len: usize, dense: bool, npos: usize, all_bytes_mask01: bool, r: &mut StdRng) -> Vec<Damage> {
  let mut out = Vec::new();
  if len == 0 {
    return out;
  }
  if dense || len <= npos {
    for off in 0..len {
      for m in MASKS {
        out.push(Damage::Flip(off, m));
      }
    }
    for n in 0..len {
      out.push(Damage::Trunc(n));
    }
    return out;
  }
  let mut pos: std::collections::BTreeSet<usize> = [0, 1, len / 2, len - 2, len - 1].into_iter().collect();
  while pos.len() < npos.min(len) {
    pos.insert(r.gen_range(0..len));
  }
  for off in 0..len {
    if pos.contains(&off) {
      for m in MASKS {
        out.push(Damage::Flip(off, m));
      }
    } else if all_bytes_mask01 {
      out.push(Damage::Flip(off, 0x01));
    }
  }
  let mut cuts: std::collections::BTreeSet<usize> = [0, 1, len / 2, len - 1].into_iter().collect();
  while cuts.len() < (npos / 4).max(4).min(len) {
    cuts.insert(r.gen_range(0..len));
  }
  out.extend(cuts.into_iter().map(Damage::Trunc));
  out
}

struct Stats {
  probes: usize,
  files: usize,
  by_outcome: BTreeMap<String, usize>,
  distinct: std::collections::BTreeSet<String>,
}

/// One scenario, run inside a child process (`svh corrupt --child`): a damaged file can make the
/// code under test abort the whole process (allocation failure, stack overflow), which
/// `catch_unwind` cannot contain. Before every probe the child flushes its trace and writes the
/// probe's descriptor to `inflight`; if the child dies the parent records that probe as a panic
/// and restarts the scenario behind it (`skip`).
#[allow(clippy::too_many_arguments)]
fn run_scenario(scn: usize, seed: u64, dense: bool, npos: usize, tr: &mut Tracer, skip: usize, inflight: &Path, root: &Path, plan: Value) -> Result<()> {
  // the index was built (and is put back to its pristine bytes before every start) by the parent
  let mut r = rng(seed, 18_000_000 + scn as u64);
  let root = root.to_path_buf();
  let pristine_files = read_tree(&root)?;
  let pristine = probe(&root, true);
  // the probe may trim the log / create files: put the pristine bytes back after every probe
  let restore = |name: &str| -> Result<()> {
    std::fs::write(root.join(name), &pristine_files[name])?;
    Ok(())
  };
  restore("wal.log")?;
  let again = probe(&root, true);
  restore("wal.log")?;
  if pristine.panicked
    || !pristine.search_ok
    || !pristine.writer_ok
    || !pristine.replay_ok
    || pristine.obs != again.obs
    || pristine.replay != again.replay
    || pristine.obs.len() != battery().len()
  {
    return Err(anyhow!(
      "pristine index does not give a stable observation (scenario {scn}): {:?} / {:?}",
      pristine,
      again
    ));
  }
  if read_tree(&root)?.keys().ne(pristine_files.keys()) {
    return Err(anyhow!("probing the pristine index changed its file set"));
  }
  let files_json: Vec<Value> = pristine_files
    .iter()
    .map(|(n, d)| json!({"name": n, "class": file_class(n), "len": d.len()}))
    .collect();
  if skip == 0 {
    tr.emit(json!({
      "ev": "reset", "scn": scn, "dense": dense, "files": files_json, "plan": plan,
      "obs": pristine.obs, "replay": pristine.replay, "pending": pristine.pending,
      "queries": battery().iter().map(|b| b.0).collect::<Vec<_>>(),
    }));
  }
  let mut idx = 0usize; // probe index within the scenario
  for (name, data) in pristine_files.iter() {
    let class = file_class(name);
    let ptrs = if class == "manifest" { pointer_classes(data) } else { Vec::new() };
    let first = idx;
    let mut nfile = 0usize;
    for dmg in damages(data.len(), dense, npos, class == "manifest", &mut r) {
      let this = idx;
      idx += 1;
      nfile += 1;
      if this < skip {
        continue;
      }
      let (kind, off, mask, bytes) = match dmg {
        Damage::Flip(off, m) => {
          let mut b = data.clone();
          b[off] ^= m;
          ("flip", off, m, b)
        }
        Damage::Trunc(n) => ("trunc", n, 0u8, data[..n].to_vec()),
      };
      // pointer class: for a flip the token of the flipped byte, for a truncation none
      let ptr = if kind == "flip" && !ptrs.is_empty() { ptrs[off].clone() } else { String::new() };
      tr.flush();
      std::fs::write(
        inflight,
        json!({
          "index": this,
          "event": {
            "ev": "probe", "file": name, "class": class, "ptr": ptr, "kind": kind, "off": off,
            "mask": mask, "open_ok": false, "reader_ok": false, "search_ok": false,
            "panic": true, "obs": [], "replay_ok": false, "replay": [],
            "pending": [], "writer_ok": false, "outcome": "Panic",
            "err": "the process died during this probe", "diff": "",
          }
        })
        .to_string(),
      )?;
      std::fs::write(root.join(name), &bytes)?;
      let p = probe(&root, class == "wal");
      restore(name)?;
      restore("wal.log")?;
      let outcome = outcome_class(class, &p, &pristine);
      let diff = if outcome == "DifferentResults" {
        p.texts
          .iter()
          .zip(pristine.texts.iter())
          .zip(battery().iter())
          .find(|((a, b), _)| a != b)
          .map(|((a, b), q)| short(&format!("{}: pristine [{}] damaged [{}]", q.0, b, a)))
          .unwrap_or_default()
      } else {
        String::new()
      };
      tr.emit(json!({
        "ev": "probe", "file": name, "class": class, "ptr": ptr, "kind": kind, "off": off,
        "mask": mask, "open_ok": p.open_ok, "reader_ok": p.reader_ok, "search_ok": p.search_ok,
        "panic": p.panicked, "obs": p.obs, "replay_ok": p.replay_ok, "replay": p.replay,
        "pending": p.pending, "writer_ok": p.writer_ok, "outcome": outcome,
        "err": p.err, "diff": diff,
      }));
    }
    // a restarted child repeats only the file_done lines its predecessor did not reach
    if first + nfile >= skip {
      tr.emit(json!({"ev": "file_done", "file": name, "class": class, "len": data.len(), "probes": nfile}));
    }
  }
  tr.flush();
  let _ = std::fs::remove_file(inflight);
  // the index must be pristine again
  let end = probe(&root, true);
  restore("wal.log")?;
  if end.obs != pristine.obs || read_tree(&root)? != pristine_files {
    return Err(anyhow!("index was not restored after the probes (scenario {scn})"));
  }
  Ok(())
}

fn child_main(args: &Args) -> Result<()> {
  let seed = args.u64("seed", 1);
  let scn = args.usize("scn", 0);
  let skip = args.usize("skip", 0);
  let dense = args.flag("dense");
  let npos = args.usize("positions", 200);
  let part = args.str("part", "");
  let inflight = args.str("inflight", "");
  let root = args.str("root", "");
  let plan: Value = serde_json::from_str(&std::fs::read_to_string(args.str("plan", ""))?)?;
  let mut tr = Tracer::create(Path::new(&part))?;
  std::panic::set_hook(Box::new(|_| {}));
  run_scenario(scn, seed, dense, npos, &mut tr, skip, Path::new(&inflight), Path::new(&root), plan)?;
  tr.finish();
  Ok(())
}

const MAX_DEATHS_PER_SCENARIO: usize = 25;

pub fn main(args: &Args) -> Result<()> {
  if args.flag("child") {
    return child_main(args);
  }
  let seed = args.u64("seed", 1);
  let out = args.str("out", "/verif/out/corrupt.ndjson");
  let n_scn = args.usize("scenarios", 2);
  let dense = args.flag("dense");
  let npos = args.usize("positions", 200);
  let mut tr = Tracer::create(Path::new(&out))?;
  let part = format!("{out}.part");
  let inflight = format!("{out}.inflight");
  let exe = std::env::current_exe()?;
  let mut deaths_total = 0usize;
  let plan_path = format!("{out}.plan");
  for scn in 0..n_scn {
    let mut skip = 0usize;
    let mut deaths = 0usize;
    // one index per scenario, shared by the restarts (segment file names are random)
    let mut r = rng(seed, 17_000_000 + scn as u64);
    let scratch = Scratch::new("corrupt");
    let root = scratch.join("idx");
    let plan = build_index(&root, &mut r, scn % 2 == 1)?;
    std::fs::write(&plan_path, plan.to_string())?;
    let pristine_files = read_tree(&root)?;
    loop {
      let _ = std::fs::remove_file(&inflight);
      // a child that died left its damage (and possibly new files) behind
      for name in read_tree(&root)?.keys() {
        if !pristine_files.contains_key(name) {
          let _ = std::fs::remove_file(root.join(name));
        }
      }
      for (name, data) in pristine_files.iter() {
        std::fs::write(root.join(name), data)?;
      }
      let mut cmd = std::process::Command::new(&exe);
      cmd.args(["corrupt", "--child", "--seed", &seed.to_string(), "--scn", &scn.to_string(), "--skip", &skip.to_string(),
                "--positions", &npos.to_string(), "--part", &part, "--inflight", &inflight,
                "--root", &root.to_string_lossy(), "--plan", &plan_path]);
      if dense {
        cmd.arg("--dense");
      }
      let status = cmd.status()?;
      // complete lines of the child's trace
      let text = std::fs::read_to_string(&part).unwrap_or_default();
      let complete = match text.rfind('\n') {
        Some(i) => &text[..=i],
        None => "",
      };
      for line in complete.lines() {
        if let Ok(v) = serde_json::from_str::<Value>(line) {
          tr.emit(v);
        }
      }
      if status.success() {
        break;
      }
      let killed_by_kill = {
        use std::os::unix::process::ExitStatusExt;
        status.signal() == Some(9)
      };
      let infl = std::fs::read_to_string(&inflight).ok().and_then(|t| serde_json::from_str::<Value>(&t).ok());
      match infl {
        Some(v) if !killed_by_kill && status.code() != Some(2) => {
          let mut ev = v["event"].clone();
          ev["err"] = json!(format!("the process died during this probe ({status})"));
          tr.emit(ev);
          skip = v["index"].as_u64().unwrap_or(0) as usize + 1;
          deaths += 1;
          deaths_total += 1;
          if deaths >= MAX_DEATHS_PER_SCENARIO {
            // enough witnesses; the remaining probes of this scenario are not made
            break;
          }
        }
        _ => return Err(anyhow!("svh corrupt child for scenario {scn} failed outside a probe: {status}")),
      }
    }
  }
  let _ = std::fs::remove_file(&part);
  let _ = std::fs::remove_file(&inflight);
  let _ = std::fs::remove_file(&plan_path);
  let lines = tr.finish();
  // statistics from the recorded events
  let mut st = Stats { probes: 0, files: 0, by_outcome: BTreeMap::new(), distinct: Default::default() };
  for line in std::fs::read_to_string(&out)?.lines() {
    let e: Value = serde_json::from_str(line)?;
    match e["ev"].as_str() {
      Some("probe") => {
        st.probes += 1;
        let (class, outcome) = (e["class"].as_str().unwrap_or(""), e["outcome"].as_str().unwrap_or(""));
        *st.by_outcome.entry(format!("{class}:{outcome}")).or_default() += 1;
        st.distinct.insert(format!(
          "{class}|{}|{}|{}|{outcome}|{}",
          e["ptr"].as_str().unwrap_or(""),
          e["kind"].as_str().unwrap_or(""),
          e["mask"],
          e["replay"].as_array().map(|a| a.len()).unwrap_or(0)
        ));
      }
      Some("file_done") => st.files += 1,
      _ => {}
    }
  }
  println!(
    "{}",
    json!({"scenarios": n_scn, "events": lines, "probes": st.probes, "files": st.files,
           "distinct": st.distinct.len(), "by_outcome": st.by_outcome, "process_deaths": deaths_total, "out": out})
  );
  Ok(())
}
