//! C01 / C02 driver: run call sequences on a real directory with the traced-fs hook recording
//! every primitive storage operation; then, for every operation boundary, build crash images
//! allowed by the file-system model (spec/Storage.tla), run the *real* recovery on each image and
//! log what it found. The verdicts come from spec/Trace_Crash.tla.

use std::collections::{BTreeMap, HashMap};
use std::path::{Path, PathBuf};

use anyhow::Result;
use rand::rngs::StdRng;
use rand::Rng;
use serde_json::{json, Value};

use searchlite_core::api::types::StorageType;
use searchlite_core::api::{Index, IndexWriter};
use searchlite_core::storage::FsStorage;
use searchlite_core::verif;
use searchlite_core::wal::{Wal, WalEntry};

use crate::fsmodel::{Descriptor, FsModel};
use crate::history::{schema_family, IDS};
use crate::util::*;

#[derive(Clone, Debug)]
enum Item {
  Call(Value),
  Fs(verif::Event),
  Ret(Value),
}

fn id_ver_list(idx: &Index) -> Result<Vec<(String, u64)>> {
  Ok(
    contents(idx)?
      .into_iter()
      .map(|(id, f)| {
        let ver = f.get("ver").and_then(|v| v.as_u64()).unwrap_or(0);
        (id, ver)
      })
      .collect(),
  )
}

fn idver_json(l: &[(String, u64)]) -> Value {
  Value::Array(l.iter().map(|(i, v)| json!({"id": i, "ver": v})).collect())
}

fn doc_for(id: &str, ver: u64) -> Value {
  json!({"_id": id, "body": format!("w{ver} common {id}"), "ver": ver})
}

#[derive(Clone, Debug, Default)]
struct ProbeResult {
  opened: bool,
  open_err: String,
  contents: Vec<(String, u64)>,
  pending: Vec<Value>,
  after_ok: bool,
  after_err: String,
  after: Vec<(String, u64)>,
}

fn pending_json(entries: Vec<WalEntry>) -> Vec<Value> {
  entries
    .into_iter()
    .filter_map(|e| match e {
      WalEntry::AddDoc(d) => Some(json!({
        "t": "add",
        "id": d.fields.get("_id").and_then(|v| v.as_str()).unwrap_or("?"),
        "ver": d.fields.get("ver").and_then(|v| v.as_u64()).unwrap_or(0),
      })),
      WalEntry::DeleteDocId(id) => Some(json!({"t": "del", "id": id, "ver": 0})),
      WalEntry::Commit => None,
    })
    .collect()
}

fn write_image(root: &Path, files: &BTreeMap<String, Vec<u8>>) -> Result<()> {
  let _ = std::fs::remove_dir_all(root);
  std::fs::create_dir_all(root)?;
  for (name, data) in files.iter() {
    let p = root.join(name);
    if let Some(parent) = p.parent() {
      std::fs::create_dir_all(parent)?;
    }
    std::fs::write(p, data)?;
  }
  Ok(())
}

/// Real recovery on the image currently materialised at `root`.
fn probe(root: &Path) -> ProbeResult {
  assert!(!verif::is_recording());
  let root = root.to_path_buf();
  let res = std::panic::catch_unwind(move || {
    let mut out = ProbeResult::default();
    let o = opts(&root, StorageType::Filesystem);
    let idx = match Index::open(o) {
      Ok(i) => i,
      Err(e) => {
        out.open_err = format!("open: {e:#}");
        return out;
      }
    };
    match id_ver_list(&idx) {
      Ok(c) => {
        out.opened = true;
        out.contents = c;
      }
      Err(e) => {
        out.open_err = format!("read: {e:#}");
        return out;
      }
    }
    let storage = FsStorage::new(root.clone());
    match Wal::last_pending_ops(&storage, &root.join("wal.log")) {
      Ok(p) => out.pending = pending_json(p),
      Err(e) => {
        out.after_err = format!("wal replay: {e:#}");
        return out;
      }
    }
    let step = (|| -> Result<Vec<(String, u64)>> {
      let mut w = idx.writer()?;
      w.commit()?;
      drop(w);
      id_ver_list(&idx)
    })();
    match step {
      Ok(c) => {
        out.after_ok = true;
        out.after = c;
      }
      Err(e) => out.after_err = format!("{e:#}"),
    }
    out
  });
  match res {
    Ok(r) => r,
    Err(_) => ProbeResult {
      open_err: "panic during recovery".into(),
      ..Default::default()
    },
  }
}

fn fs_event_json(m: &FsModel, ev: &verif::Event) -> Value {
  json!({
    "ev": "fs", "op": ev.op, "name": m.rel(&ev.path),
    "to": if ev.op == "rename" { m.rel(&ev.path2) } else { String::new() },
    "fid": ev.fid, "off": ev.off, "len": ev.len,
  })
}

struct Round {
  items: Vec<Item>,
}

/// Execute one round of random calls at `root` (which holds a durable image) and record it.
fn run_round(root: &Path, r: &mut StdRng, n_calls: usize, ver: &mut u64, n_ids: usize) -> Result<Round> {
  let mut items = Vec::new();
  let o = opts(root, StorageType::Filesystem);
  let mut idx = Index::open(o.clone())?;
  verif::start_recording();
  let mut writer: Option<IndexWriter> = None;
  let ids = &IDS[..n_ids];
  macro_rules! flush {
    () => {
      for ev in verif::take_events() {
        if FsModel::relevant(&ev) {
          items.push(Item::Fs(ev));
        }
      }
    };
  }
  for _ in 0..n_calls {
    if writer.is_none() {
      items.push(Item::Call(json!({"ev": "call", "op": "new_writer", "id": "", "ver": 0, "ids": []})));
      let w = idx.writer();
      flush!();
      let ok = w.is_ok();
      writer = w.ok();
      items.push(Item::Ret(json!({"ev": "ret", "ok": ok, "obs": idver_json(&obs(&idx))})));
      continue;
    }
    let roll = r.gen_range(0..100);
    let w = writer.as_mut().unwrap();
    match roll {
      // a batch that touches one id twice and is committed at once: recovering only a prefix of
      // its log records is then distinguishable from recovering all of them
      0..=5 => {
        let id = pick(r, ids).to_string();
        *ver += 1;
        items.push(Item::Call(json!({"ev": "call", "op": "add", "id": id, "ver": *ver, "ids": []})));
        let res = w.add_document(&doc_from_json(doc_for(&id, *ver)));
        flush!();
        items.push(Item::Ret(json!({"ev": "ret", "ok": res.is_ok(), "obs": idver_json(&obs(&idx))})));
        if chance(r, 1, 2) {
          *ver += 1;
          items.push(Item::Call(json!({"ev": "call", "op": "add", "id": id, "ver": *ver, "ids": []})));
          let res = w.add_document(&doc_from_json(doc_for(&id, *ver)));
          flush!();
          items.push(Item::Ret(json!({"ev": "ret", "ok": res.is_ok(), "obs": idver_json(&obs(&idx))})));
        } else {
          let dids = vec![id.clone()];
          items.push(Item::Call(json!({"ev": "call", "op": "delete", "id": "", "ver": 0, "ids": dids})));
          let res = w.delete_documents(&dids);
          flush!();
          items.push(Item::Ret(json!({"ev": "ret", "ok": res.is_ok(), "obs": idver_json(&obs(&idx))})));
        }
        items.push(Item::Call(json!({"ev": "call", "op": "commit", "id": "", "ver": 0, "ids": []})));
        let res = w.commit();
        flush!();
        items.push(Item::Ret(json!({"ev": "ret", "ok": res.is_ok(), "obs": idver_json(&obs(&idx))})));
      }
      6..=39 => {
        let id = pick(r, ids).to_string();
        *ver += 1;
        items.push(Item::Call(json!({"ev": "call", "op": "add", "id": id, "ver": *ver, "ids": []})));
        let res = w.add_document(&doc_from_json(doc_for(&id, *ver)));
        flush!();
        items.push(Item::Ret(json!({"ev": "ret", "ok": res.is_ok(), "obs": idver_json(&obs(&idx))})));
      }
      40..=52 => {
        let n = if chance(r, 1, 4) { 2 } else { 1 };
        let dids: Vec<String> = (0..n).map(|_| pick(r, ids).to_string()).collect();
        items.push(Item::Call(json!({"ev": "call", "op": "delete", "id": "", "ver": 0, "ids": dids})));
        let res = w.delete_documents(&dids);
        flush!();
        items.push(Item::Ret(json!({"ev": "ret", "ok": res.is_ok(), "obs": idver_json(&obs(&idx))})));
      }
      53..=74 => {
        items.push(Item::Call(json!({"ev": "call", "op": "commit", "id": "", "ver": 0, "ids": []})));
        let res = w.commit();
        flush!();
        items.push(Item::Ret(json!({"ev": "ret", "ok": res.is_ok(), "obs": idver_json(&obs(&idx))})));
      }
      75..=79 => {
        items.push(Item::Call(json!({"ev": "call", "op": "rollback", "id": "", "ver": 0, "ids": []})));
        let res = w.rollback();
        flush!();
        items.push(Item::Ret(json!({"ev": "ret", "ok": res.is_ok(), "obs": idver_json(&obs(&idx))})));
      }
      80..=86 => {
        items.push(Item::Call(json!({"ev": "call", "op": "compact", "id": "", "ver": 0, "ids": []})));
        let res = idx.compact();
        flush!();
        items.push(Item::Ret(json!({"ev": "ret", "ok": res.is_ok(), "obs": idver_json(&obs(&idx))})));
      }
      87..=94 => {
        items.push(Item::Call(json!({"ev": "call", "op": "drop", "id": "", "ver": 0, "ids": []})));
        writer = None;
        flush!();
        items.push(Item::Ret(json!({"ev": "ret", "ok": true, "obs": idver_json(&obs(&idx))})));
      }
      _ => {
        items.push(Item::Call(json!({"ev": "call", "op": "drop", "id": "", "ver": 0, "ids": []})));
        writer = None;
        flush!();
        items.push(Item::Ret(json!({"ev": "ret", "ok": true, "obs": idver_json(&obs(&idx))})));
        items.push(Item::Call(json!({"ev": "call", "op": "reopen", "id": "", "ver": 0, "ids": []})));
        drop(idx);
        idx = Index::open(o.clone())?;
        flush!();
        items.push(Item::Ret(json!({"ev": "ret", "ok": true, "obs": idver_json(&obs(&idx))})));
      }
    }
  }
  // the process "dies" here with whatever it had queued: nothing after this point is recorded
  verif::stop_recording();
  drop(writer);
  let _ = verif::take_events();
  Ok(Round { items })
}

/// Contents seen by a fresh reader (its read-only storage events are filtered out of the trace).
fn obs(idx: &Index) -> Vec<(String, u64)> {
  id_ver_list(idx).unwrap_or_default()
}

fn hash_image(files: &BTreeMap<String, Vec<u8>>) -> u64 {
  use std::hash::{Hash, Hasher};
  let mut h = std::collections::hash_map::DefaultHasher::new();
  files.hash(&mut h);
  h.finish()
}

pub struct CrashCfg {
  pub dense: bool,
  pub cap: usize,
  pub rounds: usize,
  pub calls: usize,
}

struct Stats {
  probes: usize,
  distinct_images: usize,
  crash_points: usize,
}

fn desc_json(d: &Descriptor) -> (Value, Value) {
  (
    json!(d.dir),
    Value::Array(d.files.iter().map(|f| json!({"ino": f.0, "keep": f.1, "torn": f.2})).collect()),
  )
}

/// One scenario = up to `rounds` rounds, each continued from a crash image of the previous one.
fn run_scenario(scn: usize, seed: u64, cfg: &CrashCfg, tr: &mut Tracer, st: &mut Stats) -> Result<()> {
  let mut r = rng(seed, 7_000_000 + scn as u64);
  let scratch = Scratch::new("crash");
  let root: PathBuf = scratch.join("idx");
  let schema = schema_from_json(schema_family(2));
  {
    let idx = Index::create(&root, schema, opts(&root, StorageType::Filesystem))?;
    drop(idx);
  }
  let mut ver: u64 = 0;
  let n_ids = r.gen_range(2..=4);
  let mut acked: Vec<(String, u64)> = Vec::new();
  let mut queue: Vec<Value> = Vec::new();
  for round in 1..=cfg.rounds {
    let base_model = FsModel::from_dir(&root)?;
    let base_inv: Vec<Value> = base_model
      .base
      .iter()
      .map(|(n, &i)| json!({"name": n, "ino": i, "len": base_model.inos[i - 1].synced.len()}))
      .collect();
    tr.emit(json!({
      "ev": "reset", "scn": scn, "round": round, "base": base_inv,
      "acked": idver_json(&acked), "queue": queue, "dense": cfg.dense,
    }));
    let n_calls = r.gen_range(3..=cfg.calls);
    let rd = run_round(&root, &mut r, n_calls, &mut ver, n_ids)?;
    // phase 2: replay the log through the model, probing every crash point
    let mut m = base_model;
    let mut cache: HashMap<u64, ProbeResult> = HashMap::new();
    let mut candidates: Vec<(BTreeMap<String, Vec<u8>>, ProbeResult, bool)> = Vec::new();
    for item in rd.items.iter() {
      match item {
        Item::Call(v) => {
          tr.emit(v.clone());
          continue;
        }
        Item::Fs(ev) => {
          tr.emit(fs_event_json(&m, ev));
          m.apply(ev);
        }
        Item::Ret(v) => tr.emit(v.clone()),
      }
      st.crash_points += 1;
      let nimages = m.n_images().min(1_000_000);
      for d in m.descriptors(cfg.dense, cfg.cap, &mut r) {
        let files = m.materialise(&d);
        let h = hash_image(&files);
        let pr = if let Some(p) = cache.get(&h) {
          p.clone()
        } else {
          write_image(&root, &files)?;
          let p = probe(&root);
          st.distinct_images += 1;
          cache.insert(h, p.clone());
          let torn = d.files.iter().any(|f| f.2 > 0);
          if p.opened && p.after_ok {
            candidates.push((files.clone(), p.clone(), torn));
          }
          p
        };
        st.probes += 1;
        let (dj, fj) = desc_json(&d);
        let inv: Vec<Value> = files.iter().map(|(n, c)| json!({"name": n, "len": c.len()})).collect();
        tr.emit(json!({
          "ev": "probe", "dir": dj, "files": fj, "nimages": nimages, "inv": inv,
          "opened": pr.opened, "err": format!("{}{}", pr.open_err, pr.after_err),
          "contents": idver_json(&pr.contents), "pending": pr.pending,
          "after_ok": pr.after_ok, "after": idver_json(&pr.after),
        }));
      }
    }
    if round == cfg.rounds || candidates.is_empty() {
      break;
    }
    // continue from one crash image (prefer torn tails and images with recovered pending ops)
    let interesting: Vec<usize> = candidates
      .iter()
      .enumerate()
      .filter(|(_, c)| c.2 || !c.1.pending.is_empty())
      .map(|(i, _)| i)
      .collect();
    let pick_i = if !interesting.is_empty() && chance(&mut r, 3, 4) {
      interesting[r.gen_range(0..interesting.len())]
    } else {
      r.gen_range(0..candidates.len())
    };
    let (files, p, _) = candidates.swap_remove(pick_i);
    write_image(&root, &files)?;
    acked = p.contents.clone();
    queue = p.pending.clone();
  }
  Ok(())
}

pub fn main(args: &Args) -> Result<()> {
  let seed = args.u64("seed", 1);
  let out = args.str("out", "/verif/out/crash.ndjson");
  let n_scn = args.usize("scenarios", 10);
  let cfg = CrashCfg {
    dense: args.flag("dense"),
    cap: args.usize("cap", 24),
    rounds: args.usize("rounds", 2),
    calls: args.usize("calls", 8),
  };
  let mut tr = Tracer::create(Path::new(&out))?;
  let mut st = Stats {
    probes: 0,
    distinct_images: 0,
    crash_points: 0,
  };
  for scn in 0..n_scn {
    run_scenario(scn, seed, &cfg, &mut tr, &mut st)?;
  }
  let lines = tr.finish();
  println!(
    "{}",
    json!({"scenarios": n_scn, "events": lines, "probes": st.probes,
           "distinct_images": st.distinct_images, "crash_points": st.crash_points, "out": out})
  );
  Ok(())
}
