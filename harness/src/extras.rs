//! Family "extras" (C18 collapse, C19 rescore, C21 highlight, C22 suggest): drives the real reader
//! with generated requests over random corpora (corpus.rs) and logs abstract events for
//! Trace_Extras.tla. The harness only records: grouping, window arithmetic, fragment predicates
//! and the suggestion order are defined in spec/{Collapse,Rescore,Highlight,Suggest}.tla.
//!
//! `svh extras --mode collapse|rescore|highlight|suggest --seed N --out trace.ndjson
//!             [--scenarios n] [--requests n] [--cases file]`
//! `svh extras --mode adhoc --spec file.json` prints the complete response JSON of literal
//! requests (hits with inner_hits / highlights / snippet, suggest) for witnesses.
#![allow(dead_code)]

use anyhow::Result;
use rand::rngs::StdRng;
use rand::Rng;
use serde_json::{json, Value};

use searchlite_core::api::types::StorageType;
use searchlite_core::api::reader::SearchResult;
use searchlite_core::api::{Index, IndexReader};

use crate::corpus::*;
use crate::qgen::*;
use crate::search::*;
use crate::util::*;

// ------------------------------------------------------------------------------------------------
// adhoc: literal index + literal requests, full response
// ------------------------------------------------------------------------------------------------

fn adhoc(args: &Args) -> Result<()> {
  let spec: Value = serde_json::from_str(&std::fs::read_to_string(args.str("spec", "spec.json"))?)?;
  let scratch = Scratch::new("xadhoc");
  let root = scratch.join("idx");
  let schema = schema_from_json(spec["schema"].clone());
  let idx = Index::create(&root, schema, opts(&root, StorageType::Filesystem))?;
  let mut w = idx.writer()?;
  for (i, commit) in spec["commits"].as_array().cloned().unwrap_or_default().iter().enumerate() {
    for d in commit.as_array().cloned().unwrap_or_default() {
      w.add_document(&doc_from_json(d))?;
    }
    if let Some(ids) = spec["deletes"].get(i).and_then(|x| x.as_array()) {
      for id in ids {
        w.delete_document(id.as_str().unwrap_or(""))?;
      }
    }
    w.commit()?;
  }
  drop(w);
  let reader = idx.reader()?;
  for req in spec["requests"].as_array().cloned().unwrap_or_default() {
    match run_search(&reader, &req) {
      Ok(r) => println!("{}", serde_json::to_string(&r)?),
      Err(e) => println!("{}", json!({"ok": false, "err": e})),
    }
  }
  Ok(())
}

// ------------------------------------------------------------------------------------------------
// shared: scenario context, literal indexes, plain queries
// ------------------------------------------------------------------------------------------------

pub struct Ctx {
  pub b: Built,
  pub reader: IndexReader,
  pub dict: Dict,
  pub corpus: Value,
  pub n_slots: usize,
  pub storage: String,
}

fn open_ctx(b: Built, storage: &str, scn: usize) -> Result<Ctx> {
  let reader = b.idx.reader()?;
  let mut dict = Dict::new();
  let corpus = corpus_event(&b, &reader, scn, &mut dict)?;
  let n_slots = corpus["docs"].as_array().map(|a| a.len()).unwrap_or(0);
  Ok(Ctx { b, reader, dict, corpus, n_slots, storage: storage.to_string() })
}

/// An index with exactly these commits (every document carries `_id` and a unique `ver`).
fn build_literal(schema_json: Value, commits: &[Vec<Value>], storage: &str) -> Result<Built> {
  let scratch = Scratch::new("extras");
  let root = scratch.join("idx");
  let schema = schema_from_json(schema_json.clone());
  let (st, stype) = storage_arc(storage, &root);
  let mut o = opts(&root, stype);
  o.enable_positions = true;
  let idx = Index::create_with_storage(&root, schema.clone(), o, st)?;
  let mut versions = std::collections::BTreeMap::new();
  let mut w = idx.writer()?;
  let mut n_commits = 0;
  for c in commits.iter() {
    if c.is_empty() {
      continue;
    }
    for d in c.iter() {
      w.add_document(&doc_from_json(d.clone()))?;
      let id = d["_id"].as_str().unwrap_or("").to_string();
      let ver = d["ver"].as_u64().unwrap_or(0);
      versions.insert((id, ver), d.clone());
    }
    w.commit()?;
    n_commits += 1;
  }
  drop(w);
  Ok(Built { scratch, idx, schema, schema_json, versions, n_commits })
}

fn finish_scn(out: &mut Vec<Value>, scn: usize, mode: &str, cx: Ctx, searches: Vec<Value>) -> usize {
  out.push(json!({"ev": "reset", "scn": scn, "fam": mode, "storage": cx.storage, "schema": cx.b.schema_json["text_fields"].clone()}));
  out.push(json!({"ev": "dict", "entries": cx.dict.to_json()}));
  out.push(cx.corpus);
  let n = searches.len();
  out.extend(searches);
  n
}

fn all_text_fields() -> Vec<String> {
  TEXT_FIELDS.iter().map(|s| s.to_string()).collect()
}

fn xword(r: &mut StdRng) -> String {
  let w = *pick(r, &WORDS);
  match r.gen_range(0..12) {
    0 => w.to_uppercase(),
    1 => "unseen".to_string(),
    _ => w.to_string(),
  }
}

fn xfield(r: &mut StdRng) -> String {
  pick(r, &["tag", "cat", "title", "title", "body", "body"]).to_string()
}

fn xvalue(r: &mut StdRng, field: &str) -> String {
  match field {
    "tag" => pick(r, &["red", "RED", "green", "blue", "Blue"]).to_string(),
    "cat" => pick(r, &KW_CATS).to_string(),
    _ => xword(r),
  }
}

/// Queries whose candidate set is not affected by the known finding S07a: match_all, one term,
/// or a query_string of 1-3 optional terms.
fn plain_query(r: &mut StdRng) -> Q {
  match r.gen_range(0..8) {
    0..=2 => Q::All,
    3 | 4 => {
      let f = xfield(r);
      let v = xvalue(r, &f);
      Q::Term { field: f, value: v, boost: None }
    }
    _ => {
      let n = r.gen_range(1..=3);
      let terms = (0..n).map(|_| QsTerm { field: None, word: xword(r) }).collect();
      Q::QueryString { terms, nots: vec![], phrases: vec![], fields: None, boost: None }
    }
  }
}

/// A surface word of some stored document (so that queries match), else a vocabulary word.
fn corpus_word(r: &mut StdRng, cx: &Ctx) -> String {
  let docs: Vec<&Value> = cx.b.versions.values().collect();
  for _ in 0..4 {
    let d = *pick(r, &docs);
    let f = *pick(r, &["body", "body", "title"]);
    if let Some(t) = d.get(f).and_then(|v| v.as_str()) {
      let ws: Vec<&str> = t.split_whitespace().collect();
      if !ws.is_empty() {
        return pick(r, &ws).to_string();
      }
    }
  }
  xword(r)
}

/// match_all, a term or a query_string over words that occur in the corpus.
fn frequent_query(r: &mut StdRng, cx: &Ctx) -> Q {
  match r.gen_range(0..6) {
    0 => Q::All,
    1 | 2 => Q::Term { field: pick(r, &["body", "body", "title"]).to_string(), value: corpus_word(r, cx), boost: None },
    _ => {
      let n = r.gen_range(1..=3);
      let terms = (0..n).map(|_| QsTerm { field: None, word: corpus_word(r, cx) }).collect();
      Q::QueryString { terms, nots: vec![], phrases: vec![], fields: None, boost: None }
    }
  }
}

// ------------------------------------------------------------------------------------------------
// C18: collapse + inner hits
// ------------------------------------------------------------------------------------------------

#[derive(Clone, Debug)]
struct InnerA {
  sort: Vec<SortSpecA>,
  from: Option<usize>,
  size: Option<usize>,
}

fn render_inner(i: &InnerA) -> Value {
  let mut m = serde_json::Map::new();
  if let Some(s) = i.size {
    m.insert("size".into(), json!(s));
  }
  if let Some(f) = i.from {
    m.insert("from".into(), json!(f));
  }
  if !i.sort.is_empty() {
    m.insert("sort".into(), render_sort(&i.sort));
  }
  Value::Object(m)
}

fn obs_collapse(res: &std::result::Result<SearchResult, String>) -> Value {
  match res {
    Ok(r) => {
      let inner: Vec<Vec<String>> = r.hits.iter().map(|h| h.inner_hits.iter().flatten().map(|x| x.doc_id.clone()).collect()).collect();
      let innersb: Vec<Vec<i64>> = r.hits.iter().map(|h| h.inner_hits.iter().flatten().map(|x| sbits(x.score)).collect()).collect();
      json!({
        "ok": true, "err": "",
        "ids": r.hits.iter().map(|h| h.doc_id.clone()).collect::<Vec<_>>(),
        "sbits": r.hits.iter().map(|h| sbits(h.score)).collect::<Vec<_>>(),
        "inner": inner, "innersb": innersb,
        "total": r.total_hits_estimate, "hasgroups": r.total_groups.is_some(), "groups": r.total_groups.unwrap_or(0),
      })
    }
    Err(e) => json!({"ok": false, "err": e, "ids": [], "sbits": [], "inner": [], "innersb": [], "total": 0, "hasgroups": false, "groups": 0}),
  }
}

#[allow(clippy::too_many_arguments)]
fn collapse_event(cx: &mut Ctx, q: &Q, filt: Option<&F>, sort: &[SortSpecA], inner: Option<&InnerA>, limit: usize, exec: &str, note: &str) -> Value {
  let cover_limit = cx.n_slots + 5;
  // same execution strategy for both requests: scores of one document may differ in the last
  // bits between strategies, and the collapsed hits are compared bit-exactly with the ranking
  let mut base_req = base_request(q, filt, cover_limit, exec);
  base_req["sort"] = render_sort(sort);
  let base = run_search(&cx.reader, &base_req);
  let mut req = base_request(q, filt, limit, exec);
  req["sort"] = render_sort(sort);
  let mut c = json!({"field": "cat"});
  if let Some(i) = inner {
    c["inner_hits"] = render_inner(i);
  }
  req["collapse"] = c;
  let res = run_search(&cx.reader, &req);
  let filters: Vec<Value> = filt.iter().map(|f| abstract_filter(f, &mut cx.dict)).collect();
  let inner_a = match inner {
    Some(i) => json!({"sort": abstract_sort(&i.sort), "from": i.from.unwrap_or(0), "hassize": i.size.is_some(), "size": i.size.unwrap_or(0)}),
    None => json!({"sort": abstract_sort(&[]), "from": 0, "hassize": false, "size": 0}),
  };
  json!({
    "ev": "search", "check": "collapse", "prop": "C18", "note": note,
    "cover": limit >= cover_limit, "limit": limit, "exec": exec, "field": "cat",
    "q": abstract_query(&cx.b.schema, q, &all_text_fields(), true, 1.0, &mut cx.dict),
    "filters": filters, "sort": abstract_sort(sort),
    "hasinner": inner.is_some(), "inner": inner_a,
    "base": obs_full(&base), "obs": obs_collapse(&res), "req": req.to_string(),
  })
}

fn uses_score(s: &[SortSpecA]) -> bool {
  s.is_empty() || s.iter().any(|x| x.kind == "score")
}

fn mode_collapse(r: &mut StdRng, scn: usize, n_req: usize, out: &mut Vec<Value>) -> Result<usize> {
  let mut knobs = Knobs::default();
  knobs.nested = false;
  knobs.n_docs = (8, 30);
  let storage = storage_kind(r);
  let b = build_index(r, &knobs, storage)?;
  let mut cx = open_ctx(b, storage, scn)?;
  let mut searches = Vec::new();
  for _ in 0..n_req {
    let q = plain_query(r);
    let filt = if chance(r, 1, 5) { Some(gen_filter(r, 1, false, "")) } else { None };
    let mut sort = gen_sort(r);
    // every fifth request: one coarse request key (many ties inside a group) and an inner sort that
    // extends it by a second key, window of one or two members
    let directed = chance(r, 1, 5);
    if directed {
      let (f, k) = *pick(r, &[("year", "i64"), ("rank", "i64"), ("cat", "kw")]);
      sort = vec![SortSpecA { field: f.to_string(), kind: k, desc: Some(chance(r, 1, 2)) }];
    }
    let inner = if directed {
      let (f, k) = *pick(r, &[("price", "f64"), ("ver", "i64")]);
      let mut isort = sort.clone();
      isort.push(SortSpecA { field: f.to_string(), kind: k, desc: Some(chance(r, 1, 2)) });
      Some(InnerA { sort: isort, from: Some(r.gen_range(0..=1)), size: Some(r.gen_range(1..=2)) })
    } else if chance(r, 1, 5) {
      None
    } else {
      // README: inner hits are "sorted independently if you supply sort"; what applies without an
      // inner sort is only unambiguous when the request sort is the default, and an inner sort
      // on _score is only meaningful when the request computes scores.
      let mut isort = if sort.is_empty() && chance(r, 1, 2) { vec![] } else { gen_sort(r) };
      // related plans: the request sort extended by one key (members tie on the request keys,
      // the inner sort decides), or the request sort without its last key
      if !sort.is_empty() && chance(r, 1, 3) {
        isort = sort.to_vec();
        if chance(r, 2, 3) {
          let (f, k) = *pick(r, &[("year", "i64"), ("rank", "i64"), ("price", "f64"), ("cat", "kw")]);
          if !isort.iter().any(|x| x.field == f) {
            isort.push(SortSpecA { field: f.to_string(), kind: k, desc: Some(chance(r, 1, 2)) });
          }
        } else if isort.len() > 1 {
          isort.pop();
        }
      }
      if !uses_score(&sort) {
        isort.retain(|x| x.kind != "score");
      }
      if isort.is_empty() && !sort.is_empty() {
        isort = vec![SortSpecA { field: "year".into(), kind: "i64", desc: Some(chance(r, 1, 2)) }];
      }
      Some(InnerA {
        sort: isort,
        from: if chance(r, 1, 3) { None } else { Some(r.gen_range(0..=2)) },
        size: if chance(r, 1, 4) { None } else { Some(r.gen_range(0..=3)) },
      })
    };
    let limit = if chance(r, 2, 3) { cx.n_slots + 5 } else { r.gen_range(1..=4) };
    let exec = *pick(r, &["bm25", "wand", "bmw"]);
    searches.push(collapse_event(&mut cx, &q, filt.as_ref(), &sort, inner.as_ref(), limit, exec, ""));
  }
  Ok(finish_scn(out, scn, "collapse", cx, searches))
}

fn case_schema() -> Value {
  let mut k = Knobs::default();
  k.nested = false;
  k.analyzers = vec!["default"];
  make_schema(&mut rng(0, 0), &k)
}

/// S->I: a case printed by MC_Collapse.tla: n ranked hits (rank = position), g[i] = group of hit i
/// (0 = no value), `other` = inner sort differs from the request sort, from / size window.
fn case_collapse(case: &Value, r: &mut StdRng, scn: usize, out: &mut Vec<Value>) -> Result<usize> {
  let g: Vec<u64> = case["g"].as_array().map(|a| a.iter().filter_map(|x| x.as_u64()).collect()).unwrap_or_default();
  let n = g.len();
  let cut = if n == 0 { 0 } else { r.gen_range(0..=n) };
  let mut commits: Vec<Vec<Value>> = vec![vec![], vec![]];
  for i in 1..=n {
    let mut d = json!({"_id": format!("h{i}"), "ver": i, "rank": i, "year": 2000 + (i * 5) % 7, "body": "x"});
    if g[i - 1] > 0 {
      d["cat"] = json!(format!("g{}", g[i - 1]));
    }
    commits[if i <= cut { 0 } else { 1 }].push(d);
  }
  if n == 0 {
    commits[0].push(json!({"_id": "none", "ver": 1, "title": "y"}));
  }
  let b = build_literal(case_schema(), &commits, "fs")?;
  let mut cx = open_ctx(b, "fs", scn)?;
  let q = if n == 0 { Q::Term { field: "body".into(), value: "x".into(), boost: None } } else { Q::All };
  let sort = vec![SortSpecA { field: "rank".into(), kind: "i64", desc: Some(false) }];
  let isort = if case["other"].as_bool().unwrap_or(false) {
    vec![SortSpecA { field: "year".into(), kind: "i64", desc: Some(false) }]
  } else {
    sort.clone()
  };
  let inner = InnerA {
    sort: isort,
    from: case["from"].as_u64().map(|x| x as usize),
    size: if case["hassize"].as_bool().unwrap_or(false) { case["size"].as_u64().map(|x| x as usize) } else { None },
  };
  let limit = cx.n_slots + 5;
  let ev = collapse_event(&mut cx, &q, None, &sort, Some(&inner), limit, "bm25", &case.to_string());
  Ok(finish_scn(out, scn, "collapse-case", cx, vec![ev]))
}

// ------------------------------------------------------------------------------------------------
// C19: rescore
// ------------------------------------------------------------------------------------------------

fn mode_rescore(r: &mut StdRng, scn: usize, n_req: usize, out: &mut Vec<Value>) -> Result<usize> {
  let mut knobs = Knobs::default();
  knobs.nested = false;
  knobs.n_docs = (6, 22);
  // the absolute score oracle (Rank.tla BM25) applies to corpora without deletions
  let absolute = chance(r, 2, 3);
  knobs.deletions = !absolute;
  let storage = storage_kind(r);
  let b = build_index(r, &knobs, storage)?;
  let mut cx = open_ctx(b, storage, scn)?;
  let main_cfg = GenCfg { depth: 2, boosts: true, scoring_wrappers: true, filters_in_bool: true, expansions: true, nested_filters: false };
  let rq_cfg = GenCfg { depth: 1, boosts: true, scoring_wrappers: false, filters_in_bool: true, expansions: false, nested_filters: false };
  let cover = cx.n_slots + 5;
  let mut searches = Vec::new();
  for _ in 0..n_req {
    let q = match r.gen_range(0..6) {
      0..=2 => frequent_query(r, &cx),
      3 => plain_query(r),
      _ => {
        let d = r.gen_range(0..=main_cfg.depth);
        gen_query(r, d, &main_cfg)
      }
    };
    let filt = if chance(r, 1, 6) { Some(gen_filter(r, 1, false, "")) } else { None };
    let sort = if chance(r, 3, 4) { vec![] } else { gen_sort(r) };
    let exec = *pick(r, &["bm25", "wand", "bmw"]);
    let mut base_req = base_request(&q, filt.as_ref(), cover, exec);
    base_req["sort"] = render_sort(&sort);
    let base = run_search(&cx.reader, &base_req);
    let n_base = base.as_ref().map(|x| x.hits.len()).unwrap_or(0);
    // the rescore query: a plain query tree, optionally under function_score{functions: [], min_score}
    let inner = if chance(r, 2, 3) {
      match frequent_query(r, &cx) {
        Q::All if chance(r, 2, 3) => Q::Term { field: "body".into(), value: corpus_word(r, &cx), boost: None },
        x => x,
      }
    } else {
      let d = r.gen_range(0..=rq_cfg.depth);
      gen_query(r, d, &rq_cfg)
    };
    // directed class: small constant scores per `cat` value, so that window hits are scored down
    // (modes min / multiply) or fall below min_score while later hits keep higher scores
    let directed = chance(r, 1, 4);
    let inner = if directed {
      let mut cats: Vec<&str> = KW_CATS.to_vec();
      let n = r.gen_range(2..=3);
      let mut should = Vec::new();
      for _ in 0..n {
        let c = cats.swap_remove(r.gen_range(0..cats.len()));
        should.push(Q::ConstantScore { filter: F::KwEq("cat".into(), c.to_string()), boost: Some(*pick(r, &[0.01f32, 0.05, 0.2, 0.5])) });
      }
      Q::Bool { must: vec![], should, must_not: vec![], filter: vec![], msm: None, boost: None }
    } else {
      inner
    };
    let min_score: Option<f32> = if directed {
      Some(*pick(r, &[0.03f32, 0.1, 0.3]))
    } else if chance(r, 1, 2) { Some(*pick(r, &[0.25f32, 0.5, 0.75, 1.0, 1.25, 1.5, 2.0])) } else { None };
    let rq_json = match min_score {
      Some(m) => json!({"type": "function_score", "query": render_query(&inner), "functions": [], "min_score": m}),
      None => render_query(&inner),
    };
    let inner_abs = abstract_query(&cx.b.schema, &inner, &all_text_fields(), true, 1.0, &mut cx.dict);
    let rq_abs = match min_score {
      Some(m) => json!({"k": "fsmin", "q": inner_abs, "min": (m as f64 * 10000.0).round() as i64}),
      None => inner_abs,
    };
    let window = match r.gen_range(0..6) {
      0 => 0,
      1 => n_base + r.gen_range(0..=5),
      _ => r.gen_range(0..=n_base.max(1) + 1),
    };
    let mode = if directed { *pick(r, &["min", "multiply"]) } else { *pick(r, &["total", "multiply", "sum", "max", "min", ""]) };
    let mut rescore = json!({"window_size": window, "query": rq_json});
    if !mode.is_empty() {
      rescore["score_mode"] = json!(mode);
    }
    let mut req = base_req.clone();
    req["rescore"] = rescore.clone();
    let res = run_search(&cx.reader, &req);
    // the same rescored request under a small limit
    let small_limit = r.gen_range(1..=6);
    let has_small = chance(r, 1, 2);
    let small = if has_small {
      let mut sreq = req.clone();
      sreq["limit"] = json!(small_limit);
      obs_full(&run_search(&cx.reader, &sreq))
    } else {
      obs_full(&Err("not run".to_string()))
    };
    // fixed-point arithmetic in TLC is 32-bit: the absolute score oracle is applied only to
    // scores far below the bound (nested field_value_factor functions reach millions)
    let moderate = |r: &std::result::Result<SearchResult, String>| r.as_ref().map(|x| x.hits.iter().all(|h| h.score.abs() < 1000.0)).unwrap_or(true);
    let absolute = absolute && moderate(&base) && moderate(&res);
    searches.push(json!({
      "ev": "search", "check": "rescore", "prop": "C19", "absolute": absolute, "exec": exec,
      "window": window, "mode": if mode.is_empty() { "total" } else { mode }, "rq": rq_abs,
      "sort": abstract_sort(&sort), "limit": cover,
      "base": obs_full(&base), "obs": obs_full(&res),
      "small": {"has": has_small, "limit": small_limit, "obs": small},
      "req": req.to_string(),
    }));
  }
  Ok(finish_scn(out, scn, "rescore", cx, searches))
}

// ------------------------------------------------------------------------------------------------
// C21: highlight fragments and snippets
// ------------------------------------------------------------------------------------------------

const PRE_CP: u32 = 0xE000;
const POST_CP: u32 = 0xE001;

fn cps(s: &str) -> Vec<u32> {
  s.chars().map(|c| c as u32).collect()
}

/// Code points of a fragment with the request's tags replaced by the marker code points. With
/// pre == post (legacy snippet "**") occurrences alternate.
fn marked(s: &str, pre: &str, post: &str) -> Vec<u32> {
  let mut out = Vec::new();
  let mut i = 0;
  let mut open = false;
  while i < s.len() {
    let rest = &s[i..];
    if !pre.is_empty() && rest.starts_with(pre) && (pre != post || !open) {
      out.push(PRE_CP);
      open = true;
      i += pre.len();
    } else if !post.is_empty() && rest.starts_with(post) {
      out.push(POST_CP);
      open = false;
      i += post.len();
    } else {
      let c = rest.chars().next().unwrap();
      out.push(c as u32);
      i += c.len_utf8();
    }
  }
  out
}

const H_ASCII: [&str; 8] = ["rust", "go", "fast", "search", "Zig", "RUST", "lang", "x"];
const H_LATIN: [&str; 7] = ["café", "über", "naïve", "Ñandú", "élan", "Ärger", "señor"];
const H_CJK: [&str; 6] = ["漢字", "日本語", "検索", "東京", "語", "ひらがな"];
const H_EMOJI: [&str; 4] = ["😀", "🎉", "🚀", "😀😀"];
// separators incl. multi-byte white space (no-break space, ideographic space, line separator, thin space)
const H_SEPS: [&str; 13] = [" ", " ", ", ", " — ", "。", " · ", "… ", "¡", "、", "\u{a0}", "\u{3000}", "\u{2028}", "\u{2009}"];

fn unicode_text(r: &mut StdRng, n_words: usize) -> String {
  let mut out = String::new();
  if chance(r, 1, 4) {
    out.push_str(*pick(r, &H_EMOJI));
    out.push(' ');
  }
  for i in 0..n_words {
    if i > 0 {
      out.push_str(*pick(r, &H_SEPS));
    }
    let w = match r.gen_range(0..10) {
      0..=2 => *pick(r, &H_ASCII),
      3..=5 => *pick(r, &H_LATIN),
      6..=8 => *pick(r, &H_CJK),
      _ => *pick(r, &H_EMOJI),
    };
    out.push_str(w);
  }
  out
}

fn highlight_schema(r: &mut StdRng) -> Value {
  let mut k = Knobs::default();
  k.nested = false;
  k.analyzers = vec!["default", "default", "uni", "ws"];
  make_schema(r, &k)
}

fn alnum_words(t: &str) -> Vec<String> {
  t.split(|c: char| !c.is_alphanumeric()).filter(|w| !w.is_empty()).map(|w| w.to_string()).collect()
}

struct HlCfg {
  field: String,
  pre: String,
  post: String,
  fsize: usize,
  nfrag: usize,
  legacy: bool,
}

/// One highlight check: the request as configured plus the reference request whose fragment is
/// the whole text (fragment_size larger than any text), which shows the engine's own matches.
fn highlight_event(cx: &mut Ctx, q: &Q, h: &HlCfg, note: &str) -> Value {
  let limit = cx.n_slots + 5;
  let mut req = base_request(q, None, limit, "bm25");
  if h.legacy {
    req["highlight_field"] = json!(h.field);
  } else {
    req["highlight"] = json!({"fields": {h.field.clone(): {"pre_tag": h.pre, "post_tag": h.post, "fragment_size": h.fsize, "number_of_fragments": h.nfrag}}});
  }
  let res = run_search(&cx.reader, &req);
  let pre_ref: String = char::from_u32(PRE_CP).unwrap().to_string();
  let post_ref: String = char::from_u32(POST_CP).unwrap().to_string();
  let mut ref_req = base_request(q, None, limit, "bm25");
  ref_req["highlight"] = json!({"fields": {h.field.clone(): {"pre_tag": pre_ref, "post_tag": post_ref, "fragment_size": 1_000_000, "number_of_fragments": 1}}});
  let reference = run_search(&cx.reader, &ref_req);
  let mut hits = Vec::new();
  let ok = res.is_ok() && reference.is_ok();
  let err = match (&res, &reference) {
    (Err(e), _) => e.clone(),
    (_, Err(e)) => e.clone(),
    _ => String::new(),
  };
  if let (Ok(a), Ok(b)) = (&res, &reference) {
    for hit in a.hits.iter().take(6) {
      let text: String = cx.b.versions.iter().filter(|((id, _), _)| *id == hit.doc_id).map(|(_, d)| d).last()
        .and_then(|d| d.get(&h.field)).and_then(|v| v.as_str()).unwrap_or("").to_string();
      let frags: Vec<Vec<u32>> = if h.legacy {
        hit.snippet.iter().map(|s| marked(s, "**", "**")).collect()
      } else {
        hit.highlights.as_ref().and_then(|m| m.get(&h.field)).map(|v| v.iter().map(|s| marked(s, &h.pre, &h.post)).collect()).unwrap_or_default()
      };
      let full: Option<Vec<u32>> = b.hits.iter().find(|x| x.doc_id == hit.doc_id)
        .and_then(|x| x.highlights.as_ref()).and_then(|m| m.get(&h.field)).and_then(|v| v.first()).map(|s| cps(s));
      hits.push(json!({"id": hit.doc_id, "text": cps(&text), "hasfull": full.is_some(), "full": full.unwrap_or_default(), "frags": frags}));
    }
  }
  let (fsize, nfrag) = if h.legacy { (120, 1) } else { (h.fsize, h.nfrag) };
  json!({
    "ev": "search", "check": "highlight", "prop": "C21", "note": note, "field": h.field, "legacy": h.legacy,
    "fsize": fsize, "nfrag": nfrag, "ok": ok, "err": err, "hits": hits, "obs": {"frags": hits.len()}, "req": req.to_string(),
  })
}

fn mode_highlight(r: &mut StdRng, scn: usize, n_req: usize, out: &mut Vec<Value>) -> Result<usize> {
  let schema = highlight_schema(r);
  let n_docs = r.gen_range(4..=10);
  let n_commits = r.gen_range(1..=3);
  let mut commits: Vec<Vec<Value>> = vec![vec![]; n_commits];
  for i in 0..n_docs {
    let long = chance(r, 1, 3);
    let nb = if long { r.gen_range(10..=22) } else { r.gen_range(1..=8) };
    let mut d = json!({"_id": format!("u{i:02}"), "ver": i + 1, "body": unicode_text(r, nb)});
    if chance(r, 2, 3) {
      let nt = r.gen_range(1..=4);
      d["title"] = json!(unicode_text(r, nt));
    }
    commits[i % n_commits].push(d);
  }
  let storage = storage_kind(r);
  let b = build_literal(schema, &commits, storage)?;
  let mut cx = open_ctx(b, storage, scn)?;
  let mut searches = Vec::new();
  let docs: Vec<Value> = cx.b.versions.values().cloned().collect();
  for _ in 0..n_req {
    let field = pick(r, &["body", "body", "body", "title"]).to_string();
    // query words taken from a stored text of the field
    let mut words: Vec<String> = Vec::new();
    for _ in 0..6 {
      let d = pick(r, &docs);
      if let Some(t) = d.get(&field).and_then(|v| v.as_str()) {
        let ws = alnum_words(t);
        if !ws.is_empty() {
          words.push(pick(r, &ws).clone());
          if words.len() >= r.gen_range(1..=2) {
            break;
          }
        }
      }
    }
    if words.is_empty() {
      words.push("rust".into());
    }
    let q = if words.len() == 1 && chance(r, 1, 2) {
      Q::Term { field: field.clone(), value: words[0].clone(), boost: None }
    } else {
      Q::QueryString { terms: words.iter().map(|w| QsTerm { field: Some(field.clone()), word: w.clone() }).collect(), nots: vec![], phrases: vec![], fields: None, boost: None }
    };
    let (pre, post) = match r.gen_range(0..4) {
      0 => ("<em>".to_string(), "</em>".to_string()),
      1 => ("[[".to_string(), "]]".to_string()),
      _ => (char::from_u32(PRE_CP).unwrap().to_string(), char::from_u32(POST_CP).unwrap().to_string()),
    };
    let h = HlCfg {
      field,
      pre,
      post,
      fsize: if chance(r, 3, 5) { r.gen_range(0..=40) } else { *pick(r, &[48usize, 60, 80, 120, 160]) },
      nfrag: *pick(r, &[0usize, 1, 1, 2, 3]),
      legacy: chance(r, 1, 5),
    };
    searches.push(highlight_event(&mut cx, &q, &h, ""));
  }
  Ok(finish_scn(out, scn, "highlight", cx, searches))
}

/// S->I: a case printed by MC_Highlight.tla: w = UTF-8 widths of the characters of a text, the
/// match covers characters s+1..e, `size` = fragment_size. The match characters are word
/// characters of the given widths, the others are non-word characters of the given widths.
fn case_highlight(case: &Value, scn: usize, out: &mut Vec<Value>) -> Result<usize> {
  let w: Vec<u64> = case["w"].as_array().map(|a| a.iter().filter_map(|x| x.as_u64()).collect()).unwrap_or_default();
  let s = case["s"].as_u64().unwrap_or(0) as usize;
  let e = case["e"].as_u64().unwrap_or(0) as usize;
  let size = case["size"].as_u64().unwrap_or(0) as usize;
  let word_ch = |k: u64| match k { 1 => 'a', 2 => 'é', 3 => '漢', _ => '\u{20000}' };
  let fill_ch = |k: u64| match k { 1 => ' ', 2 => '¡', 3 => '、', _ => '😀' };
  let text: String = w.iter().enumerate().map(|(i, k)| if i >= s && i < e { word_ch(*k) } else { fill_ch(*k) }).collect();
  let word: String = w.iter().enumerate().filter(|(i, _)| *i >= s && *i < e).map(|(_, k)| word_ch(*k)).collect();
  let mut k = Knobs::default();
  k.nested = false;
  k.analyzers = vec!["default"];
  let schema = make_schema(&mut rng(0, 0), &k);
  let commits = vec![vec![json!({"_id": "t1", "ver": 1, "body": text}), json!({"_id": "t2", "ver": 2, "body": "other words"})]];
  let b = build_literal(schema, &commits, "fs")?;
  let mut cx = open_ctx(b, "fs", scn)?;
  let q = Q::Term { field: "body".into(), value: word, boost: None };
  let h = HlCfg {
    field: "body".into(),
    pre: char::from_u32(PRE_CP).unwrap().to_string(),
    post: char::from_u32(POST_CP).unwrap().to_string(),
    fsize: size,
    nfrag: 1,
    legacy: false,
  };
  let ev = highlight_event(&mut cx, &q, &h, &case.to_string());
  Ok(finish_scn(out, scn, "highlight-case", cx, vec![ev]))
}

// ------------------------------------------------------------------------------------------------
// C22: completion suggestions
// ------------------------------------------------------------------------------------------------

#[derive(Clone, Debug)]
struct SuggestA {
  field: String,
  prefix: String,
  size: usize,
  fuzzy: Option<(u8, usize, usize, usize)>, // max_edits, prefix_length, max_expansions, min_length
}

fn render_suggest(s: &SuggestA) -> Value {
  let mut m = json!({"type": "completion", "field": s.field, "prefix": s.prefix, "size": s.size});
  if let Some((e, p, x, l)) = s.fuzzy {
    m["fuzzy"] = json!({"max_edits": e, "prefix_length": p, "max_expansions": x, "min_length": l});
  }
  m
}

fn obs_options(res: &std::result::Result<SearchResult, String>, dict: &mut Dict) -> Value {
  match res {
    Ok(r) => {
      let opts: Vec<Value> = r.suggest.get("s").map(|x| x.options.clone()).unwrap_or_default().iter().map(|o| {
        dict.add(&o.text);
        json!({"t": o.text, "df": o.doc_freq, "sc": (o.score as f64 * 10000.0).round() as i64, "sb": sbits(o.score)})
      }).collect();
      json!({"ok": true, "err": "", "options": opts})
    }
    Err(e) => json!({"ok": false, "err": e, "options": []}),
  }
}

const UNI_WORDS: [&str; 6] = ["vi\u{1ec7}t", "\u{65e5}\u{672c}\u{8a9e}", "na\u{ef}ve", "gr\u{fc}\u{df}e", "\u{1f600}go", "\u{451}\u{43b}\u{43a}\u{430}"];

fn gen_suggest(r: &mut StdRng, cx: &Ctx) -> SuggestA {
  let field = pick(r, &["body", "body", "title", "tag", "cat"]).to_string();
  let base: String = match field.as_str() {
    "tag" => pick(r, &KW_TAGS).to_string(),
    "cat" => pick(r, &KW_CATS).to_string(),
    _ => if chance(r, 1, 5) { xword(r) } else if chance(r, 1, 3) { pick(r, &UNI_WORDS).to_string() } else { corpus_word(r, cx) },
  };
  let chars: Vec<char> = base.chars().collect();
  let fuzzy = if chance(r, 1, 2) {
    None
  } else {
    Some((r.gen_range(1..=2) as u8, r.gen_range(0..=2), *pick(r, &[1usize, 2, 5, 50, 50]), r.gen_range(0..=4)))
  };
  // a multi-byte word under fuzzy: one of its multi-byte characters replaced by an ASCII letter
  // (one edit in characters, more in bytes), edit budget 1
  if let (Some(i), true) = (chars.iter().position(|c| !c.is_ascii()), fuzzy.is_some() && chance(r, 2, 3)) {
    let mut w = chars.clone();
    w[i] = 'e';
    let plen = r.gen_range(0..=i.min(2));
    return SuggestA { field, prefix: w.into_iter().collect(), size: r.gen_range(1..=6), fuzzy: Some((1, plen, 50, r.gen_range(0..=2))) };
  }
  // prefix mode: a proper prefix; fuzzy mode: the word with one or two edits
  let mut p: Vec<char> = if fuzzy.is_some() && chance(r, 2, 3) {
    let mut w = chars.clone();
    for _ in 0..r.gen_range(0..=2) {
      if w.is_empty() {
        break;
      }
      let i = r.gen_range(0..w.len());
      match r.gen_range(0..3) {
        0 => {
          w.remove(i);
        }
        1 => w.insert(i, *pick(r, &['a', 'r', 'u', 'x'])),
        _ => w[i] = *pick(r, &['a', 'r', 'u', 'x']),
      }
    }
    w
  } else {
    let n = r.gen_range(0..=chars.len().min(4));
    chars[..n].to_vec()
  };
  match r.gen_range(0..6) {
    0 => p = p.iter().flat_map(|c| c.to_uppercase()).collect(),
    1 if field == "body" || field == "title" => {
      let mut q: Vec<char> = "the ".chars().collect();
      q.extend(p);
      p = q;
    }
    _ => {}
  }
  SuggestA { field, prefix: p.into_iter().collect(), size: r.gen_range(0..=6), fuzzy }
}

fn suggest_event(cx: &mut Ctx, sg: &SuggestA, first: Option<&Value>) -> Value {
  let req = json!({"query": {"type": "match_all"}, "limit": 1, "return_stored": false, "suggest": {"s": render_suggest(sg)}});
  let res = run_search(&cx.reader, &req);
  let kind = if sg.field == "tag" || sg.field == "cat" { "kw" } else { "text" };
  let toks: Vec<String> = if kind == "text" { analyse_search(&cx.b.schema, &sg.field, &sg.prefix).into_iter().map(|(t, _)| t).collect() } else { vec![] };
  cx.dict.add(&sg.prefix);
  for t in toks.iter() {
    cx.dict.add(t);
  }
  let obs = obs_options(&res, &mut cx.dict);
  let (e, p, x, l) = sg.fuzzy.unwrap_or((0, 0, 0, 0));
  json!({
    "ev": "search", "check": "suggest", "prop": "C22", "field": sg.field, "kind": kind,
    "raw": sg.prefix, "toks": toks, "size": sg.size,
    "fuzzy": {"has": sg.fuzzy.is_some(), "edits": e, "plen": p, "maxexp": x, "minlen": l},
    "obs": obs, "hasfirst": first.is_some(), "first": first.cloned().unwrap_or(json!([])), "req": req.to_string(),
  })
}

/// One corpus (no upserts, no deletions) in 2-3 segment layouts; every request runs on every layout.
fn mode_suggest(r: &mut StdRng, scn0: usize, n_req: usize, out: &mut Vec<Value>) -> Result<usize> {
  let mut knobs = Knobs::default();
  knobs.nested = false;
  knobs.deletions = false;
  let schema = make_schema(r, &knobs);
  let n_docs = r.gen_range(6..=28);
  let vocab = r.gen_range(4..=WORDS.len());
  let mut docs: Vec<Value> = (0..n_docs).map(|i| make_doc(r, &knobs, &format!("d{i:02}"), i as u64 + 1, vocab)).collect();
  // terms with 2-, 3- and 4-byte characters: edit distance and prefix length count characters
  for d in docs.iter_mut() {
    if chance(r, 1, 3) {
      for f in ["body", "title"] {
        if let Some(Value::String(t)) = d.get_mut(f) {
          t.push(' ');
          let w: &str = *pick(r, &UNI_WORDS);
          t.push_str(w);
          break;
        }
      }
    }
  }
  let n_layouts = r.gen_range(2..=3);
  let mut requests: Vec<SuggestA> = Vec::new();
  let mut firsts: Vec<Value> = Vec::new();
  let mut total = 0;
  for layout in 0..n_layouts {
    let n_commits = if layout == 0 { 1 } else { r.gen_range(2..=4) };
    let mut commits: Vec<Vec<Value>> = vec![vec![]; n_commits];
    for d in docs.iter() {
      let c = if layout == 0 { 0 } else { r.gen_range(0..n_commits) };
      commits[c].push(d.clone());
    }
    let storage = storage_kind(r);
    let b = build_literal(schema.clone(), &commits, storage)?;
    let mut cx = open_ctx(b, storage, scn0 * 10 + layout)?;
    if layout == 0 {
      requests = (0..n_req).map(|_| gen_suggest(r, &cx)).collect();
    }
    let mut searches = Vec::new();
    for (i, sg) in requests.iter().enumerate() {
      let ev = suggest_event(&mut cx, sg, if layout == 0 { None } else { firsts.get(i) });
      if layout == 0 {
        firsts.push(ev["obs"]["options"].clone());
      }
      searches.push(ev);
    }
    total += finish_scn(out, scn0 * 10 + layout, "suggest", cx, searches);
  }
  Ok(total)
}

/// ndjson writer that escapes every non-ASCII character as \uXXXX (surrogate pairs above the BMP):
/// TLC's Json module reads the trace in the JVM's default charset, which is not UTF-8 under the
/// POSIX locale - raw UTF-8 strings such as "grün" and "grÜn" would collapse into one string.
struct AsciiTracer {
  out: std::io::BufWriter<std::fs::File>,
  lines: usize,
}

impl AsciiTracer {
  fn create(path: &std::path::Path) -> Result<Self> {
    if let Some(p) = path.parent() {
      std::fs::create_dir_all(p)?;
    }
    Ok(Self { out: std::io::BufWriter::new(std::fs::File::create(path)?), lines: 0 })
  }
  fn emit(&mut self, v: Value) {
    use std::io::Write;
    debug_assert!(no_null_or_float(&v), "trace value has null/float: {v}");
    let raw = serde_json::to_string(&v).unwrap();
    let mut line = String::with_capacity(raw.len() + 16);
    for c in raw.chars() {
      if c.is_ascii() {
        line.push(c);
      } else {
        let mut buf = [0u16; 2];
        for u in c.encode_utf16(&mut buf) {
          line.push_str(&format!("\\u{:04x}", u));
        }
      }
    }
    self.out.write_all(line.as_bytes()).unwrap();
    self.out.write_all(b"\n").unwrap();
    self.lines += 1;
  }
  fn finish(mut self) -> usize {
    use std::io::Write;
    self.out.flush().unwrap();
    self.lines
  }
}

pub fn main(args: &Args) -> Result<()> {
  let mode = args.str("mode", "collapse");
  if mode == "adhoc" {
    return adhoc(args);
  }
  let seed = args.u64("seed", 1);
  let out = args.str("out", "/verif/out/extras.ndjson");
  let n_scn = args.usize("scenarios", 8);
  let n_req = args.usize("requests", 30);
  let mut tr = AsciiTracer::create(std::path::Path::new(&out))?;
  let mut total = 0usize;
  let mut scenarios = 0usize;
  if let Some(path) = args.get("cases") {
    let max_cases = args.usize("max-cases", 200);
    let lines: Vec<Value> = std::fs::read_to_string(path)?.lines().filter(|l| !l.trim().is_empty()).map(|l| serde_json::from_str(l)).collect::<std::result::Result<_, _>>()?;
    // a seeded sample of the cases TLC printed
    let mut pickr = rng(seed, 3_900_000);
    let mut idxs: Vec<usize> = (0..lines.len()).collect();
    while idxs.len() > max_cases {
      let k = pickr.gen_range(0..idxs.len());
      idxs.swap_remove(k);
    }
    idxs.sort_unstable();
    for (scn, i) in idxs.into_iter().enumerate() {
      let mut r = rng(seed, 3_800_000 + i as u64);
      let mut evs = Vec::new();
      total += match mode.as_str() {
        "collapse" => case_collapse(&lines[i], &mut r, scn, &mut evs)?,
        "highlight" => case_highlight(&lines[i], scn, &mut evs)?,
        other => anyhow::bail!("no case replay for extras mode {other}"),
      };
      scenarios += 1;
      for e in evs {
        tr.emit(e);
      }
    }
  } else {
    for scn in 0..n_scn {
      let mut r = rng(seed, 3_700_000 + scn as u64);
      let mut evs = Vec::new();
      total += match mode.as_str() {
        "collapse" => mode_collapse(&mut r, scn, n_req, &mut evs)?,
        "rescore" => mode_rescore(&mut r, scn, n_req, &mut evs)?,
        "highlight" => mode_highlight(&mut r, scn, n_req, &mut evs)?,
        "suggest" => mode_suggest(&mut r, scn, n_req, &mut evs)?,
        other => anyhow::bail!("unknown extras mode {other}"),
      };
      scenarios += 1;
      for e in evs {
        tr.emit(e);
      }
    }
  }
  let lines = tr.finish();
  println!("{}", json!({"mode": mode, "scenarios": scenarios, "requests": total, "events": lines, "out": out}));
  Ok(())
}
