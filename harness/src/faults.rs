//! (stub) family `faults` - see CONTRIBUTING.md
use anyhow::{bail, Result};

use crate::util::Args;

pub fn main(_args: &Args) -> Result<()> {
  bail!("family faults is not implemented yet")
}
