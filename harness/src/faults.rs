//! C03 driver: storage-fault enumeration.
//!
//! `FaultyStorage` wraps a real `Storage` (in-memory or file system) and a `FaultyFile` wraps every
//! file it hands out. While the controller is switched on (only for the duration of the API call
//! under test) every fallible trait call - storage level and file level - gets the next call
//! number; call number i of the armed plan fails either *before* it is forwarded (no effect) or
//! *after* it was forwarded (effect happened, error reported).
//!
//! For every scenario (uncounted fault-free prefix that builds committed state, then a short
//! seeded call sequence) a clean run counts N calls; then the scenario is re-run from scratch for
//! every i < N x {before, after} (and, with --pairs, for ordered pairs: the second index ranges
//! over the calls of the run with the first fault armed, so the error branches are reached).
//! After EVERY call the driver records, with faults off: the contents a new reader on the same
//! Index sees, the contents after `Index::open_with_storage` on the same storage object, whether
//! every file the reopened manifest references exists, and the operations a new writer would
//! recover from wal.log. A fault-free `commit` (on the live handle, or on a new one) ends each run.
//!
//! This file only drives and records; every verdict is spec/Trace_Fault.tla's. Runs whose recorded
//! events are identical (apart from the call numbers) are written once with a multiplicity.

use std::collections::BTreeMap;
use std::io::{Read, Seek, SeekFrom, Write};
use std::panic::{catch_unwind, AssertUnwindSafe};
use std::path::{Path, PathBuf};
use std::sync::Arc;

use anyhow::{anyhow, bail, Result};
use parking_lot::Mutex;
use rand::Rng;
use serde_json::{json, Value};

use searchlite_core::api::types::StorageType;
use searchlite_core::api::{Index, IndexWriter};
use searchlite_core::storage::{DynFile, FsStorage, InMemoryStorage, Storage, StorageFile};
use searchlite_core::wal::{Wal, WalEntry};

use crate::history::schema_family;
use crate::util::*;

// -------------------------------------------------------------------------------------------------
// fault controller
// -------------------------------------------------------------------------------------------------

#[derive(Clone, Copy, PartialEq, Eq, Debug, PartialOrd, Ord)]
pub enum When {
  Before,
  After,
}

impl When {
  fn s(self) -> &'static str {
    match self {
      When::Before => "before",
      When::After => "after",
    }
  }
  fn parse(s: &str) -> Result<When> {
    match s {
      "before" => Ok(When::Before),
      "after" => Ok(When::After),
      o => bail!("bad fault position {o}"),
    }
  }
}

#[derive(Clone, Debug)]
struct Hit {
  i: usize,
  name: &'static str,
  cls: String,
  when: When,
}

#[derive(Default)]
struct Ctl {
  on: bool,
  count: usize,
  plan: Vec<(usize, When)>,
  hits: Vec<Hit>,
  keep_log: bool,
  log: Vec<(&'static str, String)>,
}

enum Gate {
  Pass,
  Before(String),
  After(String),
}

type Shared = Arc<Mutex<Ctl>>;

fn gate(ctl: &Shared, name: &'static str, cls: &str) -> Gate {
  let mut c = ctl.lock();
  if !c.on {
    return Gate::Pass;
  }
  let i = c.count;
  c.count += 1;
  if c.keep_log {
    c.log.push((name, cls.to_string()));
  }
  let armed = c.plan.iter().find(|(k, _)| *k == i).map(|(_, w)| *w);
  match armed {
    None => Gate::Pass,
    Some(w) => {
      c.hits.push(Hit {
        i,
        name,
        cls: cls.to_string(),
        when: w,
      });
      let msg = format!("injected fault #{i} at {name} [{cls}] {}", w.s());
      match w {
        When::Before => Gate::Before(msg),
        When::After => Gate::After(msg),
      }
    }
  }
}

/// Path class of a storage path: wal / manifest / manifest.tmp / segment part / root / other.
fn classify(path: &Path, root: &Path) -> String {
  if path == root {
    return "root".into();
  }
  let name = path.file_name().map(|n| n.to_string_lossy().to_string()).unwrap_or_default();
  if let Some(parent) = path.parent() {
    if let Some(pn) = parent.file_name().map(|n| n.to_string_lossy().to_string()) {
      if pn.starts_with("seg_") && pn.ends_with("_vectors") {
        return "seg.vectors".into();
      }
    }
  }
  match name.as_str() {
    "wal.log" => "wal".into(),
    "MANIFEST.json" => "manifest".into(),
    "MANIFEST.tmp" => "manifest.tmp".into(),
    n if n.starts_with("seg_") => {
      if n.ends_with("_vectors") {
        "seg.vectors".into()
      } else {
        match n.rsplit('.').next() {
          Some("docs") => "seg.docs".into(),
          Some("post") => "seg.post".into(),
          Some("terms") => "seg.terms".into(),
          Some("fast") => "seg.fast".into(),
          Some("meta") => "seg.meta".into(),
          _ => "seg.other".into(),
        }
      }
    }
    _ => "other".into(),
  }
}

// -------------------------------------------------------------------------------------------------
// FaultyStorage / FaultyFile
// -------------------------------------------------------------------------------------------------

pub struct FaultyStorage {
  inner: Arc<dyn Storage>,
  ctl: Shared,
}

impl FaultyStorage {
  fn call<T>(&self, name: &'static str, path: &Path, f: impl FnOnce() -> Result<T>) -> Result<T> {
    let cls = classify(path, self.inner.root());
    match gate(&self.ctl, name, &cls) {
      Gate::Pass => f(),
      Gate::Before(m) => Err(anyhow!(m)),
      Gate::After(m) => {
        let _ = f();
        Err(anyhow!(m))
      }
    }
  }

  fn wrap(&self, path: &Path, file: DynFile) -> DynFile {
    Box::new(FaultyFile {
      inner: file,
      ctl: self.ctl.clone(),
      cls: classify(path, self.inner.root()),
    })
  }
}

impl Storage for FaultyStorage {
  fn root(&self) -> &Path {
    self.inner.root()
  }
  fn ensure_dir(&self, path: &Path) -> Result<()> {
    self.call("ensure_dir", path, || self.inner.ensure_dir(path))
  }
  fn exists(&self, path: &Path) -> bool {
    // infallible in the trait: cannot report a failure, not a fault point
    self.inner.exists(path)
  }
  fn open_read(&self, path: &Path) -> Result<DynFile> {
    self.call("open_read", path, || self.inner.open_read(path)).map(|f| self.wrap(path, f))
  }
  fn open_write(&self, path: &Path) -> Result<DynFile> {
    self.call("open_write", path, || self.inner.open_write(path)).map(|f| self.wrap(path, f))
  }
  fn open_append(&self, path: &Path) -> Result<DynFile> {
    self.call("open_append", path, || self.inner.open_append(path)).map(|f| self.wrap(path, f))
  }
  fn read_to_end(&self, path: &Path) -> Result<Vec<u8>> {
    self.call("read_to_end", path, || self.inner.read_to_end(path))
  }
  fn write_all(&self, path: &Path, data: &[u8]) -> Result<()> {
    self.call("write_all", path, || self.inner.write_all(path, data))
  }
  fn atomic_write(&self, path: &Path, data: &[u8]) -> Result<()> {
    self.call("atomic_write", path, || self.inner.atomic_write(path, data))
  }
  fn remove(&self, path: &Path) -> Result<()> {
    self.call("remove", path, || self.inner.remove(path))
  }
  fn remove_dir_all(&self, path: &Path) -> Result<()> {
    self.call("remove_dir_all", path, || self.inner.remove_dir_all(path))
  }
}

struct FaultyFile {
  inner: DynFile,
  ctl: Shared,
  cls: String,
}

impl FaultyFile {
  fn io<T>(&mut self, name: &'static str, f: impl FnOnce(&mut DynFile) -> std::io::Result<T>) -> std::io::Result<T> {
    match gate(&self.ctl, name, &self.cls) {
      Gate::Pass => f(&mut self.inner),
      Gate::Before(m) => Err(std::io::Error::new(std::io::ErrorKind::Other, m)),
      Gate::After(m) => {
        let _ = f(&mut self.inner);
        Err(std::io::Error::new(std::io::ErrorKind::Other, m))
      }
    }
  }
  fn any(&mut self, name: &'static str, f: impl FnOnce(&mut DynFile) -> Result<()>) -> Result<()> {
    match gate(&self.ctl, name, &self.cls) {
      Gate::Pass => f(&mut self.inner),
      Gate::Before(m) => Err(anyhow!(m)),
      Gate::After(m) => {
        let _ = f(&mut self.inner);
        Err(anyhow!(m))
      }
    }
  }
}

impl Read for FaultyFile {
  fn read(&mut self, buf: &mut [u8]) -> std::io::Result<usize> {
    self.io("file.read", |f| f.read(buf))
  }
}

impl Write for FaultyFile {
  fn write(&mut self, buf: &[u8]) -> std::io::Result<usize> {
    self.io("file.write", |f| f.write(buf))
  }
  fn flush(&mut self) -> std::io::Result<()> {
    self.io("file.flush", |f| f.flush())
  }
}

impl Seek for FaultyFile {
  fn seek(&mut self, pos: SeekFrom) -> std::io::Result<u64> {
    self.io("file.seek", |f| f.seek(pos))
  }
}

impl StorageFile for FaultyFile {
  fn set_len(&mut self, len: u64) -> Result<()> {
    self.any("file.set_len", |f| f.set_len(len))
  }
  fn sync_all(&mut self) -> Result<()> {
    self.any("file.sync_all", |f| f.sync_all())
  }
}

// -------------------------------------------------------------------------------------------------
// scenarios
// -------------------------------------------------------------------------------------------------

#[derive(Clone, Debug)]
enum Op {
  NewWriter,
  Add(String, u64),
  Delete(Vec<String>),
  Commit,
  Rollback,
  Compact,
  Drop,
}

impl Op {
  fn name(&self) -> &'static str {
    match self {
      Op::NewWriter => "new_writer",
      Op::Add(..) => "add",
      Op::Delete(..) => "delete",
      Op::Commit => "commit",
      Op::Rollback => "rollback",
      Op::Compact => "compact",
      Op::Drop => "drop",
    }
  }
  fn call_json(&self, fin: bool) -> Value {
    let (id, ver, ids): (String, u64, Vec<String>) = match self {
      Op::Add(id, ver) => (id.clone(), *ver, vec![]),
      Op::Delete(ids) => (String::new(), 0, ids.clone()),
      _ => (String::new(), 0, vec![]),
    };
    json!({"ev": "call", "op": self.name(), "id": id, "ver": ver, "ids": ids, "final": fin})
  }
  fn to_json(&self) -> Value {
    match self {
      Op::Add(id, ver) => json!({"op": "add", "id": id, "ver": ver}),
      Op::Delete(ids) => json!({"op": "delete", "ids": ids}),
      o => json!({"op": o.name()}),
    }
  }
  fn from_json(v: &Value) -> Result<Op> {
    Ok(match v["op"].as_str().unwrap_or("") {
      "new_writer" => Op::NewWriter,
      "add" => Op::Add(v["id"].as_str().unwrap_or("a").to_string(), v["ver"].as_u64().unwrap_or(1)),
      "delete" => Op::Delete(
        v["ids"].as_array().map(|a| a.iter().filter_map(|x| x.as_str().map(String::from)).collect()).unwrap_or_default(),
      ),
      "commit" => Op::Commit,
      "rollback" => Op::Rollback,
      "compact" => Op::Compact,
      "drop" => Op::Drop,
      o => bail!("unknown op {o}"),
    })
  }
}

#[derive(Clone, Debug)]
struct Scenario {
  scn: usize,
  storage: String,
  /// executed fault-free and uncounted; ends with commit + drop, so nothing is queued afterwards
  prefix: Vec<Op>,
  ops: Vec<Op>,
}

const IDS3: [&str; 3] = ["a", "b", "c"];

fn gen_scenario(scn: usize, seed: u64, max_ops: usize) -> Scenario {
  let mut r = rng(seed, 3_000_000 + scn as u64);
  let storage = if scn % 3 == 2 { "fs" } else { "memory" };
  let mut ver = 0u64;
  let mut prefix = Vec::new();
  // every fourth scenario is a compaction scenario: two committed segments and a compact call
  let compaction = scn % 4 == 1;
  let batches = if compaction { 2 } else { [0usize, 1, 2, 2][r.gen_range(0..4)] };
  if batches > 0 {
    prefix.push(Op::NewWriter);
    for b in 0..batches {
      let n = r.gen_range(1..=2);
      for _ in 0..n {
        ver += 1;
        prefix.push(Op::Add(pick(&mut r, &IDS3).to_string(), ver));
      }
      if b > 0 && chance(&mut r, 1, 3) {
        prefix.push(Op::Delete(vec![pick(&mut r, &IDS3).to_string()]));
      }
      prefix.push(Op::Commit);
    }
    prefix.push(Op::Drop);
  }
  let n_ops = r.gen_range(4..=max_ops.max(4));
  let mut ops = vec![Op::NewWriter];
  // generation-time estimates (never used for judging): queued operations, segments, handle
  let mut queued = 0usize;
  let mut queued_adds = 0usize;
  let mut segs = batches;
  let mut handle = true;
  let mut committed = false;
  while ops.len() < n_ops {
    if !handle {
      ops.push(Op::NewWriter);
      handle = true;
      continue;
    }
    let last = ops.len() + 1 == n_ops;
    if last && queued > 0 && !committed {
      ops.push(Op::Commit);
      break;
    }
    let weights: [(u32, u8); 6] = [
      (35, 0),
      (15, 1),
      (if queued > 0 { 30 } else { 3 }, 2),
      (if queued > 0 { 8 } else { 2 }, 3),
      (if segs >= 2 { 18 } else { 2 }, 4),
      (7, 5),
    ];
    let total: u32 = weights.iter().map(|w| w.0).sum();
    let mut roll = r.gen_range(0..total);
    let mut kind = 0u8;
    for (w, k) in weights.iter() {
      if roll < *w {
        kind = *k;
        break;
      }
      roll -= *w;
    }
    let op = match kind {
      0 => {
        ver += 1;
        queued += 1;
        queued_adds += 1;
        Op::Add(pick(&mut r, &IDS3).to_string(), ver)
      }
      1 => {
        queued += 1;
        let n = if chance(&mut r, 1, 4) { 2 } else { 1 };
        Op::Delete((0..n).map(|_| pick(&mut r, &IDS3).to_string()).collect())
      }
      2 => {
        if queued > 0 {
          committed = true;
        }
        if queued_adds > 0 {
          segs += 1;
        }
        queued = 0;
        queued_adds = 0;
        Op::Commit
      }
      3 => {
        queued = 0;
        queued_adds = 0;
        Op::Rollback
      }
      4 => {
        if segs >= 2 {
          segs = 1;
        }
        Op::Compact
      }
      _ => {
        handle = false;
        Op::Drop
      }
    };
    ops.push(op);
  }
  if compaction && !ops.iter().any(|o| matches!(o, Op::Compact)) {
    let at = r.gen_range(1..=ops.len());
    ops.insert(at, Op::Compact);
  }
  Scenario {
    scn,
    storage: storage.to_string(),
    prefix,
    ops,
  }
}

fn doc_for(id: &str, ver: u64) -> Value {
  json!({"_id": id, "body": format!("w{ver} common {id}"), "ver": ver})
}

fn idver_json(l: &[(String, u64)]) -> Value {
  Value::Array(l.iter().map(|(i, v)| json!({"id": i, "ver": v})).collect())
}

fn id_ver_list(idx: &Index) -> Result<Vec<(String, u64)>> {
  Ok(
    contents(idx)?
      .into_iter()
      .map(|(id, f)| {
        let ver = f.get("ver").and_then(|v| v.as_u64()).unwrap_or(0);
        (id, ver)
      })
      .collect(),
  )
}

fn pending_json(entries: Vec<WalEntry>) -> Vec<Value> {
  entries
    .into_iter()
    .filter_map(|e| match e {
      WalEntry::AddDoc(d) => Some(json!({
        "t": "add",
        "id": d.fields.get("_id").and_then(|v| v.as_str()).unwrap_or("?"),
        "ver": d.fields.get("ver").and_then(|v| v.as_u64()).unwrap_or(0),
      })),
      WalEntry::DeleteDocId(id) => Some(json!({"t": "del", "id": id, "ver": 0})),
      WalEntry::Commit => None,
    })
    .collect()
}

/// Replace run-specific text (scratch path, segment uuids) so traces are reproducible.
fn sanitise(text: &str, root: &Path) -> String {
  let t = text.replace(&root.to_string_lossy().to_string(), "<root>");
  let mut out = String::new();
  let chars: Vec<char> = t.chars().collect();
  let mut i = 0;
  while i < chars.len() {
    let mut j = i;
    while j < chars.len() && chars[j].is_ascii_hexdigit() && !chars[j].is_ascii_uppercase() {
      j += 1;
    }
    if j - i >= 32 {
      out.push_str("<seg>");
      i = j;
    } else if j > i {
      out.extend(&chars[i..j]);
      i = j;
    } else {
      out.push(chars[i]);
      i += 1;
    }
  }
  out.chars().take(200).collect()
}

fn err_class(text: &str) -> &'static str {
  if text.is_empty() {
    "none"
  } else if text.contains("injected fault") {
    "injected"
  } else {
    "other"
  }
}

struct Env {
  root: PathBuf,
  storage: Arc<dyn Storage>,
  stype: StorageType,
  ctl: Shared,
}

/// What is visible after a call, observed with the controller off.
fn observe(env: &Env, idx: &Index) -> Value {
  debug_assert!(!env.ctl.lock().on);
  let root = env.root.clone();
  // (1) a new reader on the same Index
  let (reader_ok, reader, reader_err) = match catch_unwind(AssertUnwindSafe(|| id_ver_list(idx))) {
    Ok(Ok(l)) => (true, l, String::new()),
    Ok(Err(e)) => (false, vec![], sanitise(&format!("{e:#}"), &root)),
    Err(_) => (false, vec![], "panic".to_string()),
  };
  // (2) reopen from "disk": a new Index over the same storage object
  let mut reopen_ok = false;
  let mut reopen = vec![];
  let mut reopen_err = String::new();
  let mut dangling: Vec<String> = Vec::new();
  let storage = env.storage.clone();
  let o = opts(&root, env.stype.clone());
  let res = catch_unwind(AssertUnwindSafe(|| -> Result<(Vec<String>, Result<Vec<(String, u64)>>)> {
    let idx2 = Index::open_with_storage(o, storage.clone())?;
    let m = idx2.manifest();
    let mut missing = Vec::new();
    for s in m.segments.iter() {
      for (part, p) in [
        ("terms", &s.paths.terms),
        ("post", &s.paths.postings),
        ("docs", &s.paths.docstore),
        ("fast", &s.paths.fast),
        ("meta", &s.paths.meta),
      ] {
        if !storage.exists(Path::new(p)) {
          missing.push(part.to_string());
        }
      }
    }
    Ok((missing, id_ver_list(&idx2)))
  }));
  match res {
    Ok(Ok((missing, c))) => {
      dangling = missing;
      match c {
        Ok(l) => {
          reopen_ok = true;
          reopen = l;
        }
        Err(e) => reopen_err = sanitise(&format!("read: {e:#}"), &root),
      }
    }
    Ok(Err(e)) => {
      reopen_err = sanitise(&format!("open: {e:#}"), &root);
      dangling.push("manifest".into());
    }
    Err(_) => reopen_err = "panic".into(),
  }
  // (3) what a new writer would recover from the log
  let (wal_ok, wal) = match catch_unwind(AssertUnwindSafe(|| {
    Wal::last_pending_ops(env.storage.as_ref(), &root.join("wal.log"))
  })) {
    Ok(Ok(p)) => (true, pending_json(p)),
    _ => (false, vec![]),
  };
  json!({
    "reader_ok": reader_ok, "reader": idver_json(&reader), "reader_err": reader_err,
    "reopen_ok": reopen_ok, "reopen": idver_json(&reopen), "reopen_err": reopen_err,
    "dangling": dangling, "wal_ok": wal_ok, "wal": wal,
  })
}

struct RunOut {
  events: Vec<Value>,
  n_calls: usize,
  fired: usize,
  panics: usize,
  log: Vec<(&'static str, String)>,
  api_calls: usize,
}

/// Execute one API call with the controller on; returns (ok, outcome, error text).
fn api_call(
  op: &Op,
  env: &Env,
  idx: &Index,
  writer: &mut Option<IndexWriter>,
  armed: bool,
) -> (bool, &'static str, String) {
  env.ctl.lock().on = armed;
  let res = catch_unwind(AssertUnwindSafe(|| -> Result<()> {
    match op {
      Op::NewWriter => {
        *writer = None;
        *writer = Some(idx.writer()?);
        Ok(())
      }
      Op::Add(id, ver) => writer.as_mut().unwrap().add_document(&doc_from_json(doc_for(id, *ver))).map(|_| ()),
      Op::Delete(ids) => writer.as_mut().unwrap().delete_documents(ids),
      Op::Commit => writer.as_mut().unwrap().commit(),
      Op::Rollback => writer.as_mut().unwrap().rollback(),
      Op::Compact => idx.compact(),
      Op::Drop => {
        *writer = None;
        Ok(())
      }
    }
  }));
  env.ctl.lock().on = false;
  match res {
    Ok(Ok(())) => (true, "ok", String::new()),
    Ok(Err(e)) => (false, "err", sanitise(&format!("{e:#}"), &env.root)),
    Err(_) => (false, "panic", "panic".to_string()),
  }
}

fn execute(sc: &Scenario, plan: &[(usize, When)], keep_log: bool) -> Result<RunOut> {
  let scratch = Scratch::new("faults");
  let root = scratch.join("idx");
  let (inner, stype): (Arc<dyn Storage>, StorageType) = match sc.storage.as_str() {
    "fs" => (Arc::new(FsStorage::new(root.clone())), StorageType::Filesystem),
    _ => (Arc::new(InMemoryStorage::new(root.clone())), StorageType::InMemory),
  };
  let ctl: Shared = Arc::new(Mutex::new(Ctl {
    plan: plan.to_vec(),
    keep_log,
    ..Default::default()
  }));
  let storage: Arc<dyn Storage> = Arc::new(FaultyStorage {
    inner,
    ctl: ctl.clone(),
  });
  let env = Env {
    root: root.clone(),
    storage: storage.clone(),
    stype: stype.clone(),
    ctl: ctl.clone(),
  };
  let schema = schema_from_json(schema_family(2));
  let idx = Index::create_with_storage(&root, schema, opts(&root, stype), storage.clone())?;
  let mut writer: Option<IndexWriter> = None;
  // prefix: builds committed state, fault-free and uncounted
  for op in sc.prefix.iter() {
    let (ok, _, err) = api_call(op, &env, &idx, &mut writer, false);
    if !ok {
      bail!("scenario prefix failed at {}: {err}", op.name());
    }
  }
  if writer.is_some() {
    bail!("scenario prefix must end with drop");
  }
  let acked0 = id_ver_list(&idx)?;
  let mut events: Vec<Value> = Vec::new();
  events.push(json!({
    "ev": "reset", "scn": sc.scn, "run": 0, "mult": 1, "storage": sc.storage,
    "nfaults": plan.len(),
    "faults": plan.iter().map(|(i, w)| json!({"i": i, "when": w.s()})).collect::<Vec<_>>(),
    "acked": idver_json(&acked0),
    "prefix_segments": idx.manifest().segments.len(),
  }));
  let mut panics = 0usize;
  let mut api_calls = 0usize;
  let mut dead = false;
  let mut do_call = |op: &Op, fin: bool, writer: &mut Option<IndexWriter>, events: &mut Vec<Value>| -> bool {
    events.push(op.call_json(fin));
    let (ok, outcome, err) = api_call(op, &env, &idx, writer, !fin);
    let hits: Vec<Hit> = std::mem::take(&mut ctl.lock().hits);
    let mut ret = json!({
      "ev": "ret", "ok": ok, "outcome": outcome, "err": err_class(&err), "errtext": err,
      "hits": hits.iter().map(|h| json!({"i": h.i, "name": h.name, "cls": h.cls, "when": h.when.s()})).collect::<Vec<_>>(),
    });
    let obs = observe(&env, &idx);
    for (k, v) in obs.as_object().unwrap() {
      ret[k] = v.clone();
    }
    events.push(ret);
    api_calls += 1;
    outcome != "panic"
  };
  for op in sc.ops.iter() {
    let needs = matches!(op, Op::Add(..) | Op::Delete(..) | Op::Commit | Op::Rollback);
    if needs && writer.is_none() {
      if !do_call(&Op::NewWriter, false, &mut writer, &mut events) {
        dead = true;
        break;
      }
      if writer.is_none() {
        continue; // the implicit new_writer failed (fault inside it): the call cannot be made
      }
    }
    if matches!(op, Op::Drop) && writer.is_none() {
      continue;
    }
    if !do_call(op, false, &mut writer, &mut events) {
      dead = true;
      break;
    }
  }
  if dead {
    panics += 1;
    // a handle that panicked mid-call is not used again; its Drop may panic too
    let w = writer.take();
    let _ = catch_unwind(AssertUnwindSafe(move || drop(w)));
  } else {
    // retry with faults off: whatever is still queued must be committable
    if writer.is_none() {
      do_call(&Op::NewWriter, true, &mut writer, &mut events);
    }
    if writer.is_some() {
      do_call(&Op::Commit, true, &mut writer, &mut events);
    }
  }
  drop(do_call);
  let w = writer.take();
  let _ = catch_unwind(AssertUnwindSafe(move || drop(w)));
  let c = ctl.lock();
  let fired = plan.iter().filter(|(i, _)| *i < c.count).count();
  Ok(RunOut {
    events,
    n_calls: c.count,
    fired,
    panics,
    log: c.log.clone(),
    api_calls,
  })
}

/// Key for de-duplication: the recorded events without call numbers.
fn dedup_key(events: &[Value]) -> String {
  fn strip(v: &Value) -> Value {
    match v {
      Value::Object(o) => Value::Object(
        o.iter()
          .map(|(k, x)| {
            if k == "i" || k == "run" || k == "mult" {
              (k.clone(), json!(0))
            } else if k == "errtext" {
              (k.clone(), json!(strip_numbers(x.as_str().unwrap_or(""))))
            } else {
              (k.clone(), strip(x))
            }
          })
          .collect(),
      ),
      Value::Array(a) => Value::Array(a.iter().map(strip).collect()),
      o => o.clone(),
    }
  }
  serde_json::to_string(&Value::Array(events.iter().map(strip).collect())).unwrap()
}

fn strip_numbers(s: &str) -> String {
  // "injected fault #17 at ..." -> "injected fault # at ..."
  let mut out = String::new();
  let mut after_hash = false;
  for c in s.chars() {
    if after_hash && c.is_ascii_digit() {
      continue;
    }
    after_hash = c == '#';
    out.push(c);
  }
  out
}

struct Totals {
  runs: usize,
  distinct: usize,
  single_runs: usize,
  pair_runs: usize,
  unfired: usize,
  panics: usize,
  api_calls: usize,
  err_returns: usize,
}

fn emit_group(tr: &mut Tracer, run_no: &mut usize, mut events: Vec<Value>, mult: usize) {
  *run_no += 1;
  events[0]["run"] = json!(*run_no);
  events[0]["mult"] = json!(mult);
  for e in events {
    tr.emit(e);
  }
}

#[allow(clippy::too_many_arguments)]
fn run_scenario(
  sc: &Scenario,
  tr: &mut Tracer,
  tot: &mut Totals,
  run_no: &mut usize,
  pairs: bool,
  pair_cap: usize,
  seed: u64,
  dedup: bool,
  samples: &mut Vec<Value>,
) -> Result<Value> {
  let clean = execute(sc, &[], true)?;
  let n = clean.n_calls;
  let mut groups: BTreeMap<String, (Vec<Value>, usize)> = BTreeMap::new();
  let mut order: Vec<String> = Vec::new();
  let add = |out: RunOut, tot: &mut Totals, groups: &mut BTreeMap<String, (Vec<Value>, usize)>, order: &mut Vec<String>, n_armed: usize| {
    tot.runs += 1;
    tot.panics += out.panics;
    tot.api_calls += out.api_calls;
    tot.unfired += n_armed - out.fired;
    tot.err_returns += out.events.iter().filter(|e| e["ev"] == "ret" && e["ok"] == false).count();
    let key = if dedup { dedup_key(&out.events) } else { format!("{}", tot.runs) };
    match groups.get_mut(&key) {
      Some(g) => g.1 += 1,
      None => {
        order.push(key.clone());
        groups.insert(key, (out.events, 1));
      }
    }
  };
  let n_clean_calls = clean.n_calls;
  let log = clean.log.clone();
  add(clean, tot, &mut groups, &mut order, 0);
  let mut per_single: Vec<(usize, When, usize)> = Vec::new();
  for i in 0..n {
    for w in [When::Before, When::After] {
      let out = execute(sc, &[(i, w)], false)?;
      per_single.push((i, w, out.n_calls));
      tot.single_runs += 1;
      add(out, tot, &mut groups, &mut order, 1);
    }
  }
  let mut n_pairs = 0usize;
  if pairs {
    // second fault ranges over the calls of the run that already has the first fault armed
    let mut all: Vec<(usize, When, usize, When)> = Vec::new();
    for (i, w, ni) in per_single.iter() {
      for j in (i + 1)..*ni {
        for w2 in [When::Before, When::After] {
          all.push((*i, *w, j, w2));
        }
      }
    }
    if all.len() > pair_cap {
      // seeded subsample, but always keep pairs whose second fault lies in the region only an
      // error path reaches (j >= clean count) or follows the first closely (same API call, mostly)
      let mut r = rng(seed, 9_000_000 + sc.scn as u64);
      let (near, far): (Vec<_>, Vec<_>) = all.into_iter().partition(|(i, _, j, _)| *j >= n_clean_calls || *j <= *i + 12);
      let mut chosen = near;
      if chosen.len() > pair_cap {
        let keep = pair_cap as f64 / chosen.len() as f64;
        chosen.retain(|_| r.gen_bool(keep));
      } else {
        let room = pair_cap - chosen.len();
        let keep = (room as f64 / far.len().max(1) as f64).min(1.0);
        chosen.extend(far.into_iter().filter(|_| r.gen_bool(keep)));
      }
      all = chosen;
    }
    for (i, w, j, w2) in all {
      let out = execute(sc, &[(i, w), (j, w2)], false)?;
      n_pairs += 1;
      tot.pair_runs += 1;
      add(out, tot, &mut groups, &mut order, 2);
    }
  }
  tot.distinct += groups.len();
  for key in order {
    let (events, mult) = groups.remove(&key).unwrap();
    if samples.len() < 4 && events[0]["nfaults"].as_u64().unwrap_or(0) > 0 && events.iter().any(|e| e["ev"] == "ret" && e["ok"] == false) {
      let calls: Vec<Value> = events
        .iter()
        .filter(|e| e["ev"] == "ret")
        .map(|e| json!({"ok": e["ok"], "hits": e["hits"], "reader": e["reader"], "reopen": e["reopen"], "dangling": e["dangling"], "wal": e["wal"]}))
        .collect();
      samples.push(json!({
        "scn": sc.scn, "storage": sc.storage, "faults": events[0]["faults"],
        "prefix": sc.prefix.iter().map(|o| o.to_json()).collect::<Vec<_>>(),
        "ops": sc.ops.iter().map(|o| o.to_json()).collect::<Vec<_>>(),
        "after_each_call": calls,
      }));
    }
    emit_group(tr, run_no, events, mult);
  }
  let mut by_name: BTreeMap<String, usize> = BTreeMap::new();
  for (name, cls) in log.iter() {
    *by_name.entry(format!("{name}:{cls}")).or_default() += 1;
  }
  Ok(json!({
    "scn": sc.scn, "storage": sc.storage, "storage_calls": n, "pairs": n_pairs,
    "prefix": sc.prefix.iter().map(|o| o.to_json()).collect::<Vec<_>>(),
    "ops": sc.ops.iter().map(|o| o.to_json()).collect::<Vec<_>>(),
    "fault_points": by_name,
  }))
}

pub fn main(args: &Args) -> Result<()> {
  let seed = args.u64("seed", 1);
  let out = args.str("out", "/verif/out/faults.ndjson");
  let n_scn = args.usize("scenarios", 8);
  let max_ops = args.usize("ops", 6);
  let max_calls = args.usize("max-calls", 400);
  let n_pairs_scn = args.usize("pairs", 0);
  let n_pairs_fs = args.usize("pairs-fs", 0);
  let pair_min_calls = args.usize("pair-min-calls", 40);
  let pair_cap = args.usize("pair-cap", 4000);
  let dedup = !args.flag("no-dedup");
  // a panic of the code under test is data; keep stderr quiet
  std::panic::set_hook(Box::new(|_| {}));
  let mut tr = Tracer::create(Path::new(&out))?;
  let mut tot = Totals {
    runs: 0,
    distinct: 0,
    single_runs: 0,
    pair_runs: 0,
    unfired: 0,
    panics: 0,
    api_calls: 0,
    err_returns: 0,
  };
  let mut run_no = 0usize;
  let mut scn_info: Vec<Value> = Vec::new();
  let mut samples: Vec<Value> = Vec::new();
  let mut scenarios: Vec<Scenario> = Vec::new();
  if let Some(path) = args.get("script") {
    // explicit scenarios (witness replay): one JSON object per line
    // {"storage": "memory", "prefix": [..ops..], "ops": [..ops..], "faults": [[i, "after"], ..]}
    let text = std::fs::read_to_string(path)?;
    for (k, line) in text.lines().filter(|l| !l.trim().is_empty()).enumerate() {
      let v: Value = serde_json::from_str(line)?;
      let parse = |key: &str| -> Result<Vec<Op>> {
        v[key].as_array().map(|a| a.iter().map(Op::from_json).collect()).unwrap_or(Ok(vec![]))
      };
      let sc = Scenario {
        scn: k,
        storage: v["storage"].as_str().unwrap_or("memory").to_string(),
        prefix: parse("prefix")?,
        ops: parse("ops")?,
      };
      if let Some(f) = v.get("faults").and_then(|f| f.as_array()) {
        // a fault is [call number, when] or - robust against changes of the call count -
        // [trait call, path class, k, when]: the k-th such call after the previous fault
        let mut plan: Vec<(usize, When)> = Vec::new();
        for p in f.iter() {
          if p[0].is_u64() {
            plan.push((p[0].as_u64().unwrap_or(0) as usize, When::parse(p[1].as_str().unwrap_or("before"))?));
            continue;
          }
          let (name, cls) = (p[0].as_str().unwrap_or(""), p[1].as_str().unwrap_or(""));
          let k = p[2].as_u64().unwrap_or(1).max(1) as usize;
          let from = plan.last().map(|(i, _)| i + 1).unwrap_or(0);
          let probe = execute(&sc, &plan, true)?;
          let at = probe
            .log
            .iter()
            .enumerate()
            .skip(from)
            .filter(|(_, (n, c))| *n == name && c == cls)
            .map(|(i, _)| i)
            .nth(k - 1)
            .ok_or_else(|| anyhow!("script: no call {name} [{cls}] #{k} after call {from}"))?;
          plan.push((at, When::parse(p[3].as_str().unwrap_or("before"))?));
        }
        let o = execute(&sc, &plan, true)?;
        if args.flag("list") {
          for (i, (name, cls)) in o.log.iter().enumerate() {
            eprintln!("{i:4} {name} {cls}");
          }
        }
        tot.runs += 1;
        tot.distinct += 1;
        tot.panics += o.panics;
        emit_group(&mut tr, &mut run_no, o.events, 1);
        scn_info.push(json!({"scn": k, "storage_calls": o.n_calls}));
      } else {
        scenarios.push(sc);
      }
    }
  } else {
    let mut k = 0usize;
    while scenarios.len() < n_scn && k < n_scn * 20 {
      let sc = gen_scenario(k, seed, max_ops);
      k += 1;
      scenarios.push(sc);
    }
  }
  // scenarios with too many storage calls are skipped (counted), not truncated
  let mut counts: Vec<usize> = Vec::new();
  for sc in scenarios.iter() {
    counts.push(execute(sc, &[], false)?.n_calls);
  }
  // ordered pairs are enumerated on the smallest scenarios that still contain real work
  let mut pair_set: std::collections::BTreeSet<usize> = std::collections::BTreeSet::new();
  for (kind, want) in [("memory", n_pairs_scn), ("fs", n_pairs_fs)] {
    let mut cand: Vec<(usize, usize)> = scenarios
      .iter()
      .enumerate()
      .filter(|(k, sc)| sc.storage == kind && counts[*k] >= pair_min_calls && counts[*k] <= max_calls)
      .map(|(k, _)| (counts[k], k))
      .collect();
    cand.sort();
    for (_, k) in cand.into_iter().take(want) {
      pair_set.insert(k);
    }
  }
  for (pos, sc) in scenarios.iter().enumerate() {
    if counts[pos] > max_calls {
      scn_info.push(json!({"scn": sc.scn, "storage_calls": counts[pos], "skipped": true}));
      continue;
    }
    let info = run_scenario(sc, &mut tr, &mut tot, &mut run_no, pair_set.contains(&pos), pair_cap, seed, dedup, &mut samples)?;
    scn_info.push(info);
  }
  let lines = tr.finish();
  println!(
    "{}",
    json!({
      "scenarios": scn_info.iter().filter(|s| s.get("skipped").is_none()).count(),
      "events": lines, "runs": tot.runs, "distinct_runs": tot.distinct,
      "single_fault_runs": tot.single_runs, "pair_fault_runs": tot.pair_runs,
      "unfired": tot.unfired, "panics": tot.panics, "api_calls": tot.api_calls,
      "err_returns": tot.err_returns,
      "scenario_info": scn_info, "samples": samples, "out": out,
    })
  );
  Ok(())
}
