//! (stub) family `ffi` - see CONTRIBUTING.md
use anyhow::{bail, Result};

use crate::util::Args;

pub fn main(_args: &Args) -> Result<()> {
  bail!("family ffi is not implemented yet")
}
