//! C26 driver: calls the real `extern "C"` functions of searchlite-ffi (linked as rlib).
//!
//! For seeded random (query, limit, cursor, aggs) argument tuples over a small index the driver
//! first obtains the full response with a large buffer and then repeats the call with EVERY
//! capacity 0..=len+16 into a buffer that is embedded
//!   * `canary`      between two 64-byte canary regions of a heap allocation,
//!   * `guard_end`   so that buf+cap is the first byte of a PROT_NONE page (canaries in front),
//!   * `guard_start` so that buf-1 is the last byte of a PROT_NONE page (canaries behind);
//!     in the guard modes the aggs bytes also end exactly at a PROT_NONE page (no NUL).
//! Every sweep runs in a forked child that reports one line per call through a pipe, so that a
//! fault or abort of the callee is an *observation* (`crashed`, `signal`) and never fatal to the
//! driver. Null pointers in each argument position run the same way, one child per call.
//!
//! The oracle is spec/Trace_Ffi.tla (postconditions of FfiContract.tla / FfiBuf.tla); this file
//! only drives, measures memory, and records.

use std::collections::BTreeMap;
use std::ffi::CString;
use std::os::raw::c_char;
use std::panic::{catch_unwind, AssertUnwindSafe};
use std::path::Path;

use anyhow::{bail, Result};
use rand::rngs::StdRng;
use rand::Rng;
use serde_json::{json, Value};

use searchlite_core::api::builder::IndexBuilder;
use searchlite_core::api::types::{
  Aggregation, ExecutionStrategy, IndexOptions, Query, QueryNode, SearchRequest, StorageType,
};
use searchlite_core::api::Index;
use searchlite_ffi::{
  searchlite_add_json, searchlite_commit, searchlite_index_close, searchlite_index_open,
  searchlite_search, IndexHandle,
};

use crate::util::*;

const FILL: u8 = 0xAA;
const CANARY: u8 = 0xCC;
const CANARY_LEN: usize = 64;
const BIG: usize = 1 << 20;

// ------------------------------------------------------------------------------------------------
// Arguments of one call (what a C caller would pass)
// ------------------------------------------------------------------------------------------------

#[derive(Clone, Debug)]
pub struct CallArgs {
  pub query: Vec<u8>,          // without NUL; may be invalid UTF-8
  pub limit: usize,
  pub cursor: Option<Vec<u8>>, // None = NULL
  pub aggs: Option<Vec<u8>>,   // None = NULL
  pub aggs_len: usize,         // may be shorter than aggs (prefix) or 0
  pub cursor_kind: &'static str,
  pub aggs_kind: &'static str,
}

/// The options every front end other than the library fixes (see spec/Frontends.tla, FeOptions).
pub fn frontend_options(path: &Path, create: bool) -> IndexOptions {
  IndexOptions {
    path: path.to_path_buf(),
    create_if_missing: create,
    enable_positions: true,
    bm25_k1: 0.9,
    bm25_b: 0.4,
    storage: StorageType::Filesystem,
    vector_defaults: None,
  }
}

/// The SearchRequest the FFI arguments denote (spec/Frontends.tla, FfiRequest). `None` when the
/// aggregation bytes are not a JSON map of aggregations (the call must then fail).
pub fn ffi_request(
  query: &[u8],
  limit: usize,
  cursor: Option<&[u8]>,
  aggs: Option<&[u8]>,
  aggs_len: usize,
) -> Option<SearchRequest> {
  let qs = String::from_utf8_lossy(query).to_string();
  let q: Query = match serde_json::from_str::<QueryNode>(&qs) {
    Ok(n) => Query::Node(n),
    Err(_) => Query::String(qs),
  };
  let aggs_map: BTreeMap<String, Aggregation> = match aggs {
    Some(b) if aggs_len > 0 => {
      let body = String::from_utf8_lossy(&b[..aggs_len.min(b.len())]).to_string();
      match serde_json::from_str(&body) {
        Ok(m) => m,
        Err(_) => return None,
      }
    }
    _ => BTreeMap::new(),
  };
  Some(SearchRequest {
    query: q,
    fields: None,
    filter: None,
    limit,
    return_hits: true,
    candidate_size: None,
    sort: Vec::new(),
    cursor: cursor.map(|c| String::from_utf8_lossy(c).to_string()),
    execution: ExecutionStrategy::Wand,
    bmw_block_size: None,
    fuzzy: None,
    vector_query: None,
    vector_filter: None,
    return_stored: true,
    highlight_field: None,
    highlight: None,
    collapse: None,
    aggs: aggs_map,
    suggest: BTreeMap::new(),
    rescore: None,
    explain: false,
    profile: false,
  })
}

/// Outcome of the equivalent Rust API call: ("ok", json) | ("err", msg) | ("panic", msg).
pub fn lib_outcome(idx: &Index, req: Option<SearchRequest>) -> (&'static str, String) {
  let Some(req) = req else {
    return ("err", "aggregation JSON does not parse".into());
  };
  // the library's panic is an observation here; keep its backtrace off the driver's stderr
  let hook = std::panic::take_hook();
  std::panic::set_hook(Box::new(|_| {}));
  let r = catch_unwind(AssertUnwindSafe(|| -> Result<String> {
    let reader = idx.reader()?;
    let res = reader.search(&req)?;
    Ok(serde_json::to_string(&res)?)
  }));
  std::panic::set_hook(hook);
  match r {
    Ok(Ok(s)) => ("ok", s),
    Ok(Err(e)) => ("err", format!("{e:#}")),
    Err(p) => {
      let msg = p
        .downcast_ref::<String>()
        .cloned()
        .or_else(|| p.downcast_ref::<&str>().map(|s| s.to_string()))
        .unwrap_or_else(|| "panic".into());
      ("panic", msg)
    }
  }
}

// ------------------------------------------------------------------------------------------------
// Memory arenas
// ------------------------------------------------------------------------------------------------

fn page() -> usize {
  unsafe { libc::sysconf(libc::_SC_PAGESIZE) as usize }
}

/// `guard | data pages | guard` mapping; the guards are PROT_NONE.
struct Guarded {
  base: *mut u8,
  total: usize,
  data: *mut u8,
  data_len: usize,
}

impl Guarded {
  fn new(min_data: usize) -> Self {
    let p = page();
    let data_len = ((min_data + p - 1) / p).max(1) * p;
    let total = data_len + 2 * p;
    unsafe {
      let base = libc::mmap(
        std::ptr::null_mut(),
        total,
        libc::PROT_READ | libc::PROT_WRITE,
        libc::MAP_PRIVATE | libc::MAP_ANONYMOUS,
        -1,
        0,
      );
      assert!(base != libc::MAP_FAILED, "mmap failed");
      let base = base as *mut u8;
      assert_eq!(libc::mprotect(base as *mut _, p, libc::PROT_NONE), 0);
      assert_eq!(libc::mprotect(base.add(p + data_len) as *mut _, p, libc::PROT_NONE), 0);
      Self { base, total, data: base.add(p), data_len }
    }
  }
  fn slice(&mut self) -> &mut [u8] {
    unsafe { std::slice::from_raw_parts_mut(self.data, self.data_len) }
  }
}

impl Drop for Guarded {
  fn drop(&mut self) {
    unsafe {
      libc::munmap(self.base as *mut _, self.total);
    }
  }
}

/// A caller buffer of `cap` bytes inside an arena; everything else in the arena is canary.
enum Arena {
  Heap(Vec<u8>),
  Map(Guarded),
}

struct Placed {
  arena: Arena,
  off: usize, // offset of buf[0] inside the arena's data
  cap: usize,
}

impl Placed {
  fn new(mode: &str, cap: usize) -> Self {
    match mode {
      "canary" => {
        let mut v = vec![CANARY; CANARY_LEN + cap + CANARY_LEN];
        v[CANARY_LEN..CANARY_LEN + cap].fill(FILL);
        Placed { arena: Arena::Heap(v), off: CANARY_LEN, cap }
      }
      "guard_end" => {
        let mut g = Guarded::new(cap + CANARY_LEN);
        let dl = g.data_len;
        let s = g.slice();
        s.fill(CANARY);
        s[dl - cap..].fill(FILL);
        Placed { arena: Arena::Map(g), off: dl - cap, cap }
      }
      "guard_start" => {
        let mut g = Guarded::new(cap + CANARY_LEN);
        let s = g.slice();
        s.fill(CANARY);
        s[..cap].fill(FILL);
        Placed { arena: Arena::Map(g), off: 0, cap }
      }
      other => panic!("unknown mode {other}"),
    }
  }
  fn data(&mut self) -> &mut [u8] {
    match &mut self.arena {
      Arena::Heap(v) => v.as_mut_slice(),
      Arena::Map(g) => g.slice(),
    }
  }
  fn ptr(&mut self) -> *mut c_char {
    let off = self.off;
    unsafe { self.data().as_mut_ptr().add(off) as *mut c_char }
  }
  /// (nulAt, wrote, canariesIntact, prefixOk) measured after a call that returned `ret`.
  fn measure(&mut self, ret: usize, full: &[u8]) -> (i64, bool, bool, bool) {
    let (off, cap) = (self.off, self.cap);
    let d = self.data();
    let buf = &d[off..off + cap];
    let nul_at = buf.iter().position(|b| *b == 0).map(|p| p as i64).unwrap_or(-1);
    let wrote = buf.iter().any(|b| *b != FILL);
    let canaries = d[..off].iter().all(|b| *b == CANARY) && d[off + cap..].iter().all(|b| *b == CANARY);
    let prefix = ret <= cap && ret <= full.len() && buf[..ret] == full[..ret];
    (nul_at, wrote, canaries, prefix)
  }
}

/// Read-only bytes for an input argument. In guard modes the bytes end exactly at a PROT_NONE
/// page and carry no terminator (only for arguments passed with an explicit length).
struct InBytes {
  _heap: Option<Vec<u8>>,
  _map: Option<Guarded>,
  ptr: *const c_char,
}

impl InBytes {
  fn cstr(bytes: &[u8]) -> Self {
    let mut v = bytes.to_vec();
    v.push(0);
    let ptr = v.as_ptr() as *const c_char;
    InBytes { _heap: Some(v), _map: None, ptr }
  }
  fn counted(bytes: &[u8], guarded: bool) -> Self {
    if !guarded || bytes.is_empty() {
      return Self::cstr(bytes);
    }
    let mut g = Guarded::new(bytes.len());
    let dl = g.data_len;
    g.slice()[dl - bytes.len()..].copy_from_slice(bytes);
    let ptr = unsafe { g.data.add(dl - bytes.len()) as *const c_char };
    InBytes { _heap: None, _map: Some(g), ptr }
  }
}

// ------------------------------------------------------------------------------------------------
// Forked execution
// ------------------------------------------------------------------------------------------------

pub struct ChildResult {
  pub lines: Vec<String>,
  pub exited: bool,
  pub code: i32,
  pub signal: i32,
  pub stderr_tail: String,
}

/// Runs `f` in a forked child; `f` reports lines through the given fd. The child's stderr goes to
/// `errfile`. The calling process must be single-threaded.
pub fn in_child<F: FnOnce(i32)>(errfile: &Path, f: F) -> Result<ChildResult> {
  let mut fds = [0i32; 2];
  if unsafe { libc::pipe(fds.as_mut_ptr()) } != 0 {
    bail!("pipe failed");
  }
  let errc = CString::new(errfile.to_string_lossy().to_string())?;
  let pid = unsafe { libc::fork() };
  if pid < 0 {
    bail!("fork failed");
  }
  if pid == 0 {
    unsafe {
      libc::close(fds[0]);
      let efd = libc::open(errc.as_ptr(), libc::O_WRONLY | libc::O_CREAT | libc::O_TRUNC, 0o644);
      if efd >= 0 {
        libc::dup2(efd, 2);
      }
      libc::alarm(60);
    }
    // a panic of harness code in the child must not unwind into the parent's frames
    let ok = catch_unwind(AssertUnwindSafe(|| f(fds[1]))).is_ok();
    unsafe { libc::_exit(if ok { 0 } else { 3 }) };
  }
  unsafe { libc::close(fds[1]) };
  let mut out = Vec::new();
  let mut chunk = [0u8; 65536];
  loop {
    let n = unsafe { libc::read(fds[0], chunk.as_mut_ptr() as *mut _, chunk.len()) };
    if n > 0 {
      out.extend_from_slice(&chunk[..n as usize]);
    } else if n == 0 {
      break;
    } else if std::io::Error::last_os_error().kind() != std::io::ErrorKind::Interrupted {
      break;
    }
  }
  unsafe { libc::close(fds[0]) };
  let mut status = 0i32;
  loop {
    let r = unsafe { libc::waitpid(pid, &mut status, 0) };
    if r == pid || (r < 0 && std::io::Error::last_os_error().kind() != std::io::ErrorKind::Interrupted) {
      break;
    }
  }
  let exited = libc::WIFEXITED(status);
  let code = if exited { libc::WEXITSTATUS(status) } else { -1 };
  let signal = if libc::WIFSIGNALED(status) { libc::WTERMSIG(status) } else { 0 };
  let text = String::from_utf8_lossy(&out).to_string();
  // a torn last line (child died while writing) is dropped
  let complete = text.ends_with('\n');
  let mut lines: Vec<String> = text.lines().map(|s| s.to_string()).collect();
  if !complete && !lines.is_empty() {
    lines.pop();
  }
  let stderr_tail = std::fs::read_to_string(errfile)
    .unwrap_or_default()
    .lines()
    .find(|l| l.contains("panicked at") || l.contains("panic"))
    .map(strip_thread_id)
    .unwrap_or_default()
    .chars()
    .take(200)
    .collect();
  Ok(ChildResult { lines, exited, code, signal, stderr_tail })
}

/// `thread 'main' (12345) panicked at ..` -> `thread 'main' panicked at ..` (pids vary per run).
fn strip_thread_id(l: &str) -> String {
  match (l.find(" ("), l.find(") panicked")) {
    (Some(a), Some(b)) if a < b && l[a + 2..b].chars().all(|c| c.is_ascii_digit()) => {
      format!("{}{}", &l[..a], &l[b + 1..])
    }
    _ => l.to_string(),
  }
}

fn report(fd: i32, line: &str) {
  let mut s = line.to_string();
  s.push('\n');
  let b = s.as_bytes();
  let mut off = 0;
  while off < b.len() {
    let n = unsafe { libc::write(fd, b[off..].as_ptr() as *const _, b.len() - off) };
    if n <= 0 {
      break;
    }
    off += n as usize;
  }
}

// ------------------------------------------------------------------------------------------------
// One call
// ------------------------------------------------------------------------------------------------

#[derive(Clone, Copy, Default)]
struct Nulls {
  handle: bool,
  query: bool,
  buffer: bool,
}

/// Performs the call with a placed buffer of `cap` bytes and returns the measured observation as
/// "ret nulAt wrote canaries prefix".
fn one_call(h: *mut IndexHandle, a: &CallArgs, mode: &str, cap: usize, full: &[u8], nulls: Nulls) -> String {
  let guarded = mode != "canary";
  let q = InBytes::cstr(&a.query);
  let c = a.cursor.as_ref().map(|c| InBytes::cstr(c));
  let ag = a.aggs.as_ref().map(|b| InBytes::counted(&b[..a.aggs_len.min(b.len())], guarded));
  let mut placed = Placed::new(mode, cap);
  let ret = unsafe {
    searchlite_search(
      if nulls.handle { std::ptr::null_mut() } else { h },
      if nulls.query { std::ptr::null() } else { q.ptr },
      a.limit,
      c.as_ref().map(|x| x.ptr).unwrap_or(std::ptr::null()),
      ag.as_ref().map(|x| x.ptr).unwrap_or(std::ptr::null()),
      a.aggs_len,
      if nulls.buffer { std::ptr::null_mut() } else { placed.ptr() },
      cap,
    )
  };
  let (nul_at, wrote, canaries, prefix) = placed.measure(ret.min(usize::MAX / 2), full);
  format!("{} {} {} {} {}", ret.min(2_000_000_000), nul_at, wrote as u8, canaries as u8, prefix as u8)
}

fn parse_obs(line: &str) -> Option<(usize, u64, i64, bool, bool, bool)> {
  let p: Vec<&str> = line.split(' ').collect();
  if p.len() != 6 {
    return None;
  }
  Some((
    p[0].parse().ok()?,
    p[1].parse().ok()?,
    p[2].parse().ok()?,
    p[3] == "1",
    p[4] == "1",
    p[5] == "1",
  ))
}

// ------------------------------------------------------------------------------------------------
// Index and input generation
// ------------------------------------------------------------------------------------------------

fn ffi_schema() -> Value {
  json!({
    "doc_id_field": "_id",
    "text_fields": [
      {"name": "body", "analyzer": "default", "stored": true, "indexed": true, "nullable": false}
    ],
    "keyword_fields": [
      {"name": "tag", "stored": true, "indexed": true, "fast": true, "nullable": true}
    ],
    "numeric_fields": [
      {"name": "num", "i64": true, "fast": true, "stored": true, "nullable": true}
    ],
    "nested_fields": []
  })
}

const QUERY_STRINGS: [&str; 18] = [
  "common", "w1", "w1 common", "x3", "nomatch", "", "   ", "body:w2", "tag:t1", "\"w1 common\"",
  "w1 OR", "((", "*", "a:b:c", "+w1 -w2", "w1 AND common", "caf\u{e9} \u{1F600}", "W1 Common",
];

fn gen_query(r: &mut StdRng, rich: bool) -> Vec<u8> {
  match r.gen_range(0..10) {
    0..=4 => pick(r, &QUERY_STRINGS).as_bytes().to_vec(),
    5 => {
      // node JSON
      let nodes = [
        json!({"type": "match_all"}),
        json!({"type": "term", "field": "body", "value": format!("w{}", r.gen_range(0..4))}),
        json!({"type": "prefix", "field": "body", "value": "w"}),
        json!({"type": "bool", "must": [{"type": "term", "field": "body", "value": "common"}],
               "must_not": [{"type": "term", "field": "body", "value": "w2"}]}),
        json!({"type": "phrase", "field": "body", "terms": ["w1", "common"]}),
        json!({"type": "term", "field": "nosuchfield", "value": "x"}),
        json!({"type": "nosuchtype"}),
      ];
      let mut n = pick(r, &nodes).clone();
      if rich && chance(r, 1, 3) {
        n = json!({"type": "bool", "must": [n],
                   "filter": [{"KeywordEq": {"field": "tag", "value": "t1"}}]});
      }
      n.to_string().into_bytes()
    }
    6 => vec![b'a'; r.gen_range(1..6000)],
    7 => {
      // arbitrary non-NUL bytes (invalid UTF-8 is decoded lossily by the callee)
      (0..r.gen_range(1..24)).map(|_| r.gen_range(1..=255u8)).collect()
    }
    8 => {
      let mut v = b"w1 \xff\xfe common".to_vec();
      v.extend_from_slice(pick(r, &QUERY_STRINGS).as_bytes());
      v
    }
    _ => format!("w{} x{}", r.gen_range(0..4), r.gen_range(0..14)).into_bytes(),
  }
}

fn gen_aggs(r: &mut StdRng, rich: bool) -> (Option<Vec<u8>>, usize, &'static str) {
  if !rich {
    // default schema has no fast fields: only unparsable / empty / field-less aggregations
    return match r.gen_range(0..6) {
      0 => (Some(b"not valid json".to_vec()), 14, "invalid_json"),
      1 => (Some(b"{}".to_vec()), 2, "empty_map"),
      2 => (Some(b"{}".to_vec()), 0, "len0"),
      _ => (None, 0, "null"),
    };
  }
  let valid = [
    json!({"tags": {"type": "terms", "field": "tag", "size": 5}}),
    json!({"st": {"type": "stats", "field": "num"}}),
    json!({"tags": {"type": "terms", "field": "tag"}, "n": {"type": "value_count", "field": "num"}}),
    json!({"h": {"type": "histogram", "field": "num", "interval": 4.0}}),
    json!({"c": {"type": "cardinality", "field": "tag"}}),
  ];
  match r.gen_range(0..16) {
    0..=3 | 12..=15 => {
      let b = pick(r, &valid).to_string().into_bytes();
      let l = b.len();
      (Some(b), l, "valid")
    }
    4 => (Some(b"not valid json".to_vec()), 14, "invalid_json"),
    5 => {
      let b = json!({"x": {"type": "nosuchagg"}}).to_string().into_bytes();
      let l = b.len();
      (Some(b), l, "invalid_shape")
    }
    6 => {
      let b = json!({"x": {"type": "terms", "field": "body"}}).to_string().into_bytes();
      let l = b.len();
      (Some(b), l, "not_fast_field")
    }
    7 => {
      // aggs_len shorter than the text: the callee must only look at the prefix
      let b = pick(r, &valid).to_string().into_bytes();
      let l = r.gen_range(1..b.len());
      (Some(b), l, "truncated_len")
    }
    8 => {
      let b = pick(r, &valid).to_string().into_bytes();
      (Some(b), 0, "len0")
    }
    9 => (None, r.gen_range(1..64), "null_with_len"),
    _ => (None, 0, "null"),
  }
}

// ------------------------------------------------------------------------------------------------
// Driver
// ------------------------------------------------------------------------------------------------

struct Ctx<'a> {
  h: *mut IndexHandle,
  lib: &'a Index,
  tr: &'a mut Tracer,
  errfile: std::path::PathBuf,
  case_no: usize,
  calls: usize,
  crashes: usize,
  forks: usize,
}

/// Full response through a large buffer, in a child (the callee may abort).
fn full_response(cx: &mut Ctx, a: &CallArgs) -> Result<(Vec<u8>, bool, i32, String)> {
  let h = cx.h as usize;
  let a2 = a.clone();
  cx.forks += 1;
  let res = in_child(&cx.errfile, move |fd| {
    let mut cap = BIG;
    loop {
      let mut buf = vec![FILL; cap];
      let q = InBytes::cstr(&a2.query);
      let c = a2.cursor.as_ref().map(|c| InBytes::cstr(c));
      let ag = a2.aggs.as_ref().map(|b| InBytes::cstr(&b[..a2.aggs_len.min(b.len())]));
      let ret = unsafe {
        searchlite_search(
          h as *mut IndexHandle,
          q.ptr,
          a2.limit,
          c.as_ref().map(|x| x.ptr).unwrap_or(std::ptr::null()),
          ag.as_ref().map(|x| x.ptr).unwrap_or(std::ptr::null()),
          a2.aggs_len,
          buf.as_mut_ptr() as *mut c_char,
          cap,
        )
      };
      if ret + 1 >= cap && cap < (1 << 28) {
        cap *= 8;
        continue;
      }
      let hex: String = buf[..ret.min(cap)].iter().map(|b| format!("{b:02x}")).collect();
      report(fd, &format!("full {hex}"));
      break;
    }
  })?;
  if let Some(l) = res.lines.iter().find(|l| l.starts_with("full ")) {
    let hex = &l[5..];
    let bytes: Vec<u8> = (0..hex.len() / 2)
      .map(|i| u8::from_str_radix(&hex[2 * i..2 * i + 2], 16).unwrap())
      .collect();
    return Ok((bytes, false, 0, String::new()));
  }
  Ok((Vec::new(), true, res.signal, res.stderr_tail))
}

fn escape(b: &[u8], max: usize) -> String {
  let s: String = String::from_utf8_lossy(b).chars().flat_map(|c| c.escape_default()).collect();
  s.chars().take(max).collect()
}

fn run_case(cx: &mut Ctx, a: &CallArgs, modes: &[&str], margin: usize, max_caps: usize, r: &mut StdRng) -> Result<()> {
  cx.case_no += 1;
  let case = cx.case_no;
  let req = ffi_request(&a.query, a.limit, a.cursor.as_deref(), a.aggs.as_deref(), a.aggs_len);
  let (lib_class, lib_text) = lib_outcome(cx.lib, req);
  let (full, big_crashed, big_signal, big_note) = full_response(cx, a)?;
  let must_fail = lib_class != "ok";
  let full_eq_lib = lib_class == "ok" && full == lib_text.as_bytes();
  cx.tr.emit(json!({
    "ev": "case", "case": case, "query": escape(&a.query, 120), "query_len": a.query.len(),
    "limit": a.limit.min(2_000_000_000), "cursor": a.cursor_kind, "aggs": a.aggs_kind,
    "aggs_len": a.aggs_len, "lib": lib_class,
    "lib_note": if lib_class == "ok" { String::new() } else { lib_text.chars().take(160).collect() },
    "lib_len": if lib_class == "ok" { lib_text.len() } else { 0 },
    "fullLen": full.len(), "full_eq_lib": full_eq_lib || lib_class != "ok",
    "big_crashed": big_crashed, "big_signal": big_signal, "big_note": big_note,
    "mustFail": must_fail,
  }));
  // capacities: every value 0..=len+margin (sub-sampled above max_caps, always keeping the
  // neighbourhood of 0 and of len)
  let top = full.len() + margin;
  let mut caps: Vec<usize> = (0..=top).collect();
  if caps.len() > max_caps {
    let keep_lo = 40;
    let keep_hi = full.len().saturating_sub(24);
    let mut mid: Vec<usize> = (keep_lo..keep_hi).collect();
    let want = max_caps.saturating_sub(keep_lo + (top + 1 - keep_hi));
    while mid.len() > want {
      let i = r.gen_range(0..mid.len());
      mid.swap_remove(i);
    }
    mid.sort();
    caps = (0..keep_lo).chain(mid).chain(keep_hi..=top).collect();
  }
  for mode in modes {
    let mut next = 0usize;
    while next < caps.len() {
      let h = cx.h as usize;
      let a2 = a.clone();
      let todo: Vec<usize> = caps[next..].to_vec();
      let full2 = full.clone();
      let mode2 = mode.to_string();
      cx.forks += 1;
      let res = in_child(&cx.errfile, move |fd| {
        for cap in todo {
          let line = one_call(h as *mut IndexHandle, &a2, &mode2, cap, &full2, Nulls::default());
          report(fd, &format!("{cap} {line}"));
        }
      })?;
      let mut done = 0usize;
      for line in &res.lines {
        let Some((cap, ret, nul_at, wrote, canaries, prefix)) = parse_obs(line) else {
          bail!("unparsable child line {line:?}");
        };
        if cap != caps[next + done] {
          bail!("child reported cap {cap}, expected {}", caps[next + done]);
        }
        cx.tr.emit(json!({
          "ev": "call", "case": case, "mode": mode, "cap": cap, "fullLen": full.len(),
          "bufNull": false, "nullArg": false, "mustFail": must_fail, "lib": lib_class,
          "crashed": false, "signal": 0, "ret": ret, "nulAt": nul_at, "wrote": wrote,
          "canariesIntact": canaries, "prefixOk": prefix, "note": "",
        }));
        done += 1;
        cx.calls += 1;
      }
      next += done;
      if next < caps.len() && !(res.exited && res.code == 0) {
        // the child died inside the call for caps[next]
        cx.tr.emit(json!({
          "ev": "call", "case": case, "mode": mode, "cap": caps[next], "fullLen": full.len(),
          "bufNull": false, "nullArg": false, "mustFail": must_fail, "lib": lib_class,
          "crashed": true, "signal": res.signal, "ret": 0, "nulAt": -1, "wrote": false,
          "canariesIntact": true, "prefixOk": false, "note": res.stderr_tail,
        }));
        cx.calls += 1;
        cx.crashes += 1;
        next += 1;
        if lib_class == "panic" || cx.crashes > 2000 {
          // a callee that aborts for this input aborts for every capacity: one witness per
          // mode is enough
          break;
        }
      } else if next < caps.len() {
        bail!("child exited cleanly but reported only {done} of {} calls", caps.len() - (next - done));
      }
    }
  }
  Ok(())
}

/// Null pointer in each argument position (and the auxiliary entry points' null handling).
fn run_nulls(cx: &mut Ctx, a: &CallArgs) -> Result<()> {
  let (full, _, _, _) = full_response(cx, a)?;
  let combos: [(&str, Nulls, usize); 7] = [
    ("handle", Nulls { handle: true, ..Default::default() }, 256),
    ("query", Nulls { query: true, ..Default::default() }, 256),
    ("buffer", Nulls { buffer: true, ..Default::default() }, 256),
    ("buffer_cap0", Nulls { buffer: true, ..Default::default() }, 0),
    ("handle_query", Nulls { handle: true, query: true, buffer: false }, 64),
    ("all", Nulls { handle: true, query: true, buffer: true }, 64),
    ("none", Nulls::default(), 0),
  ];
  for (name, nulls, cap) in combos {
    cx.case_no += 1;
    let case = cx.case_no;
    let h = cx.h as usize;
    let a2 = a.clone();
    let full2 = full.clone();
    cx.forks += 1;
    let res = in_child(&cx.errfile, move |fd| {
      let line = one_call(h as *mut IndexHandle, &a2, "canary", cap, &full2, nulls);
      report(fd, &format!("{cap} {line}"));
    })?;
    let obs = res.lines.first().and_then(|l| parse_obs(l));
    let crashed = obs.is_none();
    let (_, ret, nul_at, wrote, canaries, prefix) = obs.unwrap_or((cap, 0, -1, false, true, false));
    cx.tr.emit(json!({
      "ev": "call", "case": case, "mode": format!("null:{name}"), "cap": cap, "fullLen": full.len(),
      "bufNull": nulls.buffer, "nullArg": nulls.handle || nulls.query, "mustFail": nulls.handle || nulls.query,
      "lib": "na", "crashed": crashed, "signal": res.signal, "ret": ret, "nulAt": nul_at,
      "wrote": wrote, "canariesIntact": canaries, "prefixOk": prefix, "note": res.stderr_tail,
    }));
    cx.calls += 1;
    if crashed {
      cx.crashes += 1;
    }
  }
  // the other entry points: a null argument must yield a negative / null status
  let h = cx.h as usize;
  let aux: [&str; 5] = ["open_null_path", "add_null_handle", "add_null_json", "commit_null_handle", "close_null"];
  for name in aux {
    cx.forks += 1;
    let res = in_child(&cx.errfile, move |fd| {
      let doc = CString::new(r#"{"_id":"zz","body":"zz"}"#).unwrap();
      let status: i64 = unsafe {
        match name {
          "open_null_path" => {
            if searchlite_index_open(std::ptr::null(), true).is_null() { -1 } else { 1 }
          }
          "add_null_handle" => searchlite_add_json(std::ptr::null_mut(), doc.as_ptr(), 24) as i64,
          "add_null_json" => searchlite_add_json(h as *mut IndexHandle, std::ptr::null(), 0) as i64,
          "commit_null_handle" => searchlite_commit(std::ptr::null_mut()) as i64,
          _ => {
            searchlite_index_close(std::ptr::null_mut());
            0
          }
        }
      };
      report(fd, &format!("{status}"));
    })?;
    let status: Option<i64> = res.lines.first().and_then(|l| l.parse().ok());
    cx.tr.emit(json!({
      "ev": "aux", "fn": name, "crashed": status.is_none(), "signal": res.signal,
      "status": status.unwrap_or(0), "note": res.stderr_tail,
    }));
    if status.is_none() {
      cx.crashes += 1;
    }
  }
  Ok(())
}

pub fn main(args: &Args) -> Result<()> {
  let seed = args.u64("seed", 1);
  let out = args.str("out", "out/ffi.ndjson");
  let n_cases = args.usize("cases", 24);
  let margin = args.usize("margin", 16);
  let max_caps = args.usize("max-caps", 700);
  let modes_s = args.str("modes", "canary,guard_end");
  let modes: Vec<&str> = modes_s.split(',').filter(|s| !s.is_empty()).collect();
  let mut tr = Tracer::create(Path::new(&out))?;
  let scratch = Scratch::new("ffi");
  let mut total_calls = 0usize;
  let mut total_crashes = 0usize;
  let mut total_forks = 0usize;
  let mut total_cases = 0usize;

  // scenario 0: index created by the C API itself (default schema); scenario 1: index created
  // through the library with keyword/numeric fast fields so that aggregations are meaningful.
  for scn in 0..2usize {
    let mut r = rng(seed, 26_000 + scn as u64);
    let root = scratch.join(&format!("idx{scn}"));
    let rich = scn == 1;
    if rich {
      let schema = schema_from_json(ffi_schema());
      drop(IndexBuilder::create(&root, schema, frontend_options(&root, true))?);
    }
    let cpath = CString::new(root.to_string_lossy().to_string())?;
    let h = unsafe { searchlite_index_open(cpath.as_ptr(), !rich) };
    if h.is_null() {
      bail!("searchlite_index_open returned NULL for {root:?}");
    }
    let n_docs = r.gen_range(8..=14);
    // every other scenario: ids (echoed in every hit) with 2-, 3- and 4-byte characters, so that
    // truncating capacities fall inside multi-byte sequences of the response
    let uni = if scn % 2 == 1 { "\u{e9}\u{65e5}\u{1f600}" } else { "" };
    for i in 0..n_docs {
      let doc = if rich {
        json!({"_id": format!("d{i}{uni}"), "body": format!("w{} common x{i}", i % 4),
               "tag": format!("t{}{uni}", i % 3), "num": i})
      } else {
        json!({"_id": format!("d{i}{uni}"), "body": format!("w{} common x{i}", i % 4)})
      };
      let c = CString::new(doc.to_string())?;
      let st = unsafe { searchlite_add_json(h, c.as_ptr(), c.as_bytes().len()) };
      if st < 0 {
        bail!("searchlite_add_json returned {st}");
      }
    }
    if unsafe { searchlite_commit(h) } != 0 {
      bail!("searchlite_commit failed");
    }
    let lib = Index::open(frontend_options(&root, false))?;
    tr.emit(json!({"ev": "reset", "scn": scn, "docs": n_docs, "rich": rich,
                   "modes": modes, "margin": margin}));
    let mut cx = Ctx {
      h,
      lib: &lib,
      tr: &mut tr,
      errfile: scratch.join("child.stderr"),
      case_no: scn * 100_000,
      calls: 0,
      crashes: 0,
      forks: 0,
    };
    // a valid cursor for the cursor cases
    let first = lib_outcome(
      &lib,
      ffi_request(b"common", 2, None, None, 0),
    );
    let valid_cursor: Option<String> = serde_json::from_str::<Value>(&first.1)
      .ok()
      .and_then(|v| v["next_cursor"].as_str().map(|s| s.to_string()));
    let per = if rich { n_cases - n_cases / 3 } else { n_cases / 3 };
    for _ in 0..per {
      let query = gen_query(&mut r, rich);
      let limit = match r.gen_range(0..16) {
        0 => 0,
        1 => 1000,
        2 => usize::MAX,
        _ => r.gen_range(1..=4),
      };
      let (cursor, cursor_kind): (Option<Vec<u8>>, &'static str) = match r.gen_range(0..16) {
        0 => (valid_cursor.clone().map(|s| s.into_bytes()), "valid_for_other_query"),
        1 => (Some(b"zz".to_vec()), "garbage"),
        2 => (Some(Vec::new()), "empty"),
        3 => {
          // S16a witness shape: odd multi-byte chunks
          let mut v = b"a".to_vec();
          for _ in 0..20 {
            v.extend_from_slice("\u{e9}".as_bytes());
          }
          v.push(b'a');
          (Some(v), "multibyte")
        }
        4 => (Some((0..r.gen_range(1..40)).map(|_| *pick(&mut r, b"0123456789abcdef")).collect()), "hex"),
        _ => (None, "null"),
      };
      let (aggs, aggs_len, aggs_kind) = gen_aggs(&mut r, rich);
      let mut a = CallArgs { query, limit, cursor, aggs, aggs_len, cursor_kind, aggs_kind };
      if cursor_kind == "valid_for_other_query" && chance(&mut r, 2, 3) {
        a.query = b"common".to_vec();
        a.limit = 2;
        a.cursor_kind = "valid";
      }
      run_case(&mut cx, &a, &modes, margin, max_caps, &mut r)?;
      total_cases += 1;
    }
    let plain = CallArgs {
      query: b"common".to_vec(),
      limit: 3,
      cursor: None,
      aggs: None,
      aggs_len: 0,
      cursor_kind: "null",
      aggs_kind: "null",
    };
    run_nulls(&mut cx, &plain)?;
    total_calls += cx.calls;
    total_crashes += cx.crashes;
    total_forks += cx.forks;
    unsafe { searchlite_index_close(h) };
  }
  let lines = tr.finish();
  println!(
    "{}",
    json!({"cases": total_cases, "calls": total_calls, "crashes": total_crashes,
           "forks": total_forks, "events": lines, "out": out})
  );
  Ok(())
}
