//! C25 driver: one seeded history executed five ways -
//!   lib     Rust API (reference of cli and http)
//!   libffi  Rust API performing the call sequence the C API denotes (reference of ffi)
//!   cli     the searchlite-cli binary, one process per command (cross-process WAL hand-off)
//!   http    the searchlite-http service in-process, raw TcpStream client
//!   ffi     the extern "C" functions of searchlite-ffi
//! and recorded as one `step` event per operation holding every execution's observation:
//! ok/err, contents (ids + version field) seen through the front end's own search after
//! init/commit/compact, and for searches the projected result (ids in order, score_e4, stored
//! values of the sort fields, next_cursor presence, total_hits_estimate, canonical aggregations).
//! What the invocations denote is specified in spec/Frontends.tla; the oracle is
//! spec/Trace_Frontends.tla. This file only drives and records.

use std::collections::BTreeMap;
use std::ffi::CString;
use std::io::{Read, Write};
use std::net::TcpStream;
use std::os::raw::c_char;
use std::path::{Path, PathBuf};
use std::process::Command;

use anyhow::{anyhow, bail, Context, Result};
use clap::Parser;
use rand::rngs::StdRng;
use rand::Rng;
use serde_json::{json, Value};

use searchlite_core::api::builder::IndexBuilder;
use searchlite_core::api::types::SearchRequest;
use searchlite_core::api::Index;
use searchlite_ffi::{
  searchlite_add_json, searchlite_commit, searchlite_index_close, searchlite_index_open,
  searchlite_search, IndexHandle,
};

use crate::ffi::{ffi_request, frontend_options};
use crate::util::*;

const IDS: [&str; 8] = ["a", "b", "c", "d", "e", "f", "g", "h"];
pub const FES: [&str; 5] = ["lib", "libffi", "cli", "http", "ffi"];

// ------------------------------------------------------------------------------------------------
// History
// ------------------------------------------------------------------------------------------------

#[derive(Clone, Debug)]
pub struct Doc {
  pub id: String,
  pub ver: u64,
  pub valid: bool,
  pub json: Value,
}

#[derive(Clone, Debug)]
pub struct SearchOp {
  /// Full SearchRequest JSON without cursor.
  pub req: Value,
  /// Step whose next_cursor (of the same execution) is passed as cursor.
  pub cursor_from: Option<usize>,
  /// "flags" | "file"
  pub cli_form: &'static str,
  /// text given to --execution in flags form
  pub exec_flag: String,
}

#[derive(Clone, Debug)]
pub enum Op {
  Init,
  Add(Vec<Doc>),
  Update(Vec<Doc>),
  Delete(Vec<String>),
  Commit,
  Compact,
  /// the process holding the index goes away and a new one opens the same directory (server
  /// restart, handle close + open); abstract state unchanged
  Restart,
  Search(SearchOp),
}

impl Op {
  fn kind(&self) -> &'static str {
    match self {
      Op::Init => "init",
      Op::Add(_) => "add",
      Op::Update(_) => "update",
      Op::Delete(_) => "delete",
      Op::Commit => "commit",
      Op::Compact => "compact",
      Op::Restart => "restart",
      Op::Search(_) => "search",
    }
  }
}

pub fn schema_json() -> Value {
  json!({
    "doc_id_field": "_id",
    "text_fields": [
      {"name": "body", "analyzer": "default", "stored": true, "indexed": true, "nullable": false}
    ],
    "keyword_fields": [
      {"name": "tag", "stored": true, "indexed": true, "fast": true, "nullable": true}
    ],
    "numeric_fields": [
      {"name": "ver", "i64": true, "fast": true, "stored": true, "nullable": false},
      {"name": "num", "i64": true, "fast": true, "stored": true, "nullable": true}
    ],
    "nested_fields": [],
    "vector_fields": []
  })
}

fn make_doc(r: &mut StdRng, id: &str, ver: u64) -> Doc {
  let mut d = serde_json::Map::new();
  d.insert("_id".into(), json!(id));
  let mut words = vec![format!("w{}", ver % 4), "common".to_string(), id.to_string()];
  for _ in 0..r.gen_range(0..3) {
    words.push(format!("w{}", r.gen_range(0..4)));
  }
  d.insert("body".into(), json!(words.join(" ")));
  d.insert("ver".into(), json!(ver));
  if chance(r, 4, 5) {
    d.insert("tag".into(), json!(format!("t{}", r.gen_range(0..3))));
  }
  if chance(r, 3, 4) {
    d.insert("num".into(), json!(r.gen_range(0..4)));
  }
  Doc { id: id.to_string(), ver, valid: true, json: Value::Object(d) }
}

fn make_invalid_doc(r: &mut StdRng, id: &str, ver: u64) -> Doc {
  let json = match r.gen_range(0..3) {
    0 => json!({"body": "no id here", "ver": ver}),
    1 => json!({"_id": id, "body": "bad number", "ver": "not-a-number"}),
    _ => json!({"_id": id, "body": "bad tag", "ver": ver, "tag": 17}),
  };
  Doc { id: id.to_string(), ver, valid: false, json }
}

fn gen_request(r: &mut StdRng) -> Value {
  let mut q = serde_json::Map::new();
  let query: Value = match r.gen_range(0..10) {
    0..=5 => {
      let s = [
        "common", "w1", "w2 common", "w0 w3", "a", "w1 b", "body:w2", "nomatch", "common w1 w2",
        "W3 Common",
      ];
      json!(*pick(r, &s))
    }
    6 => json!({"type": "match_all"}),
    7 => json!({"type": "term", "field": "body", "value": format!("w{}", r.gen_range(0..4))}),
    8 => json!({"type": "bool",
                "must": [{"type": "term", "field": "body", "value": "common"}],
                "must_not": [{"type": "term", "field": "body", "value": format!("w{}", r.gen_range(0..4))}]}),
    _ => json!({"type": "query_string", "query": format!("w{} common", r.gen_range(0..4))}),
  };
  q.insert("query".into(), query);
  if chance(r, 3, 10) {
    let f = match r.gen_range(0..4) {
      0 => json!({"KeywordEq": {"field": "tag", "value": format!("t{}", r.gen_range(0..3))}}),
      1 => json!({"I64Range": {"field": "ver", "min": r.gen_range(0..10), "max": r.gen_range(10..60)}}),
      2 => json!({"KeywordIn": {"field": "tag", "values": ["t0", "t2"]}}),
      _ => json!({"And": [{"I64Range": {"field": "num", "min": 1, "max": 3}},
                          {"Not": {"KeywordEq": {"field": "tag", "value": "t1"}}}]}),
    };
    q.insert("filter".into(), f);
  }
  q.insert(
    "limit".into(),
    json!(match r.gen_range(0..12) {
      0 => 0,
      1 => 100,
      _ => r.gen_range(1..=4),
    }),
  );
  if chance(r, 35, 100) {
    let s = match r.gen_range(0..5) {
      0 => json!([{"field": "ver", "order": "desc"}]),
      1 => json!([{"field": "num"}]),
      2 => json!([{"field": "tag", "order": "asc"}, {"field": "ver", "order": "desc"}]),
      3 => json!([{"field": "_score"}, {"field": "ver"}]),
      _ => json!([{"field": "num", "order": "desc"}, {"field": "tag"}]),
    };
    q.insert("sort".into(), s);
  }
  let exec = match r.gen_range(0..10) {
    0..=5 => "wand",
    6..=7 => "bm25",
    _ => "bmw",
  };
  q.insert("execution".into(), json!(exec));
  q.insert("return_stored".into(), json!(chance(r, 9, 10)));
  if chance(r, 3, 10) {
    let a = match r.gen_range(0..4) {
      0 => json!({"tags": {"type": "terms", "field": "tag", "size": 5}}),
      1 => json!({"st": {"type": "stats", "field": "ver"}}),
      2 => json!({"h": {"type": "histogram", "field": "num", "interval": 2.0},
                  "n": {"type": "value_count", "field": "num"}}),
      _ => json!({"c": {"type": "cardinality", "field": "tag"}}),
    };
    q.insert("aggs".into(), a);
  }
  Value::Object(q)
}

fn is_string_query(req: &Value) -> bool {
  req["query"].is_string()
}

fn cli_flag_expressible(req: &Value) -> bool {
  is_string_query(req) && req.get("filter").is_none() && req["limit"].as_u64().unwrap_or(0) > 0
}

fn ffi_expressible(req: &Value) -> bool {
  req["execution"] == "wand"
    && req.get("sort").map(|s| s.as_array().map(|a| a.is_empty()).unwrap_or(true)).unwrap_or(true)
    && req["return_stored"] == true
    && req.get("filter").is_none()
}

pub fn gen_history(r: &mut StdRng, scn: usize) -> Vec<Op> {
  let n = r.gen_range(10..=40);
  let n_ids = r.gen_range(3..=IDS.len());
  // every third history also uses an id with a leading blank (add accepts it untrimmed)
  let mut pool: Vec<&str> = IDS[..n_ids].to_vec();
  if scn % 3 == 2 {
    pool.push(" g");
    pool.push("g");
  }
  let ids = &pool[..];
  let with_invalid = scn % 2 == 1;
  let mut ops = vec![Op::Init];
  let mut ver = 0u64;
  let mut searches: Vec<usize> = Vec::new();
  while ops.len() < n {
    let roll = r.gen_range(0..100);
    let op = match roll {
      0..=27 | 28..=37 => {
        if with_invalid && chance(r, 1, 8) {
          ver += 1;
          let id = *pick(r, ids);
          let d = make_invalid_doc(r, id, ver);
          if roll <= 27 { Op::Add(vec![d]) } else { Op::Update(vec![d]) }
        } else {
          let k = r.gen_range(1..=3);
          let mut docs = Vec::new();
          for _ in 0..k {
            ver += 1;
            let id = *pick(r, ids);
            docs.push(make_doc(r, id, ver));
          }
          if roll <= 27 { Op::Add(docs) } else { Op::Update(docs) }
        }
      }
      38..=48 => {
        let k = if chance(r, 1, 4) { 2 } else { 1 };
        let padded = scn % 3 == 2 && chance(r, 1, 3);
        Op::Delete((0..k).map(|_| if padded { " g".to_string() } else { pick(r, ids).to_string() }).collect())
      }
      49..=66 => {
        // every third commit is issued by a fresh process: what was queued before must still be
        // committed by it
        if chance(r, 1, 3) {
          ops.push(Op::Restart);
        }
        Op::Commit
      }
      67..=70 => Op::Compact,
      71..=74 => Op::Restart,
      _ => {
        // a search; sometimes the next page of an earlier search of this history
        let page = !searches.is_empty() && chance(r, 3, 10);
        if page {
          let k = *pick(r, &searches);
          let Op::Search(prev) = &ops[k] else { unreachable!() };
          let mut s = prev.clone();
          s.cursor_from = Some(k);
          Op::Search(s)
        } else {
          let mut req = gen_request(r);
          // make a good share of the requests expressible by the narrow front ends
          if chance(r, 1, 3) {
            let o = req.as_object_mut().unwrap();
            o.remove("filter");
            o.remove("sort");
            o.insert("execution".into(), json!("wand"));
            o.insert("return_stored".into(), json!(true));
          }
          let cli_form = if cli_flag_expressible(&req) && chance(r, 3, 4) { "flags" } else { "file" };
          let exec_flag = match req["execution"].as_str().unwrap_or("wand") {
            "wand" => pick(r, &["wand", "auto", "wand"]).to_string(),
            other => other.to_string(),
          };
          Op::Search(SearchOp { req, cursor_from: None, cli_form, exec_flag })
        }
      }
    };
    if matches!(op, Op::Search(_)) {
      searches.push(ops.len());
    }
    ops.push(op);
  }
  // close the history: everything committed, a compaction in half of the histories, two searches
  ops.push(Op::Commit);
  if chance(r, 1, 2) {
    ops.push(Op::Compact);
  }
  for q in ["common", "w1 common"] {
    let req = json!({"query": q, "limit": 3, "execution": "wand", "return_stored": true});
    ops.push(Op::Search(SearchOp { req, cursor_from: None, cli_form: "flags", exec_flag: "wand".into() }));
  }
  let k = ops.len() - 1;
  let Op::Search(last) = ops[k].clone() else { unreachable!() };
  ops.push(Op::Search(SearchOp { cursor_from: Some(k), ..last }));
  ops
}

/// A TLC-generated history (MC_Frontends.tla PrintCase: add/update/delete/commit/compact with ids,
/// versions and validity chosen by TLC) as driver operations; a search follows every commit.
pub fn history_from_case(case: &Value, r: &mut StdRng) -> Vec<Op> {
  let std_search = |q: &str, form: &'static str| {
    let req = json!({"query": q, "limit": 3, "execution": "wand", "return_stored": true});
    Op::Search(SearchOp { req, cursor_from: None, cli_form: form, exec_flag: "wand".into() })
  };
  let mut ops = vec![Op::Init];
  for o in case["ops"].as_array().cloned().unwrap_or_default() {
    let docs: Vec<Doc> = o["docs"]
      .as_array()
      .cloned()
      .unwrap_or_default()
      .iter()
      .map(|d| {
        let (id, ver) = (d["id"].as_str().unwrap_or("a"), d["ver"].as_u64().unwrap_or(0));
        if d["valid"] == true { make_doc(r, id, ver) } else { make_invalid_doc(r, id, ver) }
      })
      .collect();
    let ids: Vec<String> = o["ids"].as_array().cloned().unwrap_or_default().iter().filter_map(|x| x["id"].as_str().map(|s| s.to_string())).collect();
    match o["kind"].as_str().unwrap_or("") {
      "add" => ops.push(Op::Add(docs)),
      "update" => ops.push(Op::Update(docs)),
      "delete" => ops.push(Op::Delete(ids)),
      "compact" => ops.push(Op::Compact),
      "restart" => ops.push(Op::Restart),
      "commit" => {
        ops.push(Op::Commit);
        ops.push(std_search("common", "flags"));
      }
      other => panic!("unknown case op {other}"),
    }
  }
  ops.push(Op::Commit);
  ops.push(std_search("w1 common", "file"));
  let k = ops.len() - 1;
  let Op::Search(last) = ops[k].clone() else { unreachable!() };
  ops.push(Op::Search(SearchOp { cursor_from: Some(k), ..last }));
  ops
}

// ------------------------------------------------------------------------------------------------
// Observations
// ------------------------------------------------------------------------------------------------

#[derive(Clone, Debug, Default)]
pub struct Proj {
  pub ids: Vec<String>,
  pub scores: Vec<i64>,
  pub sortvals: Vec<String>,
  pub has_cursor: bool,
  pub total: u64,
  pub aggs: String,
}

#[derive(Clone, Debug, Default)]
pub struct Obs {
  pub ran: bool,
  pub ok: bool,
  pub has_contents: bool,
  pub contents: Vec<(String, u64)>,
  pub res: Proj,
  pub note: String,
  pub cursor: Option<String>,
}

impl Obs {
  fn na() -> Self {
    Obs::default()
  }
  fn status(ok: bool, note: String) -> Self {
    Obs { ran: true, ok, note, ..Default::default() }
  }
  fn json(&self) -> Value {
    json!({
      "ran": self.ran, "ok": self.ok, "has_contents": self.has_contents,
      "contents": self.contents.iter().map(|(i, v)| json!({"id": i, "ver": v})).collect::<Vec<_>>(),
      "res": {"ok": self.ok, "ids": self.res.ids, "scores": self.res.scores, "sortvals": self.res.sortvals,
              "has_cursor": self.res.has_cursor, "total": self.res.total.min(2_000_000_000),
              "aggs": self.res.aggs},
      "note": self.note,
    })
  }
}

fn sort_fields(req: &Value) -> Vec<String> {
  req
    .get("sort")
    .and_then(|s| s.as_array())
    .map(|a| a.iter().filter_map(|c| c["field"].as_str()).filter(|f| *f != "_score").map(|s| s.to_string()).collect())
    .unwrap_or_default()
}

/// Projection of a SearchResult JSON (as produced by any front end).
pub fn project(result: &Value, req: &Value) -> (Proj, Option<String>) {
  let sf = sort_fields(req);
  let mut p = Proj::default();
  for h in result["hits"].as_array().cloned().unwrap_or_default() {
    p.ids.push(h["doc_id"].as_str().unwrap_or("?").to_string());
    p.scores.push((h["score"].as_f64().unwrap_or(-1.0) * 10_000.0).round() as i64);
    let vals: Vec<String> = sf
      .iter()
      .map(|f| h["fields"].get(f).map(|v| v.to_string()).unwrap_or_default())
      .collect();
    p.sortvals.push(vals.join("|"));
  }
  let cursor = result["next_cursor"].as_str().map(|s| s.to_string());
  p.has_cursor = cursor.is_some();
  p.total = result["total_hits_estimate"].as_u64().unwrap_or(0);
  p.aggs = result.get("aggregations").map(|a| a.to_string()).unwrap_or_default();
  (p, cursor)
}

fn contents_of(result: &Value) -> Vec<(String, u64)> {
  let mut out: Vec<(String, u64)> = result["hits"]
    .as_array()
    .cloned()
    .unwrap_or_default()
    .iter()
    .map(|h| (h["doc_id"].as_str().unwrap_or("?").to_string(), h["fields"]["ver"].as_u64().unwrap_or(0)))
    .collect();
  out.sort();
  out
}

fn contents_request() -> Value {
  json!({"query": {"type": "match_all"}, "limit": 1000, "return_stored": true, "execution": "bm25"})
}

fn with_cursor(req: &Value, cursor: &Option<String>) -> Value {
  let mut v = req.clone();
  if let Some(c) = cursor {
    v.as_object_mut().unwrap().insert("cursor".into(), json!(c));
  }
  v
}

fn clean(msg: &str, dir: &Path) -> String {
  msg.replace(&dir.to_string_lossy().to_string(), "<dir>").chars().take(160).collect()
}

fn wants_contents(op: &Op) -> bool {
  matches!(op, Op::Init | Op::Commit | Op::Compact)
}

/// Per execution: the cursor each search step returned (for `cursor_from`).
type Cursors = BTreeMap<usize, Option<String>>;

fn cursor_for(s: &SearchOp, cursors: &Cursors) -> Option<String> {
  s.cursor_from.and_then(|k| cursors.get(&k).cloned().flatten())
}

// ------------------------------------------------------------------------------------------------
// lib / libffi
// ------------------------------------------------------------------------------------------------

fn lib_search(idx: &Index, req: Result<SearchRequest, String>) -> Result<Value, String> {
  let req = req?;
  let reader = idx.reader().map_err(|e| format!("{e:#}"))?;
  let res = reader.search(&req).map_err(|e| format!("{e:#}"))?;
  serde_json::to_value(&res).map_err(|e| e.to_string())
}

fn lib_contents(idx: &Index) -> Result<Vec<(String, u64)>, String> {
  let req = serde_json::from_value::<SearchRequest>(contents_request()).map_err(|e| e.to_string());
  lib_search(idx, req).map(|v| contents_of(&v))
}

fn run_lib(ops: &[Op], dir: &Path, per_doc_commit: bool) -> Result<Vec<Obs>> {
  let root = dir.join("idx");
  let mut out = Vec::new();
  let mut idx: Option<Index> = None;
  let mut cursors = Cursors::new();
  for (step, op) in ops.iter().enumerate() {
    let mut o = match op {
      Op::Init => {
        let schema = schema_from_json(schema_json());
        match IndexBuilder::create(&root, schema, frontend_options(&root, true)) {
          Ok(i) => {
            idx = Some(i);
            Obs::status(true, String::new())
          }
          Err(e) => Obs::status(false, clean(&format!("{e:#}"), dir)),
        }
      }
      Op::Add(docs) | Op::Update(docs) => {
        let i = idx.as_ref().ok_or_else(|| anyhow!("no index"))?;
        let mut res: Result<(), String> = Ok(());
        if per_doc_commit {
          for d in docs {
            let mut w = i.writer()?;
            if let Err(e) = w.add_document(&doc_from_json(d.json.clone())) {
              res = Err(format!("{e:#}"));
              break;
            }
            if let Err(e) = w.commit() {
              res = Err(format!("commit: {e:#}"));
              break;
            }
          }
        } else {
          let mut w = i.writer()?;
          for d in docs {
            if let Err(e) = w.add_document(&doc_from_json(d.json.clone())) {
              res = Err(format!("{e:#}"));
              break;
            }
          }
        }
        Obs::status(res.is_ok(), res.err().map(|e| clean(&e, dir)).unwrap_or_default())
      }
      Op::Delete(ids) => {
        let i = idx.as_ref().ok_or_else(|| anyhow!("no index"))?;
        let mut w = i.writer()?;
        let res = w.delete_documents(ids);
        Obs::status(res.is_ok(), res.err().map(|e| clean(&format!("{e:#}"), dir)).unwrap_or_default())
      }
      Op::Commit => {
        let i = idx.as_ref().ok_or_else(|| anyhow!("no index"))?;
        let mut w = i.writer()?;
        let res = w.commit();
        Obs::status(res.is_ok(), res.err().map(|e| clean(&format!("{e:#}"), dir)).unwrap_or_default())
      }
      Op::Compact => {
        let i = idx.as_ref().ok_or_else(|| anyhow!("no index"))?;
        let res = i.compact();
        Obs::status(res.is_ok(), res.err().map(|e| clean(&format!("{e:#}"), dir)).unwrap_or_default())
      }
      Op::Restart => {
        if idx.is_some() {
          drop(idx.take());
          idx = Some(Index::open(frontend_options(&root, false))?);
        }
        Obs::status(true, String::new())
      }
      Op::Search(s) => {
        let i = idx.as_ref().ok_or_else(|| anyhow!("no index"))?;
        let cursor = cursor_for(s, &cursors);
        let req: Option<Result<SearchRequest, String>> = if per_doc_commit {
          if ffi_expressible(&s.req) {
            let a = ffi_args(&s.req, &cursor);
            Some(
              ffi_request(a.query.as_bytes(), a.limit, a.cursor.as_deref().map(|c| c.as_bytes()),
                          a.aggs.as_deref().map(|c| c.as_bytes()), a.aggs.as_ref().map(|c| c.len()).unwrap_or(0))
                .ok_or_else(|| "aggregations do not parse".to_string()),
            )
          } else {
            None
          }
        } else {
          Some(serde_json::from_value::<SearchRequest>(with_cursor(&s.req, &cursor)).map_err(|e| e.to_string()))
        };
        match req {
          None => Obs::na(),
          Some(req) => match lib_search(i, req) {
            Ok(v) => {
              let (p, c) = project(&v, &s.req);
              cursors.insert(step, c.clone());
              Obs { ran: true, ok: true, res: p, cursor: c, ..Default::default() }
            }
            Err(e) => {
              cursors.insert(step, None);
              Obs::status(false, clean(&e, dir))
            }
          },
        }
      }
    };
    if wants_contents(op) && o.ok {
      if let Some(i) = idx.as_ref() {
        match lib_contents(i) {
          Ok(c) => {
            o.has_contents = true;
            o.contents = c;
          }
          Err(e) => o.note = clean(&format!("contents: {e}"), dir),
        }
      }
    }
    out.push(o);
  }
  Ok(out)
}

// ------------------------------------------------------------------------------------------------
// ffi
// ------------------------------------------------------------------------------------------------

pub struct FfiArgs {
  pub query: String,
  pub query_is_node: bool,
  pub limit: usize,
  pub cursor: Option<String>,
  pub aggs: Option<String>,
}

/// The C arguments that carry `req` (only meaningful when `ffi_expressible(req)`).
pub fn ffi_args(req: &Value, cursor: &Option<String>) -> FfiArgs {
  let (query, query_is_node) = match &req["query"] {
    Value::String(s) => (s.clone(), false),
    other => (other.to_string(), true),
  };
  let aggs = req.get("aggs").filter(|a| a.as_object().map(|o| !o.is_empty()).unwrap_or(false)).map(|a| a.to_string());
  FfiArgs {
    query,
    query_is_node,
    limit: req["limit"].as_u64().unwrap_or(0) as usize,
    cursor: cursor.clone(),
    aggs,
  }
}

struct Handle(*mut IndexHandle);

impl Handle {
  fn open(root: &Path) -> Result<Self> {
    let c = CString::new(root.to_string_lossy().to_string())?;
    let h = unsafe { searchlite_index_open(c.as_ptr(), false) };
    if h.is_null() {
      bail!("searchlite_index_open returned NULL");
    }
    Ok(Handle(h))
  }
  fn search(&self, a: &FfiArgs) -> Result<Value, String> {
    let q = CString::new(a.query.clone()).map_err(|e| e.to_string())?;
    let c = a.cursor.as_ref().map(|c| CString::new(c.clone()).unwrap());
    let ag = a.aggs.as_ref().map(|c| CString::new(c.clone()).unwrap());
    let mut cap = 1usize << 20;
    loop {
      let mut buf = vec![0u8; cap];
      let n = unsafe {
        searchlite_search(
          self.0,
          q.as_ptr(),
          a.limit,
          c.as_ref().map(|x| x.as_ptr()).unwrap_or(std::ptr::null()),
          ag.as_ref().map(|x| x.as_ptr()).unwrap_or(std::ptr::null()),
          a.aggs.as_ref().map(|x| x.len()).unwrap_or(0),
          buf.as_mut_ptr() as *mut c_char,
          cap,
        )
      };
      if n + 1 >= cap && cap < (1 << 28) {
        cap *= 8;
        continue;
      }
      if n == 0 {
        return Err("searchlite_search returned 0".into());
      }
      return serde_json::from_slice::<Value>(&buf[..n]).map_err(|e| format!("response is not JSON: {e}"));
    }
  }
}

impl Drop for Handle {
  fn drop(&mut self) {
    unsafe { searchlite_index_close(self.0) };
  }
}

fn run_ffi(ops: &[Op], dir: &Path) -> Result<Vec<Obs>> {
  let root = dir.join("idx");
  let mut out = Vec::new();
  let mut h: Option<Handle> = None;
  let mut cursors = Cursors::new();
  for (step, op) in ops.iter().enumerate() {
    let mut o = match op {
      Op::Init => {
        // no C entry point creates an index with a schema: through the library (Frontends.tla)
        let schema = schema_from_json(schema_json());
        match IndexBuilder::create(&root, schema, frontend_options(&root, true)) {
          Ok(i) => {
            drop(i);
            h = Some(Handle::open(&root)?);
            Obs::status(true, String::new())
          }
          Err(e) => Obs::status(false, clean(&format!("{e:#}"), dir)),
        }
      }
      Op::Add(docs) | Op::Update(docs) => {
        let hh = h.as_ref().ok_or_else(|| anyhow!("no handle"))?;
        let mut st = 0;
        for d in docs {
          let c = CString::new(d.json.to_string())?;
          st = unsafe { searchlite_add_json(hh.0, c.as_ptr(), c.as_bytes().len()) };
          if st < 0 {
            break;
          }
        }
        Obs::status(st >= 0, if st < 0 { format!("searchlite_add_json returned {st}") } else { String::new() })
      }
      Op::Restart => {
        if h.is_some() {
          drop(h.take());
          h = Some(Handle::open(&root)?);
        }
        Obs::status(true, String::new())
      }
      Op::Delete(_) | Op::Compact => {
        // not expressible through the C API: library call on the same directory between a
        // close and a reopen of the handle
        drop(h.take());
        let res: Result<(), String> = (|| {
          let i = Index::open(frontend_options(&root, false)).map_err(|e| format!("{e:#}"))?;
          match op {
            Op::Delete(ids) => {
              let mut w = i.writer().map_err(|e| format!("{e:#}"))?;
              w.delete_documents(ids).map_err(|e| format!("{e:#}"))
            }
            _ => i.compact().map_err(|e| format!("{e:#}")),
          }
        })();
        h = Some(Handle::open(&root)?);
        Obs::status(res.is_ok(), res.err().map(|e| clean(&e, dir)).unwrap_or_default())
      }
      Op::Commit => {
        let hh = h.as_ref().ok_or_else(|| anyhow!("no handle"))?;
        let st = unsafe { searchlite_commit(hh.0) };
        Obs::status(st == 0, if st != 0 { format!("searchlite_commit returned {st}") } else { String::new() })
      }
      Op::Search(s) => {
        let hh = h.as_ref().ok_or_else(|| anyhow!("no handle"))?;
        if !ffi_expressible(&s.req) {
          Obs::na()
        } else {
          let cursor = cursor_for(s, &cursors);
          match hh.search(&ffi_args(&s.req, &cursor)) {
            Ok(v) => {
              let (p, c) = project(&v, &s.req);
              cursors.insert(step, c.clone());
              Obs { ran: true, ok: true, res: p, cursor: c, ..Default::default() }
            }
            Err(e) => {
              cursors.insert(step, None);
              Obs::status(false, e)
            }
          }
        }
      }
    };
    if wants_contents(op) && o.ok {
      if let Some(hh) = h.as_ref() {
        match hh.search(&ffi_args(&contents_request(), &None)) {
          Ok(v) => {
            o.has_contents = true;
            o.contents = contents_of(&v);
          }
          Err(e) => o.note = format!("contents: {e}"),
        }
      }
    }
    out.push(o);
  }
  Ok(out)
}

// ------------------------------------------------------------------------------------------------
// cli
// ------------------------------------------------------------------------------------------------

/// The flags that carry `req` (only meaningful when `cli_flag_expressible(req)`).
pub fn cli_flags(s: &SearchOp, cursor: &Option<String>) -> (Vec<String>, Value) {
  let req = &s.req;
  let mut args = vec![format!("--query={}", req["query"].as_str().unwrap_or(""))];
  let limit = req["limit"].as_u64().unwrap_or(10);
  args.push(format!("--limit={limit}"));
  args.push(format!("--execution={}", s.exec_flag));
  let mut sort_log = Vec::new();
  if let Some(sort) = req.get("sort").and_then(|x| x.as_array()) {
    let clauses: Vec<String> = sort
      .iter()
      .map(|c| {
        let f = c["field"].as_str().unwrap_or("");
        let o = c.get("order").and_then(|o| o.as_str()).unwrap_or("");
        sort_log.push(json!({"field": f, "order": o}));
        if o.is_empty() { f.to_string() } else { format!("{f}:{o}") }
      })
      .collect();
    if !clauses.is_empty() {
      args.push(format!("--sort={}", clauses.join(",")));
    }
  }
  if let Some(c) = cursor {
    args.push(format!("--cursor={c}"));
  }
  let aggs = req.get("aggs").filter(|a| a.as_object().map(|o| !o.is_empty()).unwrap_or(false)).map(|a| a.to_string());
  if let Some(a) = &aggs {
    args.push(format!("--aggs={a}"));
  }
  let rs = req["return_stored"] == true;
  if rs {
    args.push("--return-stored".into());
  }
  let log = json!({
    "q": req["query"].as_str().unwrap_or(""), "limit": limit, "execution": s.exec_flag,
    "sort": sort_log, "has_cursor": cursor.is_some(), "return_stored": rs,
    "aggs": aggs.unwrap_or_default(),
  });
  (args, log)
}

struct Cli<'a> {
  bin: &'a Path,
  dir: &'a Path,
  index: PathBuf,
}

impl<'a> Cli<'a> {
  fn run(&self, args: &[String]) -> Result<(bool, String, String)> {
    let out = Command::new(self.bin)
      .args(args)
      .env_remove("RUST_LOG")
      .env_remove("RUST_BACKTRACE")
      .current_dir(self.dir)
      .output()
      .with_context(|| format!("running {:?}", self.bin))?;
    Ok((
      out.status.success(),
      String::from_utf8_lossy(&out.stdout).to_string(),
      String::from_utf8_lossy(&out.stderr).to_string(),
    ))
  }
  fn search_file(&self, step: usize, req: &Value) -> Result<Result<Value, String>> {
    let p = self.dir.join(format!("request-{step}.json"));
    std::fs::write(&p, serde_json::to_string_pretty(req)?)?;
    let idx = self.index.to_string_lossy().to_string();
    let (ok, so, se) = self.run(&["search".into(), idx, format!("--request={}", p.to_string_lossy())])?;
    Ok(Self::parse(ok, &so, &se))
  }
  fn parse(ok: bool, so: &str, se: &str) -> Result<Value, String> {
    if !ok {
      return Err(se.lines().next().unwrap_or("exit status != 0").to_string());
    }
    serde_json::from_str::<Value>(so).map_err(|e| format!("stdout is not JSON: {e}"))
  }
}

fn run_cli(ops: &[Op], dir: &Path, bin: &Path) -> Result<Vec<Obs>> {
  let cli = Cli { bin, dir, index: dir.join("idx") };
  let idx = cli.index.to_string_lossy().to_string();
  let mut out = Vec::new();
  let mut cursors = Cursors::new();
  for (step, op) in ops.iter().enumerate() {
    let mut o = match op {
      Op::Init => {
        let sp = dir.join("schema.json");
        std::fs::write(&sp, serde_json::to_string_pretty(&schema_json())?)?;
        let (ok, _, se) = cli.run(&["init".into(), idx.clone(), sp.to_string_lossy().to_string()])?;
        Obs::status(ok, if ok { String::new() } else { clean(&se, dir) })
      }
      Op::Add(docs) | Op::Update(docs) => {
        let dp = dir.join(format!("docs-{step}.jsonl"));
        let mut text = String::new();
        for d in docs {
          text.push_str(&d.json.to_string());
          text.push('\n');
        }
        std::fs::write(&dp, text)?;
        let cmd = if matches!(op, Op::Add(_)) { "add" } else { "update" };
        let (ok, _, se) = cli.run(&[cmd.into(), idx.clone(), dp.to_string_lossy().to_string()])?;
        Obs::status(ok, if ok { String::new() } else { clean(&se, dir) })
      }
      Op::Delete(ids) => {
        let ip = dir.join(format!("ids-{step}.txt"));
        std::fs::write(&ip, ids.join("\n") + "\n")?;
        let (ok, _, se) = cli.run(&["delete".into(), idx.clone(), ip.to_string_lossy().to_string()])?;
        Obs::status(ok, if ok { String::new() } else { clean(&se, dir) })
      }
      Op::Commit => {
        let (ok, _, se) = cli.run(&["commit".into(), idx.clone()])?;
        Obs::status(ok, if ok { String::new() } else { clean(&se, dir) })
      }
      Op::Compact => {
        let (ok, _, se) = cli.run(&["compact".into(), idx.clone()])?;
        Obs::status(ok, if ok { String::new() } else { clean(&se, dir) })
      }
      // every CLI command is its own process already
      Op::Restart => Obs::status(true, String::new()),
      Op::Search(s) => {
        let cursor = cursor_for(s, &cursors);
        let res = if s.cli_form == "flags" {
          let (mut args, _) = cli_flags(s, &cursor);
          let mut full = vec!["search".to_string(), idx.clone()];
          full.append(&mut args);
          let (ok, so, se) = cli.run(&full)?;
          Cli::parse(ok, &so, &se)
        } else {
          cli.search_file(step, &with_cursor(&s.req, &cursor))?
        };
        match res {
          Ok(v) => {
            let (p, c) = project(&v, &s.req);
            cursors.insert(step, c.clone());
            Obs { ran: true, ok: true, res: p, cursor: c, ..Default::default() }
          }
          Err(e) => {
            cursors.insert(step, None);
            Obs::status(false, clean(&e, dir))
          }
        }
      }
    };
    if wants_contents(op) && o.ok {
      match cli.search_file(10_000 + step, &contents_request())? {
        Ok(v) => {
          o.has_contents = true;
          o.contents = contents_of(&v);
        }
        Err(e) => o.note = clean(&format!("contents: {e}"), dir),
      }
    }
    out.push(o);
  }
  Ok(out)
}

// ------------------------------------------------------------------------------------------------
// http
// ------------------------------------------------------------------------------------------------

fn http_call(port: u16, method: &str, path: &str, ctype: &str, body: &[u8]) -> Result<(u16, Vec<u8>)> {
  let mut s = TcpStream::connect(("127.0.0.1", port))?;
  s.set_read_timeout(Some(std::time::Duration::from_secs(120)))?;
  let head = format!(
    "{method} {path} HTTP/1.1\r\nHost: localhost\r\nConnection: close\r\nContent-Type: {ctype}\r\nContent-Length: {}\r\n\r\n",
    body.len()
  );
  s.write_all(head.as_bytes())?;
  s.write_all(body)?;
  let mut raw = Vec::new();
  s.read_to_end(&mut raw)?;
  let split = raw
    .windows(4)
    .position(|w| w == b"\r\n\r\n")
    .ok_or_else(|| anyhow!("no header terminator in HTTP response"))?;
  let head = String::from_utf8_lossy(&raw[..split]).to_string();
  let status: u16 = head
    .split_whitespace()
    .nth(1)
    .and_then(|s| s.parse().ok())
    .ok_or_else(|| anyhow!("bad status line"))?;
  let mut body = raw[split + 4..].to_vec();
  if head.to_ascii_lowercase().contains("transfer-encoding: chunked") {
    let mut out = Vec::new();
    let mut pos = 0usize;
    while pos < body.len() {
      let Some(eol) = body[pos..].windows(2).position(|w| w == b"\r\n") else { break };
      let len = usize::from_str_radix(String::from_utf8_lossy(&body[pos..pos + eol]).trim(), 16).unwrap_or(0);
      pos += eol + 2;
      if len == 0 {
        break;
      }
      out.extend_from_slice(&body[pos..(pos + len).min(body.len())]);
      pos += len + 2;
    }
    body = out;
  }
  Ok((status, body))
}

fn free_port() -> Result<u16> {
  let l = std::net::TcpListener::bind("127.0.0.1:0")?;
  Ok(l.local_addr()?.port())
}

fn run_http(ops: &[Op], dir: &Path) -> Result<Vec<Obs>> {
  let root = dir.join("idx");
  let rt = tokio::runtime::Builder::new_multi_thread().worker_threads(2).enable_all().build()?;
  let start = |rt: &tokio::runtime::Runtime| -> Result<(u16, tokio::task::JoinHandle<anyhow::Result<()>>)> {
    for _attempt in 0..5 {
      let port = free_port()?;
      let args = searchlite_http::ServeArgs::parse_from([
        "searchlite-http".to_string(),
        "--index".to_string(),
        root.to_string_lossy().to_string(),
        "--bind".to_string(),
        format!("127.0.0.1:{port}"),
      ]);
      let task = rt.spawn(async move { searchlite_http::run(args).await });
      let mut up = false;
      for _ in 0..400 {
        if task.is_finished() {
          break;
        }
        if let Ok((200, _)) = http_call(port, "GET", "/healthz", "application/json", b"") {
          up = true;
          break;
        }
        std::thread::sleep(std::time::Duration::from_millis(10));
      }
      if up {
        // a bind failure surfaces within milliseconds; if our task ended, the answer came from a
        // foreign server on that port
        std::thread::sleep(std::time::Duration::from_millis(50));
        if !task.is_finished() {
          return Ok((port, task));
        }
      }
      task.abort();
    }
    bail!("the HTTP service did not come up");
  };
  let (p0, t0) = start(&rt)?;
  let port = std::cell::Cell::new(p0);
  let mut server = t0;
  let post = |path: &str, ctype: &str, body: &[u8]| -> Result<Result<Value, String>> {
    let (st, b) = http_call(port.get(), "POST", path, ctype, body)?;
    let v: Value = serde_json::from_slice(&b).unwrap_or(Value::Null);
    if st == 200 {
      Ok(Ok(v))
    } else {
      Ok(Err(format!("{st} {}", v["error"]["type"].as_str().unwrap_or("?"))))
    }
  };
  let mut out = Vec::new();
  let mut cursors = Cursors::new();
  for (step, op) in ops.iter().enumerate() {
    let simple = |r: Result<Value, String>| Obs::status(r.is_ok(), r.err().unwrap_or_default());
    let mut o = match op {
      Op::Init => simple(post("/init", "application/json", schema_json().to_string().as_bytes())?),
      Op::Add(docs) => {
        let mut text = String::new();
        for d in docs {
          text.push_str(&d.json.to_string());
          text.push('\n');
        }
        simple(post("/add", "application/x-ndjson", text.as_bytes())?)
      }
      Op::Update(docs) => {
        let body = json!({"docs": docs.iter().map(|d| d.json.clone()).collect::<Vec<_>>()});
        simple(post("/bulk", "application/json", body.to_string().as_bytes())?)
      }
      Op::Delete(ids) => simple(post("/delete", "application/json", json!({"ids": ids}).to_string().as_bytes())?),
      Op::Commit => simple(post("/commit", "application/json", b"")?),
      Op::Compact => simple(post("/compact", "application/json", b"")?),
      Op::Restart => {
        // stop the service (its listener closes with the task) and start a new one on the same directory
        server.abort();
        let _ = rt.block_on(async { (&mut server).await });
        let (p, t) = start(&rt)?;
        port.set(p);
        server = t;
        Obs::status(true, String::new())
      }
      Op::Search(s) => {
        let cursor = cursor_for(s, &cursors);
        match post("/search", "application/json", with_cursor(&s.req, &cursor).to_string().as_bytes())? {
          Ok(v) => {
            let (p, c) = project(&v, &s.req);
            cursors.insert(step, c.clone());
            Obs { ran: true, ok: true, res: p, cursor: c, ..Default::default() }
          }
          Err(e) => {
            cursors.insert(step, None);
            Obs::status(false, e)
          }
        }
      }
    };
    if wants_contents(op) && o.ok {
      match post("/search", "application/json", contents_request().to_string().as_bytes())? {
        Ok(v) => {
          o.has_contents = true;
          o.contents = contents_of(&v);
        }
        Err(e) => o.note = format!("contents: {e}"),
      }
    }
    out.push(o);
  }
  rt.shutdown_background();
  Ok(out)
}

// ------------------------------------------------------------------------------------------------
// Trace
// ------------------------------------------------------------------------------------------------

fn summary(s: &SearchOp, has_cursor: bool) -> Value {
  let req = &s.req;
  let (qkind, qtext) = match &req["query"] {
    Value::String(t) => ("string", t.clone()),
    other => ("node", other.to_string()),
  };
  let sort: Vec<Value> = req
    .get("sort")
    .and_then(|x| x.as_array())
    .map(|a| {
      a.iter()
        .map(|c| json!({"field": c["field"].as_str().unwrap_or(""),
                        "order": c.get("order").and_then(|o| o.as_str()).unwrap_or("none")}))
        .collect()
    })
    .unwrap_or_default();
  let aggs = req.get("aggs").filter(|a| a.as_object().map(|o| !o.is_empty()).unwrap_or(false)).map(|a| a.to_string());
  json!({
    "qkind": qkind, "qtext": qtext, "limit": req["limit"].as_u64().unwrap_or(0),
    "execution": req["execution"].as_str().unwrap_or("wand"), "sort": sort,
    "has_cursor": has_cursor, "return_stored": req["return_stored"] == true,
    "filter": req.get("filter").map(|f| f.to_string()).unwrap_or_default(),
    "aggs": aggs.unwrap_or_default(),
  })
}

fn empty_summary() -> Value {
  json!({"qkind": "", "qtext": "", "limit": 1, "execution": "wand", "sort": [], "has_cursor": false,
         "return_stored": true, "filter": "", "aggs": ""})
}

fn empty_flags() -> Value {
  json!({"q": "", "limit": 1, "execution": "wand", "sort": [], "has_cursor": false,
         "return_stored": true, "aggs": ""})
}

fn op_json(op: &Op, lib_had_cursor: bool) -> Value {
  let docs = |ds: &Vec<Doc>| ds.iter().map(|d| json!({"id": d.id, "ver": d.ver, "valid": d.valid})).collect::<Vec<_>>();
  let mut o = json!({
    "kind": op.kind(), "docs": [], "ids": [], "req": empty_summary(),
    "cli": {"form": "na", "flags": empty_flags()},
    "ffi": {"expressible": false,
            "args": {"query": "", "query_is_node": false, "limit": 1, "has_cursor": false, "aggs": "", "aggs_len": 0}},
    "cursor_from": -1,
  });
  match op {
    Op::Add(d) | Op::Update(d) => o["docs"] = json!(docs(d)),
    Op::Delete(ids) => {
      o["ids"] = json!(ids
        .iter()
        .map(|i| json!({"id": i, "trimmed": i.trim(), "padded": i.trim() != i.as_str()}))
        .collect::<Vec<_>>())
    }
    Op::Search(s) => {
      let cur = if lib_had_cursor { Some("x".to_string()) } else { None };
      o["req"] = summary(s, lib_had_cursor);
      o["cursor_from"] = json!(s.cursor_from.map(|k| k as i64).unwrap_or(-1));
      let flags = if s.cli_form == "flags" { cli_flags(s, &cur).1 } else { empty_flags() };
      o["cli"] = json!({"form": s.cli_form, "flags": flags});
      let a = ffi_args(&s.req, &cur);
      o["ffi"] = json!({
        "expressible": ffi_expressible(&s.req),
        "args": {"query": a.query, "query_is_node": a.query_is_node, "limit": a.limit,
                 "has_cursor": a.cursor.is_some(),
                 "aggs": a.aggs.clone().unwrap_or_default(), "aggs_len": a.aggs.map(|x| x.len()).unwrap_or(0)},
      });
    }
    _ => {}
  }
  o
}

pub fn main(args: &Args) -> Result<()> {
  let seed = args.u64("seed", 1);
  let out = args.str("out", "out/frontends.ndjson");
  let n_scn = args.usize("scenarios", 6);
  let cli_bin = args.get("cli").map(PathBuf::from);
  let mut tr = Tracer::create(Path::new(&out))?;
  let mut steps = 0usize;
  let mut searches = 0usize;
  let mut processes = 0usize;
  let mut cases: Vec<Value> = Vec::new();
  if let Some(path) = args.get("cases") {
    for line in std::fs::read_to_string(path)?.lines().filter(|l| !l.trim().is_empty()) {
      cases.push(serde_json::from_str(line)?);
    }
  }
  let n_cases = cases.len();
  for scn in 0..(n_cases + n_scn) {
    let mut r = rng(seed, 25_000 + scn as u64);
    let ops = if scn < n_cases { history_from_case(&cases[scn], &mut r) } else { gen_history(&mut r, scn - n_cases) };
    let scratch = Scratch::new("front");
    let mut obs: BTreeMap<&str, Vec<Obs>> = BTreeMap::new();
    for fe in FES {
      let dir = scratch.join(fe);
      std::fs::create_dir_all(&dir)?;
      let v = match fe {
        "lib" => run_lib(&ops, &dir, false)?,
        "libffi" => run_lib(&ops, &dir, true)?,
        "ffi" => run_ffi(&ops, &dir)?,
        "http" => run_http(&ops, &dir)?,
        _ => match &cli_bin {
          Some(b) => {
            let v = run_cli(&ops, &dir, b)?;
            processes += ops.len();
            v
          }
          None => ops.iter().map(|_| Obs::na()).collect(),
        },
      };
      obs.insert(fe, v);
    }
    tr.emit(json!({"ev": "reset", "scn": scn, "ops": ops.len(), "cli": cli_bin.is_some(),
                   "fes": FES, "tlc_generated": scn < n_cases}));
    for (step, op) in ops.iter().enumerate() {
      let lib_cursor = match op {
        Op::Search(s) => s.cursor_from.map(|k| obs["lib"][k].cursor.is_some()).unwrap_or(false),
        _ => false,
      };
      let mut o = serde_json::Map::new();
      for fe in FES {
        o.insert(fe.to_string(), obs[fe][step].json());
      }
      tr.emit(json!({"ev": "step", "scn": scn, "step": step, "op": op_json(op, lib_cursor), "obs": o}));
      steps += 1;
      if matches!(op, Op::Search(_)) {
        searches += 1;
      }
    }
  }
  let lines = tr.finish();
  println!(
    "{}",
    json!({"scenarios": n_scn + n_cases, "tlc_generated": n_cases, "steps": steps, "searches": searches, "cli_processes": processes,
           "events": lines, "out": out})
  );
  Ok(())
}
