//! (stub) family `frontends` - see CONTRIBUTING.md
use anyhow::{bail, Result};

use crate::util::Args;

pub fn main(_args: &Args) -> Result<()> {
  bail!("family frontends is not implemented yet")
}
