//! Rust mirror of spec/Storage.tla, used only to *materialise* crash images from the recorded
//! operation log. Legality of every image descriptor, the number of legal descriptors at each
//! crash point and the resulting file inventory are re-derived and checked by TLC
//! (Trace_Crash.tla), so this mirror is not trusted for verdicts.

use std::collections::BTreeMap;

use searchlite_core::verif::Event;

#[derive(Clone, Debug)]
pub enum DataOp {
  Write { off: u64, data: Vec<u8> },
  SetLen(u64),
}

#[derive(Clone, Debug, Default)]
pub struct Ino {
  pub synced: Vec<u8>,
  pub ops: Vec<DataOp>,
}

#[derive(Clone, Debug)]
pub enum DirOp {
  Create { name: String, ino: usize },
  Rename { from: String, to: String, ino: usize },
  Unlink { name: String },
}

#[derive(Clone, Debug, Default)]
pub struct FsModel {
  pub root: String,
  pub inos: Vec<Ino>, // ino number = index + 1
  pub base: BTreeMap<String, usize>,
  pub vdir: BTreeMap<String, usize>,
  pub dirlog: Vec<DirOp>,
  pub dur: usize,
  pub link: BTreeMap<usize, usize>,
  pub fids: BTreeMap<u64, usize>,
}

#[derive(Clone, Debug, PartialEq, Eq, Hash, PartialOrd, Ord)]
pub struct Descriptor {
  pub dir: usize,
  /// (ino, keep, torn) for every inode with unsynced data operations
  pub files: Vec<(usize, usize, u64)>,
}

pub fn apply_data(content: &mut Vec<u8>, op: &DataOp, torn: Option<u64>) {
  match op {
    DataOp::Write { off, data } => {
      let n = torn.map(|t| t as usize).unwrap_or(data.len());
      let end = *off as usize + n;
      if content.len() < end {
        content.resize(end, 0);
      }
      content[*off as usize..end].copy_from_slice(&data[..n]);
    }
    DataOp::SetLen(n) => content.resize(*n as usize, 0),
  }
}

impl FsModel {
  /// Start from the files currently in `root` (all durable).
  pub fn from_dir(root: &std::path::Path) -> std::io::Result<Self> {
    let mut m = FsModel {
      root: root.to_string_lossy().into_owned(),
      ..Default::default()
    };
    let mut names: Vec<String> = Vec::new();
    if root.exists() {
      for e in std::fs::read_dir(root)? {
        let e = e?;
        if e.file_type()?.is_file() {
          names.push(e.file_name().to_string_lossy().into_owned());
        }
      }
    }
    names.sort();
    for n in names {
      let data = std::fs::read(root.join(&n))?;
      m.inos.push(Ino {
        synced: data,
        ops: Vec::new(),
      });
      let ino = m.inos.len();
      m.base.insert(n.clone(), ino);
      m.vdir.insert(n, ino);
    }
    Ok(m)
  }

  pub fn rel(&self, path: &str) -> String {
    let p = path.strip_prefix(&self.root).unwrap_or(path);
    p.trim_start_matches('/').to_string()
  }

  fn new_ino(&mut self, name: &str) -> usize {
    self.inos.push(Ino::default());
    let ino = self.inos.len();
    self.vdir.insert(name.to_string(), ino);
    self.dirlog.push(DirOp::Create {
      name: name.to_string(),
      ino,
    });
    self.link.insert(ino, self.dirlog.len());
    ino
  }

  /// True when the event changes the model (and therefore belongs in the trace).
  pub fn relevant(ev: &Event) -> bool {
    ev.ok
      && matches!(
        ev.op,
        "create" | "open_append" | "open_rw" | "write" | "fsync" | "fsync_dir" | "set_len" | "rename" | "unlink"
      )
  }

  pub fn apply(&mut self, ev: &Event) {
    if !Self::relevant(ev) {
      return;
    }
    let name = self.rel(&ev.path);
    match ev.op {
      "create" => {
        let ino = if let Some(&i) = self.vdir.get(&name) {
          self.inos[i - 1].ops.push(DataOp::SetLen(0));
          i
        } else {
          self.new_ino(&name)
        };
        self.fids.insert(ev.fid, ino);
      }
      "open_append" | "open_rw" => {
        let ino = if let Some(&i) = self.vdir.get(&name) {
          i
        } else {
          self.new_ino(&name)
        };
        self.fids.insert(ev.fid, ino);
      }
      "write" => {
        if let Some(&i) = self.fids.get(&ev.fid) {
          self.inos[i - 1].ops.push(DataOp::Write {
            off: ev.off,
            data: ev.data.clone(),
          });
        }
      }
      "set_len" => {
        if let Some(&i) = self.fids.get(&ev.fid) {
          self.inos[i - 1].ops.push(DataOp::SetLen(ev.len));
        }
      }
      "fsync" => {
        if let Some(&i) = self.fids.get(&ev.fid) {
          let ino = &mut self.inos[i - 1];
          let mut c = std::mem::take(&mut ino.synced);
          for op in ino.ops.drain(..) {
            apply_data(&mut c, &op, None);
          }
          ino.synced = c;
          if let Some(&l) = self.link.get(&i) {
            self.dur = self.dur.max(l);
          }
        }
      }
      "fsync_dir" => self.dur = self.dirlog.len(),
      "rename" => {
        let to = self.rel(&ev.path2);
        if let Some(i) = self.vdir.remove(&name) {
          self.vdir.insert(to.clone(), i);
          self.dirlog.push(DirOp::Rename {
            from: name,
            to,
            ino: i,
          });
          self.link.insert(i, self.dirlog.len());
        }
      }
      "unlink" => {
        if self.vdir.remove(&name).is_some() {
          self.dirlog.push(DirOp::Unlink { name });
        }
      }
      _ => {}
    }
  }

  pub fn dir_prefix(&self, n: usize) -> BTreeMap<String, usize> {
    let mut d = self.base.clone();
    for op in self.dirlog.iter().take(n) {
      match op {
        DirOp::Create { name, ino } => {
          d.insert(name.clone(), *ino);
        }
        DirOp::Rename { from, to, ino } => {
          d.remove(from);
          d.insert(to.clone(), *ino);
        }
        DirOp::Unlink { name } => {
          d.remove(name);
        }
      }
    }
    d
  }

  fn data_choices(&self, i: usize) -> u64 {
    let ino = &self.inos[i - 1];
    let mut n = ino.ops.len() as u64 + 1;
    for op in ino.ops.iter() {
      if let DataOp::Write { data, .. } = op {
        if data.len() > 1 {
          n += data.len() as u64 - 1;
        }
      }
    }
    n
  }

  pub fn dirty_inos(&self) -> Vec<usize> {
    (1..=self.inos.len())
      .filter(|i| !self.inos[i - 1].ops.is_empty())
      .collect()
  }

  /// Number of legal descriptors (saturating at 2e9 so it stays a TLC integer).
  pub fn n_images(&self) -> u64 {
    let mut n = (self.dirlog.len() - self.dur + 1) as u64;
    for i in self.dirty_inos() {
      n = n.saturating_mul(self.data_choices(i));
      if n > 2_000_000_000 {
        return 2_000_000_000;
      }
    }
    n
  }

  /// Candidate (keep, torn) choices for one inode. `dense`: every byte of every write.
  pub fn file_choices(&self, i: usize, dense: bool, r: &mut rand::rngs::StdRng) -> Vec<(usize, u64)> {
    use rand::Rng;
    let ino = &self.inos[i - 1];
    let n = ino.ops.len();
    let mut out: Vec<(usize, u64)> = Vec::new();
    let keeps: Vec<usize> = if dense || n <= 5 {
      (0..=n).collect()
    } else {
      let mut k = vec![0, n, n - 1, 1];
      k.push(r.gen_range(0..=n));
      k.push(r.gen_range(0..=n));
      k.sort();
      k.dedup();
      k
    };
    for &k in keeps.iter() {
      out.push((k, 0));
      if k < n {
        if let DataOp::Write { data, .. } = &ino.ops[k] {
          let len = data.len() as u64;
          if len > 1 {
            if dense {
              for t in 1..len {
                out.push((k, t));
              }
            } else {
              let mut ts = vec![1, len / 2, len - 1];
              ts.retain(|t| *t >= 1 && *t < len);
              ts.sort();
              ts.dedup();
              for t in ts {
                out.push((k, t));
              }
            }
          }
        }
      }
    }
    out
  }

  /// Enumerate (or sample, when the product is larger than `cap`) descriptors for this state.
  pub fn descriptors(&self, dense: bool, cap: usize, r: &mut rand::rngs::StdRng) -> Vec<Descriptor> {
    use rand::Rng;
    let dirty = self.dirty_inos();
    let per_file: Vec<Vec<(usize, u64)>> = dirty.iter().map(|&i| self.file_choices(i, dense, r)).collect();
    let dirs: Vec<usize> = (self.dur..=self.dirlog.len()).collect();
    let mut total: u128 = dirs.len() as u128;
    for c in per_file.iter() {
      total = total.saturating_mul(c.len() as u128);
    }
    let mut out = Vec::new();
    if total <= cap as u128 {
      // full product
      let mut idx = vec![0usize; per_file.len()];
      loop {
        for &d in dirs.iter() {
          out.push(Descriptor {
            dir: d,
            files: dirty
              .iter()
              .enumerate()
              .map(|(n, &i)| (i, per_file[n][idx[n]].0, per_file[n][idx[n]].1))
              .collect(),
          });
        }
        let mut p = 0;
        loop {
          if p == idx.len() {
            return out;
          }
          idx[p] += 1;
          if idx[p] < per_file[p].len() {
            break;
          }
          idx[p] = 0;
          p += 1;
        }
      }
    }
    // extremes first: nothing unsynced persisted / everything persisted, at both dir-prefix ends
    for &d in [self.dur, self.dirlog.len()].iter() {
      for all in [false, true] {
        out.push(Descriptor {
          dir: d,
          files: dirty
            .iter()
            .map(|&i| (i, if all { self.inos[i - 1].ops.len() } else { 0 }, 0))
            .collect(),
        });
      }
    }
    // one file lagging behind: every choice of one dirty file while all other files are fully
    // persisted and every directory operation is durable (a log whose tail is lost or torn
    // under a manifest that made it, and the like)
    let mut order: Vec<usize> = (0..per_file.len()).collect();
    order.sort_by_key(|&n| per_file[n].len());      // files with few states first (log, manifest)
    'one: for n in order {
      let choices = &per_file[n];
      for c in choices.iter() {
        if out.len() >= cap.max(72) {
          break 'one;
        }
        out.push(Descriptor {
          dir: self.dirlog.len(),
          files: dirty
            .iter()
            .enumerate()
            .map(|(m, &i)| if m == n { (i, c.0, c.1) } else { (i, self.inos[i - 1].ops.len(), 0) })
            .collect(),
        });
      }
    }
    while out.len() < cap {
      let d = dirs[r.gen_range(0..dirs.len())];
      out.push(Descriptor {
        dir: d,
        files: dirty
          .iter()
          .enumerate()
          .map(|(n, &i)| {
            let c = per_file[n][r.gen_range(0..per_file[n].len())];
            (i, c.0, c.1)
          })
          .collect(),
      });
    }
    out.sort();
    out.dedup();
    out
  }

  /// File name -> content of the image described by `d`.
  pub fn materialise(&self, d: &Descriptor) -> BTreeMap<String, Vec<u8>> {
    let dir = self.dir_prefix(d.dir);
    let mut out = BTreeMap::new();
    for (name, &i) in dir.iter() {
      let ino = &self.inos[i - 1];
      let mut c = ino.synced.clone();
      let (keep, torn) = d
        .files
        .iter()
        .find(|f| f.0 == i)
        .map(|f| (f.1, f.2))
        .unwrap_or((ino.ops.len(), 0));
      for op in ino.ops.iter().take(keep) {
        apply_data(&mut c, op, None);
      }
      if torn > 0 {
        apply_data(&mut c, &ino.ops[keep], Some(torn));
      }
      out.insert(name.clone(), c);
    }
    out
  }
}
