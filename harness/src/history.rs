//! C04 / C14 driver: histories of add/delete/commit/rollback/compact/reopen calls over 1-3 writer
//! handles. Emits one ndjson event per call with the contents a fresh reader sees afterwards.
//! The oracle is spec/Trace_History.tla; this file only drives and records.

use std::collections::BTreeMap;

use anyhow::Result;
use rand::rngs::StdRng;
use rand::Rng;
use serde_json::{json, Value};

use searchlite_core::api::{Index, IndexWriter};
use searchlite_core::Schema;

use crate::util::*;

pub const IDS: [&str; 8] = ["a", "b", "c", "d", "e", "f", "g", "h"];

pub fn schema_family(k: usize) -> Value {
  match k % 3 {
    0 => json!({
      "doc_id_field": "_id",
      "text_fields": [
        {"name": "body", "analyzer": "default", "stored": true, "indexed": true, "nullable": false},
        {"name": "hidden", "analyzer": "default", "stored": false, "indexed": true, "nullable": true}
      ],
      "keyword_fields": [
        {"name": "tag", "stored": true, "indexed": true, "fast": true, "nullable": true}
      ],
      "numeric_fields": [
        {"name": "ver", "i64": true, "fast": true, "stored": true, "nullable": false},
        {"name": "price", "i64": false, "fast": true, "stored": true, "nullable": true}
      ],
      "nested_fields": []
    }),
    1 => json!({
      "doc_id_field": "_id",
      "text_fields": [
        {"name": "body", "analyzer": "default", "stored": true, "indexed": true, "nullable": false}
      ],
      "keyword_fields": [
        {"name": "tag", "stored": true, "indexed": true, "fast": true, "nullable": true}
      ],
      "numeric_fields": [
        {"name": "ver", "i64": true, "fast": true, "stored": true, "nullable": false}
      ],
      "nested_fields": [
        {"name": "items", "nullable": true, "fields": [
          {"type": "keyword", "name": "name", "stored": true, "indexed": true, "fast": true, "nullable": false},
          {"type": "numeric", "name": "qty", "i64": true, "fast": true, "stored": true, "nullable": true},
          {"type": "keyword", "name": "secret", "stored": false, "indexed": true, "fast": true, "nullable": true}
        ]}
      ]
    }),
    _ => json!({
      "doc_id_field": "_id",
      "text_fields": [
        {"name": "body", "analyzer": "default", "stored": true, "indexed": true, "nullable": false}
      ],
      "keyword_fields": [],
      "numeric_fields": [
        {"name": "ver", "i64": true, "fast": true, "stored": true, "nullable": false}
      ],
      "nested_fields": []
    }),
  }
}

/// Document for (id, version) under schema k; `r` varies the optional parts.
pub fn make_doc(k: usize, id: &str, ver: u64, r: &mut StdRng) -> Value {
  let mut d = serde_json::Map::new();
  d.insert("_id".into(), json!(id));
  d.insert("body".into(), json!(format!("w{ver} common {id}")));
  d.insert("ver".into(), json!(ver));
  match k % 3 {
    0 => {
      if chance(r, 2, 3) {
        d.insert("hidden".into(), json!(format!("h{ver}")));
      }
      match r.gen_range(0..4) {
        0 => {}
        1 => {
          d.insert("tag".into(), json!(format!("t{}", ver % 3)));
        }
        2 => {
          d.insert("tag".into(), json!([format!("t{}", ver % 3), "multi"]));
        }
        _ => {
          d.insert("tag".into(), json!([format!("T{}", ver % 2)]));
        }
      }
      if chance(r, 1, 2) {
        d.insert("price".into(), json!((ver as f64) + 0.5));
      }
    }
    1 => {
      if chance(r, 1, 2) {
        d.insert("tag".into(), json!(format!("t{}", ver % 3)));
      }
      let n = r.gen_range(0..3);
      if n > 0 {
        let mut items = Vec::new();
        for i in 0..n {
          let mut o = serde_json::Map::new();
          o.insert("name".into(), json!(format!("n{}", (ver + i) % 3)));
          if chance(r, 2, 3) {
            o.insert("qty".into(), json!(ver as i64 + i as i64));
          }
          if chance(r, 1, 2) {
            o.insert("secret".into(), json!(format!("s{ver}")));
          }
          items.push(Value::Object(o));
        }
        d.insert("items".into(), Value::Array(items));
      }
    }
    _ => {}
  }
  Value::Object(d)
}

/// Leaf entries of the document as written, each with the schema's stored flag.
pub fn doc_entries(schema: &Schema, doc: &Value) -> Value {
  let resolved = schema.resolved_fields();
  let flat = flatten_doc(doc);
  Value::Array(
    flat
      .iter()
      .map(|(p, v)| {
        let field = strip_indices(p);
        let stored = field == schema.doc_id_field()
          || resolved.iter().any(|f| f.path == field && f.stored);
        json!([p, v, stored])
      })
      .collect(),
  )
}

pub fn strip_indices(p: &str) -> String {
  let mut out = String::new();
  let mut skip = false;
  for c in p.chars() {
    match c {
      '[' => skip = true,
      ']' => skip = false,
      '#' => break,
      c if !skip => out.push(c),
      _ => {}
    }
  }
  out
}

pub fn obs_json(idx: &Index) -> Value {
  match contents(idx) {
    Ok(list) => json!({
      "ok": true,
      "docs": list.iter().map(|(id, f)| json!({"id": id, "fields": pairs_json(&flatten_doc(f))})).collect::<Vec<_>>()
    }),
    Err(e) => json!({"ok": false, "docs": [], "err": e.to_string()}),
  }
}

#[derive(Clone, Debug)]
pub enum Op {
  NewWriter(usize),
  Drop(usize),
  Add(usize, String),
  Delete(usize, Vec<String>),
  Commit(usize),
  Rollback(usize),
  Compact,
  Reopen,
}

pub fn parse_ops(v: &Value) -> Vec<Op> {
  v.as_array()
    .unwrap()
    .iter()
    .map(|o| {
      let h = o.get("h").and_then(|x| x.as_u64()).unwrap_or(1) as usize;
      match o["op"].as_str().unwrap() {
        "new_writer" => Op::NewWriter(h),
        "drop" => Op::Drop(h),
        "add" => Op::Add(h, o["id"].as_str().unwrap().to_string()),
        "delete" => Op::Delete(
          h,
          o["ids"]
            .as_array()
            .unwrap()
            .iter()
            .map(|x| x.as_str().unwrap().to_string())
            .collect(),
        ),
        "commit" => Op::Commit(h),
        "rollback" => Op::Rollback(h),
        "compact" => Op::Compact,
        "reopen" => Op::Reopen,
        other => panic!("unknown op {other}"),
      }
    })
    .collect()
}

/// True when two writer handles are alive at the same time somewhere in the history.
pub fn uses_overlapping_handles(ops: &[Op]) -> bool {
  let mut alive = std::collections::BTreeSet::new();
  for op in ops {
    match op {
      Op::NewWriter(h) => {
        alive.insert(*h);
        if alive.len() > 1 {
          return true;
        }
      }
      Op::Drop(h) => {
        alive.remove(h);
      }
      Op::Reopen => alive.clear(),
      _ => {}
    }
  }
  false
}

pub struct Scenario {
  pub scn: usize,
  pub storage: String,
  pub schema_k: usize,
  pub ops: Option<Vec<Op>>,
  pub n_calls: usize,
  pub n_ids: usize,
  pub max_handles: usize,
  pub end_compact: bool,
}

/// Runs one scenario, emitting events. Random choices come from `r` unless `ops` is given.
pub fn run_scenario(sc: &Scenario, r: &mut StdRng, tr: &mut Tracer) -> Result<()> {
  let scratch = Scratch::new("hist");
  let root = scratch.join("idx");
  let (storage, stype) = storage_arc(&sc.storage, &root);
  let schema_v = schema_family(sc.schema_k);
  let schema = schema_from_json(schema_v.clone());
  let mut o = opts(&root, stype.clone());
  o.enable_positions = sc.schema_k % 2 == 0;
  let mut idx = Index::create_with_storage(&root, schema.clone(), o.clone(), storage.clone())?;
  let compact_safe = schema
    .resolved_fields()
    .iter()
    .all(|f| !((f.indexed || f.fast) && !f.stored));
  tr.emit(json!({
    "ev": "reset", "scn": sc.scn, "storage": sc.storage, "schema": sc.schema_k % 3,
    "compact_safe": compact_safe, "positions": o.enable_positions,
    "zstd": cfg!(feature = "zstd"),
  }));
  let mut handles: BTreeMap<usize, IndexWriter> = BTreeMap::new();
  let mut ver: u64 = 0;
  let ids = &IDS[..sc.n_ids.min(IDS.len())];
  let multi_ok = sc.storage != "memory";
  let total = sc.ops.as_ref().map(|o| o.len()).unwrap_or(sc.n_calls);
  // forced continuation of a macro (e.g. "wipe": delete every id, commit, compact - the index
  // then holds several segments without a single live document)
  let mut forced: std::collections::VecDeque<Op> = std::collections::VecDeque::new();
  // "sleeper": a second handle commits once early and then stays idle (keeping its live-document
  // cache and generation tag) while the other handles commit, wipe and compact; late in the
  // history it upserts / deletes and commits again.
  const SLEEPER: usize = 9;
  let sleeper = sc.ops.is_none() && multi_ok && sc.max_handles > 1 && chance(r, 1, 3);
  if sleeper {
    forced.push_back(Op::NewWriter(SLEEPER));
    forced.push_back(Op::Add(SLEEPER, ids[0].to_string()));
    forced.push_back(Op::Commit(SLEEPER));
  }
  let wake_at = total * 3 / 5;
  let mut woke = false;
  let mut sleeper_gen: u32 = 0;
  for step in 0..total {
    let asleep = sleeper && step < wake_at;
    if sleeper && !woke && step >= wake_at && forced.is_empty() && handles.contains_key(&SLEEPER) {
      woke = true;
      forced.push_back(Op::Add(SLEEPER, pick(r, ids).to_string()));
      forced.push_back(Op::Delete(SLEEPER, vec![pick(r, ids).to_string()]));
      forced.push_back(Op::Commit(SLEEPER));
    }
    let op = if let Some(ops) = &sc.ops {
      ops[step].clone()
    } else if let Some(f) = forced.pop_front() {
      f
    } else if !handles.is_empty() && step + 4 < total && chance(r, 1, if sleeper { 10 } else { 25 }) {
      let h = *handles.keys().next().unwrap();
      forced.push_back(Op::Commit(h));
      forced.push_back(Op::Compact);
      if sleeper && !woke && h != SLEEPER && handles.contains_key(&SLEEPER) && chance(r, 1, 2) {
        // after the wipe, let the active handle write exactly as many segments as the sleeper's
        // generation tag counts, then wake the sleeper: its tag then equals the manifest's
        // highest generation although it has seen none of those segments
        let m = idx.manifest();
        let tag = sleeper_gen.max(1) as usize;
        let _ = m;
        for i in 0..tag {
          forced.push_back(Op::Add(h, ids[i % ids.len()].to_string()));
          forced.push_back(Op::Commit(h));
        }
        woke = true;
        forced.push_back(Op::Add(SLEEPER, ids[0].to_string()));
        forced.push_back(Op::Delete(SLEEPER, vec![ids[ids.len() - 1].to_string()]));
        forced.push_back(Op::Commit(SLEEPER));
      }
      Op::Delete(h, ids.iter().map(|s| s.to_string()).collect())
    } else {
      match random_op(r, &handles, ids, sc.max_handles, multi_ok, step + 1 == total && sc.end_compact,
                      if asleep { Some(SLEEPER) } else { None }) {
        // a reopen would drop the sleeping handle
        Op::Reopen if sleeper => Op::Compact,
        Op::NewWriter(h) if sleeper && h == SLEEPER => Op::Compact,
        other => other,
      }
    };
    match op {
      Op::NewWriter(h) => {
        if handles.remove(&h).is_some() {
          tr.emit(json!({"ev": "drop", "h": h, "obs": obs_json(&idx)}));
        }
        let res = idx.writer();
        let ok = res.is_ok();
        if let Ok(w) = res {
          handles.insert(h, w);
        }
        tr.emit(json!({"ev": "new_writer", "h": h, "ok": ok, "obs": obs_json(&idx)}));
      }
      Op::Drop(h) => {
        if handles.remove(&h).is_some() {
          tr.emit(json!({"ev": "drop", "h": h, "obs": obs_json(&idx)}));
        }
      }
      Op::Add(h, id) => {
        if let Some(w) = handles.get_mut(&h) {
          ver += 1;
          let doc = make_doc(sc.schema_k, &id, ver, r);
          let res = w.add_document(&doc_from_json(doc.clone()));
          tr.emit(json!({
            "ev": "add", "h": h, "id": id, "ver": ver, "doc": doc_entries(&schema, &doc),
            "ok": res.is_ok(), "obs": obs_json(&idx)
          }));
        }
      }
      Op::Delete(h, dids) => {
        if let Some(w) = handles.get_mut(&h) {
          let res = w.delete_documents(&dids);
          tr.emit(json!({"ev": "delete", "h": h, "ids": dids, "ok": res.is_ok(), "obs": obs_json(&idx)}));
        }
      }
      Op::Commit(h) => {
        if let Some(w) = handles.get_mut(&h) {
          let res = w.commit();
          let m = idx.manifest();
          if h == SLEEPER && sleeper_gen == 0 {
            sleeper_gen = m.segments.iter().map(|s| s.generation).max().unwrap_or(0);
          }
          tr.emit(json!({
            "ev": "commit", "h": h, "ok": res.is_ok(), "obs": obs_json(&idx),
            "nseg": m.segments.len(),
          }));
        }
      }
      Op::Rollback(h) => {
        if let Some(w) = handles.get_mut(&h) {
          let res = w.rollback();
          tr.emit(json!({"ev": "rollback", "h": h, "ok": res.is_ok(), "obs": obs_json(&idx)}));
        }
      }
      Op::Compact => {
        let before = idx.manifest();
        let res = idx.compact();
        let m = idx.manifest();
        let ndel: usize = m.segments.iter().map(|s| s.deleted_docs.len()).sum();
        let live_before: usize = before
          .segments
          .iter()
          .map(|s| s.doc_count as usize - s.deleted_docs.len())
          .sum();
        tr.emit(json!({
          "ev": "compact", "ok": res.is_ok(), "obs": obs_json(&idx),
          "nseg_before": before.segments.len(), "nseg": m.segments.len(), "ndel": ndel,
          "live_before": live_before,
          "same_manifest": serde_json::to_string(&before.segments).unwrap() == serde_json::to_string(&m.segments).unwrap(),
        }));
      }
      Op::Reopen => {
        let hs: Vec<usize> = handles.keys().copied().collect();
        for h in hs {
          handles.remove(&h);
          tr.emit(json!({"ev": "drop", "h": h, "obs": obs_json(&idx)}));
        }
        if sc.storage == "memory" {
          // in-memory storage lives in the Arc we hold; reopen over the same object
          drop(idx);
          idx = Index::open_with_storage(o.clone(), storage.clone())?;
        } else {
          drop(idx);
          idx = Index::open(o.clone())?;
        }
        tr.emit(json!({"ev": "reopen", "ok": true, "obs": obs_json(&idx)}));
      }
    }
  }
  drop(handles);
  Ok(())
}

fn random_op(
  r: &mut StdRng,
  handles: &BTreeMap<usize, IndexWriter>,
  ids: &[&str],
  max_handles: usize,
  multi_ok: bool,
  force_compact: bool,
  exclude: Option<usize>,
) -> Op {
  if force_compact {
    return Op::Compact;
  }
  if handles.is_empty() {
    return Op::NewWriter(1);
  }
  let hs: Vec<usize> = handles.keys().copied().filter(|h| Some(*h) != exclude).collect();
  if hs.is_empty() {
    return Op::NewWriter(1);
  }
  let h = *pick(r, &hs);
  let roll = r.gen_range(0..100);
  match roll {
    0..=39 => Op::Add(h, pick(r, ids).to_string()),
    40..=54 => {
      let n = if chance(r, 1, 4) { 2 } else { 1 };
      Op::Delete(h, (0..n).map(|_| pick(r, ids).to_string()).collect())
    }
    55..=74 => Op::Commit(h),
    75..=79 => Op::Rollback(h),
    80..=84 => Op::Compact,
    85..=88 => Op::Reopen,
    89..=93 => Op::Drop(h),
    _ => {
      if multi_ok && max_handles > 1 {
        Op::NewWriter(r.gen_range(1..=max_handles))
      } else {
        // single live handle: replace it
        Op::NewWriter(h)
      }
    }
  }
}

pub fn main(args: &Args) -> Result<()> {
  let seed = args.u64("seed", 1);
  let out = args.str("out", "/verif/out/history.ndjson");
  let n_scn = args.usize("scenarios", 20);
  let n_calls = args.usize("calls", 100);
  let mut tr = Tracer::create(std::path::Path::new(&out))?;
  let mut scn = 0usize;
  if let Some(cases) = args.get("cases") {
    // TLC-generated histories: one JSON object per line {"storage":..,"schema":..,"ops":[..]}
    let text = std::fs::read_to_string(cases)?;
    for line in text.lines().filter(|l| !l.trim().is_empty()) {
      let v: Value = serde_json::from_str(line)?;
      let ops = parse_ops(&v["ops"]);
      let multi = uses_overlapping_handles(&ops);
      for storage in ["fs", "memory"] {
        if storage == "memory" && multi {
          continue;
        }
        let mut r = rng(seed, scn as u64);
        let sc = Scenario {
          scn,
          storage: storage.to_string(),
          schema_k: scn,
          ops: Some(ops.clone()),
          n_calls: 0,
          n_ids: 3,
          max_handles: 3,
          end_compact: false,
        };
        run_scenario(&sc, &mut r, &mut tr)?;
        scn += 1;
      }
    }
  }
  for i in 0..n_scn {
    let mut r = rng(seed, 1_000_000 + i as u64);
    let storage = if i % 3 == 2 { "memory" } else { "fs" };
    let sc = Scenario {
      scn,
      storage: storage.to_string(),
      schema_k: r.gen_range(0..6),
      ops: None,
      n_calls: if i % 5 == 4 { n_calls * 2 } else { n_calls },
      n_ids: r.gen_range(2..=8),
      max_handles: r.gen_range(1..=3),
      end_compact: args.flag("end-compact") || i % 2 == 0,
    };
    run_scenario(&sc, &mut r, &mut tr)?;
    scn += 1;
  }
  let lines = tr.finish();
  println!("{}", json!({"scenarios": scn, "events": lines, "out": out}));
  Ok(())
}
