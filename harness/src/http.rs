//! (stub) family `http` - see CONTRIBUTING.md
use anyhow::{bail, Result};

use crate::util::Args;

pub fn main(_args: &Args) -> Result<()> {
  bail!("family http is not implemented yet")
}
