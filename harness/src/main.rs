//! svh: searchlite verification harness. Drives the real code and records what it did; all
//! verdicts are produced by TLC on the specifications in /verif/spec.
mod crash;
mod fsmodel;
mod history;
mod util;

fn main() {
  let argv: Vec<String> = std::env::args().collect();
  if argv.len() < 2 {
    eprintln!("usage: svh <family> [--key value]...");
    std::process::exit(2);
  }
  let args = util::Args::parse(&argv[2..]);
  let res = match argv[1].as_str() {
    "history" => history::main(&args),
    "crash" => crash::main(&args),
    other => {
      eprintln!("unknown family {other}");
      std::process::exit(2);
    }
  };
  if let Err(e) = res {
    eprintln!("svh: tool error: {e:#}");
    std::process::exit(2);
  }
}
