//! svh: searchlite verification harness. Drives the real code and records what it did; all
//! verdicts are produced by TLC on the specifications in /verif/spec.
mod adhoc;
mod aggs;
mod conc;
mod corpus;
mod qgen;
mod corrupt;
mod crash;
mod extras;
mod faults;
mod ffi;
mod frontends;
mod fsmodel;
mod history;
mod http;
mod relocate;
mod robust;
mod search;
mod util;
mod vector;
mod validate;

fn main() {
  let argv: Vec<String> = std::env::args().collect();
  if argv.len() < 2 {
    eprintln!("usage: svh <family> [--key value]...");
    std::process::exit(2);
  }
  let args = util::Args::parse(&argv[2..]);
  let res = match argv[1].as_str() {
    "adhoc" => adhoc::main(&args),
    "history" => history::main(&args),
    "crash" => crash::main(&args),
    "faults" => faults::main(&args),
    "conc" => conc::main(&args),
    "search" => search::main(&args),
    "extras" => extras::main(&args),
    "aggs" => aggs::main(&args),
    "http" => http::main(&args),
    "ffi" => ffi::main(&args),
    "frontends" => frontends::main(&args),
    "validate" => validate::main(&args),
    "robust" => robust::main(&args),
    "corrupt" => corrupt::main(&args),
    "relocate" => relocate::main(&args),
    other => {
      eprintln!("unknown family {other}");
      std::process::exit(2);
    }
  };
  if let Err(e) = res {
    eprintln!("svh: tool error: {e:#}");
    std::process::exit(2);
  }
}
