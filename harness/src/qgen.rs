//! Random query / filter trees: generation, rendering to the public JSON API, and the abstract
//! form (with search-analysed tokens per field) that Trace_Search.tla evaluates.
#![allow(dead_code)]

use rand::rngs::StdRng;
use rand::Rng;
use serde_json::{json, Value};

use searchlite_core::Schema;

use crate::corpus::{analyse_search, Dict, AUTHORS, KW_CATS, KW_TAGS, WORDS};
use crate::util::*;

pub const TEXT_FIELDS: [&str; 2] = ["body", "title"];

#[derive(Clone, Debug)]
pub enum F {
  KwEq(String, String),
  KwIn(String, Vec<String>),
  I64R(String, i64, i64),
  /// bounds in quarters (x4)
  F64R(String, i64, i64),
  Nested(String, Box<F>),
  And(Vec<F>),
  Or(Vec<F>),
  Not(Box<F>),
}

#[derive(Clone, Debug)]
pub struct QsTerm {
  pub field: Option<String>,
  pub word: String,
}

#[derive(Clone, Debug)]
pub enum Q {
  All,
  Term { field: String, value: String, boost: Option<f32> },
  Prefix { field: String, value: String, cap: Option<usize>, boost: Option<f32> },
  Wildcard { field: String, value: String, cap: Option<usize>, boost: Option<f32> },
  /// regular expression over the field's terms (anchored); `re` is the generated syntax tree,
  /// `value` its rendering
  Regex { field: String, value: String, re: Re, cap: Option<usize>, boost: Option<f32> },
  Phrase { field: Option<String>, terms: Vec<String>, slop: Option<usize> },
  QueryString { terms: Vec<QsTerm>, nots: Vec<QsTerm>, phrases: Vec<(Option<String>, Vec<String>)>, fields: Option<Vec<String>>, boost: Option<f32> },
  MultiMatch { words: Vec<String>, nots: Vec<String>, fields: Vec<(String, Option<f32>)>, mtype: &'static str, and: Option<bool>, msm: Option<usize>, tie: Option<f32>, boost: Option<f32> },
  Bool { must: Vec<Q>, should: Vec<Q>, must_not: Vec<Q>, filter: Vec<F>, msm: Option<usize>, boost: Option<f32> },
  DisMax { queries: Vec<Q>, tie: Option<f32>, boost: Option<f32> },
  ConstantScore { filter: F, boost: Option<f32> },
  /// function_score with weight functions only (no min_score): matches like the inner query
  FunctionScore { query: Box<Q>, weights: Vec<(f32, Option<F>)>, score_mode: Option<&'static str>, boost_mode: Option<&'static str>, max_boost: Option<f32>, boost: Option<f32> },
  /// field_value_factor (modifier none) on an i64 field
  Fvf { query: Box<Q>, field: String, factor: f32, missing: Option<f64>, boost_mode: Option<&'static str> },
}

// ------------------------------------------------------------------------------------------------
// generation
// ------------------------------------------------------------------------------------------------

/// Regular-expression syntax trees over lowercase ASCII letters (no escaping needed).
#[derive(Clone, Debug)]
pub enum Re {
  Lit(char),
  Any,
  Cls(Vec<char>),
  Cat(Vec<Re>),
  Alt(Vec<Re>),
  Star(Box<Re>),
  Plus(Box<Re>),
  Opt(Box<Re>),
}

impl Re {
  pub fn word(w: &str) -> Re {
    Re::Cat(w.chars().map(Re::Lit).collect())
  }
  /// rendering; `top` = no parentheses needed around an alternation
  pub fn render(&self, top: bool) -> String {
    match self {
      Re::Lit(c) => c.to_string(),
      Re::Any => ".".into(),
      Re::Cls(cs) => format!("[{}]", cs.iter().collect::<String>()),
      Re::Cat(xs) => xs.iter().map(|x| x.render(false)).collect(),
      Re::Alt(xs) => {
        let body = xs.iter().map(|x| x.render(true)).collect::<Vec<_>>().join("|");
        if top { body } else { format!("({body})") }
      }
      Re::Star(x) => format!("{}*", x.atom()),
      Re::Plus(x) => format!("{}+", x.atom()),
      Re::Opt(x) => format!("{}?", x.atom()),
    }
  }
  fn atom(&self) -> String {
    match self {
      Re::Lit(_) | Re::Any | Re::Cls(_) => self.render(false),
      Re::Alt(_) => self.render(false),
      _ => format!("({})", self.render(true)),
    }
  }
  pub fn to_json(&self) -> Value {
    match self {
      Re::Lit(c) => json!({"k": "lit", "c": *c as u32}),
      Re::Any => json!({"k": "any"}),
      Re::Cls(cs) => json!({"k": "cls", "cs": cs.iter().map(|c| *c as u32).collect::<Vec<_>>()}),
      Re::Cat(xs) => json!({"k": "cat", "xs": xs.iter().map(|x| x.to_json()).collect::<Vec<_>>()}),
      Re::Alt(xs) => json!({"k": "alt", "xs": xs.iter().map(|x| x.to_json()).collect::<Vec<_>>()}),
      Re::Star(x) => json!({"k": "star", "x": x.to_json()}),
      Re::Plus(x) => json!({"k": "plus", "x": x.to_json()}),
      Re::Opt(x) => json!({"k": "opt", "x": x.to_json()}),
    }
  }
}

/// A pattern built around one or two corpus words: wildcards, classes, optional and repeated
/// characters at the start, in the middle and at the end, alternations with and without group.
pub fn gen_re(r: &mut StdRng) -> Re {
  let w: Vec<char> = pick(r, &WORDS).chars().collect();
  let w2: String = pick(r, &WORDS).to_string();
  let lits = |cs: &[char]| -> Vec<Re> { cs.iter().map(|c| Re::Lit(*c)).collect() };
  let i = r.gen_range(0..w.len());
  match r.gen_range(0..10) {
    0 => Re::Alt(vec![Re::word(&w.iter().collect::<String>()), Re::word(&w2)]),
    1 => {
      // common first letter, grouped alternation of the rests (the README's r(ust|uby))
      let mut xs = lits(&w[..1]);
      xs.push(Re::Alt(vec![Re::word(&w[1..].iter().collect::<String>()), Re::word(w2.get(1..).unwrap_or(""))]));
      Re::Cat(xs)
    }
    2 => {
      let mut xs = lits(&w);
      xs[i] = Re::Any;
      Re::Cat(xs)
    }
    3 => {
      let mut xs = lits(&w[..i]);
      xs.push(Re::Star(Box::new(Re::Any)));
      Re::Cat(xs)
    }
    4 => {
      let mut xs = lits(&w);
      xs[i] = Re::Opt(Box::new(Re::Lit(w[i])));
      Re::Cat(xs)
    }
    5 => {
      let mut xs = lits(&w);
      xs[i] = Re::Star(Box::new(Re::Lit(w[i])));
      Re::Cat(xs)
    }
    6 => {
      let mut xs = lits(&w);
      xs[i] = Re::Plus(Box::new(Re::Lit(w[i])));
      Re::Cat(xs)
    }
    7 => {
      let mut xs = lits(&w);
      xs[i] = Re::Cls(vec![w[i], *pick(r, &['a', 'j', 'r', 's'])]);
      Re::Cat(xs)
    }
    8 => {
      let mut xs = vec![Re::Star(Box::new(Re::Any))];
      xs.extend(lits(&w[i..]));
      Re::Cat(xs)
    }
    _ => {
      let mut xs = lits(&w[..i]);
      xs.push(Re::Opt(Box::new(Re::word(&w[i..].iter().collect::<String>()))));
      Re::Cat(xs)
    }
  }
}

pub struct GenCfg {
  pub depth: usize,
  pub boosts: bool,
  pub scoring_wrappers: bool,
  pub filters_in_bool: bool,
  pub expansions: bool,
  pub nested_filters: bool,
}

fn word(r: &mut StdRng) -> String {
  let w = *pick(r, &WORDS);
  match r.gen_range(0..8) {
    0 => w.to_uppercase(),
    1 => "unseen".to_string(),
    _ => w.to_string(),
  }
}

fn boost(r: &mut StdRng, cfg: &GenCfg) -> Option<f32> {
  if cfg.boosts && chance(r, 1, 3) {
    Some(*pick(r, &[0.5f32, 2.0, 1.5, 3.0, 0.0, 2.0]))
  } else {
    None
  }
}

pub fn gen_filter(r: &mut StdRng, depth: usize, nested_ok: bool, ctx: &str) -> F {
  // ctx: "" root, "comments", "comments.replies"
  let leaf = |r: &mut StdRng| -> F {
    match ctx {
      "" => match r.gen_range(0..7) {
        0 => F::KwEq("tag".into(), pick(r, &KW_TAGS).to_string()),
        1 => F::KwEq("cat".into(), pick(r, &KW_CATS).to_string()),
        2 => F::KwIn("tag".into(), (0..r.gen_range(1..=3)).map(|_| pick(r, &KW_TAGS).to_string()).collect()),
        3 => {
          let a = r.gen_range(2017..=2025);
          F::I64R("year".into(), a, a + r.gen_range(0..=3))
        }
        4 => {
          let a = r.gen_range(0..=6);
          F::I64R("rank".into(), a, a + r.gen_range(0..=2))
        }
        5 => {
          let a = r.gen_range(0..=24);
          F::F64R("price".into(), a, a + r.gen_range(0..=8))
        }
        // type-mismatched range: an i64 range on the f64 field / f64 range on the i64 field
        _ => {
          if chance(r, 1, 2) {
            F::I64R("price".into(), 0, 6)
          } else {
            F::F64R("year".into(), 2017 * 4, 2025 * 4)
          }
        }
      },
      "comments" => match r.gen_range(0..4) {
        0 => F::KwEq("author".into(), pick(r, &AUTHORS).to_string()),
        1 => F::KwIn("author".into(), (0..r.gen_range(1..=2)).map(|_| pick(r, &AUTHORS).to_string()).collect()),
        2 => {
          let a = r.gen_range(1..=5);
          F::I64R("stars".into(), a, a + r.gen_range(0..=2))
        }
        _ => {
          let a = r.gen_range(0..=8);
          F::F64R("score".into(), a, a + r.gen_range(0..=4))
        }
      },
      "reviews" => match r.gen_range(0..3) {
        0 => F::KwEq("author".into(), pick(r, &AUTHORS).to_string()),
        1 => F::KwIn("author".into(), (0..r.gen_range(1..=2)).map(|_| pick(r, &AUTHORS).to_string()).collect()),
        _ => {
          let a = r.gen_range(1..=5);
          F::I64R("stars".into(), a, a + r.gen_range(0..=2))
        }
      },
      _ => match r.gen_range(0..2) {
        0 => F::KwEq("user".into(), pick(r, &AUTHORS).to_string()),
        _ => {
          let a = r.gen_range(0..=3);
          F::I64R("votes".into(), a, a + r.gen_range(0..=1))
        }
      },
    }
  };
  if depth == 0 {
    return leaf(r);
  }
  let nest_path = match ctx {
    "" => Some(if chance(r, 1, 4) { ("reviews", "reviews") } else { ("comments", "comments") }),
    "comments" => Some(("replies", "comments.replies")),
    _ => None,
  };
  match r.gen_range(0..10) {
    0..=2 => leaf(r),
    3..=4 => F::And((0..r.gen_range(2..=3)).map(|_| gen_filter(r, depth - 1, nested_ok, ctx)).collect()),
    5 => F::Or((0..r.gen_range(2..=3)).map(|_| gen_filter(r, depth - 1, nested_ok, ctx)).collect()),
    6 => F::Not(Box::new(gen_filter(r, depth - 1, nested_ok, ctx))),
    _ => {
      if let (true, Some((p, full))) = (nested_ok, nest_path) {
        if chance(r, 1, 2) {
          // sibling nested clauses on the same path under And: must bind to one object
          // at the root the siblings may also alternate between the two nested paths (A-B-A):
          // grouping is by path, not by adjacency
          let n = r.gen_range(2..=4);
          F::And(
            (0..n)
              .map(|_| {
                let (p2, full2) = if ctx.is_empty() && chance(r, 1, 3) {
                  if p == "comments" { ("reviews", "reviews") } else { ("comments", "comments") }
                } else {
                  (p, full)
                };
                F::Nested(p2.to_string(), Box::new(gen_filter(r, depth - 1, nested_ok, full2)))
              })
              .collect(),
          )
        } else {
          F::Nested(p.to_string(), Box::new(gen_filter(r, depth - 1, nested_ok, full)))
        }
      } else {
        leaf(r)
      }
    }
  }
}

fn text_or_kw_field(r: &mut StdRng) -> String {
  match r.gen_range(0..6) {
    0 => "tag".to_string(),
    1 => "cat".to_string(),
    2 | 3 => "title".to_string(),
    _ => "body".to_string(),
  }
}

fn term_value(r: &mut StdRng, field: &str) -> String {
  match field {
    "tag" => pick(r, &["red", "RED", "green", "blue", "Blue"]).to_string(),
    "cat" => pick(r, &KW_CATS).to_string(),
    _ => word(r),
  }
}

pub fn gen_query(r: &mut StdRng, depth: usize, cfg: &GenCfg) -> Q {
  let leaf = |r: &mut StdRng| -> Q {
    match r.gen_range(0..12) {
      0 => Q::All,
      1..=3 => {
        let f = text_or_kw_field(r);
        let v = term_value(r, &f);
        Q::Term { field: f, value: v, boost: boost(r, cfg) }
      }
      4 if cfg.expansions => {
        let f = pick(r, &TEXT_FIELDS).to_string();
        let w = *pick(r, &WORDS);
        let n = r.gen_range(1..=w.chars().count().min(3));
        Q::Prefix { field: f, value: w.chars().take(n).collect(), cap: if chance(r, 1, 4) { Some(r.gen_range(1..=4)) } else { None }, boost: boost(r, cfg) }
      }
      5 if cfg.expansions => {
        let f = pick(r, &TEXT_FIELDS).to_string();
        let w = *pick(r, &WORDS);
        let cs: Vec<char> = w.chars().collect();
        let pat: String = match r.gen_range(0..4) {
          0 => format!("{}*", cs[..1.min(cs.len())].iter().collect::<String>()),
          1 => format!("*{}", cs[cs.len() - 1]),
          2 => {
            let mut p = cs.clone();
            let i = r.gen_range(0..p.len());
            p[i] = '?';
            p.into_iter().collect()
          }
          _ => format!("{}*{}", cs[0], cs[cs.len() - 1]),
        };
        if chance(r, 1, 3) {
          let re = gen_re(r);
          Q::Regex { field: f, value: re.render(true), re, cap: Some(100), boost: boost(r, cfg) }
        } else {
          Q::Wildcard { field: f, value: pat, cap: None, boost: boost(r, cfg) }
        }
      }
      6 | 7 => {
        let n = r.gen_range(1..=3);
        Q::Phrase {
          field: if chance(r, 2, 3) { Some(pick(r, &TEXT_FIELDS).to_string()) } else { None },
          terms: (0..n).map(|_| pick(r, &WORDS).to_string()).collect(),
          slop: if chance(r, 1, 2) { Some(r.gen_range(0..=2)) } else { None },
        }
      }
      8 | 9 => {
        let nt = r.gen_range(0..=3);
        let qt = |r: &mut StdRng| QsTerm {
          field: if chance(r, 1, 3) { Some(text_or_kw_field(r)) } else { None },
          word: String::new(),
        };
        let mut terms: Vec<QsTerm> = (0..nt).map(|_| qt(r)).collect();
        for t in terms.iter_mut() {
          t.word = match t.field.as_deref() {
            Some(f) => term_value(r, f),
            None => word(r),
          };
        }
        let mut nots: Vec<QsTerm> = (0..r.gen_range(0..=1)).map(|_| qt(r)).collect();
        for t in nots.iter_mut() {
          t.word = match t.field.as_deref() {
            Some(f) => term_value(r, f),
            None => word(r),
          };
        }
        let phrases = (0..if chance(r, 1, 4) { 1 } else { 0 })
          .map(|_| {
            (
              if chance(r, 1, 2) { Some(pick(r, &TEXT_FIELDS).to_string()) } else { None },
              (0..r.gen_range(1..=2)).map(|_| pick(r, &WORDS).to_string()).collect(),
            )
          })
          .collect();
        Q::QueryString {
          terms,
          nots,
          phrases,
          fields: if chance(r, 1, 3) { Some(vec![pick(r, &TEXT_FIELDS).to_string()]) } else { None },
          boost: boost(r, cfg),
        }
      }
      10 => {
        let nw = r.gen_range(1..=3);
        Q::MultiMatch {
          words: (0..nw).map(|_| word(r)).collect(),
          nots: if chance(r, 1, 5) { vec![word(r)] } else { vec![] },
          fields: if chance(r, 1, 2) {
            vec![("body".into(), boost(r, cfg)), ("title".into(), boost(r, cfg))]
          } else {
            vec![(pick(r, &TEXT_FIELDS).to_string(), None)]
          },
          mtype: *pick(r, &["best_fields", "most_fields", "cross_fields"]),
          and: match r.gen_range(0..3) {
            0 => None,
            1 => Some(false),
            _ => Some(true),
          },
          msm: if chance(r, 1, 4) { Some(r.gen_range(1..=2)) } else { None },
          tie: if chance(r, 1, 3) { Some(0.3) } else { None },
          boost: boost(r, cfg),
        }
      }
      _ => Q::ConstantScore { filter: gen_filter(r, 1, cfg.nested_filters, ""), boost: boost(r, cfg) },
    }
  };
  if depth == 0 {
    return leaf(r);
  }
  match r.gen_range(0..10) {
    0..=2 => leaf(r),
    3..=6 => {
      let n = |r: &mut StdRng, hi: usize| r.gen_range(0..=hi);
      let (nm, ns, nn) = (n(r, 2), n(r, 2), n(r, 1));
      let must = (0..nm).map(|_| gen_query(r, depth - 1, cfg)).collect::<Vec<_>>();
      let should = (0..ns).map(|_| gen_query(r, depth - 1, cfg)).collect::<Vec<_>>();
      let must_not = (0..nn).map(|_| gen_query(r, depth - 1, cfg)).collect::<Vec<_>>();
      let filter = if cfg.filters_in_bool && chance(r, 1, 3) { vec![gen_filter(r, 1, cfg.nested_filters, "")] } else { vec![] };
      let msm = if !should.is_empty() && chance(r, 1, 4) { Some(r.gen_range(0..=should.len())) } else { None };
      Q::Bool { must, should, must_not, filter, msm, boost: boost(r, cfg) }
    }
    7 => Q::DisMax {
      queries: (0..r.gen_range(1..=3)).map(|_| gen_query(r, depth - 1, cfg)).collect(),
      tie: if chance(r, 1, 2) { Some(*pick(r, &[0.0f32, 0.25, 0.5])) } else { None },
      boost: boost(r, cfg),
    },
    8 if cfg.scoring_wrappers => Q::FunctionScore {
      query: Box::new(gen_query(r, depth - 1, cfg)),
      weights: (0..r.gen_range(1..=2))
        .map(|_| (*pick(r, &[0.5f32, 2.0, 3.0]), if chance(r, 1, 2) { Some(gen_filter(r, 0, false, "")) } else { None }))
        .collect(),
      score_mode: if chance(r, 1, 2) { Some(*pick(r, &["sum", "multiply", "max", "min", "avg"])) } else { None },
      boost_mode: if chance(r, 1, 2) { Some(*pick(r, &["multiply", "sum", "replace", "max", "min"])) } else { None },
      max_boost: if chance(r, 1, 4) { Some(2.5) } else { None },
      boost: boost(r, cfg),
    },
    9 if cfg.scoring_wrappers => Q::Fvf {
      query: Box::new(gen_query(r, depth - 1, cfg)),
      field: "year".into(),
      factor: *pick(r, &[1.0f32, 0.5, 2.0]),
      missing: if chance(r, 1, 2) { Some(1.0) } else { None },
      boost_mode: if chance(r, 1, 2) { Some(*pick(r, &["multiply", "sum", "replace"])) } else { None },
    },
    _ => leaf(r),
  }
}

// ------------------------------------------------------------------------------------------------
// rendering to the public API
// ------------------------------------------------------------------------------------------------

fn put_boost(m: &mut serde_json::Map<String, Value>, b: &Option<f32>) {
  if let Some(b) = b {
    m.insert("boost".into(), json!(b));
  }
}

pub fn render_filter(f: &F) -> Value {
  match f {
    F::KwEq(field, v) => json!({"KeywordEq": {"field": field, "value": v}}),
    F::KwIn(field, vs) => json!({"KeywordIn": {"field": field, "values": vs}}),
    F::I64R(field, a, b) => json!({"I64Range": {"field": field, "min": a, "max": b}}),
    F::F64R(field, a, b) => json!({"F64Range": {"field": field, "min": *a as f64 / 4.0, "max": *b as f64 / 4.0}}),
    F::Nested(p, g) => json!({"Nested": {"path": p, "filter": render_filter(g)}}),
    F::And(gs) => json!({"And": gs.iter().map(render_filter).collect::<Vec<_>>()}),
    F::Or(gs) => json!({"Or": gs.iter().map(render_filter).collect::<Vec<_>>()}),
    F::Not(g) => json!({"Not": render_filter(g)}),
  }
}

fn qs_text(terms: &[QsTerm], nots: &[QsTerm], phrases: &[(Option<String>, Vec<String>)]) -> String {
  let mut parts = Vec::new();
  for t in terms {
    parts.push(match &t.field {
      Some(f) => format!("{f}:{}", t.word),
      None => t.word.clone(),
    });
  }
  for t in nots {
    parts.push(match &t.field {
      Some(f) => format!("-{f}:{}", t.word),
      None => format!("-{}", t.word),
    });
  }
  for (f, ws) in phrases {
    parts.push(match f {
      Some(f) => format!("\"{f}:{}\"", ws.join(" ")),
      None => format!("\"{}\"", ws.join(" ")),
    });
  }
  parts.join(" ")
}

pub fn render_query(q: &Q) -> Value {
  let mut m = serde_json::Map::new();
  match q {
    Q::All => {
      m.insert("type".into(), json!("match_all"));
    }
    Q::Term { field, value, boost } => {
      m.insert("type".into(), json!("term"));
      m.insert("field".into(), json!(field));
      m.insert("value".into(), json!(value));
      put_boost(&mut m, boost);
    }
    Q::Prefix { field, value, cap, boost } => {
      m.insert("type".into(), json!("prefix"));
      m.insert("field".into(), json!(field));
      m.insert("value".into(), json!(value));
      if let Some(c) = cap {
        m.insert("max_expansions".into(), json!(c));
      }
      put_boost(&mut m, boost);
    }
    Q::Regex { field, value, cap, boost, .. } => {
      m.insert("type".into(), json!("regex"));
      m.insert("field".into(), json!(field));
      m.insert("value".into(), json!(value));
      if let Some(c) = cap {
        m.insert("max_expansions".into(), json!(c));
      }
      put_boost(&mut m, boost);
    }
    Q::Wildcard { field, value, cap, boost } => {
      m.insert("type".into(), json!("wildcard"));
      m.insert("field".into(), json!(field));
      m.insert("value".into(), json!(value));
      if let Some(c) = cap {
        m.insert("max_expansions".into(), json!(c));
      }
      put_boost(&mut m, boost);
    }
    Q::Phrase { field, terms, slop } => {
      m.insert("type".into(), json!("phrase"));
      if let Some(f) = field {
        m.insert("field".into(), json!(f));
      }
      m.insert("terms".into(), json!(terms));
      if let Some(s) = slop {
        m.insert("slop".into(), json!(s));
      }
    }
    Q::QueryString { terms, nots, phrases, fields, boost } => {
      m.insert("type".into(), json!("query_string"));
      m.insert("query".into(), json!(qs_text(terms, nots, phrases)));
      if let Some(f) = fields {
        m.insert("fields".into(), json!(f));
      }
      put_boost(&mut m, boost);
    }
    Q::MultiMatch { words, nots, fields, mtype, and, msm, tie, boost } => {
      m.insert("type".into(), json!("multi_match"));
      let mut parts: Vec<String> = words.clone();
      parts.extend(nots.iter().map(|n| format!("-{n}")));
      m.insert("query".into(), json!(parts.join(" ")));
      m.insert(
        "fields".into(),
        Value::Array(
          fields
            .iter()
            .map(|(f, b)| match b {
              Some(b) => json!({"field": f, "boost": b}),
              None => json!({"field": f}),
            })
            .collect(),
        ),
      );
      m.insert("match_type".into(), json!(mtype));
      if let Some(a) = and {
        m.insert("operator".into(), json!(if *a { "and" } else { "or" }));
      }
      if let Some(n) = msm {
        m.insert("minimum_should_match".into(), json!(n));
      }
      if let Some(t) = tie {
        m.insert("tie_breaker".into(), json!(t));
      }
      put_boost(&mut m, boost);
    }
    Q::Bool { must, should, must_not, filter, msm, boost } => {
      m.insert("type".into(), json!("bool"));
      m.insert("must".into(), Value::Array(must.iter().map(render_query).collect()));
      m.insert("should".into(), Value::Array(should.iter().map(render_query).collect()));
      m.insert("must_not".into(), Value::Array(must_not.iter().map(render_query).collect()));
      m.insert("filter".into(), Value::Array(filter.iter().map(render_filter).collect()));
      if let Some(n) = msm {
        m.insert("minimum_should_match".into(), json!(n));
      }
      put_boost(&mut m, boost);
    }
    Q::DisMax { queries, tie, boost } => {
      m.insert("type".into(), json!("dis_max"));
      m.insert("queries".into(), Value::Array(queries.iter().map(render_query).collect()));
      if let Some(t) = tie {
        m.insert("tie_breaker".into(), json!(t));
      }
      put_boost(&mut m, boost);
    }
    Q::ConstantScore { filter, boost } => {
      m.insert("type".into(), json!("constant_score"));
      m.insert("filter".into(), render_filter(filter));
      put_boost(&mut m, boost);
    }
    Q::FunctionScore { query, weights, score_mode, boost_mode, max_boost, boost } => {
      m.insert("type".into(), json!("function_score"));
      m.insert("query".into(), render_query(query));
      m.insert(
        "functions".into(),
        Value::Array(
          weights
            .iter()
            .map(|(w, f)| match f {
              Some(f) => json!({"type": "weight", "weight": w, "filter": render_filter(f)}),
              None => json!({"type": "weight", "weight": w}),
            })
            .collect(),
        ),
      );
      if let Some(s) = score_mode {
        m.insert("score_mode".into(), json!(s));
      }
      if let Some(s) = boost_mode {
        m.insert("boost_mode".into(), json!(s));
      }
      if let Some(s) = max_boost {
        m.insert("max_boost".into(), json!(s));
      }
      put_boost(&mut m, boost);
    }
    Q::Fvf { query, field, factor, missing, boost_mode } => {
      m.insert("type".into(), json!("function_score"));
      m.insert("query".into(), render_query(query));
      let mut f = json!({"type": "field_value_factor", "field": field, "factor": factor});
      if let Some(mi) = missing {
        f["missing"] = json!(mi);
      }
      m.insert("functions".into(), json!([f]));
      if let Some(s) = boost_mode {
        m.insert("boost_mode".into(), json!(s));
      }
    }
  }
  Value::Object(m)
}

// ------------------------------------------------------------------------------------------------
// abstract form for the specification
// ------------------------------------------------------------------------------------------------

fn e4(x: f32) -> i64 {
  ((x as f64 * 10000.0).round() as i64).clamp(-2_000_000_000, 2_000_000_000)
}

fn field_kind(schema: &Schema, f: &str) -> &'static str {
  use searchlite_core::api::types::Schema as _S;
  let _ = std::marker::PhantomData::<_S>;
  let meta = schema.resolved_fields().into_iter().find(|x| x.path == f);
  match meta {
    Some(m) => {
      let k = format!("{:?}", m.kind);
      if k.contains("Text") {
        "text"
      } else if k.contains("Keyword") {
        "kw"
      } else {
        "num"
      }
    }
    None => "none",
  }
}

/// One alternative of a term group: field, kind and the tokens that satisfy it.
fn term_alt(schema: &Schema, field: &str, raw: &str, w_e4: i64, dict: &mut Dict) -> Option<Value> {
  match field_kind(schema, field) {
    "text" => {
      let mut toks: Vec<String> = Vec::new();
      for (t, _) in analyse_search(schema, field, raw) {
        if !toks.contains(&t) {
          toks.push(t);
        }
      }
      for t in toks.iter() {
        dict.add(t);
      }
      Some(json!({"f": field, "kind": "text", "toks": toks, "w": w_e4}))
    }
    "kw" => {
      let t = raw.to_ascii_lowercase();
      dict.add(&t);
      Some(json!({"f": field, "kind": "kw", "toks": [t], "w": w_e4}))
    }
    _ => None,
  }
}

fn term_node(schema: &Schema, fields: &[(String, i64)], raw: &str, scored: bool, dict: &mut Dict) -> Value {
  let alts: Vec<Value> = fields.iter().filter_map(|(f, w)| term_alt(schema, f, raw, *w, dict)).collect();
  json!({"k": "term", "alts": alts, "sc": scored})
}

fn pattern_token(schema: &Schema, field: &str, raw: &str) -> String {
  // what the search analyzer makes of a pattern: its single token, else the normalised pattern
  let an = schema.build_analyzers().expect("analyzers");
  match an.search_analyzer(field) {
    Some(a) => {
      let toks: Vec<String> = a.analyze(raw).into_iter().map(|t| t.text).collect();
      if toks.len() == 1 {
        toks[0].clone()
      } else {
        a.normalize_pattern(raw)
      }
    }
    None => raw.to_string(),
  }
}

fn phrase_alt(schema: &Schema, field: &str, terms: &[String], dict: &mut Dict) -> Option<Value> {
  if field_kind(schema, field) != "text" {
    return None;
  }
  let toks = analyse_search(schema, field, &terms.join(" "));
  if toks.is_empty() {
    return None;
  }
  let mut positions: Vec<Vec<String>> = Vec::new();
  for (t, p) in toks {
    let p = p as usize;
    if positions.len() <= p {
      positions.resize(p + 1, Vec::new());
    }
    if !positions[p].contains(&t) {
      dict.add(&t);
      positions[p].push(t);
    }
  }
  Some(json!({"f": field, "pos": positions}))
}

pub fn abstract_filter(f: &F, dict: &mut Dict) -> Value {
  match f {
    F::KwEq(field, v) => {
      dict.add(v);
      json!({"k": "kweq", "f": field, "vs": [v]})
    }
    F::KwIn(field, vs) => {
      for v in vs {
        dict.add(v);
      }
      json!({"k": "kweq", "f": field, "vs": vs})
    }
    F::I64R(field, a, b) => json!({"k": "i64r", "f": field, "min": a, "max": b}),
    F::F64R(field, a, b) => json!({"k": "f64r", "f": field, "min": a, "max": b}),
    F::Nested(p, g) => json!({"k": "nested", "path": p, "g": abstract_filter(g, dict)}),
    F::And(gs) => json!({"k": "and", "gs": gs.iter().map(|g| abstract_filter(g, dict)).collect::<Vec<_>>()}),
    F::Or(gs) => json!({"k": "or", "gs": gs.iter().map(|g| abstract_filter(g, dict)).collect::<Vec<_>>()}),
    F::Not(g) => json!({"k": "not", "g": abstract_filter(g, dict)}),
  }
}

/// `scored`: is this node in scoring context; `b`: accumulated boost (x1e4).
pub fn abstract_query(schema: &Schema, q: &Q, default_fields: &[String], scored: bool, b: f64, dict: &mut Dict) -> Value {
  let w = |x: f64| (x * 10000.0).round() as i64;
  let nb = |x: &Option<f32>| x.map(|v| v as f64).unwrap_or(1.0);
  match q {
    Q::All => json!({"k": "all"}),
    Q::Term { field, value, boost } => term_node(schema, &[(field.clone(), w(b * nb(boost)))], value, scored, dict),
    Q::Prefix { field, value, cap, boost } => {
      let p = pattern_token(schema, field, value);
      dict.add(&p);
      json!({"k": "prefix", "f": field, "kind": field_kind(schema, field), "p": p, "cap": cap.unwrap_or(50), "sc": scored, "w": w(b * nb(boost))})
    }
    Q::Regex { field, value, re, cap, boost } => {
      // the search analyzer may reduce the pattern to its single token (then it is a literal)
      let eff = pattern_token(schema, field, value);
      let ast = if eff == *value { re.to_json() } else { Re::word(&eff).to_json() };
      json!({"k": "regex", "f": field, "kind": field_kind(schema, field), "ast": ast, "cap": cap.unwrap_or(100), "sc": scored, "w": w(b * nb(boost))})
    }
    Q::Wildcard { field, value, cap, boost } => {
      let p = pattern_token(schema, field, value);
      dict.add(&p);
      json!({"k": "wild", "f": field, "kind": field_kind(schema, field), "p": p, "cap": cap.unwrap_or(100), "sc": scored, "w": w(b * nb(boost))})
    }
    Q::Phrase { field, terms, slop } => {
      let fields: Vec<String> = match field {
        Some(f) => vec![f.clone()],
        None => default_fields.to_vec(),
      };
      let alts: Vec<Value> = fields.iter().filter_map(|f| phrase_alt(schema, f, terms, dict)).collect();
      json!({"k": "phrase", "alts": alts, "slop": slop.unwrap_or(0)})
    }
    Q::QueryString { terms, nots, phrases, fields, boost } => {
      let base: Vec<String> = fields.clone().unwrap_or_else(|| default_fields.to_vec());
      let bw = w(b * nb(boost));
      let fl = |t: &QsTerm| -> Vec<(String, i64)> {
        match &t.field {
          Some(f) => vec![(f.clone(), bw)],
          None => base.iter().map(|f| (f.clone(), bw)).collect(),
        }
      };
      let groups: Vec<Value> = terms.iter().map(|t| term_node(schema, &fl(t), &t.word, scored, dict)).collect();
      let ns: Vec<Value> = nots.iter().map(|t| term_node(schema, &fl(t), &t.word, false, dict)).collect();
      let ps: Vec<Value> = phrases
        .iter()
        .map(|(f, ws)| {
          let fs: Vec<String> = match f {
            Some(f) => vec![f.clone()],
            None => base.clone(),
          };
          let alts: Vec<Value> = fs.iter().filter_map(|f| phrase_alt(schema, f, ws, dict)).collect();
          json!({"k": "phrase", "alts": alts, "slop": 0})
        })
        .collect();
      json!({"k": "qs", "groups": groups, "nots": ns, "phrases": ps, "hasmsm": false, "msmv": 0,
             "and": false, "comb": "sum", "tie": 0})
    }
    Q::MultiMatch { words, nots, fields, mtype, and, msm, tie, boost } => {
      let bw = b * nb(boost);
      let fl: Vec<(String, i64)> = fields.iter().map(|(f, fb)| (f.clone(), w(bw * nb(fb)))).collect();
      let groups: Vec<Value> = words.iter().map(|t| term_node(schema, &fl, t, scored, dict)).collect();
      let ns: Vec<Value> = nots.iter().map(|t| term_node(schema, &fl, t, false, dict)).collect();
      json!({"k": "qs", "groups": groups, "nots": ns, "phrases": [], "hasmsm": msm.is_some(),
             "msmv": msm.unwrap_or(0), "and": and.unwrap_or(false),
             "comb": *mtype, "tie": w(tie.unwrap_or(0.0) as f64)})
    }
    Q::Bool { must, should, must_not, filter, msm, boost } => {
      let cb = b * nb(boost);
      json!({
        "k": "bool",
        "must": must.iter().map(|c| abstract_query(schema, c, default_fields, scored, cb, dict)).collect::<Vec<_>>(),
        "should": should.iter().map(|c| abstract_query(schema, c, default_fields, scored, cb, dict)).collect::<Vec<_>>(),
        "mustnot": must_not.iter().map(|c| abstract_query(schema, c, default_fields, false, cb, dict)).collect::<Vec<_>>(),
        "filter": filter.iter().map(|f| abstract_filter(f, dict)).collect::<Vec<_>>(),
        "hasmsm": msm.is_some(), "msm": msm.unwrap_or(0),
      })
    }
    Q::DisMax { queries, tie, boost } => {
      let cb = b * nb(boost);
      json!({
        "k": "dismax",
        "qs": queries.iter().map(|c| abstract_query(schema, c, default_fields, scored, cb, dict)).collect::<Vec<_>>(),
        "tie": w(tie.unwrap_or(0.0) as f64),
      })
    }
    Q::ConstantScore { filter, boost } => json!({"k": "const", "g": abstract_filter(filter, dict), "score": w(b * nb(boost))}),
    Q::FunctionScore { query, weights, score_mode, boost_mode, max_boost, boost } => json!({
      "k": "fscore",
      "q": abstract_query(schema, query, default_fields, scored, b, dict),
      "fns": weights.iter().map(|(wt, f)| json!({
        "w": w(*wt as f64), "hasf": f.is_some(),
        "g": f.as_ref().map(|f| abstract_filter(f, dict)).unwrap_or(json!({"k": "true"})),
      })).collect::<Vec<_>>(),
      "smode": score_mode.unwrap_or("sum"), "bmode": boost_mode.unwrap_or("multiply"),
      "hasmax": max_boost.is_some(), "maxb": w(max_boost.unwrap_or(0.0) as f64),
      "boost": w(b * nb(boost)),
    }),
    Q::Fvf { query, field, factor, missing, boost_mode } => json!({
      "k": "fvf",
      "q": abstract_query(schema, query, default_fields, scored, b, dict),
      "f": field, "factor": w(*factor as f64), "hasmissing": missing.is_some(),
      "missing": w(missing.unwrap_or(0.0)), "bmode": boost_mode.unwrap_or("multiply"), "boost": w(b),
    }),
  }
}

pub fn _e4(x: f32) -> i64 {
  e4(x)
}
