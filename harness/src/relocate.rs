//! C28 driver: a committed index directory is copied (cp -a semantics) or moved to a new path;
//! the original is kept, modified by further commits (and compaction), or removed; then the copy
//! is opened at the new path and searched, committed to and compacted while the traced-fs hook
//! records every primitive file operation (reads and opens included). Each recorded path is
//! classified as under the copy's root (B), under the original's root (A) or elsewhere. A
//! before/after inventory (names, sizes, content hashes) of the original is diffed.
//! The verdicts (Confined, SameResults, OriginalUntouched) come from spec/Trace_Relocate.tla.

use std::collections::BTreeMap;
use std::path::{Component, Path, PathBuf};

use anyhow::{anyhow, Result};
use rand::rngs::StdRng;
use rand::Rng;
use serde_json::{json, Value};

use searchlite_core::api::types::StorageType;
use searchlite_core::api::Index;
use searchlite_core::verif;

use crate::corrupt::{battery, fnv, make_doc, schema_json};
use crate::history::IDS;
use crate::util::*;

fn normalize(p: &Path, cwd: &Path) -> PathBuf {
  let abs = if p.is_absolute() { p.to_path_buf() } else { cwd.join(p) };
  let mut out = PathBuf::new();
  for c in abs.components() {
    match c {
      Component::CurDir => {}
      Component::ParentDir => {
        out.pop();
      }
      other => out.push(other.as_os_str()),
    }
  }
  out
}

/// (class, name): class B = under the copy's root, A = under the original's root, else `other`.
fn classify(path: &str, cwd: &Path, a: &Path, b: &Path) -> (&'static str, String) {
  let p = normalize(Path::new(path), cwd);
  if let Ok(rel) = p.strip_prefix(b) {
    ("B", rel.to_string_lossy().into_owned())
  } else if let Ok(rel) = p.strip_prefix(a) {
    ("A", rel.to_string_lossy().into_owned())
  } else {
    ("other", p.to_string_lossy().into_owned())
  }
}

/// Recursive copy, like `cp -a src dst` for regular files and directories.
fn copy_tree(src: &Path, dst: &Path) -> Result<()> {
  std::fs::create_dir_all(dst)?;
  let mut entries: Vec<PathBuf> = std::fs::read_dir(src)?.map(|e| e.map(|e| e.path())).collect::<std::io::Result<_>>()?;
  entries.sort();
  for p in entries {
    let to = dst.join(p.file_name().unwrap());
    if p.is_dir() {
      copy_tree(&p, &to)?;
    } else {
      std::fs::copy(&p, &to)?;
    }
  }
  Ok(())
}

/// name -> (size, content hash); empty when the directory does not exist.
fn inventory(root: &Path) -> BTreeMap<String, (u64, String)> {
  if !root.exists() {
    return BTreeMap::new();
  }
  crate::corrupt::read_tree(root)
    .unwrap_or_default()
    .into_iter()
    .map(|(n, d)| {
      let h = fnv(&d.iter().map(|b| format!("{b:02x}")).collect::<String>());
      (n, (d.len() as u64, h))
    })
    .collect()
}

fn id_ver_list(idx: &Index) -> Result<Vec<(String, u64)>> {
  Ok(
    contents(idx)?
      .into_iter()
      .map(|(id, f)| {
        let ver = f.get("ver").and_then(|v| v.as_u64()).unwrap_or(0);
        (id, ver)
      })
      .collect(),
  )
}

fn idver_json(l: &[(String, u64)]) -> Value {
  Value::Array(l.iter().map(|(i, v)| json!({"id": i, "ver": v})).collect())
}

/// Digests of the observation battery (scores and stored fields included).
fn digests(idx: &Index) -> Result<Vec<String>> {
  let reader = idx.reader()?;
  let mut out = Vec::new();
  for (_, req) in battery() {
    let res = reader.search(&request(req))?;
    let mut s = format!("total={}", res.total_hits_estimate);
    for h in res.hits.iter() {
      s.push_str(&format!(
        " | {} s={:08x} f={}",
        h.doc_id,
        h.score.to_bits(),
        h.fields.as_ref().map(|f| f.to_string()).unwrap_or_default()
      ));
    }
    out.push(fnv(&s));
  }
  Ok(out)
}

struct WriteOps {
  adds: Vec<(String, u64)>,
  dels: Vec<String>,
}

fn random_write_ops(r: &mut StdRng, ver: &mut u64, ids: &[&str]) -> WriteOps {
  let mut w = WriteOps { adds: Vec::new(), dels: Vec::new() };
  for _ in 0..r.gen_range(1..=3) {
    *ver += 1;
    w.adds.push((pick(r, ids).to_string(), *ver));
  }
  for _ in 0..r.gen_range(0..=2) {
    w.dels.push(pick(r, ids).to_string());
  }
  w
}

/// add all, then delete all, then commit (the order the trace specification folds them in).
fn apply_write_ops(idx: &Index, w: &WriteOps, r: &mut StdRng) -> Result<()> {
  let mut wr = idx.writer()?;
  for (id, ver) in w.adds.iter() {
    wr.add_document(&doc_from_json(make_doc(id, *ver, r)))?;
  }
  if !w.dels.is_empty() {
    wr.delete_documents(&w.dels)?;
  }
  wr.commit()?;
  Ok(())
}

fn ops_json(w: &WriteOps) -> Value {
  let mut ops: Vec<Value> = w.adds.iter().map(|(i, v)| json!({"t": "add", "id": i, "ver": v})).collect();
  ops.extend(w.dels.iter().map(|i| json!({"t": "del", "id": i, "ver": 0})));
  Value::Array(ops)
}

struct Stats {
  fs_events: usize,
  calls: usize,
  under_a: usize,
  distinct: std::collections::BTreeSet<String>,
}

struct Ctx<'a> {
  cwd: PathBuf,
  a_abs: PathBuf,
  b_abs: PathBuf,
  tr: &'a mut Tracer,
  st: &'a mut Stats,
}

impl<'a> Ctx<'a> {
  /// Emit the fs events recorded during a call made through the copy.
  fn flush_fs(&mut self) {
    for ev in verif::take_events() {
      if ev.op == "point" {
        continue;
      }
      let (cls, name) = classify(&ev.path, &self.cwd, &self.a_abs, &self.b_abs);
      let (to_cls, to_name) = if ev.op == "rename" {
        classify(&ev.path2, &self.cwd, &self.a_abs, &self.b_abs)
      } else {
        (cls, String::new())
      };
      if cls == "A" || to_cls == "A" {
        self.st.under_a += 1;
      }
      self.st.fs_events += 1;
      self.st.distinct.insert(format!("{}|{}|{}|{}", ev.op, cls, suffix(&name), ev.ok));
      self.tr.emit(json!({
        "ev": "fs", "op": ev.op, "cls": cls, "name": name, "to_cls": to_cls, "to": to_name, "ok": ev.ok,
      }));
    }
  }
}

fn suffix(name: &str) -> String {
  name.rsplit('.').next().unwrap_or("").to_string()
}

#[allow(clippy::too_many_arguments)]
fn run_scenario(scn: usize, seed: u64, n_ops: usize, tr: &mut Tracer, st: &mut Stats) -> Result<()> {
  let mut r = rng(seed, 28_000_000 + scn as u64);
  let scratch = Scratch::new("reloc");
  let cwd = scratch.path.clone();
  std::env::set_current_dir(&cwd)?;
  // directory names: unrelated, or one a textual (not component-wise) prefix of the other, as when a
  // backup `idx.bak` is restored to `idx` or `idx` is backed up to `idx.bak`
  let (a_rel, b_rel) = *pick(&mut r, &[("a/idx", "b/idx"), ("a/idx", "b/idx"), ("idx.bak", "idx"), ("idx", "idx.bak"), ("d/idx_old", "d/idx"), ("d/idx", "d/idx2")]);
  let a_abs = cwd.join(a_rel);
  let b_abs = cwd.join(b_rel);
  let via_a = if chance(&mut r, 1, 2) { "rel" } else { "abs" };
  let via_b = if chance(&mut r, 1, 2) { "rel" } else { "abs" };
  let a_path = if via_a == "rel" { PathBuf::from(a_rel) } else { a_abs.clone() };
  let b_path = if via_b == "rel" { PathBuf::from(b_rel) } else { b_abs.clone() };
  let how = if chance(&mut r, 1, 4) { "move" } else { "copy" };
  let fate = if how == "move" {
    "moved"
  } else {
    *pick(&mut r, &["kept", "kept", "modified", "compacted", "removed", "removed"])
  };
  let ids = &IDS[..6];
  let mut ver = 0u64;
  // the original: 1-3 commits
  let schema = schema_from_json(schema_json());
  let pre;
  let pre_digest;
  let segnames: Vec<String>;
  {
    let idx = Index::create(&a_path, schema, opts(&a_path, StorageType::Filesystem))?;
    for _ in 0..r.gen_range(1..=3) {
      let w = random_write_ops(&mut r, &mut ver, ids);
      apply_write_ops(&idx, &w, &mut r)?;
    }
    if idx.manifest().segments.is_empty() {
      // adds cancelled by deletes: commit one document so that there is something to relocate
      ver += 1;
      let w = WriteOps { adds: vec![(ids[0].to_string(), ver)], dels: Vec::new() };
      apply_write_ops(&idx, &w, &mut r)?;
    }
    pre = id_ver_list(&idx)?;
    pre_digest = digests(&idx)?;
    let m = idx.manifest();
    let mut names = Vec::new();
    for s in m.segments.iter() {
      for p in [&s.paths.terms, &s.paths.postings, &s.paths.docstore, &s.paths.fast, &s.paths.meta] {
        names.push(Path::new(p).file_name().unwrap().to_string_lossy().into_owned());
      }
      if let Some(d) = s.paths.vector_dir.as_ref() {
        names.push(Path::new(d).file_name().unwrap().to_string_lossy().into_owned());
      }
    }
    segnames = names;
  }
  // relocate
  std::fs::create_dir_all(b_abs.parent().unwrap())?;
  if how == "move" {
    std::fs::rename(&a_abs, &b_abs)?;
  } else {
    copy_tree(&a_abs, &b_abs)?;
  }
  // fate of the original
  match fate {
    "modified" | "compacted" => {
      let idx = Index::open(opts(&a_path, StorageType::Filesystem))?;
      let w = random_write_ops(&mut r, &mut ver, ids);
      apply_write_ops(&idx, &w, &mut r)?;
      if fate == "compacted" {
        idx.compact()?;
      }
    }
    "removed" => std::fs::remove_dir_all(&a_abs)?,
    _ => {}
  }
  let inv_before = inventory(&a_abs);
  tr.emit(json!({
    "ev": "reset", "scn": scn, "via_a": via_a, "via_b": via_b, "how": how, "fate": fate, "a_dir": a_rel, "b_dir": b_rel,
    "pre": idver_json(&pre), "pre_digest": pre_digest, "segnames": segnames,
    "a_exists": a_abs.exists(), "a_files": inv_before.len(),
  }));
  // operations through the copy
  let mut plan: Vec<&str> = vec!["open", "search"];
  let mut has_compact = false;
  for _ in 0..n_ops {
    let roll = r.gen_range(0..100);
    let op = match roll {
      0..=19 => "search",
      20..=59 => "commit",
      60..=84 => "compact",
      _ => "open",
    };
    has_compact |= op == "compact";
    plan.push(op);
    if op != "search" {
      plan.push("search");
    }
  }
  if !has_compact {
    plan.push("commit");
    plan.push("compact");
    plan.push("search");
  }
  let mut ctx = Ctx { cwd: cwd.clone(), a_abs: a_abs.clone(), b_abs: b_abs.clone(), tr, st };
  let mut idx: Option<Index> = None;
  for op in plan {
    if op != "open" && idx.is_none() {
      break;
    }
    ctx.st.calls += 1;
    match op {
      "open" => {
        drop(idx.take());
        ctx.tr.emit(json!({"ev": "call", "op": "open", "ops": []}));
        verif::start_recording();
        let res = Index::open(opts(&b_path, StorageType::Filesystem));
        verif::stop_recording();
        ctx.flush_fs();
        let err = res.as_ref().err().map(|e| format!("{e:#}")).unwrap_or_default();
        ctx.tr.emit(json!({"ev": "ret", "ok": res.is_ok(), "obs": [], "digest": [], "err": err}));
        idx = res.ok();
      }
      "search" => {
        let i = idx.as_ref().unwrap();
        ctx.tr.emit(json!({"ev": "call", "op": "search", "ops": []}));
        verif::start_recording();
        let res = id_ver_list(i).and_then(|l| digests(i).map(|d| (l, d)));
        verif::stop_recording();
        ctx.flush_fs();
        match res {
          Ok((l, d)) => ctx.tr.emit(json!({"ev": "ret", "ok": true, "obs": idver_json(&l), "digest": d, "err": ""})),
          Err(e) => ctx.tr.emit(json!({"ev": "ret", "ok": false, "obs": [], "digest": [], "err": format!("{e:#}")})),
        }
      }
      "commit" => {
        let i = idx.as_ref().unwrap();
        let w = random_write_ops(&mut r, &mut ver, ids);
        ctx.tr.emit(json!({"ev": "call", "op": "commit", "ops": ops_json(&w)}));
        verif::start_recording();
        let res = apply_write_ops(i, &w, &mut r);
        verif::stop_recording();
        ctx.flush_fs();
        let err = res.as_ref().err().map(|e| format!("{e:#}")).unwrap_or_default();
        ctx.tr.emit(json!({"ev": "ret", "ok": res.is_ok(), "obs": [], "digest": [], "err": err}));
      }
      "compact" => {
        let i = idx.as_ref().unwrap();
        ctx.tr.emit(json!({"ev": "call", "op": "compact", "ops": []}));
        verif::start_recording();
        let res = i.compact();
        verif::stop_recording();
        ctx.flush_fs();
        let err = res.as_ref().err().map(|e| format!("{e:#}")).unwrap_or_default();
        ctx.tr.emit(json!({"ev": "ret", "ok": res.is_ok(), "obs": [], "digest": [], "err": err}));
      }
      _ => unreachable!(),
    }
  }
  drop(idx);
  let _ = verif::take_events();
  // what happened to the original
  let inv_after = inventory(&a_abs);
  let removed: Vec<&String> = inv_before.keys().filter(|k| !inv_after.contains_key(*k)).collect();
  let added: Vec<&String> = inv_after.keys().filter(|k| !inv_before.contains_key(*k)).collect();
  let changed: Vec<&String> = inv_before
    .iter()
    .filter(|(k, v)| inv_after.get(*k).map(|w| w != *v).unwrap_or(false))
    .map(|(k, _)| k)
    .collect();
  ctx.tr.emit(json!({
    "ev": "inv", "removed": removed, "added": added, "changed": changed,
    "a_exists_after": a_abs.exists(),
  }));
  std::env::set_current_dir("/")?;
  Ok(())
}

pub fn main(args: &Args) -> Result<()> {
  let seed = args.u64("seed", 1);
  let out = args.str("out", "/verif/out/relocate.ndjson");
  let n_scn = args.usize("scenarios", 30);
  let n_ops = args.usize("ops", 4);
  let out_abs = normalize(Path::new(&out), &std::env::current_dir()?);
  let mut tr = Tracer::create(&out_abs)?;
  let mut st = Stats { fs_events: 0, calls: 0, under_a: 0, distinct: Default::default() };
  let home = std::env::current_dir()?;
  let mut res = Ok(());
  for scn in 0..n_scn {
    res = run_scenario(scn, seed, n_ops, &mut tr, &mut st);
    if res.is_err() {
      break;
    }
  }
  let _ = std::env::set_current_dir(&home);
  res.map_err(|e| anyhow!("relocate scenario failed: {e:#}"))?;
  let lines = tr.finish();
  println!(
    "{}",
    json!({"scenarios": n_scn, "events": lines, "fs_events": st.fs_events, "calls": st.calls,
           "events_under_original": st.under_a, "distinct": st.distinct.len(), "out": out})
  );
  Ok(())
}
