//! (stub) family `relocate` - see CONTRIBUTING.md
use anyhow::{bail, Result};

use crate::util::Args;

pub fn main(_args: &Args) -> Result<()> {
  bail!("family relocate is not implemented yet")
}
