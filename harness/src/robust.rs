//! C16 driver: search never panics, aborts or hangs on any request that deserialises.
//!
//! Parent process: builds three small random indexes (text/keyword/numeric/nested/vector fields,
//! two segments, deletions, non-ASCII text) plus an older generation of each, writes a *plan*
//! (TLC-generated class vectors from Gen_Requests.tla, structure-aware random requests, byte/char
//! mutants of valid request JSON that still deserialise) and runs it in child processes
//! (`svh robust --child`). The child instantiates each class vector into concrete request JSON and
//! executes every request on a worker thread under catch_unwind with a watchdog; a child that dies
//! (stack overflow, allocation failure, abort) is restarted after the request that killed it, which
//! is recorded as `Abort`. One event per request {cls, outcome, panic{cls,loc,msg}} is written for
//! spec/Trace_Requests.tla, which owns the verdict (Outcome(cls) of spec/Requests.tla).

use std::collections::{BTreeMap, BTreeSet};
use std::io::Write;
use std::panic::{catch_unwind, AssertUnwindSafe};
use std::path::{Path, PathBuf};
use std::sync::mpsc;
use std::sync::Mutex;
use std::time::{Duration, Instant};

use anyhow::{bail, Context, Result};
use rand::rngs::StdRng;
use rand::Rng;
use serde_json::{json, Map, Value};

use searchlite_core::api::types::{SearchRequest, StorageType};
use searchlite_core::api::{Index, IndexReader};

use crate::util::*;

const UMAX: u64 = u64::MAX;

// ------------------------------------------------------------------------------------------------
// Indexes
// ------------------------------------------------------------------------------------------------

fn index_schema(k: usize) -> Value {
  let body_analyzer = if k == 2 { "uni" } else { "default" };
  let mut s = json!({
    "doc_id_field": "_id",
    "analyzers": [{"name": "uni", "tokenizer": "unicode", "filters": [{"stopwords": "en"}]}],
    "text_fields": [
      {"name": "body", "analyzer": body_analyzer, "stored": true, "indexed": true, "nullable": true},
      {"name": "title", "analyzer": "default", "stored": true, "indexed": true, "nullable": true}
    ],
    "keyword_fields": [
      {"name": "tag", "stored": true, "indexed": true, "fast": true, "nullable": true},
      {"name": "cat", "stored": true, "indexed": true, "fast": false, "nullable": true},
      {"name": "lang", "stored": true, "indexed": true, "fast": true, "nullable": true}
    ],
    "numeric_fields": [
      {"name": "year", "i64": true, "fast": true, "stored": true, "nullable": true},
      {"name": "price", "i64": false, "fast": true, "stored": true, "nullable": true},
      {"name": "views", "i64": true, "fast": false, "stored": true, "nullable": true}
    ],
    "nested_fields": [
      {"name": "comment", "nullable": true, "fields": [
        {"type": "keyword", "name": "author", "stored": true, "indexed": true, "fast": true, "nullable": true},
        {"type": "numeric", "name": "score", "i64": true, "fast": true, "stored": true, "nullable": true}
      ]}
    ],
    "vector_fields": []
  });
  if k == 1 {
    s["vector_fields"] = json!([{"name": "emb", "dim": 2, "metric": "Cosine"}]);
  }
  s
}

const VOCAB: [&str; 20] = [
  "rust", "search", "rust", "search", "ruby", "systems", "language", "engine", "syst\u{e8}me",
  "na\u{ef}ve", "\u{65e5}\u{672c}\u{8a9e}", "\u{1f680}", "fast", "index", "query", "rusty", "rest", "r\u{e9}sum\u{e9}",
  "\u{3b1}\u{3b2}\u{3b3}", "zeta",
];

fn random_doc(k: usize, i: usize, r: &mut StdRng) -> Value {
  let words = |r: &mut StdRng, n: usize| -> String {
    let mut w: Vec<&str> = (0..n).map(|_| *pick(r, &VOCAB)).collect();
    if chance(r, 3, 4) {
      w.push("rust");
    }
    if chance(r, 2, 3) {
      w.insert(0, "search");
    }
    w.join(" ")
  };
  let mut d = Map::new();
  d.insert("_id".into(), json!(format!("d{i}")));
  let nb = r.gen_range(3..12);
  d.insert("body".into(), json!(words(r, nb)));
  if chance(r, 5, 6) {
    let nt = r.gen_range(1..4);
    d.insert("title".into(), json!(words(r, nt)));
  }
  match r.gen_range(0..4) {
    0 => {}
    1 => {
      d.insert("tag".into(), json!([format!("t{}", r.gen_range(0..4)), format!("T{}", r.gen_range(0..2))]));
    }
    _ => {
      d.insert("tag".into(), json!(format!("t{}", r.gen_range(0..4))));
    }
  }
  if chance(r, 2, 3) {
    d.insert("cat".into(), json!(format!("c{}", r.gen_range(0..3))));
  }
  if chance(r, 5, 6) {
    d.insert("lang".into(), json!(*pick(r, &["en", "fr", "ja", "de"])));
  }
  if chance(r, 5, 6) {
    d.insert("year".into(), json!(r.gen_range(1995..2025)));
  }
  if chance(r, 5, 6) {
    d.insert("price".into(), json!(r.gen_range(0..20000) as f64 / 100.0));
  }
  if chance(r, 1, 2) {
    d.insert("views".into(), json!(r.gen_range(-5i64..100000)));
  }
  let nc = r.gen_range(0..3);
  if nc > 0 {
    let items: Vec<Value> = (0..nc)
      .map(|_| json!({"author": format!("a{}", r.gen_range(0..3)), "score": r.gen_range(0..10)}))
      .collect();
    d.insert("comment".into(), Value::Array(items));
  }
  if k == 1 && chance(r, 4, 5) {
    d.insert("emb".into(), json!([r.gen_range(1..100) as f64 / 10.0, r.gen_range(-50..50) as f64 / 10.0]));
  }
  Value::Object(d)
}

/// Builds index k (`old` = stop after the first commit, i.e. the previous generation).
fn build_index(root: &Path, k: usize, seed: u64, old: bool) -> Result<()> {
  let schema = schema_from_json(index_schema(k));
  let mut o = opts(root, StorageType::Filesystem);
  o.enable_positions = k != 1;
  let idx = Index::create(root, schema, o)?;
  let mut r = rng(seed, 9_100 + k as u64);
  let n = 18 + 4 * k;
  let mut w = idx.writer()?;
  for i in 0..n {
    let doc = random_doc(k, i, &mut r);
    w.add_document(&doc_from_json(doc))?;
    if i + 1 == n / 2 {
      w.commit()?;
      if old {
        return Ok(());
      }
    }
  }
  w.commit()?;
  let dels: Vec<String> = (0..3).map(|_| format!("d{}", r.gen_range(0..n))).collect();
  w.delete_documents(&dels)?;
  w.commit()?;
  Ok(())
}

// ------------------------------------------------------------------------------------------------
// Class vector -> concrete request JSON
// ------------------------------------------------------------------------------------------------

fn term(field: &str, value: &str) -> Value {
  json!({"type": "term", "field": field, "value": value})
}

fn query_json(c: &str) -> Result<Value> {
  Ok(match c {
    "query_string" => json!({"type": "query_string", "query": "rust search"}),
    "match_all" => json!({"type": "match_all"}),
    "term" => term("body", "rust"),
    "prefix" => json!({"type": "prefix", "field": "title", "value": "ru", "max_expansions": 50}),
    "wildcard" => json!({"type": "wildcard", "field": "title", "value": "r*st", "max_expansions": 100}),
    "regex" => json!({"type": "regex", "field": "title", "value": "r(ust|uby)", "max_expansions": 100}),
    "phrase" => json!({"type": "phrase", "field": "body", "terms": ["search", "rust"], "slop": 1}),
    "multi_match" => json!({"type": "multi_match", "query": "rust search", "match_type": "best_fields",
      "fields": [{"field": "title", "boost": 2.0}, {"field": "body"}], "operator": "or",
      "tie_breaker": 0.2, "minimum_should_match": "75%"}),
    "dis_max" => json!({"type": "dis_max", "tie_breaker": 0.4,
      "queries": [term("title", "rust"), term("body", "rust")]}),
    "bool" => json!({"type": "bool", "must": [term("body", "rust")], "should": [term("title", "search")],
      "must_not": [term("body", "zeta")], "filter": [{"I64Range": {"field": "year", "min": 1990, "max": 2030}}]}),
    "function_score" => json!({"type": "function_score", "query": {"type": "match_all"}, "functions": [
        {"type": "weight", "weight": 2.0, "filter": {"KeywordEq": {"field": "tag", "value": "t1"}}},
        {"type": "decay", "field": "year", "origin": 2020, "scale": 30, "offset": 0, "decay": 0.5, "function": "linear"},
        {"type": "field_value_factor", "field": "price", "factor": 0.25, "modifier": "log1p", "missing": 0.0}],
      "score_mode": "sum", "boost_mode": "sum", "max_boost": 5.0, "min_score": 0.5}),
    "script_score" => json!({"type": "script_score", "query": {"type": "match_all"},
      "script": "_score + price * weight", "params": {"weight": 0.1}}),
    "constant_score" => json!({"type": "constant_score", "filter": {"KeywordEq": {"field": "tag", "value": "t1"}}}),
    "rank_feature" => json!({"type": "rank_feature", "field": "price", "modifier": "sqrt"}),
    "legacy_string" => json!("rust search"),
    "dup_term" => json!({"type": "bool", "should": [term("body", "rust"), term("body", "rust")]}),
    "dup_term_dis_max" => json!({"type": "dis_max", "queries": [term("body", "rust"), term("body", "rust")]}),
    "wildcard_dense" => json!({"type": "wildcard", "field": "body", "value": "*r*u*?*s*t*?*a*"}),
    "wildcard_only_star" => json!({"type": "wildcard", "field": "body", "value": "*"}),
    "regex_invalid" => json!({"type": "regex", "field": "title", "value": "r(ust"}),
    "regex_nested_quantifiers" => json!({"type": "regex", "field": "body", "value": "(r*)*(u*)*(s*)*t+x"}),
    "regex_huge_repeat" => json!({"type": "regex", "field": "body", "value": "(ru){1000}{1000}"}),
    "regex_empty" => json!({"type": "regex", "field": "body", "value": ""}),
    "regex_multibyte" => json!({"type": "regex", "field": "body", "value": "sy.t\u{e8}me|\u{65e5}\u{672c}.*|[\u{3b1}-\u{3c9}]+"}),
    "phrase_no_terms" => json!({"type": "phrase", "field": "body", "terms": []}),
    "phrase_huge_slop" => json!({"type": "phrase", "field": "body", "terms": ["rust", "search"], "slop": UMAX}),
    "multi_match_no_fields" => json!({"type": "multi_match", "query": "rust", "fields": []}),
    "multi_match_bad_msm" => json!({"type": "multi_match", "query": "rust search", "fields": ["body"],
      "minimum_should_match": "abc%", "tie_breaker": 0.5}),
    "dis_max_empty" => json!({"type": "dis_max", "queries": []}),
    "bool_empty" => json!({"type": "bool"}),
    "bool_only_must_not" => json!({"type": "bool", "must_not": [term("body", "rust")], "minimum_should_match": 5}),
    "bool_deep" => {
      let mut q = term("body", "rust");
      for i in 0..40 {
        q = if i % 2 == 0 { json!({"type": "bool", "must": [q]}) } else { json!({"type": "dis_max", "queries": [q]}) };
      }
      q
    }
    "function_score_extreme" => json!({"type": "function_score", "query": term("body", "rust"), "functions": [
        {"type": "decay", "field": "year", "origin": 1e308, "scale": 0, "decay": 0.0, "function": "gauss"},
        {"type": "field_value_factor", "field": "price", "factor": 3.0e38, "modifier": "log", "missing": -1.0},
        {"type": "decay", "field": "price", "origin": 0, "scale": -1, "offset": -5, "decay": 2.0, "function": "exp"},
        {"type": "weight", "weight": -3.0e38}],
      "score_mode": "multiply", "boost_mode": "replace", "max_boost": -1.0, "min_score": 3.0e38}),
    "function_score_no_functions" => json!({"type": "function_score", "query": term("body", "rust"), "functions": []}),
    "script_syntax_error" => json!({"type": "script_score", "query": {"type": "match_all"}, "script": "_score + * 2 )"}),
    "script_div_zero" => json!({"type": "script_score", "query": {"type": "match_all"}, "script": "_score / (price - price)"}),
    "script_unknown_field" => json!({"type": "script_score", "query": {"type": "match_all"}, "script": "_score + nosuch"}),
    "script_too_long" => json!({"type": "script_score", "query": {"type": "match_all"}, "script": "1+".repeat(300) + "1"}),
    "script_deep_parens" => json!({"type": "script_score", "query": {"type": "match_all"},
      "script": "(".repeat(60) + "1" + &")".repeat(60)}),
    "script_multibyte" => json!({"type": "script_score", "query": {"type": "match_all"}, "script": "_score + \u{e9}t\u{e9} * 2"}),
    "rank_feature_text_field" => json!({"type": "rank_feature", "field": "body", "modifier": "log", "missing": -1.0}),
    "term_unknown_field" => term("nosuch", "rust"),
    "term_multibyte" => json!({"type": "bool", "should": [term("body", "syst\u{e8}me"), term("body", "\u{65e5}\u{672c}\u{8a9e}"), term("title", "\u{1f680}")]}),
    "term_empty" => term("body", ""),
    "query_string_operators" => json!({"type": "query_string", "query": "body:\"rust -  title: \"\" - -- :x \"", "fields": ["body", "nosuch"]}),
    "prefix_zero_expansions" => json!({"type": "prefix", "field": "title", "value": "r", "max_expansions": 0}),
    "prefix_huge_expansions" => json!({"type": "prefix", "field": "title", "value": "", "max_expansions": UMAX}),
    "vector" => json!({"type": "vector", "field": "emb", "vector": [1.0, 0.0], "k": 3, "alpha": 0.0}),
    "vector_wrong_dim" => json!({"type": "vector", "field": "emb", "vector": [1.0], "k": 3, "alpha": 0.5}),
    "vector_unknown_field" => json!({"type": "vector", "field": "nosuch", "vector": [1.0, 0.0], "k": 0}),
    other => bail!("unknown query class {other}"),
  })
}

fn boost_json(c: &str) -> Result<Option<Value>> {
  Ok(match c {
    "none" => None,
    "positive" => Some(json!(2.0)),
    "zero" => Some(json!(0.0)),
    "negative" => Some(json!(-1.0)),
    "huge" => Some(json!(3.0e38)),
    "tiny" => Some(json!(1.0e-40)),
    "negative_zero" => Some(json!(-0.0)),
    other => bail!("unknown boost class {other}"),
  })
}

fn fuzzy_json(c: &str) -> Result<Option<Value>> {
  Ok(match c {
    "none" => None,
    "readme" => Some(json!({"max_edits": 1, "prefix_length": 1, "max_expansions": 20, "min_length": 3})),
    "edits_0" => Some(json!({"max_edits": 0})),
    "edits_255" => Some(json!({"max_edits": 255, "prefix_length": 0, "min_length": 1})),
    "prefix_huge" => Some(json!({"max_edits": 2, "prefix_length": UMAX})),
    "expansions_0" => Some(json!({"max_edits": 2, "max_expansions": 0})),
    "min_length_0" => Some(json!({"max_edits": 2, "prefix_length": 0, "max_expansions": UMAX, "min_length": 0})),
    other => bail!("unknown fuzzy class {other}"),
  })
}

fn sort_json(c: &str) -> Result<Option<Value>> {
  Ok(match c {
    "none" => None,
    "score_desc" => Some(json!([{"field": "_score", "order": "desc"}])),
    "numeric_fast" => Some(json!([{"field": "year", "order": "desc"}])),
    "keyword_fast" => Some(json!([{"field": "tag"}])),
    "multi" => Some(json!([{"field": "year", "order": "desc"}, {"field": "_score", "order": "desc"}])),
    "score_asc" => Some(json!([{"field": "_score", "order": "asc"}])),
    "nested_fast" => Some(json!([{"field": "comment.score", "order": "asc"}, {"field": "price"}])),
    "duplicate" => Some(json!([{"field": "year"}, {"field": "year", "order": "desc"}, {"field": "_score"}, {"field": "_score"}])),
    "unknown_field" => Some(json!([{"field": "nosuch", "order": "asc"}])),
    "non_fast_field" => Some(json!([{"field": "views", "order": "asc"}])),
    "text_field" => Some(json!([{"field": "body"}])),
    other => bail!("unknown sort class {other}"),
  })
}

fn hl_field(pre: &str, post: &str, size: u64, n: u64) -> Value {
  json!({"pre_tag": pre, "post_tag": post, "fragment_size": size, "number_of_fragments": n})
}

/// (highlight_field, highlight)
fn highlight_json(c: &str) -> Result<(Option<Value>, Option<Value>)> {
  Ok(match c {
    "none" => (None, None),
    "legacy_field" => (Some(json!("body")), None),
    "config" => (None, Some(json!({"fields": {"body": hl_field("<em>", "</em>", 120, 2), "title": hl_field("<b>", "</b>", 60, 1)}}))),
    "legacy_unknown_field" => (Some(json!("nosuch")), None),
    "config_unknown_field" => (None, Some(json!({"fields": {"nosuch": hl_field("<em>", "</em>", 120, 2), "year": {}}}))),
    "fragment_0" => (None, Some(json!({"fields": {"body": hl_field("<em>", "</em>", 0, 2)}}))),
    "fragment_huge" => (None, Some(json!({"fields": {"body": hl_field("<em>", "</em>", UMAX, 3)}}))),
    "fragments_0" => (None, Some(json!({"fields": {"body": hl_field("<em>", "</em>", 50, 0)}}))),
    "fragments_huge" => (None, Some(json!({"fields": {"body": hl_field("<em>", "</em>", 1, UMAX)}}))),
    "tags_regex_chars" => (Some(json!("title")), Some(json!({"fields": {"body": hl_field("$1\\", ")(${0}", 30, 2)}}))),
    "tags_multibyte" => (None, Some(json!({"fields": {"body": hl_field("\u{ab}\u{e9}", "\u{1f680}\u{bb}", 9, 3)}}))),
    "fragment_odd_multibyte" => (Some(json!("body")), Some(json!({"fields": {"body": hl_field("[", "]", 7, 4), "title": hl_field("[", "]", 3, 2)}}))),
    other => bail!("unknown highlight class {other}"),
  })
}

fn aggs_json(c: &str) -> Result<Option<Value>> {
  let terms = || json!({"type": "terms", "field": "tag", "size": 5});
  let hist = |extra: Value| -> Value {
    let mut h = json!({"type": "histogram", "field": "year", "interval": 5});
    for (k, v) in extra.as_object().unwrap() {
      h[k] = v.clone();
    }
    h
  };
  Ok(Some(match c {
    "none" => return Ok(None),
    "terms" => json!({"a": terms()}),
    "stats" => json!({"a": {"type": "stats", "field": "year"}}),
    "histogram" => json!({"a": hist(json!({}))}),
    "range" => json!({"a": {"type": "range", "field": "price", "keyed": false,
      "ranges": [{"to": 10.0}, {"key": "mid", "from": 10.0, "to": 50.0}, {"from": 50.0}]}}),
    "terms_unknown_field" => json!({"a": {"type": "terms", "field": "nosuch"}}),
    "terms_non_fast" => json!({"a": {"type": "terms", "field": "cat"}}),
    "stats_keyword_field" => json!({"a": {"type": "stats", "field": "tag"}}),
    "terms_size_0" => json!({"a": {"type": "terms", "field": "tag", "size": 0, "shard_size": 0, "min_doc_count": 0, "missing": "none"}}),
    "terms_sub_aggs" => json!({"a": {"type": "terms", "field": "tag", "aggs": {
      "s": {"type": "stats", "field": "year"}, "top": {"type": "top_hits", "size": 2, "highlight_field": "body"},
      "es": {"type": "extended_stats", "field": "price"}, "vc": {"type": "value_count", "field": "comment.score"}}}}),
    "histogram_interval_0" => json!({"a": hist(json!({"interval": 0}))}),
    "histogram_interval_negative" => json!({"a": hist(json!({"interval": -5}))}),
    "histogram_interval_tiny" => json!({"a": hist(json!({"interval": 1e-300, "min_doc_count": 1}))}),
    "histogram_bounds_inverted" => json!({"a": hist(json!({"min_doc_count": 0, "extended_bounds": {"min": 2030.0, "max": 1990.0}, "hard_bounds": {"min": 2010.0, "max": 2000.0}}))}),
    "histogram_bounds_saturated" => json!({"a": hist(json!({"interval": 1, "extended_bounds": {"min": 1.0e300, "max": 1.0e300}}))}),
    "histogram_hard_bounds_saturated" => json!({"a": hist(json!({"interval": 0.5, "hard_bounds": {"min": -1.0e300, "max": -1.0e300}}))}),
    "histogram_bounds_wide" => json!({"a": hist(json!({"interval": 1, "min_doc_count": 0, "extended_bounds": {"min": -1.0e6, "max": 1.0e6}, "offset": 0.5, "missing": -7.5}))}),
    "range_inverted" => json!({"a": {"type": "range", "field": "price", "keyed": true, "ranges": [{"from": 50.0, "to": 10.0}, {"key": "", "from": 1e308, "to": -1e308}]}}),
    "range_empty" => json!({"a": {"type": "range", "field": "price", "keyed": true, "ranges": []}}),
    "date_histogram" => json!({"a": {"type": "date_histogram", "field": "year", "fixed_interval": "1d", "min_doc_count": 1}}),
    "date_histogram_bad_interval" => json!({"a": {"type": "date_histogram", "field": "year", "fixed_interval": "0d", "calendar_interval": "fortnight", "offset": "-x"}}),
    "date_histogram_zero_interval" => json!({"a": {"type": "date_histogram", "field": "year", "fixed_interval": "0s",
      "min_doc_count": 0, "extended_bounds": {"min": "0", "max": "1000"}}}),
    "date_range_bad_date" => json!({"a": {"type": "date_range", "field": "year", "keyed": false, "format": "%Q", "ranges": [{"from": "not a date", "to": "2020-13-45"}]}}),
    "percentiles_out_of_range" => json!({"a": {"type": "percentiles", "field": "price", "percents": [-5.0, 0.0, 150.0, 1e308], "missing": "x"}}),
    "percentile_ranks" => json!({"a": {"type": "percentile_ranks", "field": "price", "values": [-1e308, 0.0, 1e308]}}),
    "cardinality_precision_0" => json!({"a": {"type": "cardinality", "field": "tag", "precision_threshold": 0, "missing": {"x": 1}},
      "b": {"type": "cardinality", "field": "year", "precision_threshold": UMAX}}),
    "extended_stats_missing_string" => json!({"a": {"type": "extended_stats", "field": "year", "missing": "abc"}, "b": {"type": "value_count", "field": "price", "missing": [1]}}),
    "composite" => json!({"a": {"type": "composite", "size": 2, "sources": [
      {"type": "terms", "name": "tag", "field": "tag"}, {"type": "histogram", "name": "year", "field": "year", "interval": 5}]}}),
    "composite_bad_after" => json!({"a": {"type": "composite", "size": 2, "after": {"nosuch": [1], "tag": {"x": null}},
      "sources": [{"type": "terms", "name": "tag", "field": "tag"}]}}),
    "composite_size_0" => json!({"a": {"type": "composite", "size": 0, "sources": []}}),
    "composite_interval_0" => json!({"a": {"type": "composite", "size": 3, "sources": [{"type": "histogram", "name": "y", "field": "year", "interval": 0}]}}),
    "top_hits_huge" => json!({"a": {"type": "top_hits", "size": UMAX, "from": UMAX, "sort": [{"field": "year"}], "highlight_field": "nosuch"}}),
    "filter_agg" => json!({"a": {"type": "filter", "filter": {"Not": {"Nested": {"path": "comment", "filter": {"KeywordEq": {"field": "comment.author", "value": "a1"}}}}}, "aggs": {"t": terms()}}}),
    "significant_terms" => json!({"a": {"type": "significant_terms", "field": "tag", "size": 5, "min_doc_count": 0, "background_filter": {"KeywordEq": {"field": "tag", "value": "t1"}}}}),
    "rare_terms" => json!({"a": {"type": "rare_terms", "field": "tag", "max_doc_count": 0, "size": 0}}),
    "sampling_probability_2" => json!({"a": {"type": "terms", "field": "tag", "sampling": {"probability": 2.0, "size": 0, "seed": 42}}}),
    "sampling_negative" => json!({"a": {"type": "histogram", "field": "year", "interval": 5, "sampling": {"probability": -0.5, "seed": UMAX}}}),
    "pipeline_no_parent" => json!({"a": {"type": "derivative", "buckets_path": "x"}, "b": {"type": "avg_bucket", "buckets_path": ""},
      "c": {"type": "bucket_sort", "sort": []}}),
    "pipeline_bad_path" => json!({"a": hist(json!({"aggs": {"s": {"type": "stats", "field": "price"},
      "p": {"type": "avg_bucket", "buckets_path": "no.such.path"}, "d": {"type": "derivative", "buckets_path": "s.nosuch", "unit": 0.0},
      "q": {"type": "sum_bucket", "buckets_path": "..."}}}))}),
    "bucket_script_bad" => json!({"a": hist(json!({"aggs": {"s": {"type": "stats", "field": "price"},
      "b": {"type": "bucket_script", "buckets_path": {"x": "s.avg", "c": "_count"}, "script": "x / (c - c) + ("},
      "b2": {"type": "bucket_script", "buckets_path": {}, "script": ""}}}))}),
    "moving_avg_window_0" => json!({"a": hist(json!({"aggs": {"s": {"type": "stats", "field": "price"},
      "m": {"type": "moving_avg", "buckets_path": "s.avg", "window": 0, "predict": 0, "gap_policy": "insert_zeros"}}}))}),
    "moving_avg_predict_huge" => json!({"a": hist(json!({"aggs": {"s": {"type": "stats", "field": "price"},
      "m": {"type": "moving_avg", "buckets_path": "s.avg", "window": 3, "predict": UMAX}}}))}),
    "bucket_sort_unknown" => json!({"a": {"type": "terms", "field": "tag", "aggs": {
      "o": {"type": "bucket_sort", "sort": [{"nosuch": "desc"}], "from": UMAX, "size": 0}}}}),
    "deep_sub_aggs" => {
      let mut a = json!({"type": "stats", "field": "year"});
      for i in 0..8 {
        a = json!({"type": if i % 2 == 0 { "terms" } else { "histogram" }, "field": if i % 2 == 0 { "tag" } else { "year" },
                   "interval": 10, "aggs": {"n": a}});
      }
      json!({"a": a})
    }
    other => bail!("unknown aggs class {other}"),
  }))
}

fn cursor_state_json(generation: u32, returned: u64) -> String {
  json!({"version": 2, "generation": generation, "returned": returned, "plan_hash": 0, "segment_ord": 0,
         "doc_id": 0, "values": []})
    .to_string()
}

fn unhex(s: &str) -> Option<Vec<u8>> {
  if s.len() % 2 != 0 || !s.is_ascii() {
    return None;
  }
  (0..s.len() / 2).map(|i| u8::from_str_radix(&s[2 * i..2 * i + 2], 16).ok()).collect()
}

/// A genuine next_cursor with one field changed while version, generation and plan hash stay
/// valid: type tags of the sort values, value types, number of values, positions.
fn tamper_cursor(cursor: &str, case_no: u64) -> String {
  let Some(bytes) = unhex(cursor) else { return cursor.to_string() };
  if let Ok(mut v) = serde_json::from_slice::<Value>(&bytes) {
    let n = v["values"].as_array().map(|a| a.len()).unwrap_or(0);
    let which = (case_no / 8) as usize % n.max(1);
    match case_no % 8 {
      0 | 1 if n > 0 => {
        // another type tag, same payload where the payload type allows it
        let val = &mut v["values"][which];
        let t = val["t"].as_str().unwrap_or("").to_string();
        let (nt, nv) = match (t.as_str(), case_no % 8) {
          ("i64", 0) => ("f64", json!(1.5)),
          ("i64", _) => ("str", json!("x")),
          ("f64", 0) => ("i64", json!(3)),
          ("f64", _) => ("score", json!(1065353216u32)),
          ("str", 0) => ("i64", json!(3)),
          ("str", _) => ("f64", json!(0.25)),
          ("score", 0) => ("i64", json!(3)),
          ("score", _) => ("str", json!("x")),
          (_, 0) => ("i64", json!(3)),
          _ => ("str", json!("x")),
        };
        *val = json!({"t": nt, "v": nv});
      }
      2 if n > 0 => {
        v["values"][which] = json!({"t": "missing"});
      }
      3 => {
        if let Some(a) = v["values"].as_array_mut() {
          a.pop();
        }
      }
      4 => {
        if let Some(a) = v["values"].as_array_mut() {
          a.push(json!({"t": "i64", "v": 1}));
        }
      }
      5 => {
        v["segment_ord"] = json!(4_000_000_000u32);
        v["doc_id"] = json!(4_000_000_000u32);
      }
      6 if n > 0 => {
        v["values"][which] = json!({"t": "f64", "v": 1e308});
      }
      _ => {
        v["returned"] = json!(49_999);
      }
    }
    return hex(v.to_string().as_bytes());
  }
  // the fixed-length score cursor: version(1) generation(4) score bits(4) segment(4) doc(4) returned(4)
  let mut b = bytes;
  if b.len() == 21 {
    match case_no % 4 {
      0 => b[5..9].copy_from_slice(&f32::NAN.to_bits().to_be_bytes()),
      1 => b[9..13].copy_from_slice(&u32::MAX.to_be_bytes()),
      2 => b[13..17].copy_from_slice(&u32::MAX.to_be_bytes()),
      _ => b[5..9].copy_from_slice(&f32::NEG_INFINITY.to_bits().to_be_bytes()),
    }
  }
  hex(&b)
}

fn hex(bytes: &[u8]) -> String {
  bytes.iter().map(|b| format!("{b:02x}")).collect()
}

struct Ctx {
  generations: Vec<u32>,
  exec: Executor,
}

fn score_path(sort_cls: &str) -> bool {
  matches!(sort_cls, "none" | "score_desc")
}

/// Base request (everything except the cursor).
fn base_request(cls: &Value) -> Result<Value> {
  let g = |d: &str| -> &str { cls[d].as_str().unwrap_or("") };
  let mut q = query_json(g("query"))?;
  if let Some(b) = boost_json(g("boost"))? {
    if q.is_object() {
      q["boost"] = b;
    }
  }
  let mut req = json!({"query": q, "return_stored": true, "highlight_field": null});
  req["limit"] = match g("limit") {
    "normal" => json!(3),
    "one" => json!(1),
    "zero" => json!(0),
    "huge" => json!(UMAX),
    other => bail!("unknown limit class {other}"),
  };
  match g("candidate") {
    "none" => {}
    "zero" => req["candidate_size"] = json!(0),
    "huge" => req["candidate_size"] = json!(UMAX),
    "small" => req["candidate_size"] = json!(1),
    other => bail!("unknown candidate class {other}"),
  }
  if let Some(f) = fuzzy_json(g("fuzzy"))? {
    req["fuzzy"] = f;
  }
  if let Some(s) = sort_json(g("sort"))? {
    req["sort"] = s;
  }
  let (hf, h) = highlight_json(g("highlight"))?;
  if let Some(hf) = hf {
    req["highlight_field"] = hf;
  }
  if let Some(h) = h {
    req["highlight"] = h;
  }
  if let Some(a) = aggs_json(g("aggs"))? {
    req["aggs"] = a;
  }
  match g("collapse") {
    "none" => {}
    "keyword_fast" => req["collapse"] = json!({"field": "lang"}),
    "multi_valued" => req["collapse"] = json!({"field": "tag"}),
    "inner_hits" => req["collapse"] = json!({"field": "lang", "inner_hits": {"size": 2, "from": 0, "sort": [{"field": "_score", "order": "desc"}]}}),
    "unknown_field" => req["collapse"] = json!({"field": "nosuch"}),
    "numeric_field" => req["collapse"] = json!({"field": "year"}),
    "inner_hits_huge" => req["collapse"] = json!({"field": "lang", "inner_hits": {"size": UMAX, "from": UMAX}}),
    "inner_hits_bad_sort" => req["collapse"] = json!({"field": "lang", "inner_hits": {"size": 1, "sort": [{"field": "nosuch"}]}}),
    other => bail!("unknown collapse class {other}"),
  }
  match g("rescore") {
    "none" => {}
    "phrase" => req["rescore"] = json!({"window_size": 50, "query": {"type": "phrase", "field": "body", "terms": ["search", "rust"], "slop": 1}, "score_mode": "total"}),
    "window_0" => req["rescore"] = json!({"window_size": 0, "query": term("body", "rust"), "score_mode": "multiply"}),
    "window_huge" => req["rescore"] = json!({"window_size": UMAX, "query": term("body", "search"), "score_mode": "min"}),
    "bad_query" => req["rescore"] = json!({"window_size": 5, "query": {"type": "regex", "field": "body", "value": "r(", "boost": -1.0}}),
    other => bail!("unknown rescore class {other}"),
  }
  match g("flags") {
    "none" => {}
    "explain" => req["explain"] = json!(true),
    "profile" => req["profile"] = json!(true),
    "explain_profile" => {
      req["explain"] = json!(true);
      req["profile"] = json!(true);
    }
    "no_hits" => req["return_hits"] = json!(false),
    "no_stored" => req["return_stored"] = json!(false),
    other => bail!("unknown flags class {other}"),
  }
  match g("suggest") {
    "none" => {}
    "completion" => req["suggest"] = json!({"s": {"type": "completion", "field": "title", "prefix": "ru", "size": 3}}),
    "fuzzy" => req["suggest"] = json!({"s": {"type": "completion", "field": "title", "prefix": "rsut", "size": 5,
      "fuzzy": {"max_edits": 2, "prefix_length": 0, "max_expansions": UMAX, "min_length": 0}}}),
    "unknown_field" => req["suggest"] = json!({"s": {"type": "completion", "field": "nosuch", "prefix": "ru"}, "t": {"type": "completion", "field": "year", "prefix": "2"}}),
    "size_0" => req["suggest"] = json!({"s": {"type": "completion", "field": "title", "prefix": "r", "size": 0}, "t": {"type": "completion", "field": "body", "prefix": "s", "size": UMAX}}),
    "prefix_multibyte" => req["suggest"] = json!({"s": {"type": "completion", "field": "body", "prefix": "sy\u{e8}", "size": 3, "fuzzy": {"max_edits": 1, "prefix_length": 3, "min_length": 1}},
      "t": {"type": "completion", "field": "body", "prefix": "\u{65e5}", "fuzzy": {"max_edits": 2, "prefix_length": 1}}}),
    "prefix_empty" => req["suggest"] = json!({"s": {"type": "completion", "field": "title", "prefix": "", "size": 3}}),
    other => bail!("unknown suggest class {other}"),
  }
  match g("execution") {
    "default" => {}
    "bm25" => req["execution"] = json!("bm25"),
    "bmw" => req["execution"] = json!("bmw"),
    "bmw_block_0" => {
      req["execution"] = json!("bmw");
      req["bmw_block_size"] = json!(0);
    }
    "bmw_block_1" => {
      req["execution"] = json!("bmw");
      req["bmw_block_size"] = json!(1);
    }
    "bmw_block_huge" => {
      req["execution"] = json!("bmw");
      req["bmw_block_size"] = json!(UMAX);
    }
    other => bail!("unknown execution class {other}"),
  }
  Ok(req)
}

/// next_cursor of page 1 of `req` on `reader`; Err(reason) when the class cannot be instantiated.
fn page1_cursor(ctx: &mut Ctx, old: bool, idx: usize, req: &Value) -> std::result::Result<String, String> {
  let mut r = req.clone();
  if let Some(o) = r.as_object_mut() {
    o.remove("cursor");
    o.remove("return_hits");
  }
  let sr: SearchRequest = serde_json::from_value(r).map_err(|e| format!("page 1 does not deserialise: {e}"))?;
  match ctx.exec.run(old, idx, sr) {
    Exec::Ok(Some(c)) => Ok(c),
    Exec::Ok(None) => Err("page 1 has no next_cursor".into()),
    Exec::Err(e) => Err(format!("page 1 failed: {e}")),
    Exec::Panic(p) => Err(format!("page 1 panicked: {}", p.msg)),
    Exec::Hang => Err("page 1 hangs".into()),
  }
}

fn instantiate(ctx: &mut Ctx, idx: usize, cls: &Value, case_no: u64) -> std::result::Result<Value, String> {
  let mut req = base_request(cls).map_err(|e| format!("{e:#}"))?;
  let cursor_cls = cls["cursor"].as_str().unwrap_or("");
  let sort_cls = cls["sort"].as_str().unwrap_or("");
  let generation = ctx.generations[idx];
  let cursor: Option<String> = match cursor_cls {
    "none" => None,
    "valid" => Some(page1_cursor(ctx, false, idx, &req)?),
    "stale_generation" => Some(page1_cursor(ctx, true, idx, &req)?),
    "other_sort" => {
      let mut other = req.clone();
      if score_path(sort_cls) {
        other["sort"] = json!([{"field": "price", "order": "asc"}]);
      } else if let Some(o) = other.as_object_mut() {
        o.remove("sort");
      }
      Some(page1_cursor(ctx, false, idx, &other)?)
    }
    "deep" => Some(if score_path(sort_cls) {
      let mut b = vec![1u8];
      b.extend_from_slice(&generation.to_be_bytes());
      b.extend_from_slice(&1.0f32.to_bits().to_be_bytes());
      b.extend_from_slice(&0u32.to_be_bytes());
      b.extend_from_slice(&0u32.to_be_bytes());
      b.extend_from_slice(&60_000u32.to_be_bytes());
      hex(&b)
    } else {
      hex(cursor_state_json(generation, 60_000).as_bytes())
    }),
    "valid_tampered" => {
      let c = page1_cursor(ctx, false, idx, &req)?;
      Some(tamper_cursor(&c, case_no))
    }
    "wrong_length" => Some("0123456789abcdef0123456789abcdef01234567".into()),
    "nonhex_ascii" => Some("zz".repeat(21)),
    "hex_random" => {
      let mut r = rng(case_no, 77);
      Some((0..42).map(|_| char::from_digit(r.gen_range(0..16), 16).unwrap()).collect())
    }
    "utf8_even" => Some(format!("a{}a", "\u{e9}".repeat(20))),
    "utf8_short_even" => Some("a\u{e9}a".into()),
    "utf8_odd" => Some(format!("{}a", "\u{e9}".repeat(20))),
    "utf8_aligned" => Some("\u{e9}".repeat(21)),
    "json_garbage" => Some(hex(b"{\"version\":2,,, not json \xc3\xa9")),
    "json_wrong_types" => Some(hex(
      json!({"version": "2", "generation": [], "returned": -1, "plan_hash": 1.5, "segment_ord": null,
             "doc_id": {}, "values": [{"t": "score", "v": "x"}, {"t": "nosuch"}]})
        .to_string()
        .as_bytes(),
    )),
    "empty" => Some(String::new()),
    other => return Err(format!("unknown cursor class {other}")),
  };
  if let Some(c) = cursor {
    req["cursor"] = json!(c);
  }
  Ok(req)
}

// ------------------------------------------------------------------------------------------------
// Execution under catch_unwind + watchdog
// ------------------------------------------------------------------------------------------------

#[derive(Clone, Debug, Default)]
struct PanicInfo {
  loc: String,
  msg: String,
}

static LAST_PANIC: Mutex<Option<PanicInfo>> = Mutex::new(None);

fn install_panic_hook() {
  std::panic::set_hook(Box::new(|info| {
    let loc = info
      .location()
      .map(|l| {
        let f = l.file();
        let short = f.rsplit("searchlite-core/").next().unwrap_or(f);
        format!("{}:{}", short, l.line())
      })
      .unwrap_or_default();
    let msg = info
      .payload()
      .downcast_ref::<String>()
      .cloned()
      .or_else(|| info.payload().downcast_ref::<&str>().map(|s| s.to_string()))
      .unwrap_or_else(|| "panic".into());
    *LAST_PANIC.lock().unwrap() = Some(PanicInfo { loc, msg });
  }));
}

enum Exec {
  Ok(Option<String>),
  Err(String),
  Panic(PanicInfo),
  Hang,
}

/// (old generation?, index number, request)
type Job = (bool, usize, SearchRequest);

fn open_readers(dir: &Path) -> Result<(Vec<IndexReader>, Vec<IndexReader>)> {
  let mut cur = vec![];
  let mut old = vec![];
  for k in 0..3 {
    let o = opts(&dir.join(format!("idx{k}")), StorageType::Filesystem);
    cur.push(Index::open(o)?.reader()?);
    let o = opts(&dir.join(format!("old{k}")), StorageType::Filesystem);
    old.push(Index::open(o)?.reader()?);
  }
  Ok((cur, old))
}

struct Executor {
  dir: PathBuf,
  tx: mpsc::Sender<Job>,
  rx: mpsc::Receiver<Exec>,
  timeout: Duration,
  pub hangs: usize,
}

impl Executor {
  /// The worker owns its readers (IndexReader is Send but not Sync).
  fn spawn_worker(dir: &Path) -> (mpsc::Sender<Job>, mpsc::Receiver<Exec>) {
    let (tx, jrx) = mpsc::channel::<Job>();
    let (rtx, rx) = mpsc::channel::<Exec>();
    let dir = dir.to_path_buf();
    // default stack size of a spawned thread (2 MiB), as for a server worker thread
    std::thread::Builder::new()
      .name("search-worker".into())
      .spawn(move || {
        let (cur, old) = open_readers(&dir).expect("open readers");
        while let Ok((use_old, idx, req)) = jrx.recv() {
          *LAST_PANIC.lock().unwrap() = None;
          let reader = if use_old { &old[idx] } else { &cur[idx] };
          let res = catch_unwind(AssertUnwindSafe(|| reader.search(&req)));
          let out = match res {
            Ok(Ok(r)) => Exec::Ok(r.next_cursor),
            Ok(Err(e)) => Exec::Err(format!("{e:#}")),
            Err(_) => Exec::Panic(LAST_PANIC.lock().unwrap().clone().unwrap_or_default()),
          };
          if rtx.send(out).is_err() {
            break;
          }
        }
      })
      .expect("spawn worker");
    (tx, rx)
  }

  fn new(dir: &Path, timeout: Duration) -> Self {
    let (tx, rx) = Self::spawn_worker(dir);
    Self { dir: dir.to_path_buf(), tx, rx, timeout, hangs: 0 }
  }

  fn run(&mut self, old: bool, idx: usize, req: SearchRequest) -> Exec {
    if self.tx.send((old, idx, req)).is_err() {
      let (tx, rx) = Self::spawn_worker(&self.dir);
      self.tx = tx;
      self.rx = rx;
      return Exec::Err("worker unavailable".into());
    }
    match self.rx.recv_timeout(self.timeout) {
      Ok(out) => out,
      Err(_) => {
        // abandon the worker (it keeps its thread) and continue with a fresh one
        self.hangs += 1;
        let (tx, rx) = Self::spawn_worker(&self.dir);
        self.tx = tx;
        self.rx = rx;
        Exec::Hang
      }
    }
  }
}

fn panic_class(p: &PanicInfo) -> &'static str {
  if p.msg.contains("Utf8Error") && p.loc.contains("api/reader.rs") {
    "cursor_utf8"
  } else if p.msg.contains("Inconsistent leaf for term key") {
    "leaf_assert"
  } else if p.msg.contains("pipeline aggregations are applied during finalize") {
    "pipeline_unreachable"
  } else if p.msg.contains("capacity overflow") {
    "capacity_overflow"
  } else if p.msg.contains("attempt to add with overflow") && p.loc.contains("query/aggs/mod.rs") {
    "aggs_add_overflow"
  } else if p.msg.contains("overflow") {
    "arith_overflow"
  } else if p.msg.contains("alloc") {
    "alloc"
  } else if p.msg.contains("index out of bounds") || p.msg.contains("out of range") {
    "bounds"
  } else if p.msg.contains("byte index") || p.msg.contains("char boundary") {
    "char_boundary"
  } else {
    "other"
  }
}

fn cursor_features(req: &Value) -> Value {
  let c = req.get("cursor").and_then(|c| c.as_str());
  // `__text` carries raw request text when the request itself is not available as a value
  let text = req.get("__text").and_then(|t| t.as_str()).map(|t| t.to_string()).unwrap_or_else(|| req.to_string());
  let pipeline_agg = ["derivative", "moving_avg", "bucket_script", "bucket_sort", "avg_bucket", "sum_bucket"]
    .iter()
    .any(|t| text.contains(&format!("\"{t}\"")));
  json!({
    "hist_bounds": text.contains("extended_bounds") || text.contains("hard_bounds"),
    "top_hits": text.contains("\"top_hits\""),
    "moving_avg": text.contains("\"moving_avg\""),
    "pipeline_agg": pipeline_agg,
    "cursor_present": c.is_some(),
    "cursor_nonascii": c.map(|s| !s.is_ascii()).unwrap_or(false),
    "cursor_bytes": c.map(|s| s.len()).unwrap_or(0),
  })
}

const DEFAULTS: [(&str, &str); 14] = [
  ("cursor", "none"), ("query", "query_string"), ("boost", "none"), ("fuzzy", "none"), ("sort", "none"),
  ("highlight", "none"), ("aggs", "none"), ("limit", "normal"), ("candidate", "none"), ("collapse", "none"),
  ("rescore", "none"), ("flags", "none"), ("suggest", "none"), ("execution", "default"),
];

/// "dim=class" for every dimension that is not at its default.
fn non_default(cls: &Value) -> Vec<String> {
  DEFAULTS
    .iter()
    .filter_map(|(d, def)| {
      let c = cls[*d].as_str().unwrap_or("");
      (c != *def).then(|| format!("{d}={c}"))
    })
    .collect()
}

fn free_cls() -> Value {
  let dims = ["cursor", "query", "boost", "fuzzy", "sort", "highlight", "aggs", "limit", "candidate",
              "collapse", "rescore", "flags", "suggest", "execution"];
  Value::Object(dims.iter().map(|d| (d.to_string(), json!("free"))).collect())
}

// ------------------------------------------------------------------------------------------------
// Child: executes plan[start..] and appends one result line per request
// ------------------------------------------------------------------------------------------------

fn child(args: &Args) -> Result<()> {
  let dir = PathBuf::from(args.str("dir", ""));
  let plan_path = args.str("plan", "");
  let res_path = args.str("results", "");
  let start = args.usize("start", 0);
  let timeout = Duration::from_millis(args.u64("timeout-ms", 20_000));
  install_panic_hook();
  let mut generations = vec![];
  for k in 0..3 {
    let o = opts(&dir.join(format!("idx{k}")), StorageType::Filesystem);
    let m = Index::open(o)?.manifest();
    generations.push(m.segments.iter().map(|s| s.generation).max().unwrap_or(0));
  }
  let mut ctx = Ctx { generations, exec: Executor::new(&dir, timeout) };
  // classes / features already observed to hang (hang budget, maintained by the parent)
  let skip_path = args.str("skip", "");
  let slow_ms = args.u64("slow-ms", 2_000);
  let mut skip: BTreeSet<String> = std::fs::read_to_string(&skip_path)
    .unwrap_or_default()
    .lines()
    .map(|l| l.trim().to_string())
    .filter(|l| !l.is_empty() && !l.starts_with('#'))
    .collect();
  // "#dim=class" lines carry the number of slow/hung cases seen so far for that class
  let mut slow_counts: BTreeMap<String, usize> = BTreeMap::new();
  for l in std::fs::read_to_string(&skip_path).unwrap_or_default().lines() {
    if let Some(c) = l.strip_prefix('#') {
      *slow_counts.entry(c.trim().to_string()).or_insert(0) += 1;
    }
  }
  let plan = std::fs::read_to_string(&plan_path)?;
  let mut out = std::fs::OpenOptions::new().create(true).append(true).open(&res_path)?;
  for (i, line) in plan.lines().enumerate() {
    if i < start || line.trim().is_empty() {
      continue;
    }
    let p: Value = serde_json::from_str(line)?;
    writeln!(out, "{}", json!({"begin": i}))?;
    out.flush()?;
    let idx = p["idx"].as_u64().unwrap() as usize;
    let budget_hit = if p["src"] == "tlc" {
      p["cls"].as_object().unwrap().iter().any(|(d, c)| skip.contains(&format!("{d}={}", c.as_str().unwrap_or(""))))
    } else {
      let text = if p["src"] == "rand" { p["req"].to_string() } else { p["text"].as_str().unwrap().to_string() };
      skip.contains("feat=hist_bounds") && (text.contains("extended_bounds") || text.contains("hard_bounds"))
    };
    let req_json: std::result::Result<Value, String> = match p["src"].as_str().unwrap() {
      _ if budget_hit => Err("time budget: class or feature already observed to hang or to be slow".into()),
      "tlc" => instantiate(&mut ctx, idx, &p["cls"], i as u64),
      "rand" => Ok(p["req"].clone()),
      _ => serde_json::from_str::<Value>(p["text"].as_str().unwrap()).map_err(|e| e.to_string()),
    };
    let res = match req_json {
      Err(why) => json!({"i": i, "outcome": "Skip", "why": why}),
      Ok(rj) => {
        let parsed: std::result::Result<SearchRequest, String> = if p["src"] == "mut" {
          serde_json::from_str::<SearchRequest>(p["text"].as_str().unwrap()).map_err(|e| e.to_string())
        } else {
          serde_json::from_value::<SearchRequest>(rj.clone()).map_err(|e| e.to_string())
        };
        match parsed {
          Err(e) => json!({"i": i, "outcome": "Skip", "why": format!("does not deserialise: {e}")}),
          Ok(sr) => {
            let t0 = Instant::now();
            let ex = ctx.exec.run(false, idx, sr);
            let ms = t0.elapsed().as_millis() as u64;
            let feat = cursor_features(&rj);
            let text: String = rj.to_string().chars().take(700).collect();
            match ex {
              Exec::Ok(_) => json!({"i": i, "outcome": "Ok", "ms": ms, "feat": feat, "req": text, "msg": "", "pcls": "-", "loc": ""}),
              Exec::Err(e) => json!({"i": i, "outcome": "Err", "ms": ms, "feat": feat, "req": text,
                                     "msg": e.chars().take(160).collect::<String>(), "pcls": "-", "loc": ""}),
              Exec::Panic(pi) => json!({"i": i, "outcome": "Panic", "ms": ms, "feat": feat, "req": text,
                                        "msg": pi.msg.chars().take(200).collect::<String>(), "pcls": panic_class(&pi), "loc": pi.loc}),
              Exec::Hang => json!({"i": i, "outcome": "Hang", "ms": ms, "feat": feat, "req": text, "msg": "", "pcls": "-", "loc": ""}),
            }
          }
        }
      }
    };
    writeln!(out, "{res}")?;
    out.flush()?;
    // time budget: a class (or, for free requests, the syntactic feature) that was seen to hang or
    // to take longer than `slow_ms` is not paid for again in its remaining combinations
    let costly = res["outcome"] == "Hang" || res["ms"].as_u64().unwrap_or(0) > slow_ms;
    if costly {
      let mut add: Vec<String> = vec![];
      if p["src"] == "tlc" {
        let nd = non_default(&p["cls"]);
        for c in nd.iter() {
          let n = slow_counts.entry(c.clone()).or_insert(0);
          *n += 1;
          add.push(format!("#{c}"));
          if nd.len() == 1 || *n >= 2 {
            add.push(c.clone());
          }
        }
      } else if res["feat"]["hist_bounds"] == true {
        add.push("feat=hist_bounds".into());
      }
      if !add.is_empty() {
        let mut f = std::fs::OpenOptions::new().create(true).append(true).open(&skip_path)?;
        for a in add {
          writeln!(f, "{a}")?;
          if !a.starts_with('#') {
            skip.insert(a);
          }
        }
      }
    }
    if ctx.exec.hangs >= 1 {
      // the abandoned worker keeps spinning: let the parent restart a fresh process
      std::process::exit(17);
    }
  }
  Ok(())
}

// ------------------------------------------------------------------------------------------------
// Random requests and mutants
// ------------------------------------------------------------------------------------------------

const DIMS: [(&str, &[&str]); 14] = [
  ("cursor", &["none", "none", "none", "valid", "valid_tampered", "valid_tampered", "wrong_length", "nonhex_ascii", "hex_random", "utf8_odd", "utf8_aligned", "json_garbage", "json_wrong_types", "empty", "deep"]),
  ("query", &["query_string", "match_all", "term", "prefix", "wildcard", "regex", "phrase", "multi_match", "dis_max", "bool",
    "function_score", "script_score", "constant_score", "rank_feature", "legacy_string", "wildcard_dense", "wildcard_only_star",
    "regex_invalid", "regex_nested_quantifiers", "regex_empty", "regex_multibyte", "phrase_no_terms", "phrase_huge_slop",
    "multi_match_no_fields", "multi_match_bad_msm", "dis_max_empty", "bool_empty", "bool_only_must_not", "bool_deep",
    "function_score_extreme", "function_score_no_functions", "script_syntax_error", "script_div_zero", "script_unknown_field",
    "script_deep_parens", "script_multibyte", "rank_feature_text_field", "term_unknown_field", "term_multibyte", "term_empty",
    "query_string_operators", "prefix_zero_expansions", "prefix_huge_expansions", "vector", "vector_wrong_dim"]),
  ("boost", &["none", "none", "positive", "zero", "negative", "huge", "tiny", "negative_zero"]),
  ("fuzzy", &["none", "none", "readme", "edits_0", "edits_255", "prefix_huge", "expansions_0", "min_length_0"]),
  ("sort", &["none", "none", "score_desc", "numeric_fast", "keyword_fast", "multi", "score_asc", "nested_fast", "duplicate"]),
  ("highlight", &["none", "legacy_field", "config", "legacy_unknown_field", "config_unknown_field", "fragment_0", "fragment_huge",
    "fragments_0", "fragments_huge", "tags_regex_chars", "tags_multibyte", "fragment_odd_multibyte"]),
  ("aggs", &["none", "none", "none", "terms", "stats", "histogram", "range", "terms_size_0", "terms_sub_aggs", "histogram_interval_0",
    "histogram_interval_negative", "histogram_bounds_inverted", "range_inverted", "range_empty", "date_histogram",
    "date_histogram_bad_interval", "date_range_bad_date", "percentiles_out_of_range", "percentile_ranks", "cardinality_precision_0",
    "extended_stats_missing_string", "composite", "composite_bad_after", "composite_size_0", "composite_interval_0", "top_hits_huge",
    "filter_agg", "significant_terms", "rare_terms", "sampling_probability_2", "sampling_negative", "pipeline_no_parent",
    "pipeline_bad_path", "bucket_script_bad", "moving_avg_window_0", "bucket_sort_unknown", "deep_sub_aggs"]),
  ("limit", &["normal", "normal", "one", "huge"]),
  ("candidate", &["none", "none", "zero", "huge", "small"]),
  ("collapse", &["none", "none", "keyword_fast", "multi_valued", "inner_hits", "inner_hits_huge", "inner_hits_bad_sort"]),
  ("rescore", &["none", "none", "phrase", "window_0", "window_huge", "bad_query"]),
  ("flags", &["none", "explain", "profile", "explain_profile", "no_hits", "no_stored"]),
  ("suggest", &["none", "none", "completion", "fuzzy", "unknown_field", "size_0", "prefix_multibyte", "prefix_empty"]),
  ("execution", &["default", "bm25", "bmw", "bmw_block_0", "bmw_block_1", "bmw_block_huge"]),
];

const NASTY_STR: [&str; 16] = [
  "", " ", "*", "?", "\u{e9}", "a\u{e9}a", "\u{1f680}", "\u{65e5}\u{672c}", "(", "[a-", "\\", "\"", "rust rust", "_score", "body:rust",
  "\u{0}",
];

fn nasty_number(r: &mut StdRng) -> Value {
  match r.gen_range(0..12) {
    0 => json!(0),
    1 => json!(-1),
    2 => json!(1),
    3 => json!(UMAX),
    4 => json!(i64::MIN),
    5 => json!(1e308),
    6 => json!(-1e308),
    7 => json!(5e-324),
    8 => json!(0.5),
    9 => json!(4294967296u64),
    10 => json!(2147483648u64),
    _ => json!(r.gen_range(-100..100)),
  }
}

/// Value-level mutation of a JSON tree (keeps it structure-aware).
fn tweak(v: &mut Value, r: &mut StdRng, depth: usize) {
  match v {
    Value::Object(m) => {
      if m.is_empty() {
        return;
      }
      let keys: Vec<String> = m.keys().cloned().collect();
      let k = pick(r, &keys).clone();
      if depth > 0 && chance(r, 1, 12) {
        m.remove(&k);
      } else if let Some(x) = m.get_mut(&k) {
        tweak(x, r, depth + 1);
      }
    }
    Value::Array(a) => {
      if a.is_empty() {
        return;
      }
      let i = r.gen_range(0..a.len());
      match r.gen_range(0..5) {
        0 => {
          let x = a[i].clone();
          a.push(x);
        }
        1 => {
          a.remove(i);
        }
        _ => tweak(&mut a[i], r, depth + 1),
      }
    }
    Value::String(s) => {
      *s = match r.gen_range(0..4) {
        0 => pick(r, &NASTY_STR).to_string(),
        1 => format!("{s}{}", pick(r, &NASTY_STR)),
        2 => s.chars().rev().collect(),
        _ => s.repeat(r.gen_range(2..40)),
      };
    }
    Value::Number(_) => *v = nasty_number(r),
    Value::Bool(b) => *b = !*b,
    Value::Null => {}
  }
}

/// Byte/char-level mutation of request text. Returns None when the result is not UTF-8.
fn mutate_text(text: &str, r: &mut StdRng) -> Option<String> {
  let mut b = text.as_bytes().to_vec();
  let n = r.gen_range(1..=3);
  for _ in 0..n {
    if b.is_empty() {
      break;
    }
    let at = r.gen_range(0..b.len());
    match r.gen_range(0..9) {
      0 => b[at] ^= 1 << r.gen_range(0..8),
      1 => {
        b.remove(at);
      }
      2 => {
        let ins = pick(r, &["\u{e9}", "\u{1f680}", "\u{65e5}", "\\u00e9", "\\ud83d", "0", "-", "e9", "\"", "[", "{", "null", "*", "\\"]);
        for (j, x) in ins.bytes().enumerate() {
          b.insert(at + j, x);
        }
      }
      3 => {
        // replace a run of digits by a nasty number
        let mut e = at;
        while e < b.len() && (b[e].is_ascii_digit() || b[e] == b'.') {
          e += 1;
        }
        if e > at {
          let rep = pick(r, &["0", "-1", "18446744073709551615", "1e308", "-0.0", "1e-320", "4294967295", "9223372036854775807", "0.000001"]);
          b.splice(at..e, rep.bytes());
        }
      }
      4 => {
        // duplicate a span
        let e = (at + r.gen_range(1..24)).min(b.len());
        let span: Vec<u8> = b[at..e].to_vec();
        for (j, x) in span.into_iter().enumerate() {
          b.insert(e + j, x);
        }
      }
      5 => b[at] = r.gen_range(0x20..0x7f),
      6 => {
        // swap two bytes
        let other = r.gen_range(0..b.len());
        b.swap(at, other);
      }
      7 => {
        // ASCII letter inside a string -> multi-byte character (char-level)
        if b[at].is_ascii_alphabetic() {
          let rep = pick(r, &["\u{e9}", "\u{df}", "\u{3b1}", "\u{65e5}", "\u{1f680}"]);
          b.splice(at..at + 1, rep.bytes());
        }
      }
      _ => {
        let e = (at + r.gen_range(1..12)).min(b.len());
        b.drain(at..e);
      }
    }
  }
  String::from_utf8(b).ok()
}

// ------------------------------------------------------------------------------------------------
// Parent
// ------------------------------------------------------------------------------------------------

pub fn main(args: &Args) -> Result<()> {
  if args.flag("child") {
    return child(args);
  }
  let seed = args.u64("seed", 1);
  let out = args.str("out", "/verif/out/robust.ndjson");
  let n_rand = args.usize("random", 600);
  let n_mut = args.usize("mutants", 1500);
  let timeout_ms = args.u64("timeout-ms", 20_000);
  let mut scratch = Scratch::new("robust");
  if args.flag("keep") {
    scratch.keep();
  }
  for k in 0..3 {
    build_index(&scratch.join(&format!("idx{k}")), k, seed, false)?;
    build_index(&scratch.join(&format!("old{k}")), k, seed, true)?;
  }

  // ---- plan ----
  let mut plan: Vec<Value> = vec![];
  let mut seen: BTreeSet<String> = BTreeSet::new();
  let mut n_tlc = 0usize;
  if let Some(cases) = args.get("cases") {
    let text = std::fs::read_to_string(cases)?;
    let mut vs: Vec<Value> = vec![];
    for line in text.lines().filter(|l| !l.trim().is_empty()) {
      vs.push(serde_json::from_str(line)?);
    }
    // single-class cases first: a hang there identifies the class before its pairs are run
    vs.sort_by_key(|v| non_default(&v["cls"]).len());
    for v in vs {
      let key = v["cls"].to_string();
      if !seen.insert(key) {
        continue;
      }
      // index chosen round-robin; vector classes go to the index that has a vector field
      let q = v["cls"]["query"].as_str().unwrap_or("");
      let idx = if q.starts_with("vector") && n_tlc % 3 != 0 { 1 } else { n_tlc % 3 };
      plan.push(json!({"src": "tlc", "idx": idx, "cls": v["cls"]}));
      n_tlc += 1;
    }
  }
  // structure-aware random requests: a random class per dimension, then value-level tweaks
  let mut valid_texts: Vec<String> = vec![];
  for i in 0..n_rand {
    let mut r = rng(seed, 9_200_000 + i as u64);
    let mut cls = Map::new();
    for (d, cs) in DIMS.iter() {
      cls.insert(d.to_string(), json!(*pick(&mut r, cs)));
    }
    // cursors that need a first page are instantiated by the child: keep those as class vectors
    let cls = Value::Object(cls);
    let mut c2 = cls.clone();
    c2["cursor"] = json!("none");
    let mut req = base_request(&c2)?;
    let ntw = r.gen_range(0..4);
    for _ in 0..ntw {
      tweak(&mut req, &mut r, 0);
    }
    if chance(&mut r, 1, 3) {
      let c = match r.gen_range(0..8) {
        0 => format!("a{}a", "\u{e9}".repeat(r.gen_range(0..22))),
        1 => "\u{e9}".repeat(r.gen_range(0..24)),
        2 => (0..r.gen_range(0..60)).map(|_| char::from_digit(r.gen_range(0..16), 16).unwrap()).collect(),
        3 => hex(cursor_state_json(r.gen_range(0..4), r.gen_range(0..70_000)).as_bytes()),
        4 => format!("01{:08x}{:08x}{:08x}{:08x}{:08x}", r.gen_range(0..4u32), r.gen::<u32>(), r.gen_range(0..3u32), r.gen_range(0..40u32), r.gen_range(0..70_000u32)),
        5 => pick(&mut r, &NASTY_STR).to_string(),
        6 => format!("{}\u{1f680}", "0".repeat(r.gen_range(0..40))),
        _ => "\u{65e5}".repeat(r.gen_range(0..16)),
      };
      req["cursor"] = json!(c);
    }
    if ntw == 0 {
      valid_texts.push(req.to_string());
    }
    plan.push(json!({"src": "rand", "idx": i % 3, "req": req}));
  }
  // byte/char-level mutants of valid request JSON; only those that still deserialise are executed
  let mut tried = 0usize;
  let mut kept = 0usize;
  let mut deser_panics = 0usize;
  if !valid_texts.is_empty() {
    let mut r = rng(seed, 9_300_000);
    while kept < n_mut && tried < n_mut * 40 {
      tried += 1;
      let base = pick(&mut r, &valid_texts).clone();
      let Some(m) = mutate_text(&base, &mut r) else { continue };
      if m == base {
        continue;
      }
      match catch_unwind(|| serde_json::from_str::<SearchRequest>(&m).is_ok()) {
        Ok(true) => {
          plan.push(json!({"src": "mut", "idx": kept % 3, "text": m}));
          kept += 1;
        }
        Ok(false) => {}
        Err(_) => deser_panics += 1,
      }
    }
  }
  let plan_path = scratch.join("plan.ndjson");
  {
    let mut f = std::io::BufWriter::new(std::fs::File::create(&plan_path)?);
    for p in plan.iter() {
      writeln!(f, "{p}")?;
    }
  }

  // ---- run children ----
  let res_path = scratch.join("results.ndjson");
  let skip_path = scratch.join("skip.txt");
  std::fs::write(&skip_path, "")?;
  let exe = std::env::current_exe()?;
  let mut start = 0usize;
  let mut aborts: BTreeMap<usize, String> = BTreeMap::new();
  let mut restarts = 0usize;
  loop {
    let st = std::process::Command::new(&exe)
      .args(["robust", "--child", "--dir"])
      .arg(&scratch.path)
      .arg("--plan")
      .arg(&plan_path)
      .arg("--results")
      .arg(&res_path)
      .arg("--skip")
      .arg(&skip_path)
      .args(["--start", &start.to_string(), "--timeout-ms", &timeout_ms.to_string()])
      .args(["--slow-ms", &args.u64("slow-ms", 2_000).to_string()])
      .stderr(std::process::Stdio::null())
      .status()
      .context("spawning child")?;
    if st.success() {
      break;
    }
    restarts += 1;
    if restarts > 200 {
      bail!("child restarted more than 200 times");
    }
    // find the request that was in flight
    let text = std::fs::read_to_string(&res_path).unwrap_or_default();
    let mut last_begin: Option<usize> = None;
    let mut last_done: Option<usize> = None;
    for l in text.lines() {
      if let Ok(v) = serde_json::from_str::<Value>(l) {
        if let Some(b) = v.get("begin").and_then(|b| b.as_u64()) {
          last_begin = Some(b as usize);
        } else if let Some(i) = v.get("i").and_then(|b| b.as_u64()) {
          last_done = Some(i as usize);
        }
      }
    }
    match (last_begin, last_done) {
      (Some(b), d) if d != Some(b) => {
        if st.code() != Some(17) {
          aborts.insert(b, format!("child exited with {st}"));
        } else {
          // exit 17 after the result line was written never gets here; defensive
          aborts.insert(b, "child gave up".into());
        }
        start = b + 1;
      }
      (Some(b), _) => start = b + 1, // exit 17: restart after the last completed request
      (None, _) => bail!("child failed before the first request: {st}"),
    }
    if start >= plan.len() {
      break;
    }
  }

  // ---- merge into the trace ----
  let mut results: BTreeMap<usize, Value> = BTreeMap::new();
  for l in std::fs::read_to_string(&res_path)?.lines() {
    let v: Value = serde_json::from_str(l)?;
    if let Some(i) = v.get("i").and_then(|b| b.as_u64()) {
      results.insert(i as usize, v);
    }
  }
  let skip: BTreeSet<String> = std::fs::read_to_string(&skip_path)
    .unwrap_or_default()
    .lines()
    .filter(|l| !l.trim().is_empty() && !l.starts_with('#'))
    .map(|l| l.trim().to_string())
    .collect();
  let mut tr = Tracer::create(Path::new(&out))?;
  let mut counts: BTreeMap<String, usize> = BTreeMap::new();
  let mut skips: BTreeMap<String, usize> = BTreeMap::new();
  let mut max_ms = 0u64;
  let mut executed = 0usize;
  for (i, p) in plan.iter().enumerate() {
    let src = p["src"].as_str().unwrap();
    let cls = if src == "tlc" { p["cls"].clone() } else { free_cls() };
    let ev = if let Some(why) = aborts.get(&i) {
      let text = if src == "mut" { p["text"].as_str().unwrap().to_string() } else if src == "rand" { p["req"].to_string() } else { p["cls"].to_string() };
      json!({"ev": "req", "i": i, "src": src, "idx": p["idx"], "cls": cls, "outcome": "Abort",
             "feat": cursor_features(&json!({"__text": text})),
             "pcls": "-", "loc": "", "msg": why, "ms": 0, "req": text.chars().take(700).collect::<String>()})
    } else if let Some(rv) = results.get(&i) {
      if rv["outcome"] == "Skip" {
        let why: String = rv["why"].as_str().unwrap_or("").chars().take(40).collect();
        *skips.entry(why).or_insert(0) += 1;
        json!({"ev": "skip", "i": i, "src": src, "idx": p["idx"], "cls": cls, "why": rv["why"]})
      } else {
        max_ms = max_ms.max(rv["ms"].as_u64().unwrap_or(0));
        json!({"ev": "req", "i": i, "src": src, "idx": p["idx"], "cls": cls, "outcome": rv["outcome"],
               "feat": rv["feat"], "pcls": rv["pcls"], "loc": rv["loc"], "msg": rv["msg"], "ms": rv["ms"], "req": rv["req"]})
      }
    } else {
      json!({"ev": "skip", "i": i, "src": src, "idx": p["idx"], "cls": cls, "why": "not executed"})
    };
    if ev["ev"] == "req" {
      executed += 1;
      *counts.entry(format!("{}:{}", src, ev["outcome"].as_str().unwrap())).or_insert(0) += 1;
    }
    tr.emit(ev);
  }
  let lines = tr.finish();
  println!(
    "{}",
    json!({"planned": plan.len(), "executed": executed, "tlc_cases": n_tlc, "random": n_rand, "mutants": kept,
           "mutants_tried": tried, "deserialise_panics": deser_panics, "outcomes": counts, "skips": skips,
           "child_restarts": restarts, "max_ms": max_ms, "events": lines, "out": out,
           "hang_budget_skips": skip.iter().cloned().collect::<Vec<_>>(), "timeout_ms": timeout_ms})
  );
  Ok(())
}
