//! (stub) family `robust` - see CONTRIBUTING.md
use anyhow::{bail, Result};

use crate::util::Args;

pub fn main(_args: &Args) -> Result<()> {
  bail!("family robust is not implemented yet")
}
