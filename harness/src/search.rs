//! Search-oracle drivers (C07-C13, C18-C22): build random indexes, run generated requests through
//! the real reader and log abstract corpus / request / response events for Trace_Search.tla.

use anyhow::Result;
use rand::rngs::StdRng;
use rand::Rng;
use serde_json::{json, Value};

use searchlite_core::api::reader::SearchResult;
use searchlite_core::api::IndexReader;

use crate::corpus::*;
use crate::qgen::*;
use crate::util::*;

pub struct Scn {
  pub events: Vec<Value>,
  pub dict: Dict,
}

fn default_fields() -> Vec<String> {
  TEXT_FIELDS.iter().map(|s| s.to_string()).collect()
}

pub fn base_request(q: &Q, filter: Option<&F>, limit: usize, exec: &str) -> Value {
  let mut req = json!({
    "query": render_query(q),
    "limit": limit,
    "return_stored": false,
    "highlight_field": null,
    "execution": exec,
  });
  if let Some(f) = filter {
    req["filter"] = render_filter(f);
  }
  req
}

pub fn run_search(reader: &IndexReader, req: &Value) -> std::result::Result<SearchResult, String> {
  let parsed: searchlite_core::api::types::SearchRequest =
    serde_json::from_value(req.clone()).map_err(|e| format!("deserialize: {e}"))?;
  let r = std::panic::catch_unwind(std::panic::AssertUnwindSafe(|| reader.search(&parsed)));
  match r {
    Ok(Ok(res)) => Ok(res),
    Ok(Err(e)) => Err(format!("{e:#}")),
    Err(_) => Err("PANIC".to_string()),
  }
}

/// Score in units of 1e-4, kept inside TLC's 32-bit integers (the absolute oracles are not
/// applied to scores anywhere near the bound).
fn e4(x: f32) -> i64 {
  ((x as f64 * 10000.0).round() as i64).clamp(-2_000_000_000, 2_000_000_000)
}

pub fn obs_ids(res: &std::result::Result<SearchResult, String>) -> Value {
  match res {
    Ok(r) => json!({
      "ok": true, "err": "",
      "ids": r.hits.iter().map(|h| h.doc_id.clone()).collect::<Vec<_>>(),
      "scores": r.hits.iter().map(|h| e4(h.score)).collect::<Vec<_>>(),
      "total": r.total_hits_estimate, "hascursor": r.next_cursor.is_some(),
    }),
    Err(e) => json!({"ok": false, "err": e, "ids": [], "scores": [], "total": 0, "hascursor": false}),
  }
}

/// C07: query matching. C08: filter semantics (match_all + filter).
/// A word of the corpus with one or two character edits (also on multi-byte characters).
fn typo(r: &mut StdRng, w: &str) -> String {
  let mut c: Vec<char> = w.chars().collect();
  for _ in 0..r.gen_range(1..=2) {
    if c.is_empty() {
      break;
    }
    let i = r.gen_range(0..c.len());
    match r.gen_range(0..3) {
      0 => {
        c.remove(i);
      }
      1 => c.insert(i, *pick(r, &['a', 'e', 'u', 'x'])),
      _ => c[i] = *pick(r, &['a', 'e', 'u', 'x']),
    }
  }
  c.into_iter().collect()
}

/// Sets n.fz on every scored term node (also the groups of query_string / multi_match nodes).
fn annotate_fuzzy(q: &mut Value, fz: &Value) {
  match q {
    Value::Object(o) => {
      if o.get("k").and_then(|k| k.as_str()) == Some("term") && o.get("sc").and_then(|b| b.as_bool()) == Some(true) {
        o.insert("fz".into(), fz.clone());
      }
      for (_, v) in o.iter_mut() {
        annotate_fuzzy(v, fz);
      }
    }
    Value::Array(a) => a.iter_mut().for_each(|v| annotate_fuzzy(v, fz)),
    _ => {}
  }
}

fn family_match(r: &mut StdRng, scn: usize, fam: &str, n_req: usize, out: &mut Vec<Value>) -> Result<usize> {
  let mut knobs = Knobs::default();
  knobs.unicode_words = fam == "query";
  // every other scenario of the query family: a segment that lost most of its documents
  knobs.heavy_deletion = fam == "query" && scn % 2 == 1;
  let storage = storage_kind(r);
  let b = build_index(r, &knobs, storage)?;
  let reader = b.idx.reader()?;
  let mut dict = Dict::new();
  let corpus = corpus_event(&b, &reader, scn, &mut dict)?;
  let cfg = GenCfg { depth: 3, boosts: true, scoring_wrappers: fam == "query", filters_in_bool: true, expansions: true, nested_filters: true };
  let mut searches = Vec::new();
  let n_slots = corpus["docs"].as_array().map(|a| a.len()).unwrap_or(0);
  // every indexed word finds its document (C07): term queries from surface words
  if fam == "query" {
    for ((id, _ver), d) in b.versions.iter().take(6) {
      for f in TEXT_FIELDS {
        if let Some(text) = d.get(f).and_then(|v| v.as_str()) {
          if let Some(w) = text.split_whitespace().next() {
            let q = Q::Term { field: f.to_string(), value: w.to_string(), boost: None };
            let req = base_request(&q, None, n_slots + 5, "bm25");
            let res = run_search(&reader, &req);
            searches.push(json!({
              "ev": "search", "check": "match", "prop": "C07", "note": format!("word of {id}"),
              "q": abstract_query(&b.schema, &q, &default_fields(), true, 1.0, &mut dict),
              "filters": [], "obs": obs_ids(&res),
            }));
          }
        }
      }
    }
  }
  // typo-tolerant requests (README): words of the corpus with 1-2 edits under a request-level
  // fuzzy option whose expansion cap is above the dictionary size
  if fam == "query" {
    let words: Vec<String> = b
      .versions
      .values()
      .flat_map(|d| TEXT_FIELDS.iter().filter_map(|f| d.get(*f).and_then(|v| v.as_str()).map(|t| t.to_string())).collect::<Vec<_>>())
      .flat_map(|t| t.split_whitespace().map(|w| w.to_string()).collect::<Vec<_>>())
      .collect();
    for _ in 0..(if words.is_empty() { 0 } else { 8 }) {
      // every third request: one multi-byte character of an indexed word replaced by an ASCII
      // letter (one edit in characters, two or three in bytes)
      let uni: Vec<&String> = words.iter().filter(|w| !w.is_ascii()).collect();
      let w = if !uni.is_empty() && chance(r, 1, 3) {
        let base = (*pick(r, &uni)).clone();
        let mut c: Vec<char> = base.chars().collect();
        if let Some(i) = c.iter().position(|ch| !ch.is_ascii()) {
          c[i] = 'e';
        }
        c.into_iter().collect()
      } else {
        let base = pick(r, &words).clone();
        typo(r, &base)
      };
      let field = pick(r, &TEXT_FIELDS).to_string();
      let q = match r.gen_range(0..3) {
        0 => Q::Term { field, value: w, boost: None },
        1 => Q::Bool { must: vec![Q::Term { field, value: w, boost: None }], should: vec![gen_query(r, 0, &cfg)], must_not: vec![], filter: vec![], msm: None, boost: None },
        _ => Q::Bool { must: vec![], should: vec![Q::Term { field, value: w, boost: None }, gen_query(r, 1, &cfg)], must_not: vec![], filter: vec![], msm: None, boost: None },
      };
      let (edits, plen, minlen) = (*pick(r, &[0u8, 1, 1, 1, 2, 2, 3]), r.gen_range(0..=2), r.gen_range(0..=4));
      let mut req = base_request(&q, None, n_slots + 5, *pick(r, &["bm25", "wand"]));
      req["fuzzy"] = json!({"max_edits": edits, "prefix_length": plen, "max_expansions": 200, "min_length": minlen});
      let res = run_search(&reader, &req);
      let mut aq = abstract_query(&b.schema, &q, &default_fields(), true, 1.0, &mut dict);
      annotate_fuzzy(&mut aq, &json!({"has": true, "edits": edits, "plen": plen, "minlen": minlen}));
      searches.push(json!({
        "ev": "search", "check": "match", "prop": "C07", "note": "fuzzy",
        "q": aq, "filters": [], "obs": obs_ids(&res), "req": req.to_string(),
      }));
    }
  }
  // the most frequent body words under every execution strategy: their postings are the longest
  // and, after deletions, the ones that outnumber the live documents of a segment
  if fam == "query" {
    let mut freq: std::collections::BTreeMap<String, usize> = std::collections::BTreeMap::new();
    for d in b.versions.values() {
      if let Some(t) = d.get("body").and_then(|v| v.as_str()) {
        for w in t.split_whitespace() {
          *freq.entry(w.to_lowercase()).or_default() += 1;
        }
      }
    }
    let mut common: Vec<(usize, String)> = freq.into_iter().map(|(w, n)| (n, w)).collect();
    common.sort_by(|a, b| b.cmp(a));
    for (_, w) in common.into_iter().take(3) {
      for exec in ["wand", "bmw"] {
        let q = Q::Term { field: "body".into(), value: w.clone(), boost: None };
        let req = base_request(&q, None, n_slots + 5, exec);
        let res = run_search(&reader, &req);
        searches.push(json!({
          "ev": "search", "check": "match", "prop": "C07", "note": "frequent word",
          "q": abstract_query(&b.schema, &q, &default_fields(), true, 1.0, &mut dict),
          "filters": [], "obs": obs_ids(&res), "req": req.to_string(),
        }));
      }
    }
  }
  // regular expressions as the whole query (inside random trees their effect is mostly masked)
  if fam == "query" {
    for _ in 0..8 {
      let re = gen_re(r);
      let q = Q::Regex { field: pick(r, &TEXT_FIELDS).to_string(), value: re.render(true), re, cap: Some(100), boost: None };
      let req = base_request(&q, None, n_slots + 5, *pick(r, &["bm25", "wand"]));
      let res = run_search(&reader, &req);
      searches.push(json!({
        "ev": "search", "check": "match", "prop": "C07", "note": "regex",
        "q": abstract_query(&b.schema, &q, &default_fields(), true, 1.0, &mut dict),
        "filters": [], "obs": obs_ids(&res), "req": req.to_string(),
      }));
    }
  }
  let mut phrases = if fam == "query" { boundary_phrases(&b, r, 4) } else { Vec::new() };
  for _ in 0..n_req {
    let (q, filt) = if fam == "filter" {
      let fd = r.gen_range(1..=3);
      (Q::All, Some(gen_filter(r, fd, true, "")))
    } else if let Some(q) = phrases.pop() {
      (q, None)
    } else {
      let depth = r.gen_range(0..=cfg.depth);
      (gen_query(r, depth, &cfg), if chance(r, 1, 4) { Some(gen_filter(r, 1, true, "")) } else { None })
    };
    // the matching documents do not depend on the execution strategy (the limit covers them all)
    let exec = *pick(r, &["bm25", "bm25", "wand", "bmw"]);
    let mut req = base_request(&q, filt.as_ref(), n_slots + 5, exec);
    if exec == "bmw" && chance(r, 1, 2) {
      req["bmw_block_size"] = json!(r.gen_range(1..=4));
    }
    let res = run_search(&reader, &req);
    let filters: Vec<Value> = filt.iter().map(|f| abstract_filter(f, &mut dict)).collect();
    searches.push(json!({
      "ev": "search", "check": "match", "prop": if fam == "filter" { "C08" } else { "C07" }, "note": "",
      "q": abstract_query(&b.schema, &q, &default_fields(), true, 1.0, &mut dict),
      "filters": filters, "obs": obs_ids(&res), "req": req.to_string(),
    }));
  }
  out.push(json!({"ev": "reset", "scn": scn, "fam": fam, "storage": storage, "schema": b.schema_json["text_fields"].clone()}));
  out.push(json!({"ev": "dict", "entries": dict.to_json()}));
  out.push(corpus);
  let n = searches.len();
  out.extend(searches);
  Ok(n)
}

/// C14: the same battery of queries and filters before and after compaction; both runs are judged
/// by the absolute oracle (hence must agree with each other).
/// Phrase queries that span the boundary between two members of a multi-valued text field
/// (positions continue across members with a gap, also across empty members).
fn boundary_phrases(b: &Built, r: &mut StdRng, max: usize) -> Vec<Q> {
  let mut out = Vec::new();
  for d in b.versions.values() {
    for f in TEXT_FIELDS {
      if let Some(Value::Array(a)) = d.get(f) {
        let members: Vec<&str> = a.iter().filter_map(|v| v.as_str()).collect();
        for i in 0..members.len() {
          let Some(w1) = members[i].split_whitespace().last() else { continue };
          let Some(w2) = members[i + 1..].iter().find_map(|m| m.split_whitespace().next()) else { continue };
          let slop = match r.gen_range(0..4) {
            0 => Some(1),
            1 => Some(0),
            _ => None,
          };
          out.push(Q::Phrase { field: Some(f.to_string()), terms: vec![w1.to_string(), w2.to_string()], slop });
        }
      }
    }
    if out.len() >= max {
      break;
    }
  }
  out.truncate(max);
  out
}

fn family_compact(r: &mut StdRng, scn: usize, n_req: usize, out: &mut Vec<Value>) -> Result<usize> {
  let mut knobs = Knobs::default();
  knobs.max_commits = 4;
  let b = build_index(r, &knobs, "fs")?;
  let cfg = GenCfg { depth: 2, boosts: false, scoring_wrappers: false, filters_in_bool: true, expansions: true, nested_filters: true };
  let battery: Vec<(Q, Option<F>)> = (0..n_req)
    .map(|i| {
      if i % 2 == 0 {
        let fd = r.gen_range(1..=3);
        (Q::All, Some(gen_filter(r, fd, true, "")))
      } else {
        let depth = r.gen_range(0..=cfg.depth);
        (gen_query(r, depth, &cfg), if chance(r, 1, 4) { Some(gen_filter(r, 1, true, "")) } else { None })
      }
    })
    .collect();
  let mut battery = battery;
  battery.extend(boundary_phrases(&b, r, 6).into_iter().map(|q| (q, None)));
  let mut total = 0;
  for phase in 0..2 {
    if phase == 1 {
      b.idx.compact()?;
    }
    let reader = b.idx.reader()?;
    let mut dict = Dict::new();
    let corpus = corpus_event(&b, &reader, scn, &mut dict)?;
    let n_slots = corpus["docs"].as_array().map(|a| a.len()).unwrap_or(0);
    let mut searches = Vec::new();
    for (q, filt) in battery.iter() {
      let req = base_request(q, filt.as_ref(), n_slots + 5, "bm25");
      let res = run_search(&reader, &req);
      let filters: Vec<Value> = filt.iter().map(|f| abstract_filter(f, &mut dict)).collect();
      searches.push(json!({
        "ev": "search", "check": "match", "prop": "C14", "note": if phase == 0 { "before compaction" } else { "after compaction" },
        "q": abstract_query(&b.schema, q, &default_fields(), true, 1.0, &mut dict),
        "filters": filters, "obs": obs_ids(&res), "req": req.to_string(),
      }));
    }
    total += emit_scenario(out, scn, if phase == 0 { "compact-before" } else { "compact-after" }, "fs", &b, &dict, corpus, searches);
  }
  Ok(total)
}

/// Order-preserving integer image of an f32 (fits TLC's 32-bit integers).
pub fn sbits(x: f32) -> i64 {
  let b = x.to_bits();
  if b & 0x8000_0000 != 0 {
    -((b & 0x7fff_ffff) as i64)
  } else {
    b as i64
  }
}

#[derive(Clone, Debug)]
pub struct SortSpecA {
  pub field: String,
  pub kind: &'static str,
  pub desc: Option<bool>,
}

pub fn gen_sort(r: &mut StdRng) -> Vec<SortSpecA> {
  let n = r.gen_range(0..=3);
  let mut out: Vec<SortSpecA> = Vec::new();
  for _ in 0..n {
    let (f, k) = *pick(r, &[("_score", "score"), ("tag", "kw"), ("cat", "kw"), ("year", "i64"), ("rank", "i64"), ("price", "f64")]);
    if out.iter().any(|s| s.field == f) {
      continue;
    }
    out.push(SortSpecA { field: f.to_string(), kind: k, desc: match r.gen_range(0..3) { 0 => None, 1 => Some(false), _ => Some(true) } });
  }
  out
}

pub fn render_sort(s: &[SortSpecA]) -> Value {
  Value::Array(
    s.iter()
      .map(|x| match x.desc {
        Some(d) => json!({"field": x.field, "order": if d { "desc" } else { "asc" }}),
        None => json!({"field": x.field}),
      })
      .collect(),
  )
}

/// Abstract sort plan: the default plan is score descending; the default order is ascending
/// except for `_score` (README "Sorting").
pub fn abstract_sort(s: &[SortSpecA]) -> Value {
  if s.is_empty() {
    return json!([{"kind": "score", "f": "_score", "desc": true}]);
  }
  Value::Array(
    s.iter()
      .map(|x| json!({"kind": x.kind, "f": x.field, "desc": x.desc.unwrap_or(x.kind == "score")}))
      .collect(),
  )
}

pub fn obs_full(res: &std::result::Result<SearchResult, String>) -> Value {
  match res {
    Ok(r) => json!({
      "ok": true, "err": "",
      "ids": r.hits.iter().map(|h| h.doc_id.clone()).collect::<Vec<_>>(),
      "scores": r.hits.iter().map(|h| e4(h.score)).collect::<Vec<_>>(),
      "sbits": r.hits.iter().map(|h| sbits(h.score)).collect::<Vec<_>>(),
      "total": r.total_hits_estimate, "hascursor": r.next_cursor.is_some(),
      "cursor": r.next_cursor.clone().unwrap_or_default(),
      "aggs": serde_json::to_string(&r.aggregations).unwrap_or_default(),
      "suggest": serde_json::to_string(&r.suggest).unwrap_or_default(),
    }),
    Err(e) => json!({"ok": false, "err": e, "ids": [], "scores": [], "sbits": [], "total": 0, "hascursor": false,
                      "cursor": "", "aggs": "", "suggest": ""}),
  }
}

/// C10: order and scores.
fn family_rank(r: &mut StdRng, scn: usize, n_req: usize, out: &mut Vec<Value>) -> Result<usize> {
  let mut knobs = Knobs::default();
  let absolute = chance(r, 2, 3);
  knobs.deletions = !absolute;
  let storage = storage_kind(r);
  let b = build_index(r, &knobs, storage)?;
  let reader = b.idx.reader()?;
  let mut dict = Dict::new();
  let corpus = corpus_event(&b, &reader, scn, &mut dict)?;
  let cfg = GenCfg { depth: 2, boosts: true, scoring_wrappers: true, filters_in_bool: true, expansions: true, nested_filters: false };
  let n_slots = corpus["docs"].as_array().map(|a| a.len()).unwrap_or(0);
  let mut searches = Vec::new();
  for _ in 0..n_req {
    let depth = r.gen_range(0..=cfg.depth);
    let q = gen_query(r, depth, &cfg);
    let filt = if chance(r, 1, 5) { Some(gen_filter(r, 1, false, "")) } else { None };
    let sort = gen_sort(r);
    let limit = if chance(r, 1, 2) { n_slots + 5 } else { r.gen_range(1..=6) };
    let exec = *pick(r, &["bm25", "wand", "bmw"]);
    let mut req = base_request(&q, filt.as_ref(), limit, exec);
    req["sort"] = render_sort(&sort);
    let res = run_search(&reader, &req);
    let filters: Vec<Value> = filt.iter().map(|f| abstract_filter(f, &mut dict)).collect();
    searches.push(json!({
      "ev": "search", "check": "rank", "prop": "C10", "absolute": absolute, "limit": limit, "exec": exec,
      "q": abstract_query(&b.schema, &q, &default_fields(), true, 1.0, &mut dict),
      "filters": filters, "sort": abstract_sort(&sort), "obs": obs_full(&res), "req": req.to_string(),
    }));
  }
  out.push(json!({"ev": "reset", "scn": scn, "fam": "rank", "storage": storage, "schema": b.schema_json["text_fields"].clone()}));
  out.push(json!({"ev": "dict", "entries": dict.to_json()}));
  out.push(corpus);
  let n = searches.len();
  out.extend(searches);
  Ok(n)
}

fn emit_scenario(out: &mut Vec<Value>, scn: usize, fam: &str, storage: &str, b: &Built, dict: &Dict, corpus: Value, searches: Vec<Value>) -> usize {
  out.push(json!({"ev": "reset", "scn": scn, "fam": fam, "storage": storage, "schema": b.schema_json["text_fields"].clone()}));
  out.push(json!({"ev": "dict", "entries": dict.to_json()}));
  out.push(corpus);
  let n = searches.len();
  out.extend(searches);
  n
}

/// C11: cursor walks, totals, stale cursors. Heavy score / sort-value ties across segments.
fn family_paging(r: &mut StdRng, scn: usize, n_req: usize, out: &mut Vec<Value>) -> Result<usize> {
  let mut knobs = Knobs::default();
  knobs.n_docs = (6, 20);
  knobs.nested = false;
  let storage = "fs";
  let b = build_index(r, &knobs, storage)?;
  let mut reader = b.idx.reader()?;
  let mut dict = Dict::new();
  let corpus = corpus_event(&b, &reader, scn, &mut dict)?;
  // few distinct words => many score ties; constant_score / match_all => all scores tie
  let cfg = GenCfg { depth: 1, boosts: false, scoring_wrappers: false, filters_in_bool: true, expansions: false, nested_filters: false };
  let n_slots = corpus["docs"].as_array().map(|a| a.len()).unwrap_or(0);
  let mut searches = Vec::new();
  let mut saved: Vec<(Value, String)> = Vec::new(); // (request without cursor, a cursor of it)
  for _ in 0..n_req {
    let depth = r.gen_range(0..=cfg.depth);
    let q = if chance(r, 1, 4) { Q::All } else { gen_query(r, depth, &cfg) };
    let filt = if chance(r, 1, 5) { Some(gen_filter(r, 1, false, "")) } else { None };
    let sort = gen_sort(r);
    let psize = r.gen_range(1..=7);
    let exec = *pick(r, &["bm25", "wand", "bmw"]);
    let mut full_req = base_request(&q, filt.as_ref(), n_slots + 5, exec);
    full_req["sort"] = render_sort(&sort);
    let full = run_search(&reader, &full_req);
    let mut pages = Vec::new();
    let mut cursor: Option<String> = None;
    let mut guard = 0;
    loop {
      let mut req = base_request(&q, filt.as_ref(), psize, exec);
      req["sort"] = render_sort(&sort);
      if let Some(c) = &cursor {
        req["cursor"] = json!(c);
      }
      let res = run_search(&reader, &req);
      let next = res.as_ref().ok().and_then(|x| x.next_cursor.clone());
      pages.push(obs_full(&res));
      if let (Some(c), true) = (&next, saved.len() < 4) {
        let mut base = base_request(&q, filt.as_ref(), psize, exec);
        base["sort"] = render_sort(&sort);
        saved.push((base, c.clone()));
      }
      guard += 1;
      match next {
        Some(c) if guard < 80 => cursor = Some(c),
        _ => break,
      }
    }
    let filters: Vec<Value> = filt.iter().map(|f| abstract_filter(f, &mut dict)).collect();
    searches.push(json!({
      "ev": "search", "check": "paging", "prop": "C11", "psize": psize, "exec": exec, "guard": guard >= 80,
      "q": abstract_query(&b.schema, &q, &default_fields(), true, 1.0, &mut dict),
      "filters": filters, "sort": abstract_sort(&sort), "full": obs_full(&full), "pages": pages,
      "req": full_req.to_string(),
    }));
  }
  // stale cursors: other sort plan, then after a commit that adds a segment, then after compaction
  let mut stale = Vec::new();
  for (req, cur) in saved.iter() {
    let mut other = req.clone();
    let cur_sort = req["sort"].to_string();
    let alt = [json!([{"field": "year", "order": "desc"}]), json!([{"field": "year", "order": "asc"}]), json!([])];
    let alt_sort = alt.iter().find(|a| a.to_string() != cur_sort).unwrap().clone();
    other["sort"] = alt_sort;
    other["cursor"] = json!(cur);
    let res = run_search(&reader, &other);
    stale.push(json!({"ev": "search", "check": "stale", "prop": "C11", "kind": "other_sort", "ok": res.is_ok(),
                      "err": res.err().unwrap_or_default(), "req": other.to_string()}));
  }
  if !saved.is_empty() {
    // a writer handle that stays open across the other handle's commit (its idea of the current
    // generation is then behind)
    let mut w_old = b.idx.writer()?;
    {
      let mut w = b.idx.writer()?;
      w.add_document(&doc_from_json(json!({"_id": "zz-new", "ver": 9999, "body": "rust rust go"})))?;
      w.commit()?;
    }
    reader = b.idx.reader()?;
    // cursors minted now, then a commit through the old handle: they are stale as well
    let mut minted: Vec<(Value, String)> = Vec::new();
    for (req, _) in saved.iter().take(4) {
      let mut p1 = req.clone();
      p1["limit"] = json!(1);
      if let Ok(res) = run_search(&reader, &p1) {
        if let Some(c) = res.next_cursor {
          minted.push((p1, c));
        }
      }
    }
    w_old.add_document(&doc_from_json(json!({"_id": "zz-old", "ver": 9998, "body": "rust go go"})))?;
    w_old.commit()?;
    drop(w_old);
    let reader2 = b.idx.reader()?;
    for (req, cur) in minted.iter() {
      let mut again = req.clone();
      again["cursor"] = json!(cur);
      let res = run_search(&reader2, &again);
      stale.push(json!({"ev": "search", "check": "stale", "prop": "C11", "kind": "after_commit", "ok": res.is_ok(),
                        "err": res.err().unwrap_or_default(), "req": again.to_string()}));
    }
    for (req, cur) in saved.iter() {
      let mut again = req.clone();
      again["cursor"] = json!(cur);
      let res = run_search(&reader, &again);
      stale.push(json!({"ev": "search", "check": "stale", "prop": "C11", "kind": "after_commit", "ok": res.is_ok(),
                        "err": res.err().unwrap_or_default(), "req": again.to_string()}));
    }
    if b.idx.compact().is_ok() {
      reader = b.idx.reader()?;
      for (req, cur) in saved.iter() {
        let mut again = req.clone();
        again["cursor"] = json!(cur);
        let res = run_search(&reader, &again);
        stale.push(json!({"ev": "search", "check": "stale", "prop": "C11", "kind": "after_compact", "ok": res.is_ok(),
                          "err": res.err().unwrap_or_default(), "req": again.to_string()}));
      }
    }
  }
  searches.extend(stale);
  Ok(emit_scenario(out, scn, "paging", storage, &b, &dict, corpus, searches))
}

fn explain_finals(res: &std::result::Result<SearchResult, String>) -> Value {
  match res {
    Ok(r) => Value::Array(
      r.hits
        .iter()
        .map(|h| match &h.explanation {
          Some(x) => json!(sbits(x.final_score)),
          None => json!(sbits(h.score)),
        })
        .collect(),
    ),
    Err(_) => json!([]),
  }
}

/// C09 (pruned = exhaustive) and C20 (explain/profile change nothing): relational checks.
fn family_relate(r: &mut StdRng, scn: usize, n_req: usize, out: &mut Vec<Value>) -> Result<usize> {
  let mut knobs = Knobs::default();
  let long = scn % 2 == 1;
  if long {
    knobs.long_postings = true;
    knobs.nested = false;
    knobs.n_docs = (300, 900);
    knobs.max_commits = 3;
  }
  let spiky = scn % 4 == 3;
  if spiky {
    knobs.spiky = true;
    knobs.n_docs = (300, 700);
    knobs.max_commits = 2;
  }
  let storage = storage_kind(r);
  let b = build_index(r, &knobs, storage)?;
  let reader = b.idx.reader()?;
  let mut dict = Dict::new();
  let corpus = if long {
    json!({"ev": "corpus", "scn": scn, "nseg": reader.segments.len(), "docs": []})
  } else {
    corpus_event(&b, &reader, scn, &mut dict)?
  };
  let cfg = GenCfg { depth: 2, boosts: true, scoring_wrappers: true, filters_in_bool: true, expansions: true, nested_filters: false };
  let mut searches = Vec::new();
  for i in 0..n_req {
    let depth = r.gen_range(0..=cfg.depth);
    let mut q = gen_query(r, depth, &cfg);
    if spiky && i % 2 == 0 {
      let term = |w: &str| Q::Term { field: "body".into(), value: w.into(), boost: None };
      let should = |qs: Vec<Q>| Q::Bool { must: vec![], should: qs, must_not: vec![], filter: vec![], msm: None, boost: None };
      q = match r.gen_range(0..6) {
        0 => term("zig"),
        1 => should(vec![term("zig"), term("go")]),
        2 => should(vec![term("go"), term("zig"), term(WORDS[r.gen_range(0..WORDS.len())])]),
        // several words under ONE scoring leaf (their block bounds add up)
        3 => Q::QueryString {
          terms: vec![QsTerm { field: None, word: "zig".into() }, QsTerm { field: None, word: "go".into() }],
          nots: vec![], phrases: vec![], fields: Some(vec!["body".to_string()]), boost: None,
        },
        4 => Q::MultiMatch {
          words: vec!["zig".into(), "go".into()], nots: vec![], fields: vec![("body".to_string(), None)],
          mtype: *pick(r, &["best_fields", "most_fields"]), and: None, msm: None, tie: None, boost: None,
        },
        _ => should(vec![term("zig"), q]),
      };
    }
    let filt = if chance(r, 1, 5) { Some(gen_filter(r, 1, false, "")) } else { None };
    let sort = if chance(r, 3, 4) { vec![] } else { gen_sort(r) };
    let limit = if spiky && chance(r, 1, 2) { r.gen_range(1..=3) } else { r.gen_range(1..=50) };
    let mut base = base_request(&q, filt.as_ref(), limit, "bm25");
    base["sort"] = render_sort(&sort);
    if i % 2 == 0 {
      let mut variants = Vec::new();
      let combos: Vec<(&str, Option<usize>)> = vec![
        ("bm25", None), ("wand", None), ("bmw", None), ("bmw", Some(r.gen_range(1..=8))), ("bmw", Some(r.gen_range(9..=300))), ("wand", Some(1)),
      ];
      let mut combos = combos;
      if spiky {
        // block sizes on both sides of the stored block size (128) on posting lists longer than a block
        combos.extend([("bmw", Some(r.gen_range(100..=127))), ("bmw", Some(r.gen_range(129..=200))), ("bmw", Some(r.gen_range(201..=300)))]);
      }
      for (exec, bs) in combos {
        let mut req = base.clone();
        req["execution"] = json!(exec);
        if let Some(bs) = bs {
          req["bmw_block_size"] = json!(bs);
        }
        let res = run_search(&reader, &req);
        variants.push(json!({"label": format!("{exec}/{bs:?}"), "obs": obs_full(&res)}));
      }
      searches.push(json!({"ev": "search", "check": "same", "prop": "C09", "proj": ["ok", "ids", "sbits"],
                           "variants": variants, "req": base.to_string()}));
    } else {
      let exec = *pick(r, &["bm25", "wand", "bmw"]);
      base["execution"] = json!(exec);
      if chance(r, 1, 3) {
        base["aggs"] = json!({"tags": {"type": "terms", "field": "tag", "size": 10, "shard_size": null, "min_doc_count": null, "missing": null}});
      }
      let mut variants = Vec::new();
      for (ex, pr) in [(false, false), (true, false), (false, true), (true, true)] {
        let mut req = base.clone();
        req["explain"] = json!(ex);
        req["profile"] = json!(pr);
        let res = run_search(&reader, &req);
        let mut o = obs_full(&res);
        o["finals"] = explain_finals(&res);
        variants.push(json!({"label": format!("explain={ex} profile={pr}"), "explain": ex, "obs": o}));
      }
      searches.push(json!({"ev": "search", "check": "same", "prop": "C20", "sort": abstract_sort(&sort), "exec": exec,
                           "proj": ["ok", "ids", "sbits", "total", "cursor", "aggs"],
                           "variants": variants, "req": base.to_string()}));
    }
  }
  Ok(emit_scenario(out, scn, "relate", storage, &b, &dict, corpus, searches))
}

pub fn main(args: &Args) -> Result<()> {
  let seed = args.u64("seed", 1);
  let fam = args.str("family", "query");
  let out = args.str("out", "/verif/out/search.ndjson");
  let n_scn = args.usize("scenarios", 10);
  let n_req = args.usize("requests", 40);
  let mut tr = Tracer::create(std::path::Path::new(&out))?;
  let mut total = 0usize;
  for scn in 0..n_scn {
    let mut r = rng(seed, 3_000_000 + scn as u64);
    let mut evs = Vec::new();
    let n = match fam.as_str() {
      "query" | "filter" => family_match(&mut r, scn, &fam, n_req, &mut evs)?,
      "rank" => family_rank(&mut r, scn, n_req, &mut evs)?,
      "paging" => family_paging(&mut r, scn, n_req, &mut evs)?,
      "compact" => family_compact(&mut r, scn, n_req, &mut evs)?,
      "relate" => family_relate(&mut r, scn, n_req, &mut evs)?,
      "vector" => crate::vector::family_vector(&mut r, scn, n_req, &mut evs)?,
      other => anyhow::bail!("unknown search family {other}"),
    };
    total += n;
    for e in evs {
      tr.emit(strip_nulls(e));
    }
  }
  let lines = tr.finish();
  println!("{}", json!({"scenarios": n_scn, "requests": total, "events": lines, "out": out}));
  Ok(())
}

/// The request JSON is logged as a string; everything else must already be null-free.
pub fn _strip_nulls_unused() {}
fn strip_nulls(v: Value) -> Value {
  v
}
