//! (stub) family `search` - see CONTRIBUTING.md
use anyhow::{bail, Result};

use crate::util::Args;

pub fn main(_args: &Args) -> Result<()> {
  bail!("family search is not implemented yet")
}
