//! Shared helpers: seeded RNG, ndjson trace writer, scratch directories, index helpers.
#![allow(dead_code)]

use std::io::Write;
use std::path::{Path, PathBuf};
use std::sync::Arc;

use anyhow::Result;
use rand::rngs::StdRng;
use rand::{Rng, SeedableRng};
use serde_json::{json, Value};

use searchlite_core::api::types::{Document, IndexOptions, SearchRequest, StorageType};
use searchlite_core::api::Index;
use searchlite_core::storage::Storage;
use searchlite_core::Schema;

pub struct Args {
  pub map: std::collections::BTreeMap<String, String>,
}

impl Args {
  pub fn parse(args: &[String]) -> Self {
    let mut map = std::collections::BTreeMap::new();
    let mut i = 0;
    while i < args.len() {
      let a = &args[i];
      if let Some(k) = a.strip_prefix("--") {
        if i + 1 < args.len() && !args[i + 1].starts_with("--") {
          map.insert(k.to_string(), args[i + 1].clone());
          i += 2;
        } else {
          map.insert(k.to_string(), "true".to_string());
          i += 1;
        }
      } else {
        i += 1;
      }
    }
    Self { map }
  }
  pub fn get(&self, k: &str) -> Option<&str> {
    self.map.get(k).map(|s| s.as_str())
  }
  pub fn str(&self, k: &str, d: &str) -> String {
    self.get(k).unwrap_or(d).to_string()
  }
  pub fn u64(&self, k: &str, d: u64) -> u64 {
    self.get(k).and_then(|s| s.parse().ok()).unwrap_or(d)
  }
  pub fn usize(&self, k: &str, d: usize) -> usize {
    self.u64(k, d as u64) as usize
  }
  pub fn flag(&self, k: &str) -> bool {
    self.get(k).map(|v| v != "false").unwrap_or(false)
  }
}

pub fn rng(seed: u64, stream: u64) -> StdRng {
  StdRng::seed_from_u64(seed.wrapping_mul(0x9E37_79B9_7F4A_7C15).wrapping_add(stream))
}

pub fn pick<'a, T>(r: &mut StdRng, xs: &'a [T]) -> &'a T {
  &xs[r.gen_range(0..xs.len())]
}

pub fn chance(r: &mut StdRng, num: u32, den: u32) -> bool {
  r.gen_range(0..den) < num
}

/// ndjson trace writer; every line is one JSON object without nulls/floats (TLC's Json module
/// rejects null and truncates fractions).
pub struct Tracer {
  out: std::io::BufWriter<std::fs::File>,
  pub lines: usize,
}

impl Tracer {
  pub fn create(path: &Path) -> Result<Self> {
    if let Some(p) = path.parent() {
      std::fs::create_dir_all(p)?;
    }
    Ok(Self {
      out: std::io::BufWriter::new(std::fs::File::create(path)?),
      lines: 0,
    })
  }
  pub fn emit(&mut self, v: Value) {
    debug_assert!(no_null_or_float(&v), "trace value has null/float: {v}");
    serde_json::to_writer(&mut self.out, &v).unwrap();
    self.out.write_all(b"\n").unwrap();
    self.lines += 1;
  }
  pub fn flush(&mut self) {
    self.out.flush().unwrap();
  }
  pub fn finish(mut self) -> usize {
    self.out.flush().unwrap();
    self.lines
  }
}

pub fn no_null_or_float(v: &Value) -> bool {
  match v {
    Value::Null => false,
    Value::Number(n) => n.is_i64() || n.is_u64(),
    Value::Array(a) => a.iter().all(no_null_or_float),
    Value::Object(o) => o.values().all(no_null_or_float),
    _ => true,
  }
}

/// Scratch directory under $VERIF_WORK (default /verif/out/work); removed on drop.
pub struct Scratch {
  pub path: PathBuf,
  keep: bool,
}

static SCRATCH_N: std::sync::atomic::AtomicU64 = std::sync::atomic::AtomicU64::new(0);

impl Scratch {
  pub fn new(tag: &str) -> Self {
    let base = std::env::var("VERIF_WORK").unwrap_or_else(|_| "/verif/out/work".to_string());
    let n = SCRATCH_N.fetch_add(1, std::sync::atomic::Ordering::SeqCst);
    let path = PathBuf::from(base).join(format!("{}-{}-{}", tag, std::process::id(), n));
    let _ = std::fs::remove_dir_all(&path);
    std::fs::create_dir_all(&path).unwrap();
    Self { path, keep: false }
  }
  pub fn keep(&mut self) {
    self.keep = true;
  }
  pub fn join(&self, s: &str) -> PathBuf {
    self.path.join(s)
  }
}

impl Drop for Scratch {
  fn drop(&mut self) {
    if !self.keep {
      let _ = std::fs::remove_dir_all(&self.path);
    }
  }
}

pub fn opts(path: &Path, storage: StorageType) -> IndexOptions {
  IndexOptions {
    path: path.to_path_buf(),
    create_if_missing: false,
    enable_positions: true,
    bm25_k1: 1.2,
    bm25_b: 0.75,
    storage,
    vector_defaults: None,
  }
}

pub fn schema_from_json(mut v: Value) -> Schema {
  if let Some(o) = v.as_object_mut() {
    o.entry("vector_fields").or_insert(json!([]));
  }
  serde_json::from_value(v).expect("schema json")
}

pub fn doc_from_json(v: Value) -> Document {
  let fields = v
    .as_object()
    .expect("doc object")
    .iter()
    .map(|(k, v)| (k.clone(), v.clone()))
    .collect();
  Document { fields }
}

pub fn request(v: Value) -> SearchRequest {
  serde_json::from_value(v).expect("search request json")
}

pub fn match_all_request(limit: usize) -> SearchRequest {
  request(json!({
    "query": {"type": "match_all"},
    "limit": limit,
    "return_stored": true,
    "highlight_field": null,
    "execution": "bm25",
  }))
}

/// Contents seen by a fresh reader: (id, stored fields) sorted by id.
pub fn contents(idx: &Index) -> Result<Vec<(String, Value)>> {
  let reader = idx.reader()?;
  let res = reader.search(&match_all_request(10_000))?;
  let mut out: Vec<(String, Value)> = res
    .hits
    .into_iter()
    .map(|h| (h.doc_id, h.fields.unwrap_or(Value::Null)))
    .collect();
  out.sort_by(|a, b| a.0.cmp(&b.0));
  Ok(out)
}

/// Flatten a JSON document into leaf entries `[path, canonical-json]`. Top-level values are
/// treated as value lists (`"x"` and `["x"]` flatten identically, an empty list or null yields
/// no entry), nested objects recurse with `.name`, arrays of objects with `[i]`.
pub fn flatten_doc(v: &Value) -> Vec<(String, String)> {
  let mut out = Vec::new();
  if let Some(map) = v.as_object() {
    for (k, val) in map.iter() {
      flatten_value(k, val, &mut out);
    }
  }
  out.sort();
  out
}

fn flatten_value(path: &str, v: &Value, out: &mut Vec<(String, String)>) {
  match v {
    Value::Null => {}
    Value::Array(items) => {
      if items.iter().all(|i| !i.is_object() && !i.is_array()) {
        for (i, item) in items.iter().enumerate() {
          if !item.is_null() {
            out.push((format!("{path}#{i}"), item.to_string()));
          }
        }
      } else {
        for (i, item) in items.iter().enumerate() {
          flatten_value(&format!("{path}[{i}]"), item, out);
        }
      }
    }
    Value::Object(map) => {
      for (k, val) in map.iter() {
        flatten_value(&format!("{path}.{k}"), val, out);
      }
    }
    other => out.push((format!("{path}#0"), other.to_string())),
  }
}

pub fn pairs_json(p: &[(String, String)]) -> Value {
  Value::Array(p.iter().map(|(a, b)| json!([a, b])).collect())
}

pub fn storage_arc(kind: &str, root: &Path) -> (Arc<dyn Storage>, StorageType) {
  match kind {
    "memory" => (
      Arc::new(searchlite_core::storage::InMemoryStorage::new(root.to_path_buf())),
      StorageType::InMemory,
    ),
    _ => (
      Arc::new(searchlite_core::storage::FsStorage::new(root.to_path_buf())),
      StorageType::Filesystem,
    ),
  }
}

pub fn rand_u64(r: &mut StdRng) -> u64 {
  r.gen()
}
