//! C15 driver: add-time validation versus commit-time collection.
//!
//! For every document (TLC-generated shapes from MC_Validate.tla, or seeded random mutants of valid
//! documents over random schemas): fresh index, add the document, commit, add a second valid
//! document, commit, then a new writer (which replays the log) and commit again. One ndjson event
//! per document records the outcome of every call together with the *abstract shape* of the
//! document; spec/Trace_Validate.tla judges them with the operators of spec/Validate.tla.
//! This file only materialises, drives and records.

use std::collections::BTreeMap;
use std::panic::{catch_unwind, AssertUnwindSafe};

use anyhow::{bail, Result};
use rand::rngs::StdRng;
use rand::Rng;
use serde_json::{json, Map, Value};

use searchlite_core::api::Index;

use crate::util::*;

// ------------------------------------------------------------------------------------------------
// Abstract shapes (the value language of Validate.tla): {"k": kind, "items": [...], "names": [...]}
// ------------------------------------------------------------------------------------------------

pub fn abstract_value(v: &Value) -> Value {
  match v {
    Value::Null => json!({"k": "null", "items": [], "names": []}),
    Value::Bool(_) => json!({"k": "bool", "items": [], "names": []}),
    Value::Number(n) => {
      let k = if n.is_i64() || n.is_u64() { "int" } else { "frac" };
      json!({"k": k, "items": [], "names": []})
    }
    Value::String(s) => {
      let k = if s.is_empty() {
        "estr"
      } else if s.trim().is_empty() {
        "bstr"
      } else {
        "str"
      };
      json!({"k": k, "items": [], "names": []})
    }
    Value::Array(a) => {
      json!({"k": "arr", "items": a.iter().map(abstract_value).collect::<Vec<_>>(), "names": []})
    }
    Value::Object(o) => json!({
      "k": "obj",
      "items": o.values().map(abstract_value).collect::<Vec<_>>(),
      "names": o.keys().cloned().collect::<Vec<_>>(),
    }),
  }
}

/// Concrete JSON for an abstract shape. `path` only varies the string contents.
pub fn materialise(a: &Value, path: &str) -> Result<Value> {
  let k = a["k"].as_str().unwrap_or("");
  Ok(match k {
    "null" => Value::Null,
    "bool" => json!(true),
    "int" => json!(1),
    "frac" => json!(1.5),
    "str" => json!(format!("s {path}")),
    "estr" => json!(""),
    "bstr" => json!("  "),
    "arr" => Value::Array(
      a["items"]
        .as_array()
        .unwrap()
        .iter()
        .enumerate()
        .map(|(i, x)| materialise(x, &format!("{path}{i}")))
        .collect::<Result<Vec<_>>>()?,
    ),
    "obj" => {
      let mut m = Map::new();
      let names = a["names"].as_array().unwrap();
      let items = a["items"].as_array().unwrap();
      for (n, x) in names.iter().zip(items.iter()) {
        let n = n.as_str().unwrap();
        m.insert(n.to_string(), materialise(x, &format!("{path}{n}"))?);
      }
      Value::Object(m)
    }
    other => bail!("cannot materialise shape kind {other:?}"),
  })
}

/// serde_json maps are sorted by key; TLC prints documents in its own field order. The abstraction
/// recorded in the trace is always the abstraction of the concrete document that was executed.
fn same_shape_modulo_order(a: &Value, b: &Value) -> bool {
  fn canon(v: &Value) -> Value {
    let k = v["k"].as_str().unwrap_or("").to_string();
    let items: Vec<Value> = v["items"].as_array().map(|x| x.iter().map(canon).collect()).unwrap_or_default();
    if k == "obj" {
      let names: Vec<String> = v["names"]
        .as_array()
        .unwrap()
        .iter()
        .map(|n| n.as_str().unwrap().to_string())
        .collect();
      let mut pairs: Vec<(String, Value)> = names.into_iter().zip(items).collect();
      pairs.sort_by(|x, y| x.0.cmp(&y.0));
      json!({"k": k, "p": pairs.into_iter().map(|(n, v)| json!([n, v])).collect::<Vec<_>>()})
    } else {
      json!({"k": k, "p": items})
    }
  }
  canon(a) == canon(b)
}

// ------------------------------------------------------------------------------------------------
// Abstract schemas: {"id": "_id", "fields": [{"name","kind","nullable","dim","props":[...]}]}
// ------------------------------------------------------------------------------------------------

fn leaf_json(f: &Value, r: &mut StdRng, nested: bool) -> Value {
  let name = f["name"].as_str().unwrap();
  let nullable = f["nullable"].as_bool().unwrap();
  // storage flags are not part of the abstraction: vary them
  let stored = r.gen_range(0..4) != 0;
  let fast = r.gen_range(0..4) != 0;
  let mut o = match f["kind"].as_str().unwrap() {
    "text" => json!({"name": name, "analyzer": "default", "stored": stored, "indexed": true, "nullable": nullable}),
    "keyword" => json!({"name": name, "stored": stored, "indexed": true, "fast": fast, "nullable": nullable}),
    "i64" => json!({"name": name, "i64": true, "fast": fast, "stored": stored, "nullable": nullable}),
    "f64" => json!({"name": name, "i64": false, "fast": fast, "stored": stored, "nullable": nullable}),
    other => panic!("leaf kind {other}"),
  };
  if nested {
    let ty = match f["kind"].as_str().unwrap() {
      "text" => "text",
      "keyword" => "keyword",
      _ => "numeric",
    };
    o.as_object_mut().unwrap().insert("type".into(), json!(ty));
  }
  o
}

fn nested_json(f: &Value, r: &mut StdRng, inner: bool) -> Value {
  let props: Vec<Value> = f["props"]
    .as_array()
    .unwrap()
    .iter()
    .map(|p| {
      if p["kind"] == "nested" {
        nested_json(p, r, true)
      } else {
        leaf_json(p, r, true)
      }
    })
    .collect();
  let mut o = json!({"name": f["name"], "nullable": f["nullable"], "fields": props});
  if inner {
    o.as_object_mut().unwrap().insert("type".into(), json!("object"));
  }
  o
}

pub fn schema_json(def: &Value, r: &mut StdRng) -> Value {
  let mut text = vec![];
  let mut kw = vec![];
  let mut num = vec![];
  let mut nested = vec![];
  let mut vecs = vec![];
  for f in def["fields"].as_array().unwrap() {
    match f["kind"].as_str().unwrap() {
      "text" => text.push(leaf_json(f, r, false)),
      "keyword" => kw.push(leaf_json(f, r, false)),
      "i64" | "f64" => num.push(leaf_json(f, r, false)),
      "nested" => nested.push(nested_json(f, r, false)),
      "vector" => vecs.push(json!({"name": f["name"], "dim": f["dim"], "metric": "L2"})),
      other => panic!("field kind {other}"),
    }
  }
  json!({
    "doc_id_field": def["id"], "text_fields": text, "keyword_fields": kw, "numeric_fields": num,
    "nested_fields": nested, "vector_fields": vecs,
  })
}

fn fdef(name: &str, kind: &str, nullable: bool, dim: usize, props: Vec<Value>) -> Value {
  json!({"name": name, "kind": kind, "nullable": nullable, "dim": dim, "props": props})
}

fn random_props(r: &mut StdRng, depth: usize) -> Vec<Value> {
  let mut props = vec![];
  let n = r.gen_range(1..=3);
  for i in 0..n {
    let kind = *pick(r, &["keyword", "keyword", "i64", "f64", "text"]);
    // the first property is usually required
    let nullable = if i == 0 { chance(r, 1, 4) } else { chance(r, 1, 2) };
    props.push(fdef(&format!("p{i}"), kind, nullable, 0, vec![]));
  }
  if depth < 2 && chance(r, 1, 2) {
    let sub = random_props(r, depth + 1);
    props.push(fdef("sub", "nested", chance(r, 1, 2), 0, sub));
  }
  props
}

pub fn random_schema_def(r: &mut StdRng) -> Value {
  let mut fields = vec![];
  let kinds = ["text", "keyword", "i64", "f64"];
  let n = r.gen_range(1..=5);
  for i in 0..n {
    let kind = kinds[r.gen_range(0..kinds.len())];
    fields.push(fdef(&format!("f{i}"), kind, chance(r, 1, 2), 0, vec![]));
  }
  let nn = r.gen_range(0..=2);
  for i in 0..nn {
    let props = random_props(r, 1);
    fields.push(fdef(&format!("n{i}"), "nested", chance(r, 1, 2), 0, props));
  }
  if chance(r, 1, 3) {
    fields.push(fdef("vec", "vector", true, r.gen_range(1..=3), vec![]));
  }
  let id = if chance(r, 1, 4) { "pk" } else { "_id" };
  json!({"id": id, "fields": fields})
}

// ------------------------------------------------------------------------------------------------
// Valid documents and structural mutations
// ------------------------------------------------------------------------------------------------

fn valid_leaf(f: &Value, r: &mut StdRng, tag: &str) -> Value {
  let one = |r: &mut StdRng, i: usize| -> Value {
    match f["kind"].as_str().unwrap() {
      "text" => json!(format!("alpha {tag} w{}", r.gen_range(0..5) + i)),
      "keyword" => json!(format!("K{}", r.gen_range(0..4) + i)),
      "i64" => json!(r.gen_range(-50i64..50) + i as i64),
      _ => json!(r.gen_range(0..100) as f64 + 0.25),
    }
  };
  if chance(r, 1, 4) {
    let n = r.gen_range(1..=3);
    Value::Array((0..n).map(|i| one(r, i)).collect())
  } else {
    one(r, 0)
  }
}

fn valid_object(f: &Value, r: &mut StdRng, tag: &str) -> Value {
  let mut m = Map::new();
  for p in f["props"].as_array().unwrap() {
    let name = p["name"].as_str().unwrap();
    let nullable = p["nullable"].as_bool().unwrap();
    if nullable && chance(r, 1, 3) {
      if chance(r, 1, 2) {
        m.insert(name.to_string(), Value::Null);
      }
      continue;
    }
    let v = if p["kind"] == "nested" {
      valid_nested(p, r, tag)
    } else {
      valid_leaf(p, r, tag)
    };
    m.insert(name.to_string(), v);
  }
  Value::Object(m)
}

fn valid_nested(f: &Value, r: &mut StdRng, tag: &str) -> Value {
  if chance(r, 1, 2) {
    valid_object(f, r, tag)
  } else {
    let n = r.gen_range(1..=3);
    Value::Array((0..n).map(|_| valid_object(f, r, tag)).collect())
  }
}

/// A document every rule of the documentation accepts (Trace_Validate.tla re-checks this claim).
pub fn valid_doc(def: &Value, id: &str, r: &mut StdRng) -> Value {
  let mut m = Map::new();
  m.insert(def["id"].as_str().unwrap().to_string(), json!(id));
  for f in def["fields"].as_array().unwrap() {
    let name = f["name"].as_str().unwrap();
    let nullable = f["nullable"].as_bool().unwrap();
    if chance(r, 1, 5) {
      continue; // absent
    }
    if nullable && f["kind"] != "vector" && chance(r, 1, 5) {
      m.insert(name.to_string(), Value::Null);
      continue;
    }
    let v = match f["kind"].as_str().unwrap() {
      "nested" => valid_nested(f, r, id),
      "vector" => {
        let dim = f["dim"].as_u64().unwrap() as usize;
        Value::Array((0..dim).map(|i| json!(0.5 + i as f64)).collect())
      }
      _ => valid_leaf(f, r, id),
    };
    m.insert(name.to_string(), v);
  }
  Value::Object(m)
}

/// Paths to every value in the document (top-level object excluded).
fn all_paths(v: &Value, prefix: &mut Vec<String>, out: &mut Vec<Vec<String>>) {
  match v {
    Value::Object(m) => {
      for (k, x) in m.iter() {
        prefix.push(k.clone());
        out.push(prefix.clone());
        all_paths(x, prefix, out);
        prefix.pop();
      }
    }
    Value::Array(a) => {
      for (i, x) in a.iter().enumerate() {
        prefix.push(i.to_string());
        out.push(prefix.clone());
        all_paths(x, prefix, out);
        prefix.pop();
      }
    }
    _ => {}
  }
}

fn at_mut<'a>(v: &'a mut Value, path: &[String]) -> Option<&'a mut Value> {
  let mut cur = v;
  for seg in path {
    cur = match cur {
      Value::Object(m) => m.get_mut(seg)?,
      Value::Array(a) => a.get_mut(seg.parse::<usize>().ok()?)?,
      _ => return None,
    };
  }
  Some(cur)
}

fn at<'a>(v: &'a Value, path: &[String]) -> Option<&'a Value> {
  let mut cur = v;
  for seg in path {
    cur = match cur {
      Value::Object(m) => m.get(seg)?,
      Value::Array(a) => a.get(seg.parse::<usize>().ok()?)?,
      _ => return None,
    };
  }
  Some(cur)
}

fn wrong_scalar(r: &mut StdRng) -> Value {
  match r.gen_range(0..7) {
    0 => json!("text instead"),
    1 => json!(7),
    2 => json!(2.5),
    3 => json!(true),
    4 => json!(""),
    5 => json!({}),
    _ => json!([]),
  }
}

/// One structural mutation; returns its name ("" when it did not apply).
fn mutate(doc: &mut Value, def: &Value, r: &mut StdRng) -> String {
  let mut paths = vec![];
  all_paths(doc, &mut vec![], &mut paths);
  if paths.is_empty() {
    return String::new();
  }
  let id_field = def["id"].as_str().unwrap().to_string();
  let path = pick(r, &paths).clone();
  let kind = r.gen_range(0..12);
  match kind {
    0 => {
      // extra field: top level, or inside a random object
      let objs: Vec<Vec<String>> = std::iter::once(vec![])
        .chain(paths.iter().filter(|p| at(doc, p).map(|v| v.is_object()).unwrap_or(false)).cloned())
        .collect();
      let p = pick(r, &objs).clone();
      let val = if chance(r, 1, 2) { json!("extra") } else { wrong_scalar(r) };
      if let Some(Value::Object(m)) = at_mut(doc, &p) {
        m.insert(format!("extra{}", r.gen_range(0..3)), val);
        return if p.is_empty() { "extra_top".into() } else { "extra_nested".into() };
      }
      String::new()
    }
    1 => {
      *at_mut(doc, &path).unwrap() = wrong_scalar(r);
      "wrong_type".into()
    }
    2 => {
      *at_mut(doc, &path).unwrap() = Value::Null;
      "null".into()
    }
    3 => {
      // wrap in an array (arrays of arrays when the value already is one)
      let slot = at_mut(doc, &path).unwrap();
      let old = slot.take();
      *slot = Value::Array(vec![old]);
      "wrap_array".into()
    }
    4 => {
      // scalar (or null) inside an array
      let arrays: Vec<Vec<String>> =
        paths.iter().filter(|p| at(doc, p).map(|v| v.is_array()).unwrap_or(false)).cloned().collect();
      if arrays.is_empty() {
        return String::new();
      }
      let p = pick(r, &arrays).clone();
      let val = if chance(r, 1, 3) { Value::Null } else { wrong_scalar(r) };
      if let Some(Value::Array(a)) = at_mut(doc, &p) {
        let at = r.gen_range(0..=a.len());
        a.insert(at, val);
      }
      "scalar_in_array".into()
    }
    5 => {
      // remove a property
      let (parent, last) = path.split_at(path.len() - 1);
      match at_mut(doc, parent) {
        Some(Value::Object(m)) => {
          m.remove(&last[0]);
          if parent.is_empty() && last[0] == id_field {
            "remove_id".into()
          } else {
            "remove_property".into()
          }
        }
        Some(Value::Array(a)) => {
          let i: usize = last[0].parse().unwrap();
          a.remove(i);
          "remove_element".into()
        }
        _ => String::new(),
      }
    }
    6 => {
      if let Some(Value::Object(m)) = at_mut(doc, &[]) {
        let v = match r.gen_range(0..5) {
          0 => json!(""),
          1 => json!("   "),
          2 => json!(12),
          3 => Value::Null,
          _ => json!(["d1"]),
        };
        m.insert(id_field, v);
      }
      "bad_id".into()
    }
    7 => {
      *at_mut(doc, &path).unwrap() = json!([]);
      "empty_array".into()
    }
    8 => {
      *at_mut(doc, &path).unwrap() = json!({});
      "empty_object".into()
    }
    9 => {
      // number <-> fraction / huge
      let slot = at_mut(doc, &path).unwrap();
      if slot.is_number() {
        *slot = match r.gen_range(0..3) {
          0 => json!(0.5),
          1 => json!(9_007_199_254_740_993u64),
          _ => json!(-3),
        };
        "number_variant".into()
      } else {
        String::new()
      }
    }
    10 => {
      // object where an array of objects is, doubled nesting
      let slot = at_mut(doc, &path).unwrap();
      if slot.is_array() {
        let old = slot.take();
        *slot = Value::Array(vec![old.clone(), old]);
        "array_of_arrays".into()
      } else {
        String::new()
      }
    }
    _ => {
      // mixed array
      let slot = at_mut(doc, &path).unwrap();
      if !slot.is_object() && !slot.is_array() && !slot.is_null() {
        let old = slot.take();
        *slot = Value::Array(vec![old, wrong_scalar(r)]);
        "mixed_array".into()
      } else {
        String::new()
      }
    }
  }
}

// ------------------------------------------------------------------------------------------------
// Running one document
// ------------------------------------------------------------------------------------------------

fn err_class(msg: &str) -> &'static str {
  let m = msg;
  if m.contains("unknown field") {
    "unknown_field"
  } else if m.contains("unknown nested field") {
    "unknown_nested_field"
  } else if m.contains("must contain objects") {
    "nested_not_object"
  } else if m.contains("vector field") {
    "vector"
  } else if m.contains("document id field") {
    "id"
  } else if m.contains("cannot be null") {
    "null"
  } else if m.contains("missing required nested field") {
    "missing_required"
  } else if m.contains("must be") {
    "type"
  } else {
    "other"
  }
}

fn outcome<T>(res: std::thread::Result<Result<T>>) -> Value {
  match res {
    Ok(Ok(_)) => json!({"ok": true, "cls": "ok", "msg": ""}),
    Ok(Err(e)) => {
      let msg = format!("{e:#}");
      json!({"ok": false, "cls": err_class(&msg), "msg": msg.chars().take(160).collect::<String>()})
    }
    Err(p) => {
      let msg = p
        .downcast_ref::<String>()
        .cloned()
        .or_else(|| p.downcast_ref::<&str>().map(|s| s.to_string()))
        .unwrap_or_else(|| "panic".into());
      json!({"ok": false, "cls": "panic", "msg": msg.chars().take(160).collect::<String>()})
    }
  }
}

fn skipped() -> Value {
  json!({"ok": false, "cls": "skipped", "msg": ""})
}

pub struct Case<'a> {
  pub scn: usize,
  pub src: &'a str,
  pub schema_k: usize,
  pub schema: &'a Value,
  pub doc: &'a Value,
  pub doc2: &'a Value,
  pub muts: Vec<String>,
  pub storage: &'a str,
}

pub fn run_case(c: &Case, tr: &mut Tracer) -> Result<()> {
  let scratch = Scratch::new("valid");
  let root = scratch.join("idx");
  let (storage, stype) = storage_arc(c.storage, &root);
  let schema = schema_from_json(c.schema.clone());
  let o = opts(&root, stype);
  let mut idx = Index::create_with_storage(&root, schema, o.clone(), storage.clone())?;
  let mut w = idx.writer()?;
  let d1 = doc_from_json(c.doc.clone());
  let d2 = doc_from_json(c.doc2.clone());
  let add1 = outcome(catch_unwind(AssertUnwindSafe(|| w.add_document(&d1))));
  let commit1 = outcome(catch_unwind(AssertUnwindSafe(|| w.commit())));
  let add2 = outcome(catch_unwind(AssertUnwindSafe(|| w.add_document(&d2))));
  let commit2 = outcome(catch_unwind(AssertUnwindSafe(|| w.commit())));
  drop(w);
  if c.storage != "memory" {
    drop(idx);
    idx = Index::open(o.clone())?;
  }
  let (new_writer, commit3) = match catch_unwind(AssertUnwindSafe(|| idx.writer())) {
    Ok(Ok(mut w2)) => {
      let c3 = outcome(catch_unwind(AssertUnwindSafe(|| w2.commit())));
      (json!({"ok": true, "cls": "ok", "msg": ""}), c3)
    }
    other => (outcome(other.map(|r| r.map(|_| ()))), skipped()),
  };
  let visible: Vec<String> = match catch_unwind(AssertUnwindSafe(|| contents(&idx))) {
    Ok(Ok(list)) => list.into_iter().map(|(id, _)| id).collect(),
    _ => vec!["<reader failed>".to_string()],
  };
  let id1 = c.doc.get(c.schema["doc_id_field"].as_str().unwrap()).and_then(|v| v.as_str()).unwrap_or("");
  tr.emit(json!({
    "ev": "case", "scn": c.scn, "src": c.src, "schema": c.schema_k, "storage": c.storage,
    "doc": abstract_value(c.doc), "muts": c.muts, "id1": id1,
    "add1": add1, "commit1": commit1, "add2": add2, "commit2": commit2,
    "new_writer": new_writer, "commit3": commit3, "visible": visible,
    "doc_json": c.doc.to_string().chars().take(400).collect::<String>(),
  }));
  Ok(())
}

pub fn main(args: &Args) -> Result<()> {
  let seed = args.u64("seed", 1);
  let out = args.str("out", "/verif/out/validate.ndjson");
  let n_schemas = args.usize("schemas", 6);
  let n_mut = args.usize("mutants", 60);
  let mut tr = Tracer::create(std::path::Path::new(&out))?;
  let mut scn = 0usize;
  let mut n_tlc = 0usize;
  let mut schema_ids: BTreeMap<String, usize> = BTreeMap::new();
  let mut schema_concrete: Vec<(Value, Value)> = vec![]; // (concrete schema json, valid doc d2)
  let mut mut_kinds: BTreeMap<String, usize> = BTreeMap::new();

  let mut register =
    |def: &Value, r: &mut StdRng, tr: &mut Tracer, schema_concrete: &mut Vec<(Value, Value)>| -> usize {
      let key = def.to_string();
      if let Some(k) = schema_ids.get(&key) {
        return *k;
      }
      let k = schema_ids.len();
      schema_ids.insert(key, k);
      let concrete = schema_json(def, r);
      let d2 = valid_doc(def, "d2", r);
      tr.emit(json!({"ev": "schema", "k": k, "def": def, "valid": abstract_value(&d2)}));
      schema_concrete.push((concrete, d2));
      k
    };

  if let Some(cases) = args.get("cases") {
    let text = std::fs::read_to_string(cases)?;
    for (i, line) in text.lines().filter(|l| !l.trim().is_empty()).enumerate() {
      let v: Value = serde_json::from_str(line)?;
      let mut r = rng(seed, 7_000_000 + i as u64);
      let k = register(&v["schema"], &mut r, &mut tr, &mut schema_concrete);
      let doc = materialise(&v["doc"], "")?;
      // the id of the first document is "d1" whenever the case asks for a proper string
      let mut doc = doc;
      let idf = v["schema"]["id"].as_str().unwrap();
      if doc.get(idf).map(|x| x.is_string() && !x.as_str().unwrap().trim().is_empty()).unwrap_or(false) {
        doc[idf] = json!("d1");
      }
      if !same_shape_modulo_order(&abstract_value(&doc), &v["doc"]) {
        bail!("materialised document does not have the requested shape: {} vs {}", doc, v["doc"]);
      }
      let (schema, d2) = schema_concrete[k].clone();
      let storage = if i % 64 == 5 { "fs" } else { "memory" };
      run_case(
        &Case { scn, src: "tlc", schema_k: k, schema: &schema, doc: &doc, doc2: &d2, muts: vec![], storage },
        &mut tr,
      )?;
      scn += 1;
      n_tlc += 1;
    }
  }

  for s in 0..n_schemas {
    let mut r = rng(seed, 8_000_000 + s as u64);
    let def = random_schema_def(&mut r);
    let k = register(&def, &mut r, &mut tr, &mut schema_concrete);
    let (schema, d2) = schema_concrete[k].clone();
    for m in 0..n_mut {
      let mut doc = valid_doc(&def, "d1", &mut r);
      let mut muts = vec![];
      // every 8th document stays valid (MustAccept => add Ok is exercised on random shapes too)
      let n = if m % 8 == 0 { 0 } else { r.gen_range(1..=3) };
      for _ in 0..n {
        let name = mutate(&mut doc, &def, &mut r);
        if !name.is_empty() {
          *mut_kinds.entry(name.clone()).or_insert(0) += 1;
          muts.push(name);
        }
      }
      let storage = if m % 5 == 0 { "fs" } else { "memory" };
      run_case(
        &Case { scn, src: "mut", schema_k: k, schema: &schema, doc: &doc, doc2: &d2, muts, storage },
        &mut tr,
      )?;
      scn += 1;
    }
  }
  let lines = tr.finish();
  println!(
    "{}",
    json!({"cases": scn, "tlc_cases": n_tlc, "mutants": scn - n_tlc, "schemas": schema_concrete.len(),
           "events": lines, "mutation_kinds": mut_kinds, "out": out})
  );
  Ok(())
}
