//! (stub) family `validate` - see CONTRIBUTING.md
use anyhow::{bail, Result};

use crate::util::Args;

pub fn main(_args: &Args) -> Result<()> {
  bail!("family validate is not implemented yet")
}
