//! C29 driver: vector-only, filtered and hybrid requests over small indexes with integer vectors
//! (exact in f32), missing vectors and deletions over several segments. Judged by Vector.tla via
//! Trace_Search.tla (checks "vec", "hybrid", "vecdim").

use anyhow::Result;
use rand::rngs::StdRng;
use rand::Rng;
use serde_json::{json, Value};

use searchlite_core::api::types::StorageType;
use searchlite_core::api::Index;

use crate::corpus::{corpus_event, Built, Dict, KW_TAGS, WORDS};
use crate::qgen::{abstract_filter, gen_filter, render_filter};
use crate::search::{run_search, sbits};
use crate::util::*;

fn e3(x: f32) -> i64 {
  (x as f64 * 1000.0).round() as i64
}
fn e4(x: f32) -> i64 {
  (x as f64 * 10000.0).round() as i64
}

fn schema(dim: usize, metric: &str) -> Value {
  json!({
    "doc_id_field": "_id",
    "analyzers": [],
    "text_fields": [
      {"name": "body", "analyzer": "default", "stored": true, "indexed": true, "nullable": true},
      {"name": "title", "analyzer": "default", "stored": true, "indexed": true, "nullable": true}
    ],
    "keyword_fields": [
      {"name": "tag", "stored": true, "indexed": true, "fast": true, "nullable": true},
      {"name": "cat", "stored": true, "indexed": true, "fast": true, "nullable": true}
    ],
    "numeric_fields": [
      {"name": "ver", "i64": true, "fast": true, "stored": true, "nullable": false},
      {"name": "year", "i64": true, "fast": true, "stored": true, "nullable": true},
      {"name": "rank", "i64": true, "fast": true, "stored": true, "nullable": true},
      {"name": "price", "i64": false, "fast": true, "stored": true, "nullable": true}
    ],
    "nested_fields": [],
    "vector_fields": [{"name": "emb", "dim": dim, "metric": metric}]
  })
}

fn rand_vec(r: &mut StdRng, dim: usize, nonzero: bool) -> Vec<i64> {
  loop {
    let v: Vec<i64> = (0..dim).map(|_| r.gen_range(-3..=3)).collect();
    if !nonzero || v.iter().any(|x| *x != 0) {
      return v;
    }
  }
}

fn make_doc(r: &mut StdRng, id: &str, ver: u64, dim: usize) -> Value {
  let mut d = serde_json::Map::new();
  d.insert("_id".into(), json!(id));
  d.insert("ver".into(), json!(ver));
  let n = r.gen_range(1..=4);
  let words: Vec<&str> = (0..n).map(|_| WORDS[r.gen_range(0..5)]).collect();
  d.insert("body".into(), json!(words.join(" ")));
  if chance(r, 2, 3) {
    d.insert("tag".into(), json!(*pick(r, &KW_TAGS)));
  }
  if chance(r, 3, 4) {
    d.insert("year".into(), json!(r.gen_range(2018..=2024)));
  }
  if chance(r, 4, 5) {
    d.insert("emb".into(), json!(rand_vec(r, dim, true)));
  }
  Value::Object(d)
}

pub fn family_vector(r: &mut StdRng, scn: usize, n_req: usize, out: &mut Vec<Value>) -> Result<usize> {
  let dim = r.gen_range(1..=4);
  let metric = if chance(r, 1, 2) { "Cosine" } else { "L2" };
  let scratch = Scratch::new("vector");
  let root = scratch.join("idx");
  let schema_json = schema(dim, metric);
  let sch = schema_from_json(schema_json.clone());
  let idx = Index::create(&root, sch.clone(), opts(&root, StorageType::Filesystem))?;
  let n_docs = r.gen_range(4..=14);
  let n_commits = r.gen_range(1..=3);
  let mut versions = std::collections::BTreeMap::new();
  let mut ver = 0u64;
  let mut w = idx.writer()?;
  let mut added: Vec<String> = Vec::new();
  for c in 0..n_commits {
    for i in (c * n_docs / n_commits)..((c + 1) * n_docs / n_commits) {
      let id = format!("d{i:02}");
      ver += 1;
      let d = make_doc(r, &id, ver, dim);
      w.add_document(&doc_from_json(d.clone()))?;
      versions.insert((id.clone(), ver), d);
      added.push(id);
    }
    if c > 0 {
      if chance(r, 1, 2) {
        let id = pick(r, &added).clone();
        ver += 1;
        let d = make_doc(r, &id, ver, dim);
        w.add_document(&doc_from_json(d.clone()))?;
        versions.insert((id, ver), d);
      }
      if chance(r, 1, 2) {
        let id = pick(r, &added).clone();
        w.delete_document(&id)?;
      }
    }
    w.commit()?;
  }
  // wrong dimension at indexing time
  let bad = json!({"_id": "bad-dim", "ver": 9999, "body": "rust", "emb": rand_vec(r, dim + 1, true)});
  let add_res = w.add_document(&doc_from_json(bad));
  // rejected = refused when queued, or refused by the commit (then it never becomes searchable;
  // that add and commit disagree is C15's concern)
  let mut add_ok = add_res.is_ok();
  if add_ok {
    add_ok = w.commit().is_ok();
    let _ = w.rollback();
  }
  drop(w);
  let b = Built { scratch, idx, schema: sch, schema_json, versions, n_commits };
  let reader = b.idx.reader()?;
  let mut dict = Dict::new();
  let corpus = corpus_event(&b, &reader, scn, &mut dict)?;
  let n_slots = corpus["docs"].as_array().map(|a| a.len()).unwrap_or(0);
  let metric_a = if metric == "Cosine" { "cos" } else { "l2" };
  let mut searches = Vec::new();
  // wrong dimension at query time
  {
    let req = json!({"query": {"type": "vector", "field": "emb", "vector": rand_vec(r, dim + 1, true), "alpha": 0.0},
                     "limit": 5, "return_stored": false, "highlight_field": null});
    let res = run_search(&reader, &req);
    searches.push(json!({"ev": "search", "check": "vecdim", "prop": "C29", "add_ok": add_ok, "query_ok": res.is_ok(),
                         "req": req.to_string()}));
  }
  for i in 0..n_req {
    let qv = rand_vec(r, dim, true);
    let filt = if chance(r, 1, 3) { Some(gen_filter(r, 1, false, "")) } else { None };
    let vfilt = if chance(r, 1, 3) { Some(gen_filter(r, 0, false, "")) } else { None };
    let filters: Vec<Value> = filt.iter().map(|f| abstract_filter(f, &mut dict)).collect();
    let vfilters: Vec<Value> = vfilt.iter().map(|f| abstract_filter(f, &mut dict)).collect();
    if i % 3 != 2 {
      // vector-only
      let alpha4 = *pick(r, &[0i64, 0, 1, 2]);
      let (bn, bd) = *pick(r, &[(1i64, 1i64), (1, 1), (2, 1), (1, 2)]);
      let limit = if chance(r, 1, 2) { n_slots + 3 } else { r.gen_range(1..=4) };
      let mut node = json!({"type": "vector", "field": "emb", "vector": qv, "alpha": alpha4 as f64 / 4.0});
      if (bn, bd) != (1, 1) {
        node["boost"] = json!(bn as f64 / bd as f64);
      }
      let mut req = json!({"query": node, "limit": limit, "return_stored": false, "highlight_field": null});
      if let Some(f) = &filt {
        req["filter"] = render_filter(f);
      }
      if let Some(f) = &vfilt {
        req["vector_filter"] = render_filter(f);
      }
      let res = run_search(&reader, &req);
      let obs = match &res {
        Ok(x) => json!({"ok": true, "err": "",
          "ids": x.hits.iter().map(|h| h.doc_id.clone()).collect::<Vec<_>>(),
          "sbits": x.hits.iter().map(|h| sbits(h.score)).collect::<Vec<_>>(),
          "fs3": x.hits.iter().map(|h| e3(h.score)).collect::<Vec<_>>(),
          "vs3": x.hits.iter().map(|h| e3(h.vector_score.unwrap_or(0.0))).collect::<Vec<_>>()}),
        Err(e) => json!({"ok": false, "err": e, "ids": [], "sbits": [], "fs3": [], "vs3": []}),
      };
      searches.push(json!({"ev": "search", "check": "vec", "prop": "C29", "f": "emb", "metric": metric_a, "qv": qv,
                           "alpha4": alpha4, "bn": bn, "bd": bd, "limit": limit, "filters": filters, "vfilters": vfilters,
                           "obs": obs, "req": req.to_string()}));
    } else {
      // hybrid: plain term query + legacy/structured vector_query with 0 < alpha < 1
      let alpha4 = *pick(r, &[1i64, 2, 3]);
      let word = WORDS[r.gen_range(0..5)];
      let mut text_req = json!({"query": {"type": "term", "field": "body", "value": word}, "limit": n_slots + 3,
                                "return_stored": false, "highlight_field": null, "execution": "bm25"});
      if let Some(f) = &filt {
        text_req["filter"] = render_filter(f);
      }
      let mut req = text_req.clone();
      req["vector_query"] = if chance(r, 1, 2) {
        json!(["emb", qv, alpha4 as f64 / 4.0])
      } else {
        json!({"field": "emb", "vector": qv, "alpha": alpha4 as f64 / 4.0})
      };
      if let Some(f) = &vfilt {
        req["vector_filter"] = render_filter(f);
      }
      let tres = run_search(&reader, &text_req);
      let res = run_search(&reader, &req);
      let text = match &tres {
        Ok(x) => json!({"ok": true, "ids": x.hits.iter().map(|h| h.doc_id.clone()).collect::<Vec<_>>(),
                        "scores": x.hits.iter().map(|h| e4(h.score)).collect::<Vec<_>>()}),
        Err(_) => json!({"ok": false, "ids": [], "scores": []}),
      };
      let obs = match &res {
        Ok(x) => json!({"ok": true, "err": "",
          "ids": x.hits.iter().map(|h| h.doc_id.clone()).collect::<Vec<_>>(),
          "sbits": x.hits.iter().map(|h| sbits(h.score)).collect::<Vec<_>>(),
          "scores": x.hits.iter().map(|h| e4(h.score)).collect::<Vec<_>>(),
          "hasv": x.hits.iter().map(|h| h.vector_score.is_some()).collect::<Vec<_>>(),
          "vs3": x.hits.iter().map(|h| e3(h.vector_score.unwrap_or(0.0))).collect::<Vec<_>>()}),
        Err(e) => json!({"ok": false, "err": e, "ids": [], "sbits": [], "scores": [], "hasv": [], "vs3": []}),
      };
      searches.push(json!({"ev": "search", "check": "hybrid", "prop": "C29", "f": "emb", "metric": metric_a, "qv": qv,
                           "alpha4": alpha4, "filters": filters, "vfilters": vfilters, "text": text, "obs": obs,
                           "req": req.to_string()}));
    }
  }
  out.push(json!({"ev": "reset", "scn": scn, "fam": "vector", "storage": "fs", "schema": format!("dim={dim} metric={metric}")}));
  out.push(json!({"ev": "dict", "entries": dict.to_json()}));
  out.push(corpus);
  let n = searches.len();
  out.extend(searches);
  Ok(n)
}
