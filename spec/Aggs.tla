-------------------------------- MODULE Aggs --------------------------------
(***************************************************************************)
(* Reference semantics of searchlite's exact aggregation kinds (C12, C13, *)
(* C30) over a set M of matched live documents of the abstract corpus of  *)
(* Search.tla, in two forms:                                               *)
(*                                                                         *)
(*   Ref(D, M, a)            the declarative value: one computation over   *)
(*                           all matched documents                         *)
(*   Fin(MergeAll(<<Collect(P1), ..., Collect(Pn)>>))                       *)
(*                           the implementation-shaped value: one collector*)
(*                           per segment, pairwise merge, finalisation.    *)
(*                           mode {} (ideal): thresholds, bucket limits    *)
(*                           and top_hits offsets are applied to the       *)
(*                           merged result; a mode containing              *)
(*                           "S12a": min_doc_count / max_doc_count / size  *)
(*                           are applied by every segment collector before *)
(*                           the merge; "S12b": top_hits `from` is skipped *)
(*                           by every segment collector and again by every *)
(*                           merge; "S12c": range buckets are merged by    *)
(*                           key string, so ranges with equal keys collide *)
(*                           (what the code does today).                   *)
(*                                                                         *)
(* Numbers.  TLC has 32-bit integers and no reals.  Every numeric field   *)
(* value is carried in quarters (i64 values times 4; f64 values of the    *)
(* generated corpora are multiples of 1/4), sums are exact integers,      *)
(* averages / variances are rationals compared in fixed point with a      *)
(* stated tolerance of one unit of the logged scale.  Range and hard      *)
(* bounds are carried in eighths and generated odd, so that no value is   *)
(* ever equal to a bound (the README does not say which side is open).    *)
(*                                                                         *)
(* An aggregation request is a sequence of [name, a]; a node `a` is a     *)
(* record with a tag `t`:                                                  *)
(*  terms   f size hassize shard hasshard mdc hasmissing missing subs      *)
(*  rare    f maxdc size hassize subs  (hasmissing = FALSE, missing = "")     *)
(*  range   f fk ranges:<<[key hasfrom from8 hasto to8]>> hasmissing       *)
(*          missing4 subs    (key of a range without key: "#from8:to8")     *)
(*  hist    f fk iv4 off4 hasmdc mdc hasext extmin4 extmax4 hashard        *)
(*          hardmin8 hardmax8 hasmissing missing4 rnd subs                  *)
(*  stats | estats | vcount    f fk hasmissing missing4                    *)
(*  card    f fk hasmissing missing missing4                               *)
(*  pct     f fk percents hasmissing missing4                              *)
(*  pctr    f fk values4 hasmissing missing4                               *)
(*  filter  g subs                                                          *)
(*  comp    sources:<<[k name f fk iv4]>> size hasafter after subs         *)
(*  tophits size from sort                                                  *)
(*                                                                         *)
(* A bucket key is a sequence of parts [s, n, isnum]: one part for terms  *)
(* (string), histogram (number, quarters) and range (its key string), one *)
(* part per source for composite.                                          *)
(***************************************************************************)
EXTENDS Rank

KStr(s) == [s |-> s, n |-> 0, isnum |-> FALSE]
KNum(n) == [s |-> "", n |-> n, isnum |-> TRUE]

(* order of key parts: strings by code points, numbers numerically *)
PartLess(D, a, b) ==
  IF a.isnum /\ b.isnum THEN a.n < b.n
  ELSE IF ~a.isnum /\ ~b.isnum THEN StrLess(D, a.s, b.s)
  ELSE ~a.isnum

RECURSIVE KeyLess(_, _, _)
KeyLess(D, k1, k2) ==
  IF k2 = <<>> THEN FALSE
  ELSE IF k1 = <<>> THEN TRUE
  ELSE IF Head(k1) = Head(k2) THEN KeyLess(D, Tail(k1), Tail(k2))
  ELSE PartLess(D, Head(k1), Head(k2))

(* the elements of X in the order of the strict total order Less *)
SortBy(X, Less(_, _)) ==
  [r \in 1..Cardinality(X) |-> CHOOSE x \in X : Cardinality({y \in X : Less(y, x)}) = r - 1]

FirstOf(X, Less(_, _), lim) == {b \in X : Cardinality({y \in X : Less(y, b)}) < lim}

Prefix(s, n) == SubSeq(s, 1, MinI(n, Len(s)))

(* bucket orders *)
TermsLess(D, x, y) == x.n > y.n \/ (x.n = y.n /\ KeyLess(D, x.key, y.key))   \* count desc, key asc
RareLess(D, x, y) == x.n < y.n \/ (x.n = y.n /\ KeyLess(D, x.key, y.key))    \* count asc, key asc
ByKey(D, x, y) == KeyLess(D, x.key, y.key)

NOLIMIT == 0 - 1

-----------------------------------------------------------------------------
(* values of a document                                                    *)

NumSeq(d, f, fk) ==
  IF fk = "i64" THEN LET v == Vals(d.i64, f) IN [i \in DOMAIN v |-> 4 * v[i]]
  ELSE Vals(d.f64, f)

(* the numeric values (quarters) an aggregation sees: the field's values,  *)
(* or the `missing` fill when the document has none                        *)
NumVals(d, a) ==
  LET v == NumSeq(d, a.f, a.fk) IN
  IF v = <<>> /\ a.hasmissing THEN <<a.missing4>> ELSE v

(* all values of the documents of M, as a bag (sequence in arbitrary order; *)
(* only symmetric functions are applied to it)                             *)
RECURSIVE BagOf(_, _)
BagOf(M, a) ==
  IF M = {} THEN <<>>
  ELSE LET d == CHOOSE x \in M : TRUE IN NumVals(d, a) \o BagOf(M \ {d}, a)

(* keyword bucket keys of a document: its distinct values, else `missing`  *)
KwKeys(d, a) ==
  LET v == Vals(d.kw, a.f) IN
  IF v # <<>> THEN SeqToSet(v) ELSE IF a.hasmissing THEN {a.missing} ELSE {}

FloorDiv(x, m) == x \div m           \* TLA+ \div rounds towards minus infinity for m > 0

(* histogram: the bucket keys (quarters) a document falls into.  rnd =     *)
(* "floor": the bucket that starts at or before the value (histogram);     *)
(* date_histogram nodes come as rnd = "either": the README does not say    *)
(* which way a fixed interval rounds and the repository's own test suite   *)
(* pins rounding UP (date_histogram_fixed_interval_respects_offset_and_    *)
(* missing), so the trace oracle accepts the floor reading (rnd "either" / *)
(* "floor") or the ceiling reading (rnd = "ceil"), consistently.           *)
CeilDiv(x, m) == 0 - FloorDiv(0 - x, m)
HistIdx(a, v) == IF a.rnd = "ceil" THEN CeilDiv(v - a.off4, a.iv4) ELSE FloorDiv(v - a.off4, a.iv4)
HistKey(a, v) == HistIdx(a, v) * a.iv4 + a.off4
HistKeys(d, a) ==
  {HistKey(a, v) : v \in {x \in SeqToSet(NumVals(d, a)) :
                            a.hashard => (2 * x > a.hardmin8 /\ 2 * x < a.hardmax8)}}

InRange(r, v) == (r.hasfrom => 2 * v >= r.from8) /\ (r.hasto => 2 * v < r.to8)
DocInRange(d, a, r) == \E v \in SeqToSet(NumVals(d, a)) : InRange(r, v)

(* composite: the key tuples a document produces (none when a source has   *)
(* no value)                                                               *)
SourceParts(d, src) ==
  IF src.k = "terms" THEN {KStr(x) : x \in SeqToSet(Vals(d.kw, src.f))}
  ELSE {KNum(FloorDiv(v, src.iv4) * src.iv4) : v \in SeqToSet(NumSeq(d, src.f, src.fk))}

RECURSIVE CompKeys(_, _)
CompKeys(d, sources) ==
  IF sources = <<>> THEN {<<>>}
  ELSE {<<p>> \o rest : p \in SourceParts(d, Head(sources)), rest \in CompKeys(d, Tail(sources))}

-----------------------------------------------------------------------------
(* leaf (metric) values over a bag                                          *)

RECURSIVE SumSqDev(_, _)
SumSqDev(bag, m) == IF bag = <<>> THEN 0 ELSE (Head(bag) - m) * (Head(bag) - m) + SumSqDev(Tail(bag), m)

BagMin(bag) == IF bag = <<>> THEN 0 ELSE SetMin(SeqToSet(bag))
BagMax(bag) == IF bag = <<>> THEN 0 ELSE SetMax(SeqToSet(bag))

StatsOf(bag) ==
  [t |-> "stats", count |-> Len(bag), min4 |-> BagMin(bag), max4 |-> BagMax(bag), sum4 |-> SumSeq(bag)]

(* variance = varnum / (16 n^2) with varnum = n * sum (v-min)^2 - (sum (v-min))^2 (shift invariant) *)
EStatsOf(bag) ==
  LET n == Len(bag)
      m == BagMin(bag)
      sd == SumSeq(bag) - n * m
  IN [t |-> "estats", count |-> n, min4 |-> m, max4 |-> BagMax(bag), sum4 |-> SumSeq(bag),
      varnum |-> n * SumSqDev(bag, m) - sd * sd]

CountLe(bag, x) == Cardinality({j \in DOMAIN bag : bag[j] <= x})

CardOf(M, a) ==
  IF a.fk = "kw" THEN Cardinality(UNION {KwKeys(d, a) : d \in M})
  ELSE Cardinality(UNION {SeqToSet(NumVals(d, a)) : d \in M})

LeafRef(D, M, a) ==
  CASE a.t = "stats" -> StatsOf(BagOf(M, a))
    [] a.t = "estats" -> EStatsOf(BagOf(M, a))
    [] a.t = "vcount" -> [t |-> "value", v |-> Len(BagOf(M, a))]
    [] a.t = "card" -> [t |-> "value", v |-> CardOf(M, a)]
    [] a.t = "pct" -> LET bag == BagOf(M, a) IN
                      [t |-> "pct", n |-> Len(bag), min4 |-> BagMin(bag), max4 |-> BagMax(bag), percents |-> a.percents]
    [] a.t = "pctr" -> LET bag == BagOf(M, a) IN
                       [t |-> "pctr", n |-> Len(bag), le |-> [i \in DOMAIN a.values4 |-> CountLe(bag, a.values4[i])]]
    [] a.t = "tophits" -> [t |-> "tophits", exact |-> FALSE, total |-> Cardinality(M), ids |-> <<>>,
                           M |-> M, size |-> a.size, from |-> a.from, sort |-> a.sort]

IsLeaf(a) == a.t \in {"stats", "estats", "vcount", "card", "pct", "pctr", "tophits"}

(* documents in the total order of a sort plan without _score keys (ties by segment, then document) *)
DocsInOrder(D, P, sort) == SortBy(P, LAMBDA x, y : CmpKeys(D, sort, x, 0, y, 0) < 0)

-----------------------------------------------------------------------------
(* The reference value.  Bucket aggregations yield                          *)
(*  [t = "buckets", rule, bs, limit, allow0, must0, hasafter, after]        *)
(* rule "terms" / "rare": bs = ALL eligible buckets in the bucket order and *)
(*   limit = size (NOLIMIT when absent): the response holds the first       *)
(*   `limit` of them (ties between equal counts may be broken either way:   *)
(*   see BucketsAgree);                                                     *)
(* rule "hist": bs = the buckets with at least max(1, min_doc_count)        *)
(*   documents in key order; allow0: empty buckets may be reported;         *)
(*   must0: keys that must be reported even when empty (extended_bounds);   *)
(* rule "exact": bs is the response's bucket list (range, composite).       *)

Buckets(rule, bs, limit) ==
  [t |-> "buckets", rule |-> rule, bs |-> bs, limit |-> limit, allow0 |-> FALSE, must0 |-> {},
   hasafter |-> FALSE, after |-> <<>>]

HistMdc(a) == IF a.hasmdc THEN a.mdc ELSE IF a.hasext \/ a.hashard THEN 0 ELSE 1
HistMust0(a) ==
  IF a.hasext /\ a.hasmdc /\ a.mdc = 0
    THEN {<<KNum(i * a.iv4 + a.off4)>> :
            i \in HistIdx(a, a.extmin4)..HistIdx(a, a.extmax4)}
    ELSE {}

(* one page of a composite aggregation over the sorted bucket list `all`    *)
CompPage(D, all, hasafter, after, size, strict, alwaysKey) ==
  LET rest == SelectSeq(all, LAMBDA b : ~hasafter \/ KeyLess(D, after, b.key) \/ (~strict /\ after = b.key))
      page == Prefix(rest, size)
      more == Len(rest) > size
      emit == page # <<>> /\ (more \/ alwaysKey)
  IN [t |-> "buckets", rule |-> "exact", bs |-> page, limit |-> NOLIMIT, allow0 |-> FALSE, must0 |-> {},
      hasafter |-> emit, after |-> IF emit THEN page[Len(page)].key ELSE <<>>]

RECURSIVE Ref(_, _, _)
RefSubs(D, M, subs) == [i \in DOMAIN subs |-> [name |-> subs[i].name, r |-> Ref(D, M, subs[i].a)]]
Bkt(D, key, M, a) == [key |-> key, n |-> Cardinality(M), subs |-> RefSubs(D, M, a.subs)]

Ref(D, M, a) ==
  CASE IsLeaf(a) -> LeafRef(D, M, a)
    [] a.t = "terms" ->
         LET keys == UNION {KwKeys(d, a) : d \in M}
             bs == {Bkt(D, <<KStr(k)>>, {d \in M : k \in KwKeys(d, a)}, a) : k \in keys}
             elig == {b \in bs : b.n >= a.mdc}
         IN Buckets("terms", SortBy(elig, LAMBDA x, y : TermsLess(D, x, y)), IF a.hassize THEN a.size ELSE NOLIMIT)
    [] a.t = "rare" ->
         LET keys == UNION {KwKeys(d, a) : d \in M}
             bs == {Bkt(D, <<KStr(k)>>, {d \in M : k \in KwKeys(d, a)}, a) : k \in keys}
             elig == {b \in bs : b.n <= a.maxdc}
         IN Buckets("rare", SortBy(elig, LAMBDA x, y : RareLess(D, x, y)), IF a.hassize THEN a.size ELSE NOLIMIT)
    [] a.t = "hist" ->
         LET keys == UNION {HistKeys(d, a) : d \in M}
             bs == {Bkt(D, <<KNum(k)>>, {d \in M : k \in HistKeys(d, a)}, a) : k \in keys}
             elig == {b \in bs : b.n >= MaxI(1, HistMdc(a))}
         IN [Buckets("hist", SortBy(elig, LAMBDA x, y : ByKey(D, x, y)), NOLIMIT)
               EXCEPT !.allow0 = (HistMdc(a) = 0), !.must0 = HistMust0(a)]
    [] a.t = "range" ->
         Buckets("exact", [i \in DOMAIN a.ranges |->
                             Bkt(D, <<KStr(a.ranges[i].key)>>, {d \in M : DocInRange(d, a, a.ranges[i])}, a)], NOLIMIT)
    [] a.t = "filter" ->
         LET P == {d \in M : Passes(D, d, a.g)} IN
         [t |-> "filter", n |-> Cardinality(P), subs |-> RefSubs(D, P, a.subs)]
    [] a.t = "comp" ->
         LET keys == UNION {CompKeys(d, a.sources) : d \in M}
             bs == {Bkt(D, k, {d \in M : k \in CompKeys(d, a.sources)}, a) : k \in keys}
         IN CompPage(D, SortBy(bs, LAMBDA x, y : ByKey(D, x, y)), a.hasafter, a.after, a.size, TRUE, FALSE)

RefAll(D, M, aggs) == RefSubs(D, M, aggs)

-----------------------------------------------------------------------------
(* The implementation-shaped form.  Intermediates:                          *)
(*   top_hits, "S12b"   [t = "itop", total, hits : documents in order]     *)
(*   leaf kinds         [t = "idocs", docs]  (their merge is a union; the  *)
(*                      value is taken over the union) - except stats,     *)
(*                      which is merged the way the code does:             *)
(*   stats              [t = "istats", count, min4, max4, sum4]            *)
(*   value_count        [t = "icount", v]                                  *)
(*   terms/rare/hist/comp  [t = "ib", bs : set of [key, n, subs]]          *)
(*   range              [t = "iseq", bs : sequence of [key, n, subs]]      *)
(*   filter             [t = "ifilter", n, subs]                           *)
(* where subs is a sequence of [name, i].                                  *)

RECURSIVE Collect(_, _, _, _)
CollectSubs(D, P, subs, mode) == [i \in DOMAIN subs |-> [name |-> subs[i].name, i |-> Collect(D, P, subs[i].a, mode)]]
IBkt(D, key, P, a, mode) == [key |-> key, n |-> Cardinality(P), subs |-> CollectSubs(D, P, a.subs, mode)]

PerSegLimit(a) == IF a.hasshard THEN a.shard ELSE IF a.hassize THEN a.size ELSE NOLIMIT
Limited(X, Less(_, _), lim) == IF lim = NOLIMIT THEN X ELSE FirstOf(X, Less, lim)

Collect(D, P, a, mode) ==
  CASE a.t = "stats" -> LET s == StatsOf(BagOf(P, a)) IN
                        [t |-> "istats", count |-> s.count, min4 |-> s.min4, max4 |-> s.max4, sum4 |-> s.sum4]
    [] a.t = "vcount" -> [t |-> "icount", v |-> Len(BagOf(P, a))]
    [] a.t = "tophits" /\ "S12b" \in mode ->      \* TopHitsCollector::finish: skip `from`, take `size`, per segment
         [t |-> "itop", total |-> Cardinality(P), hits |-> SubSeq(DocsInOrder(D, P, a.sort), a.from + 1, MinI(Cardinality(P), a.from + a.size))]
    [] IsLeaf(a) /\ a.t \notin {"stats", "vcount"} -> [t |-> "idocs", docs |-> P]
    [] a.t = "terms" ->
         LET keys == UNION {KwKeys(d, a) : d \in P}
             bs == {IBkt(D, <<KStr(k)>>, {d \in P : k \in KwKeys(d, a)}, a, mode) : k \in keys}
         IN [t |-> "ib",
             bs |-> IF "S12a" \in mode      \* TermsCollector::finish: threshold and truncation per segment
                      THEN Limited({b \in bs : b.n >= a.mdc}, LAMBDA x, y : TermsLess(D, x, y), PerSegLimit(a))
                      ELSE bs]
    [] a.t = "rare" ->
         LET keys == UNION {KwKeys(d, a) : d \in P}
             bs == {IBkt(D, <<KStr(k)>>, {d \in P : k \in KwKeys(d, a)}, a, mode) : k \in keys}
         IN [t |-> "ib",
             bs |-> IF "S12a" \in mode      \* RareTermsCollector::finish
                      THEN Limited({b \in bs : b.n <= a.maxdc}, LAMBDA x, y : RareLess(D, x, y),
                                   IF a.hassize THEN a.size ELSE NOLIMIT)
                      ELSE bs]
    [] a.t = "hist" ->
         LET keys == UNION {HistKeys(d, a) : d \in P}
             bs == {IBkt(D, <<KNum(k)>>, {d \in P : k \in HistKeys(d, a)}, a, mode) : k \in keys}
         IN [t |-> "ib", bs |-> IF "S12a" \in mode THEN {b \in bs : b.n >= HistMdc(a)} ELSE bs]
    [] a.t = "comp" ->
         LET keys == UNION {CompKeys(d, a.sources) : d \in P} IN
         [t |-> "ib", bs |-> {IBkt(D, k, {d \in P : k \in CompKeys(d, a.sources)}, a, mode) : k \in keys}]
    [] a.t = "range" ->
         [t |-> "iseq", bs |-> [i \in DOMAIN a.ranges |->
                                  IBkt(D, <<KStr(a.ranges[i].key)>>, {d \in P : DocInRange(d, a, a.ranges[i])}, a, mode)]]
    [] a.t = "filter" ->
         LET Q == {d \in P : Passes(D, d, a.g)} IN
         [t |-> "ifilter", n |-> Cardinality(Q), subs |-> CollectSubs(D, Q, a.subs, mode)]

RECURSIVE MergeI(_, _, _, _, _)
MergeSubs(D, subs, xs, ys, mode) ==
  [i \in DOMAIN subs |-> [name |-> subs[i].name, i |-> MergeI(D, subs[i].a, xs[i].i, ys[i].i, mode)]]
MergeBkt(D, a, x, y, mode) == [key |-> x.key, n |-> x.n + y.n, subs |-> MergeSubs(D, a.subs, x.subs, y.subs, mode)]

RECURSIVE FoldBkts(_, _, _, _, _)
FoldBkts(D, a, b, ys, mode) ==
  IF ys = <<>> THEN b ELSE FoldBkts(D, a, MergeBkt(D, a, b, Head(ys), mode), Tail(ys), mode)

MergeSets(D, a, X, Y, mode) ==
  LET kx == {b.key : b \in X}
      ky == {b.key : b \in Y}
      Of(Z, k) == CHOOSE b \in Z : b.key = k
  IN {MergeBkt(D, a, Of(X, k), Of(Y, k), mode) : k \in kx \cap ky}
     \cup {b \in X : b.key \notin ky} \cup {b \in Y : b.key \notin kx}

MergeI(D, a, x, y, mode) ==
  CASE x.t = "idocs" -> [t |-> "idocs", docs |-> x.docs \cup y.docs]
    [] x.t = "icount" -> [t |-> "icount", v |-> x.v + y.v]
    [] x.t = "itop" ->                           \* merge_top_hits: best size + from of both lists, skip `from` again
         LET all == DocsInOrder(D, SeqToSet(x.hits) \cup SeqToSet(y.hits), a.sort)
             best == Prefix(all, a.size + a.from)
         IN [t |-> "itop", total |-> x.total + y.total, hits |-> SubSeq(best, a.from + 1, MinI(Len(best), a.from + a.size))]
    [] x.t = "istats" ->                         \* merge_stats
         IF x.count = 0 THEN y ELSE IF y.count = 0 THEN x
         ELSE [t |-> "istats", count |-> x.count + y.count, min4 |-> MinI(x.min4, y.min4),
               max4 |-> MaxI(x.max4, y.max4), sum4 |-> x.sum4 + y.sum4]
    [] x.t = "ifilter" -> [t |-> "ifilter", n |-> x.n + y.n, subs |-> MergeSubs(D, a.subs, x.subs, y.subs, mode)]
    [] x.t = "iseq" ->
         IF "S12c" \notin mode THEN [t |-> "iseq", bs |-> [i \in DOMAIN x.bs |-> MergeBkt(D, a, x.bs[i], y.bs[i], mode)]]
         ELSE      \* merge_bucket_lists: by key string; every incoming bucket is added to the LAST bucket with its key
           LET LastWith(k) == SetMax({i \in DOMAIN x.bs : x.bs[i].key = k})
               Incoming(i) == IF LastWith(x.bs[i].key) = i THEN SelectSeq(y.bs, LAMBDA b : b.key = x.bs[i].key) ELSE <<>>
           IN [t |-> "iseq", bs |-> [i \in DOMAIN x.bs |-> FoldBkts(D, a, x.bs[i], Incoming(i), mode)]]
    [] x.t = "ib" ->
         LET m == MergeSets(D, a, x.bs, y.bs, mode) IN
         [t |-> "ib",
          bs |-> IF "S12a" \notin mode THEN m
                 ELSE IF a.t = "terms"            \* merge_intermediate_in_place: truncate to shard_size only
                        THEN Limited(m, LAMBDA p, q : TermsLess(D, p, q), IF a.hasshard THEN a.shard ELSE NOLIMIT)
                 ELSE IF a.t = "rare"
                        THEN Limited({b \in m : b.n <= a.maxdc}, LAMBDA p, q : RareLess(D, p, q),
                                     IF a.hassize THEN a.size ELSE NOLIMIT)
                 ELSE m]

RECURSIVE MergeAll(_, _, _, _)
MergeAll(D, a, is, mode) ==       \* is: non-empty sequence of intermediates, in segment order
  IF Len(is) = 1 THEN is[1]
  ELSE MergeAll(D, a, <<MergeI(D, a, is[1], is[2], mode)>> \o SubSeq(is, 3, Len(is)), mode)

RECURSIVE Fin(_, _, _, _)
FinSubs(D, subs, xs, mode) == [i \in DOMAIN subs |-> [name |-> subs[i].name, r |-> Fin(D, subs[i].a, xs[i].i, mode)]]
FinBkt(D, a, b, mode) == [key |-> b.key, n |-> b.n, subs |-> FinSubs(D, a.subs, b.subs, mode)]

Fin(D, a, x, mode) ==
  CASE x.t = "idocs" -> LeafRef(D, x.docs, a)
    [] x.t = "icount" -> [t |-> "value", v |-> x.v]
    [] x.t = "itop" -> [t |-> "tophits", exact |-> TRUE, total |-> x.total, ids |-> [i \in DOMAIN x.hits |-> x.hits[i].id],
                        M |-> {}, size |-> a.size, from |-> a.from, sort |-> a.sort]
    [] x.t = "istats" -> [t |-> "stats", count |-> x.count, min4 |-> x.min4, max4 |-> x.max4, sum4 |-> x.sum4]
    [] x.t = "ifilter" -> [t |-> "filter", n |-> x.n, subs |-> FinSubs(D, a.subs, x.subs, mode)]
    [] x.t = "iseq" -> Buckets("exact", [i \in DOMAIN x.bs |-> FinBkt(D, a, x.bs[i], mode)], NOLIMIT)
    [] x.t = "ib" ->
         LET fs == {FinBkt(D, a, b, mode) : b \in x.bs} IN
         CASE a.t = "terms" ->
                IF "S12a" \in mode      \* finalize_response: sort, truncate to size; no threshold any more
                  THEN LET lim == IF a.hassize THEN a.size ELSE IF a.hasshard THEN a.shard ELSE NOLIMIT IN
                       Buckets("terms", SortBy(Limited(fs, LAMBDA p, q : TermsLess(D, p, q), lim),
                                               LAMBDA p, q : TermsLess(D, p, q)), NOLIMIT)
                  ELSE Buckets("terms", SortBy({b \in fs : b.n >= a.mdc}, LAMBDA p, q : TermsLess(D, p, q)),
                               IF a.hassize THEN a.size ELSE NOLIMIT)
           [] a.t = "rare" ->
                IF "S12a" \in mode
                  THEN Buckets("rare", SortBy(Limited(fs, LAMBDA p, q : RareLess(D, p, q),
                                                      IF a.hassize THEN a.size ELSE NOLIMIT),
                                              LAMBDA p, q : RareLess(D, p, q)), NOLIMIT)
                  ELSE Buckets("rare", SortBy({b \in fs : b.n <= a.maxdc}, LAMBDA p, q : RareLess(D, p, q)),
                               IF a.hassize THEN a.size ELSE NOLIMIT)
           [] a.t = "hist" ->
                LET keep == IF "S12a" \in mode THEN fs ELSE {b \in fs : b.n >= MaxI(1, HistMdc(a))} IN
                [Buckets("hist", SortBy(keep, LAMBDA p, q : ByKey(D, p, q)), NOLIMIT)
                   EXCEPT !.allow0 = (HistMdc(a) = 0), !.must0 = HistMust0(a)]
           [] a.t = "comp" ->
                CompPage(D, SortBy(fs, LAMBDA p, q : ByKey(D, p, q)), a.hasafter, a.after, a.size, TRUE, FALSE)

(* the value of one aggregation over a partition (sequence of document     *)
(* sets, one per segment, in segment order)                                *)
Shaped(D, parts, a, mode) ==
  Fin(D, a, MergeAll(D, a, [i \in DOMAIN parts |-> Collect(D, parts[i], a, mode)], mode), mode)

ShapedAll(D, parts, aggs, mode) ==
  [i \in DOMAIN aggs |-> [name |-> aggs[i].name, r |-> Shaped(D, parts, aggs[i].a, mode)]]

(* the partition of a matched set by segment *)
PartsOf(M, nseg) == [s \in 1..nseg |-> {d \in M : d.seg = s - 1}]

-----------------------------------------------------------------------------
(* Agreement of an observed (canonical) response with a reference value.    *)
(* Observed shapes (harness/src/aggs.rs, fn canon):                          *)
(*  [t="buckets", bs:<<[key, n, subs]>>, hasafter, after]                   *)
(*  [t="filter", n, subs]                                                   *)
(*  [t="stats", count, min4, max4, sum4, avg_e4, exact]                     *)
(*  [t="estats", ... , var_e4, sd_e2]     [t="value", v]                    *)
(*  [t="pct", vals:<<[p, found, v_e4]>>]  [t="pctr", vals:<<[found, v_e4]>>]*)
(*  [t="tophits", total, ids]                                               *)
(* strict = TRUE: bucket lists are compared position by position (used for *)
(* the exact as-built predictions); strict = FALSE: the order and the      *)
(* truncation among buckets with EQUAL counts is not asserted (the README  *)
(* does not state a tie order).                                             *)

Near(x, y, tol) == AbsI(x - y) <= tol

StatsAgree(ref, obs) ==
  /\ obs.count = ref.count
  /\ ref.count > 0 =>
       /\ obs.exact /\ obs.min4 = ref.min4 /\ obs.max4 = ref.max4 /\ obs.sum4 = ref.sum4
       /\ Near(obs.avg_e4, MulDiv(ref.sum4, 10000, 4 * ref.count), 1)

EStatsAgree(ref, obs) ==
  /\ StatsAgree(ref, obs)
  /\ ref.count > 0 =>
       /\ Near(obs.var_e4, MulDiv(ref.varnum, 10000, 16 * ref.count * ref.count), 2)
       /\ MaxI(0, obs.sd_e2 - 1) * MaxI(0, obs.sd_e2 - 1) <= obs.var_e4 + 2     \* std_deviation^2 = variance
       /\ obs.var_e4 - 2 <= (obs.sd_e2 + 1) * (obs.sd_e2 + 1)

(* percentiles: the interpolation rule is not documented; asserted: every   *)
(* requested percentile is reported, lies within [min, max] and is monotone *)
PctAgree(ref, obs) ==
  /\ Len(obs.vals) = Len(ref.percents)
  /\ \A i \in DOMAIN obs.vals : obs.vals[i].found
  /\ ref.n > 0 =>
       /\ \A i \in DOMAIN obs.vals : ref.min4 * 2500 <= obs.vals[i].v_e4 /\ obs.vals[i].v_e4 <= ref.max4 * 2500
       /\ \A i, j \in DOMAIN obs.vals : ref.percents[i] <= ref.percents[j] => obs.vals[i].v_e4 <= obs.vals[j].v_e4

(* percentile_ranks: "the percent of values at or below" (README)           *)
PctrAgree(ref, obs) ==
  /\ Len(obs.vals) = Len(ref.le)
  /\ \A i \in DOMAIN obs.vals : obs.vals[i].found
  /\ ref.n > 0 => \A i \in DOMAIN obs.vals : Near(obs.vals[i].v_e4, (ref.le[i] * 1000000) \div ref.n, 1)

(* top_hits: `total` = matched documents; the hits are documents of the     *)
(* bucket, in the order of the sort plan (ties by segment order are layout  *)
(* dependent by definition and not asserted), none better is left out.      *)
TopHitsAgree(D, ref, obs) ==
  IF ref.exact THEN obs.total = ref.total /\ obs.ids = ref.ids ELSE
  LET ids == obs.ids
      n == Len(ids)
      M == ref.M
      Doc(id) == CHOOSE d \in M : d.id = id
      want == MaxI(0, MinI(ref.size, Cardinality(M) - ref.from))
  IN /\ obs.total = Cardinality(M)
     /\ n = want
     /\ NoDupSeqR(ids)
     /\ SeqToSet(ids) \subseteq {d.id : d \in M}
     /\ \A i \in 1..(n - 1) : \A k \in DOMAIN ref.sort :
          \/ \E j \in 1..(k - 1) : CmpPart(D, ref.sort[j], Doc(ids[i]), 0, Doc(ids[i + 1]), 0) # 0
          \/ CmpPart(D, ref.sort[k], Doc(ids[i]), 0, Doc(ids[i + 1]), 0) <= 0
     /\ (ref.from = 0 /\ n > 0) =>
          \A d \in {x \in M : x.id \notin SeqToSet(ids)} :
            \A k \in DOMAIN ref.sort :
              \/ \E j \in 1..(k - 1) : CmpPart(D, ref.sort[j], Doc(ids[n]), 0, d, 0) # 0
              \/ CmpPart(D, ref.sort[k], Doc(ids[n]), 0, d, 0) <= 0

RECURSIVE Agree(_, _, _, _)
SubsAgree(D, rs, os, strict) ==
  /\ Len(rs) = Len(os)
  /\ \A i \in DOMAIN rs : rs[i].name = os[i].name /\ Agree(D, rs[i].r, os[i].r, strict)

BktAgree(D, rb, ob, strict) == rb.key = ob.key /\ rb.n = ob.n /\ SubsAgree(D, rb.subs, ob.subs, strict)

BucketsAgree(D, ref, obs, strict) ==
  LET lim == IF ref.limit = NOLIMIT \/ ref.limit > Len(ref.bs) THEN Len(ref.bs) ELSE ref.limit
      okeys == {obs.bs[i].key : i \in DOMAIN obs.bs}
  IN /\ obs.hasafter = ref.hasafter
     /\ ref.hasafter => obs.after = ref.after
     /\ CASE ref.rule = "exact" \/ (strict /\ ref.rule # "hist") ->
               /\ Len(obs.bs) = lim
               /\ \A i \in 1..lim : BktAgree(D, ref.bs[i], obs.bs[i], strict)
          [] ref.rule = "hist" ->
               LET pos == SelectSeq(obs.bs, LAMBDA b : b.n > 0) IN
               /\ Len(pos) = Len(ref.bs)
               /\ \A i \in DOMAIN pos : BktAgree(D, ref.bs[i], pos[i], strict)
               /\ \A i \in 1..(Len(obs.bs) - 1) : obs.bs[i].key[1].n < obs.bs[i + 1].key[1].n
               /\ (\E i \in DOMAIN obs.bs : obs.bs[i].n = 0) => ref.allow0
               /\ ref.must0 \subseteq okeys
          [] OTHER ->      \* terms / rare, ties not asserted
               /\ Len(obs.bs) = lim
               /\ Cardinality(okeys) = Len(obs.bs)
               /\ \A i \in DOMAIN obs.bs : \E j \in DOMAIN ref.bs : BktAgree(D, ref.bs[j], obs.bs[i], strict)
               /\ \A i \in 1..(Len(obs.bs) - 1) :
                    IF ref.rule = "terms" THEN obs.bs[i].n >= obs.bs[i + 1].n ELSE obs.bs[i].n <= obs.bs[i + 1].n
               /\ (lim > 0 /\ lim < Len(ref.bs)) =>
                    \A j \in DOMAIN ref.bs :
                      (IF ref.rule = "terms" THEN ref.bs[j].n > obs.bs[lim].n ELSE ref.bs[j].n < obs.bs[lim].n)
                        => ref.bs[j].key \in okeys

Agree(D, ref, obs, strict) ==
  /\ obs.t = ref.t
  /\ CASE ref.t = "buckets" -> BucketsAgree(D, ref, obs, strict)
       [] ref.t = "filter" -> obs.n = ref.n /\ SubsAgree(D, ref.subs, obs.subs, strict)
       [] ref.t = "stats" -> StatsAgree(ref, obs)
       [] ref.t = "estats" -> EStatsAgree(ref, obs)
       [] ref.t = "value" -> obs.v = ref.v
       [] ref.t = "pct" -> PctAgree(ref, obs)
       [] ref.t = "pctr" -> PctrAgree(ref, obs)
       [] ref.t = "tophits" -> TopHitsAgree(D, ref, obs)

AgreeAll(D, refs, obs, strict) == SubsAgree(D, refs, obs, strict)

(* the exact (position by position) form of a reference value: what a       *)
(* response is when ties are broken by key, as the code does                *)
RECURSIVE Exact(_)
Exact(r) ==
  IF r.t = "buckets"
    THEN LET lim == IF r.limit = NOLIMIT \/ r.limit > Len(r.bs) THEN Len(r.bs) ELSE r.limit IN
         [r EXCEPT !.bs = [i \in 1..lim |-> [r.bs[i] EXCEPT !.subs = [j \in DOMAIN r.bs[i].subs |->
                                               [name |-> r.bs[i].subs[j].name, r |-> Exact(r.bs[i].subs[j].r)]]]],
                   !.limit = NOLIMIT]
  ELSE IF r.t = "filter"
    THEN [r EXCEPT !.subs = [j \in DOMAIN r.subs |-> [name |-> r.subs[j].name, r |-> Exact(r.subs[j].r)]]]
  ELSE r

=============================================================================
