------------------------------- MODULE Browser -------------------------------
(***************************************************************************)
(* C27 - Browser persistence survives a reload at any moment.              *)
(*                                                                         *)
(* Model of /repo/searchlite-wasm/src/wasm.rs (IndexedDB backend):         *)
(*   PendingWrites::schedule / schedule_delete / flush, persist_queue,     *)
(*   persist_file / delete_file, JsStorage (every write to a file          *)
(*   schedules a WHOLE-FILE snapshot of that path), Searchlite::commit =   *)
(*   IndexWriter::commit (the storage calls of api/writer.rs in order)     *)
(*   followed by `flush().await`.                                          *)
(*                                                                         *)
(* One step of the model = what happens between two await points:          *)
(*   CallAdd / CallCommit   the synchronous part of an exported call       *)
(*   RunTask(t)             one poll of a spawn_local task (until Pending) *)
(*   IdbComplete(i)         one IndexedDB transaction commits and its      *)
(*                          request fires `success` (wasm.rs uses one      *)
(*                          request per read-write transaction)            *)
(*   ClosePage              the page goes away; what is in IndexedDB is    *)
(*                          what the next `init` (Reload) sees.            *)
(*                                                                         *)
(* TaskOrder = "fifo": spawn_local tasks are microtasks - they run FIFO    *)
(*   and to quiescence before the next IndexedDB event or application      *)
(*   call (what wasm-bindgen-futures does in a browser).  "any": any ready *)
(*   task, IndexedDB completion or call may come next.                     *)
(* IdbOrder = "creation": started transactions complete in creation order  *)
(*   (IndexedDB's rule for read-write transactions with overlapping        *)
(*   scope); "any": in any order (the quantifier of the property).         *)
(*                                                                         *)
(* File contents are abstract and uniform records [kind, k, n]:            *)
(*   man(j)   manifest written by commit j (lists the segments 1..j)       *)
(*   seg(j)   final bytes of one file of the segment written by commit j   *)
(*   wal(j,n) log of commit j: n=1 add records, n=2 adds + commit marker,  *)
(*            n=0 truncated                                                *)
(***************************************************************************)
EXTENDS Naturals, Sequences, FiniteSets, TLC

CONSTANTS IdSet,        \* document ids
          MaxCommits,   \* number of add+commit rounds of the application
          SegFiles,     \* sequence of the file suffixes of one segment, in write order
          TaskOrder,    \* "fifo" | "any"
          IdbOrder,     \* "creation" | "any"
          Bug,          \* "none" or the name of one protocol mutation
          Fix           \* "none" | "manifest_barrier" (model of proposed_fixes/S27a.diff)

VARIABLES pg,      \* the page: queue, recv, chan, tasks, runq, reqs and the id counters
          idb,     \* IndexedDB: path -> data (durable)
          app,     \* the application: k commits called, added, docs, resolved, failed
          closed,  \* the page was closed
          sched    \* history: the steps taken (hidden by VIEW)

vars == <<pg, idb, app, closed, sched>>
view == <<pg, idb, app, closed>>

Range(s) == {s[i] : i \in DOMAIN s}

MANIFEST == <<"manifest", 0, "">>
WAL      == <<"wal", 0, "">>
Seg(j, f) == <<"seg", j, f>>

NoData   == [kind |-> "none", k |-> 0, n |-> 0]
Man(j)   == [kind |-> "man", k |-> j, n |-> 0]
SegD(j)  == [kind |-> "seg", k |-> j, n |-> 0]
WalD(j, n) == [kind |-> "wal", k |-> j, n |-> n]

NoEntry == [pending |-> NoData, waiters |-> {}, inflight |-> FALSE]

-----------------------------------------------------------------------------
(* Pure operators on the page record (so that the synchronous part of a    *)
(* call is the sequential composition of its storage calls).               *)

Wake(p, t) == IF t \in Range(p.runq) THEN p ELSE [p EXCEPT !.runq = Append(@, t)]

RECURSIVE WakeAll(_, _)
WakeAll(p, S) ==
  IF S = {} THEN p
  ELSE LET t == CHOOSE x \in S : \A y \in S : x <= y
       IN WakeAll(Wake(p, t), S \ {t})

\* A commit task is blocked in `rx.await` on the receiver at the head of its flushq (flush awaits
\* its receivers one after the other); a persist task waiting at the manifest barrier of the
\* repair is blocked in `join_all` and is woken by any of its receivers.
WaitingOn(p, cs) ==
  {t \in DOMAIN p.tasks : /\ p.tasks[t].pc = "await"
                          /\ p.tasks[t].flushq # <<>>
                          /\ IF p.tasks[t].kind = "persist"
                               THEN Range(p.tasks[t].flushq) \cap cs # {}
                               ELSE Head(p.tasks[t].flushq) \in cs}

\* oneshot senders cs deliver `val` ("ok") or are dropped ("dropped")
Resolve(p, cs, val) ==
  LET p1 == [p EXCEPT !.chan = [c \in DOMAIN p.chan |-> IF c \in cs THEN val ELSE p.chan[c]]]
  IN WakeAll(p1, WaitingOn(p, cs))

NewTask(kind, path) ==
  [kind |-> kind, path |-> path, pc |-> "start", waiters |-> {}, flushq |-> <<>>, k |-> 0,
   err |-> FALSE]

Spawn(p, task) ==
  LET t == p.ntask + 1
  IN [p EXCEPT !.ntask = t,
               !.tasks = [x \in DOMAIN p.tasks \cup {t} |-> IF x = t THEN task ELSE p.tasks[x]],
               !.runq = Append(@, t)]

SetEntry(q, path, e) == [x \in DOMAIN q \cup {path} |-> IF x = path THEN e ELSE q[x]]
DelEntry(q, path) == [x \in DOMAIN q \ {path} |-> q[x]]

\* The other queue entries a manifest snapshot must wait for (Fix = "manifest_barrier").
BarrierPaths(p, path) ==
  IF Fix = "manifest_barrier" /\ path = MANIFEST
    THEN {x \in DOMAIN p.queue \ {MANIFEST} : p.queue[x].pending # NoData}   \* snapshots queued right now
    ELSE {}

RECURSIVE AddBarrier(_, _, _)
\* register one extra oneshot waiter on every entry in S; returns <<page, sequence of receivers>>
AddBarrier(p, S, acc) ==
  IF S = {} THEN <<p, acc>>
  ELSE LET x == CHOOSE y \in S : TRUE
           c == p.nchan + 1
           e == p.queue[x]
           p1 == [p EXCEPT !.nchan = c,
                           !.chan = [i \in DOMAIN p.chan \cup {c} |-> IF i = c THEN "open" ELSE p.chan[i]],
                           !.queue = SetEntry(p.queue, x, [e EXCEPT !.waiters = @ \cup {c}])]
       IN AddBarrier(p1, S \ {x}, Append(acc, c))

\* PendingWrites::schedule(path, data)
Sched(p, path, data) ==
  LET c  == p.nchan + 1
      e  == IF path \in DOMAIN p.queue THEN p.queue[path] ELSE NoEntry
      nd == IF Bug = "coalesce_drops_newest" /\ e.pending # NoData THEN e.pending ELSE data
      e1 == [pending |-> nd, waiters |-> e.waiters \cup {c}, inflight |-> TRUE]
      p1 == [p EXCEPT !.nchan = c,
                      !.chan = [i \in DOMAIN p.chan \cup {c} |-> IF i = c THEN "open" ELSE p.chan[i]],
                      !.recv = Append(@, c),
                      !.queue = SetEntry(p.queue, path, e1)]
  IN IF e.inflight THEN p1
     ELSE LET b == AddBarrier(p1, BarrierPaths(p1, path), <<>>)
          IN Spawn(b[1], [NewTask("persist", path) EXCEPT !.flushq = b[2],
                                                         !.pc = IF b[2] = <<>> THEN "start" ELSE "barrier"])

\* PendingWrites::schedule_delete(path): the entry (and its senders) is dropped
SchedDelete(p, path) ==
  LET p1 == IF path \in DOMAIN p.queue
              THEN Resolve([p EXCEPT !.queue = DelEntry(p.queue, path)],
                           p.queue[path].waiters, "dropped")
              ELSE p
  IN Spawn(p1, NewTask("delete", path))

NewReq(p, op, path, data, t) ==
  LET r == p.nreq + 1
  IN [p EXCEPT !.nreq = r,
               !.reqs = Append(@, [id |-> r, op |-> op, path |-> path, data |-> data, task |-> t])]

EndTask(p, t) == [p EXCEPT !.tasks = [x \in DOMAIN p.tasks \ {t} |-> p.tasks[x]]]

\* body of the loop of persist_queue, up to the await of persist_file (or the return)
LoopBody(p, t) ==
  LET path == p.tasks[t].path IN
  IF path \notin DOMAIN p.queue THEN EndTask(p, t)
  ELSE LET e == p.queue[path] IN
       IF e.pending = NoData
         THEN LET q1 == IF e.waiters = {} THEN DelEntry(p.queue, path)
                        ELSE SetEntry(p.queue, path, [e EXCEPT !.inflight = FALSE])
              IN EndTask([p EXCEPT !.queue = q1], t)
         ELSE LET early == Bug = "resolve_before_put"    \* mutation: senders fire before the put
                  p0 == IF early THEN Resolve(p, e.waiters, "ok") ELSE p
                  p1 == [p0 EXCEPT !.queue = SetEntry(p.queue, path,
                                               [pending |-> NoData, waiters |-> {}, inflight |-> TRUE]),
                                  !.tasks[t].waiters = IF early THEN {} ELSE e.waiters,
                                  !.tasks[t].pc = "awaitreq"]
              IN NewReq(p1, "put", path, e.pending, t)

RECURSIVE SkipResolved(_, _)
\* flush: `for rx in receivers { rx.await }` - <<remaining receivers, saw an error>>
SkipResolved(p, q) ==
  IF q = <<>> THEN <<q, FALSE>>
  ELSE IF p.chan[Head(q)] = "open" THEN <<q, FALSE>>
  ELSE LET r == SkipResolved(p, Tail(q))
       IN <<r[1], r[2] \/ p.chan[Head(q)] = "dropped">>

-----------------------------------------------------------------------------
(* What a reload sees                                                      *)

ManK(db) == IF MANIFEST \in DOMAIN db THEN db[MANIFEST].k ELSE 0

\* Index::open + reader: every file of every segment the manifest lists is there, complete
Openable(db) ==
  \A j \in 1..ManK(db) : \A f \in Range(SegFiles) :
     Seg(j, f) \in DOMAIN db /\ db[Seg(j, f)] = SegD(j)

\* contents after commit j: id -> version (= number of the last commit that added it), 0 = absent
Contents(j) ==
  [id \in IdSet |->
     LET S == {c \in 1..j : c <= Len(app.docs) /\ id \in app.docs[c]}
     IN IF S = {} THEN 0 ELSE CHOOSE c \in S : \A d \in S : d <= c]

\* a lenient reader would serve the segments that are complete
RecoveredContents(db) ==
  [id \in IdSet |->
     LET S == {c \in 1..ManK(db) : /\ c <= Len(app.docs) /\ id \in app.docs[c]
                                   /\ \A f \in Range(SegFiles) :
                                        Seg(c, f) \in DOMAIN db /\ db[Seg(c, f)] = SegD(c)}
     IN IF S = {} THEN 0 ELSE CHOOSE c \in S : \A d \in S : d <= c]

ReloadOpens == Openable(idb)
ReloadIsSomeCommit == \E j \in 0..app.k : RecoveredContents(idb) = Contents(j)
ResolvedCommitPresent ==
  \A j \in app.resolved : Openable(idb) /\ \E m \in j..app.k : RecoveredContents(idb) = Contents(m)
\* a commit whose data is being persisted must not be reported as failed (schedule_delete drops
\* senders); not part of C27, checked for the delete scenarios only
NoSpuriousFailure == app.failed = {}

-----------------------------------------------------------------------------
InitPg == [queue |-> <<>>, recv |-> <<>>, chan |-> <<>>, tasks |-> <<>>, runq |-> <<>>,
           reqs |-> <<>>, nchan |-> 0, ntask |-> 0, nreq |-> 0]
InitIdb == [x \in {MANIFEST} |-> Man(0)]     \* `init` on an empty database has completed
InitApp == [k |-> 0, added |-> FALSE, busy |-> FALSE, docs |-> <<>>, resolved |-> {}, failed |-> {}]

Init ==
  /\ pg = InitPg
  /\ idb = InitIdb
  /\ app = InitApp
  /\ closed = FALSE
  /\ sched = <<>>

Step(l) == sched' = Append(sched, l)

PathName(path) == IF path[1] = "seg" THEN "s" \o ToString(path[2]) \o "." \o path[3] ELSE path[1]

\* application calls happen in macrotasks: with microtask semantics only at quiescence
MacroOK == TaskOrder = "fifo" => pg.runq = <<>>

RECURSIVE SchedN(_, _, _, _)
SchedN(p, path, data, n) == IF n = 0 THEN p ELSE SchedN(Sched(p, path, data), path, data, n - 1)

\* add_documents(S): one WAL append + flush (= one snapshot of wal.log) per document
CallAdd(S) ==
  /\ ~closed /\ ~app.busy /\ ~app.added /\ app.k < MaxCommits /\ MacroOK
  /\ pg' = SchedN(pg, WAL, WalD(app.k + 1, 1), Cardinality(S))
  /\ app' = [app EXCEPT !.added = TRUE, !.docs = Append(@, S)]
  /\ UNCHANGED <<idb, closed>>
  /\ Step([a |-> "add", t |-> 0, r |-> 0, op |-> "", path |-> "", n |-> Cardinality(S)])

RECURSIVE SchedSegs(_, _, _)
SchedSegs(p, j, fs) ==
  IF fs = <<>> THEN p ELSE SchedSegs(Sched(p, Seg(j, Head(fs)), SegD(j)), j, Tail(fs))

\* IndexWriter::commit on JsStorage, then PendingWrites::flush up to its first pending receiver
CommitSync(p0, j) ==
  LET p1 == Spawn(p0, [NewTask("commit", MANIFEST) EXCEPT !.k = j, !.pc = "await"])
      t  == p1.ntask
      p1b == [p1 EXCEPT !.runq = SelectSeq(@, LAMBDA x : x # t)]   \* it is being polled now
      p2 == IF Bug = "manifest_before_segments"
              THEN SchedSegs(Sched(p1b, MANIFEST, Man(j)), j, SegFiles)
              ELSE Sched(SchedSegs(p1b, j, SegFiles), MANIFEST, Man(j))
      p3 == Sched(p2, WAL, WalD(j, 2))      \* append_commit + sync
      p4 == Sched(p3, WAL, WalD(j, 0))      \* truncate
      taken == IF Bug = "flush_first_only" /\ p4.recv # <<>> THEN <<Head(p4.recv)>> ELSE p4.recv
      sk == SkipResolved(p4, taken)
  IN <<[p4 EXCEPT !.recv = <<>>, !.tasks[t].flushq = sk[1], !.tasks[t].err = sk[2]], t>>

CallCommit ==
  /\ ~closed /\ ~app.busy /\ app.added /\ MacroOK
  /\ LET j == app.k + 1
         r == CommitSync(pg, j)
         p == r[1]
         t == r[2]
     IN /\ IF p.tasks[t].flushq = <<>>
             THEN /\ pg' = EndTask(p, t)
                  /\ app' = [app EXCEPT !.k = j, !.added = FALSE,
                               !.resolved = IF p.tasks[t].err THEN @ ELSE @ \cup {j},
                               !.failed = IF p.tasks[t].err THEN @ \cup {j} ELSE @]
             ELSE /\ pg' = p
                  /\ app' = [app EXCEPT !.k = j, !.added = FALSE, !.busy = TRUE]
        /\ Step([a |-> "commit", t |-> t, r |-> 0, op |-> "", path |-> "", n |-> j])
  /\ UNCHANGED <<idb, closed>>

\* an exported call that removes a file (not reachable through the wasm API without a storage
\* error; used by the delete scenarios)
CallRemove(path) ==
  /\ ~closed /\ MacroOK
  /\ pg' = SchedDelete(pg, path)
  /\ UNCHANGED <<idb, app, closed>>
  /\ Step([a |-> "remove", t |-> 0, r |-> 0, op |-> "", path |-> PathName(path), n |-> 0])

CanRun(t) == t \in Range(pg.runq) /\ (TaskOrder = "fifo" => t = Head(pg.runq))

RunTask(t) ==
  /\ ~closed /\ CanRun(t)
  /\ LET p0 == [pg EXCEPT !.runq = SelectSeq(@, LAMBDA x : x # t)]
         tk == p0.tasks[t]
     IN /\ CASE tk.kind = "persist" /\ tk.pc = "start" ->
                  /\ pg' = LoopBody(p0, t) /\ app' = app
             [] tk.kind = "persist" /\ tk.pc \in {"barrier", "await"} ->   \* join_all(barrier).await
                  LET open == SelectSeq(tk.flushq, LAMBDA c : p0.chan[c] = "open")
                  IN /\ pg' = IF open = <<>> THEN LoopBody([p0 EXCEPT !.tasks[t].flushq = <<>>], t)
                              ELSE [p0 EXCEPT !.tasks[t].flushq = open, !.tasks[t].pc = "await"]
                     /\ app' = app
             [] tk.kind = "persist" /\ tk.pc = "resume" ->
                  /\ pg' = LoopBody(Resolve([p0 EXCEPT !.tasks[t].waiters = {}], tk.waiters, "ok"), t)
                  /\ app' = app
             [] tk.kind = "delete" /\ tk.pc = "start" ->
                  /\ pg' = NewReq([p0 EXCEPT !.tasks[t].pc = "awaitreq"], "delete", tk.path, NoData, t)
                  /\ app' = app
             [] tk.kind = "delete" /\ tk.pc = "resume" ->
                  /\ pg' = EndTask(p0, t) /\ app' = app
             [] tk.kind = "commit" ->
                  LET sk == SkipResolved(p0, tk.flushq)
                      err == tk.err \/ sk[2]
                  IN IF sk[1] = <<>>
                       THEN /\ pg' = EndTask(p0, t)
                            /\ app' = [app EXCEPT !.busy = FALSE,
                                         !.resolved = IF err THEN @ ELSE @ \cup {tk.k},
                                         !.failed = IF err THEN @ \cup {tk.k} ELSE @]
                       ELSE /\ pg' = [p0 EXCEPT !.tasks[t].flushq = sk[1], !.tasks[t].err = err]
                            /\ app' = app
        /\ Step([a |-> "task", t |-> t, r |-> 0, op |-> tk.kind, path |-> PathName(tk.path), n |-> 0])
  /\ UNCHANGED <<idb, closed>>

IdbComplete(i) ==
  /\ ~closed /\ i \in DOMAIN pg.reqs
  /\ TaskOrder = "fifo" => pg.runq = <<>>
  /\ IdbOrder = "creation" => i = 1
  /\ LET rq == pg.reqs[i]
         p1 == [pg EXCEPT !.reqs = SubSeq(@, 1, i - 1) \o SubSeq(@, i + 1, Len(@)),
                          !.tasks[rq.task].pc = "resume"]
     IN /\ pg' = Wake(p1, rq.task)
        /\ idb' = IF rq.op = "put"
                    THEN [x \in DOMAIN idb \cup {rq.path} |-> IF x = rq.path THEN rq.data ELSE idb[x]]
                    ELSE [x \in DOMAIN idb \ {rq.path} |-> idb[x]]
        /\ Step([a |-> "idb", t |-> 0, r |-> rq.id, op |-> rq.op, path |-> PathName(rq.path), n |-> 0])
  /\ UNCHANGED <<app, closed>>

ClosePage ==
  /\ ~closed
  /\ closed' = TRUE
  /\ Step([a |-> "close", t |-> 0, r |-> 0, op |-> "", path |-> "", n |-> 0])
  /\ UNCHANGED <<pg, idb, app>>

Quiescent == pg.runq = <<>> /\ pg.reqs = <<>> /\ ~app.busy /\ ~app.added /\ app.k = MaxCommits

Next ==
  \/ \E S \in SUBSET IdSet \ {{}} : CallAdd(S)
  \/ CallCommit
  \/ \E t \in DOMAIN pg.tasks : RunTask(t)
  \/ \E i \in DOMAIN pg.reqs : IdbComplete(i)
  \/ ClosePage

Spec == Init /\ [][Next]_vars

-----------------------------------------------------------------------------
(* Sanity                                                                  *)
TypeOK ==
  /\ \A t \in Range(pg.runq) : t \in DOMAIN pg.tasks
  /\ \A i \in DOMAIN pg.reqs : pg.reqs[i].task \in DOMAIN pg.tasks
  /\ \A x \in DOMAIN pg.queue : pg.queue[x].inflight \/ pg.queue[x].waiters # {}

\* when everything has run, every commit resolved and the last one is what a reload sees
EventuallyAllPresent ==
  Quiescent => /\ app.resolved \cup app.failed = 1..MaxCommits
               /\ Openable(idb) /\ RecoveredContents(idb) = Contents(MaxCommits)
               /\ idb[MANIFEST] = Man(MaxCommits)
               /\ WAL \in DOMAIN idb /\ idb[WAL] = WalD(MaxCommits, 0)   \* the newest snapshot won
               /\ pg.queue = <<>> /\ pg.tasks = <<>>

\* no await is left without anything that could end it
NoStuck ==
  (~closed /\ pg.runq = <<>> /\ pg.reqs = <<>>) => (pg.tasks = <<>> /\ ~app.busy)
=============================================================================
