------------------------------ MODULE Collapse ------------------------------
(***************************************************************************)
(* C18: field collapsing and inner hits (README "Field collapsing and      *)
(* inner hits").                                                           *)
(*                                                                         *)
(* Input: the complete ranked list L of the request without `collapse`     *)
(* (a sequence of hits [id, sb], pairwise distinct), a key K(h) for the    *)
(* hits that have a value of the collapse field, a strict total order      *)
(* Before(a, b) of the inner sort plan, and the inner_hits options.        *)
(*   - hits without a value are not grouped (README is silent on them;     *)
(*     the trace check does not assert anything about them)                *)
(*   - representative of a group = its first hit in L                      *)
(*   - groups are listed in the order of their representatives             *)
(*   - inner hits = the other members, sorted by Before, then the window   *)
(*     [from+1 .. from+size]                                               *)
(***************************************************************************)
EXTENDS ListOps

WindowOf(s, from, hassize, size) ==
  SubSeq(s, from + 1, IF hassize THEN MinI(Len(s), from + size) ELSE Len(s))

Valued(L, HasK(_)) == SelectSeq(L, HasK)

RepIdx(V, K(_)) == {i \in DOMAIN V : \A j \in 1..(i - 1) : K(V[j]) # K(V[i])}

Reps(V, K(_)) ==
  LET R == RepIdx(V, K) IN [n \in 1..Cardinality(R) |-> V[NthSmallest(R, n)]]

RestOf(V, K(_), r) == SelectSeq(V, LAMBDA h : K(h) = K(r) /\ h # r)

(* opt = [has, from, hassize, size] *)
InnerOf(V, K(_), Before(_, _), opt, r) ==
  IF ~opt.has THEN <<>>
  ELSE WindowOf(SortSeqBy(RestOf(V, K, r), Before), opt.from, opt.hassize, opt.size)

Collapsed(L, HasK(_), K(_), Before(_, _), opt) ==
  LET V == Valued(L, HasK)
      tops == Reps(V, K)
  IN [tops |-> tops, inner |-> [n \in DOMAIN tops |-> InnerOf(V, K, Before, opt, tops[n])]]

-----------------------------------------------------------------------------
(* Structural requirements on any response (tops, inner) for the ranked    *)
(* list L - they hold for Collapsed(L, ..) and also when only a prefix of  *)
(* L was available to the collapse step (small limits).                    *)

OnePerValue(tops, K(_)) == \A i, j \in DOMAIN tops : i # j => K(tops[i]) # K(tops[j])

RepIsBest(L, tops, HasK(_), K(_)) ==
  \A i \in DOMAIN tops :
     /\ tops[i] \in SeqToSet(L)
     /\ \A j \in 1..(PosIn(L, tops[i]) - 1) : HasK(L[j]) => K(L[j]) # K(tops[i])

GroupOrder(L, tops) ==
  \A i \in 1..(Len(tops) - 1) : PosIn(L, tops[i]) < PosIn(L, tops[i + 1])

InnerWellFormed(L, tops, inner, HasK(_), K(_), Before(_, _), opt) ==
  \A i \in DOMAIN tops :
     LET s == inner[i] IN
     /\ Cardinality(SeqToSet(s)) = Len(s)
     /\ \A x \in SeqToSet(s) : x \in SeqToSet(L) /\ HasK(x) /\ K(x) = K(tops[i]) /\ x # tops[i]
     /\ \A a \in 1..(Len(s) - 1) : Before(s[a], s[a + 1])
     /\ opt.hassize => Len(s) <= opt.size
     /\ ~opt.has => s = <<>>

-----------------------------------------------------------------------------
(* Deviation S18a (known finding).  The collapse step does not see the     *)
(* ranked list but the candidate list of the request: `cand` = limit + 1    *)
(* hits.  When the request sort is plain score-descending the engine keeps *)
(* the best `cand` hits of EVERY segment, so the list that is collapsed is *)
(* the global top `cand` followed by hits of other segments with gaps in   *)
(* between; a group whose best hit fell into a gap is represented by a     *)
(* worse one.  Other sort plans collapse the exact prefix L[1..cand].      *)
AsBuiltCandidates(L, SegOf(_), cand, perSegment) ==
  IF perSegment
    THEN SelectSeq(L, LAMBDA h : Cardinality({j \in 1..PosIn(L, h) : SegOf(L[j]) = SegOf(h)}) <= cand)
    ELSE SubSeq(L, 1, MinI(cand, Len(L)))

-----------------------------------------------------------------------------
(* Trace check.  e.base = the observed response without `collapse` under a *)
(* limit that covers every match (judged by C10); e.obs = the collapsed    *)
(* response.  e.cover: the collapsed request's limit covers every match    *)
(* too, so every group is complete and the absolute expectation applies;   *)
(* otherwise only the structural requirements are asserted.                *)

CheckCollapse(D, docs, e, l, scn) ==
  IF ~UnderCaps(D, docs, e.q) THEN TRUE
  ELSE
  LET L == HitSeq(e.base)
      HasK(h) == Vals(LiveDoc(docs, h.id).kw, e.field) # <<>>
      K(h) == Vals(LiveDoc(docs, h.id).kw, e.field)[1]
      Before(a, b) == CmpKeys(D, e.inner.sort, LiveDoc(docs, a.id), a.sb, LiveDoc(docs, b.id), b.sb) < 0
      opt == [has |-> e.hasinner, from |-> e.inner.from, hassize |-> e.inner.hassize, size |-> e.inner.size]
      want == IdsOf0(Expected(D, docs, e.q, e.filters))
      built == IdsOf0(ExpectedAsBuilt(D, docs, e.q, e.filters))
      obsAll == [i \in DOMAIN e.obs.ids |->
                   [h |-> [id |-> e.obs.ids[i], sb |-> e.obs.sbits[i]],
                    inner |-> [j \in DOMAIN e.obs.inner[i] |-> [id |-> e.obs.inner[i][j], sb |-> e.obs.innersb[i][j]]]]]
      known == \A i \in DOMAIN obsAll : obsAll[i].h \in SeqToSet(L)
      obsV == SelectSeq(obsAll, LAMBDA x : HasK(x.h))
      tops == [i \in DOMAIN obsV |-> obsV[i].h]
      inner == [i \in DOMAIN obsV |-> obsV[i].inner]
      exp == Collapsed(L, HasK, K, Before, opt)
      nMissing == Cardinality({i \in DOMAIN L : ~HasK(L[i])})
      nGroups == Len(exp.tops)
      structWhy ==
        IF ~OnePerValue(tops, K) THEN "two hits share one value of the collapse field"
        ELSE IF ~RepIsBest(L, tops, HasK, K) THEN "a returned hit is not the best-ranked document of its group"
        ELSE IF ~GroupOrder(L, tops) THEN "groups are not in the order of their best hits"
        ELSE IF ~InnerWellFormed(L, tops, inner, HasK, K, Before, opt)
          THEN "inner hits leak across groups, repeat, exceed size or are not in inner-sort order"
        ELSE ""
      structOk == structWhy = ""
      SegOf(h) == LiveDoc(docs, h.id).seg
      scoreDesc == <<[kind |-> "score", f |-> "_score", desc |-> TRUE]>>
      asb == Collapsed(AsBuiltCandidates(L, SegOf, e.limit + 1, e.sort = scoreDesc), HasK, K, Before, opt)
      asBuiltExplains ==
        /\ ~e.cover
        /\ Len(obsV) = Len(obsAll)
        /\ tops = SubSeq(asb.tops, 1, MinI(Len(asb.tops), e.limit))
        /\ inner = SubSeq(asb.inner, 1, Len(tops))
      groupsOk == /\ e.obs.hasgroups
                  /\ e.obs.groups >= nGroups /\ e.obs.groups <= nGroups + nMissing
  IN IF ~e.base.ok \/ ~e.obs.ok
       THEN Tell("FAIL", e.prop, l, scn, e, "search returned an error", "")
     ELSE IF ~(NoDupSeqR(e.base.ids) /\ SeqToSet(e.base.ids) \in {want, built})
       THEN Tell("FAIL", e.prop, l, scn, e, "the uncollapsed covering request does not return the matching documents", "")
     ELSE IF ~known
       THEN Tell("FAIL", e.prop, l, scn, e, "a collapsed hit (or its score) does not occur in the uncollapsed ranking", "")
     ELSE IF Len(e.obs.ids) > e.limit
       THEN Tell("FAIL", e.prop, l, scn, e, "more hits than the limit", "")
     ELSE IF ~structOk
       THEN IF asBuiltExplains
              THEN Tell("DEV", e.prop, l, scn, e, "collapse runs on per-segment candidate lists: a returned hit is not the best of its group", "S18a")
              ELSE Tell("FAIL", e.prop, l, scn, e, structWhy, "")
     ELSE IF e.cover /\ tops # SubSeq(exp.tops, 1, MinI(Len(exp.tops), e.limit))
       THEN Tell("FAIL", e.prop, l, scn, e, "a group is missing from the collapsed response", "")
     ELSE IF e.cover /\ inner # SubSeq(exp.inner, 1, Len(tops))
       THEN Tell("FAIL", e.prop, l, scn, e, "inner hits differ from the other group members sorted by the inner sort and windowed by from/size", "")
     ELSE IF e.cover /\ ~groupsOk
       THEN Tell("FAIL", e.prop, l, scn, e, "total_groups is not the number of groups", "")
     ELSE IF e.cover /\ e.exec = "bm25" /\ e.obs.total # Len(L)
       THEN Tell("FAIL", e.prop, l, scn, e, "the hit count does not reflect all matching documents", "")
     ELSE IF SeqToSet(e.base.ids) # want
       THEN Tell("DEV", e.prop, l, scn, e, "only documents containing a scored term are candidates", "S07a")
     ELSE TRUE

=============================================================================
