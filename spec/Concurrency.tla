---------------------------- MODULE Concurrency -----------------------------
(***************************************************************************)
(* Threads over one Index object (C05, C06).                               *)
(*                                                                         *)
(* Shared state, as in index/mod.rs:                                       *)
(*   wlock    the writer mutex (holder thread or "none")                   *)
(*   mlock    the manifest RwLock: [w : holder or "none", r : set of       *)
(*            threads holding it for reading]                               *)
(*   mem      in-memory manifest [contents, segs]                          *)
(*   disk     the stored manifest (same shape)                             *)
(*   files    set of segment ids whose files exist                         *)
(*   wal      logical log (sequence of operation records)                  *)
(*   pend     handle -> pending list                                       *)
(*                                                                         *)
(* Each thread runs a fixed program (sequence of calls); every call is a   *)
(* sequence of steps at the granularity of the stage-point hooks           *)
(* (searchlite_core::verif::point):                                        *)
(*   writer calls   acquire wlock | body steps | release                   *)
(*   commit body    snapshot | write_segment | store | publish | truncate  *)
(*   compact body   copy(reader) | lock_w | write_segment | publish+store  *)
(*                  | unlock_w | cleanup                                   *)
(*   reader open    copy (under mlock.r) | open_seg* | done                *)
(*                                                                         *)
(* Constants select the design:                                            *)
(*   UseLock          writer calls take the writer mutex (FALSE: mutation) *)
(*   HoldReadLock     the reader keeps mlock.r until its segments are open *)
(*                    (TRUE: repaired; FALSE: as built, finding S06a)      *)
(*   CleanupFirst     compaction deletes old files before publishing       *)
(*                    (mutation)                                           *)
(*   LazyFetch        a kept reader opens a segment's stored-field file    *)
(*                    only at its first fetch (mutation, seeded change     *)
(*                    r2-C06); FALSE as built: every file of a segment is  *)
(*                    opened while the reader is built, and an open file   *)
(*                    survives the unlink done by compaction cleanup       *)
(***************************************************************************)
EXTENDS IndexOps, TLC, Json

CONSTANTS Writers, Readers, Compactors, Prog, UseLock, HoldReadLock, CleanupFirst, LazyFetch

Threads == Writers \cup Readers \cup Compactors

VARIABLES wlock, mlock, mem, disk, files, wal, pend, pc, loc, hist, serial, nseg, sched

vars == <<wlock, mlock, mem, disk, files, wal, pend, pc, loc, hist, serial, nseg, sched>>

(* pc[t] = <<call index, step name>>; loc[t] = thread-local data of the call in flight *)

Manifest(c, s) == [contents |-> c, segs |-> s]

Init ==
  /\ wlock = "none"
  /\ mlock = [w |-> "none", r |-> {}]
  /\ mem = Manifest(EmptyContents, {})
  /\ disk = Manifest(EmptyContents, {})
  /\ files = {}
  /\ wal = <<>>
  /\ pend = [t \in Writers |-> <<>>]
  /\ pc = [t \in Threads |-> <<1, "start">>]
  /\ loc = [t \in Threads |-> [snap |-> Manifest(EmptyContents, {}), new |-> Manifest(EmptyContents, {}),
                                todo |-> {}, failed |-> FALSE, result |-> EmptyContents]]
  /\ hist = {Manifest(EmptyContents, {})}          \* every manifest that was ever published
  /\ serial = [contents |-> EmptyContents, wal |-> <<>>, pend |-> [t \in Writers |-> <<>>]]
  /\ nseg = 1
  /\ sched = <<>>

Call(t) == IF pc[t][1] <= Len(Prog[t]) THEN Prog[t][pc[t][1]] ELSE [op |-> "end"]
At(t, step) == pc[t][2] = step /\ pc[t][1] <= Len(Prog[t])
Goto(t, step) == pc' = [pc EXCEPT ![t] = <<pc[t][1], step>>]
NextCall(t) == pc' = [pc EXCEPT ![t] = <<pc[t][1] + 1, "start">>]
Move(t) == sched' = Append(sched, t)

(* the sequential meaning of a writer call, applied to the ghost `serial`  *)
(* at the moment the call acquires the writer mutex                        *)
SerialApply(t, c) ==
  CASE c.op = "add" ->
         [serial EXCEPT !.wal = Append(@, AddOp(c.id, c.ver)), !.pend[t] = Append(@, AddOp(c.id, c.ver))]
    [] c.op = "delete" ->
         [serial EXCEPT !.wal = Append(@, DelOp(c.id)), !.pend[t] = Append(@, DelOp(c.id))]
    [] c.op = "commit" ->
         IF serial.pend[t] = <<>> THEN serial
         ELSE [serial EXCEPT !.contents = Fold(serial.pend[t], @), !.wal = <<>>, !.pend[t] = <<>>]
    [] c.op = "rollback" -> [serial EXCEPT !.wal = <<>>, !.pend[t] = <<>>]
    [] OTHER -> serial

-----------------------------------------------------------------------------
(* writer threads                                                          *)

Acquire(t) ==
  /\ t \in Writers \cup Compactors /\ At(t, "start")
  /\ Call(t).op \in {"add", "delete", "commit", "rollback", "compact"}
  /\ IF UseLock THEN wlock = "none" /\ wlock' = t ELSE UNCHANGED wlock
  /\ serial' = SerialApply(t, Call(t))
  /\ Goto(t, "body") /\ Move(t)
  /\ UNCHANGED <<mlock, mem, disk, files, wal, pend, loc, hist, nseg>>

Release(t) ==
  /\ At(t, "release")
  /\ IF UseLock THEN wlock' = "none" ELSE UNCHANGED wlock
  /\ NextCall(t) /\ Move(t)
  /\ UNCHANGED <<mlock, mem, disk, files, wal, pend, loc, hist, serial, nseg>>

AddStep(t) ==
  /\ At(t, "body") /\ Call(t).op \in {"add", "delete"}
  /\ LET o == IF Call(t).op = "add" THEN AddOp(Call(t).id, Call(t).ver) ELSE DelOp(Call(t).id) IN
     /\ wal' = Append(wal, o)
     /\ pend' = [pend EXCEPT ![t] = Append(@, o)]
  /\ Goto(t, "release") /\ Move(t)
  /\ UNCHANGED <<wlock, mlock, mem, disk, files, loc, hist, serial, nseg>>

RollbackStep(t) ==
  /\ At(t, "body") /\ Call(t).op = "rollback"
  /\ wal' = <<>> /\ pend' = [pend EXCEPT ![t] = <<>>]
  /\ Goto(t, "release") /\ Move(t)
  /\ UNCHANGED <<wlock, mlock, mem, disk, files, loc, hist, serial, nseg>>

(* commit: snapshot *)
CommitSnapshot(t) ==
  /\ At(t, "body") /\ Call(t).op = "commit"
  /\ IF pend[t] = <<>> THEN Goto(t, "release") /\ UNCHANGED <<loc, nseg>>
     ELSE /\ mlock.w = "none"                       \* manifest.read()
          /\ LET newc == Fold(pend[t], mem.contents) IN
             loc' = [loc EXCEPT ![t].snap = mem, ![t].new = Manifest(newc, mem.segs \cup {nseg})]
          /\ nseg' = nseg + 1
          /\ Goto(t, "c_segment")
  /\ Move(t)
  /\ UNCHANGED <<wlock, mlock, mem, disk, files, wal, pend, hist, serial>>

CommitSegment(t) ==
  /\ At(t, "c_segment")
  /\ files' = files \cup (loc[t].new.segs \ loc[t].snap.segs)
  /\ Goto(t, "c_store") /\ Move(t)
  /\ UNCHANGED <<wlock, mlock, mem, disk, wal, pend, loc, hist, serial, nseg>>

CommitStore(t) ==
  /\ At(t, "c_store")
  /\ disk' = loc[t].new
  /\ Goto(t, "c_publish") /\ Move(t)
  /\ UNCHANGED <<wlock, mlock, mem, files, wal, pend, loc, hist, serial, nseg>>

CommitPublish(t) ==
  /\ At(t, "c_publish")
  /\ mlock.w = "none" /\ mlock.r = {}              \* manifest.write()
  /\ mem' = loc[t].new
  /\ hist' = hist \cup {loc[t].new}
  /\ Goto(t, "c_truncate") /\ Move(t)
  /\ UNCHANGED <<wlock, mlock, disk, files, wal, pend, loc, serial, nseg>>

CommitTruncate(t) ==
  /\ At(t, "c_truncate")
  /\ wal' = <<>> /\ pend' = [pend EXCEPT ![t] = <<>>]
  /\ Goto(t, "release") /\ Move(t)
  /\ UNCHANGED <<wlock, mlock, mem, disk, files, loc, hist, serial, nseg>>

-----------------------------------------------------------------------------
(* compaction (holds the writer mutex): its own reader, then the manifest  *)
(* write lock around write-segment / publish / store, then cleanup          *)

CompactCopy(t) ==
  /\ At(t, "body") /\ Call(t).op = "compact"
  /\ mlock.w = "none"
  /\ IF Cardinality(mem.segs) <= 1 THEN Goto(t, "release") /\ UNCHANGED <<loc, nseg>>
     ELSE /\ loc' = [loc EXCEPT ![t].snap = mem, ![t].new = Manifest(mem.contents, {nseg})]
          /\ nseg' = nseg + 1
          /\ Goto(t, "k_lock")
  /\ Move(t)
  /\ UNCHANGED <<wlock, mlock, mem, disk, files, wal, pend, hist, serial>>

CompactLock(t) ==
  /\ At(t, "k_lock")
  /\ mlock.w = "none" /\ mlock.r = {}
  /\ mlock' = [mlock EXCEPT !.w = t]
  /\ Goto(t, IF CleanupFirst THEN "k_cleanup" ELSE "k_segment") /\ Move(t)
  /\ UNCHANGED <<wlock, mem, disk, files, wal, pend, loc, hist, serial, nseg>>

CompactSegment(t) ==
  /\ At(t, "k_segment")
  /\ files' = files \cup loc[t].new.segs
  /\ Goto(t, "k_publish") /\ Move(t)
  /\ UNCHANGED <<wlock, mlock, mem, disk, wal, pend, loc, hist, serial, nseg>>

CompactPublish(t) ==
  /\ At(t, "k_publish")
  /\ mem' = loc[t].new /\ disk' = loc[t].new
  /\ hist' = hist \cup {loc[t].new}
  /\ Goto(t, "k_unlock") /\ Move(t)
  /\ UNCHANGED <<wlock, mlock, files, wal, pend, loc, serial, nseg>>

CompactUnlock(t) ==
  /\ At(t, "k_unlock")
  /\ mlock' = [mlock EXCEPT !.w = "none"]
  /\ Goto(t, IF CleanupFirst THEN "release" ELSE "k_cleanup") /\ Move(t)
  /\ UNCHANGED <<wlock, mem, disk, files, wal, pend, loc, hist, serial, nseg>>

CompactCleanup(t) ==
  /\ At(t, "k_cleanup")
  /\ files' = files \ loc[t].snap.segs
  /\ Goto(t, IF CleanupFirst THEN "k_segment" ELSE "release") /\ Move(t)
  /\ UNCHANGED <<wlock, mlock, mem, disk, wal, pend, loc, hist, serial, nseg>>

-----------------------------------------------------------------------------
(* readers                                                                 *)

ReaderCopy(t) ==
  /\ t \in Readers /\ At(t, "start") /\ Call(t).op = "read"
  /\ mlock.w = "none"
  /\ loc' = [loc EXCEPT ![t].snap = mem, ![t].todo = mem.segs, ![t].failed = FALSE]
  /\ mlock' = IF HoldReadLock THEN [mlock EXCEPT !.r = @ \cup {t}] ELSE mlock
  /\ Goto(t, "r_open") /\ Move(t)
  /\ UNCHANGED <<wlock, mem, disk, files, wal, pend, hist, serial, nseg>>

ReaderOpen(t) ==
  /\ At(t, "r_open") /\ loc[t].todo # {} /\ ~loc[t].failed
  /\ \E s \in loc[t].todo :
       /\ \A s2 \in loc[t].todo : s <= s2
       /\ loc' = [loc EXCEPT ![t].todo = @ \ {s}, ![t].failed = s \notin files]
  /\ UNCHANGED pc /\ Move(t)
  /\ UNCHANGED <<wlock, mlock, mem, disk, files, wal, pend, hist, serial, nseg>>

ReaderDone(t) ==
  /\ At(t, "r_open") /\ (loc[t].todo = {} \/ loc[t].failed)
  /\ loc' = [loc EXCEPT ![t].result = loc[t].snap.contents]
  /\ mlock' = [mlock EXCEPT !.r = @ \ {t}]
  /\ NextCall(t) /\ Move(t)
  /\ UNCHANGED <<wlock, mem, disk, files, wal, pend, hist, serial, nseg>>

(* a kept reader: the reader built by the thread's last "read" call is used  *)
(* again later (stored-field fetch of a hit).  It serves its own snapshot;  *)
(* it can fail only if a file it needs was not opened at build time.        *)
ReaderFetch(t) ==
  /\ t \in Readers /\ At(t, "start") /\ Call(t).op = "fetch"
  /\ loc' = [loc EXCEPT ![t].failed = @ \/ (LazyFetch /\ ~(loc[t].snap.segs \subseteq files)),
                         ![t].result = loc[t].snap.contents]
  /\ NextCall(t) /\ Move(t)
  /\ UNCHANGED <<wlock, mlock, mem, disk, files, wal, pend, hist, serial, nseg>>

ThreadStep(t) ==
     \/ Acquire(t) \/ Release(t) \/ AddStep(t) \/ RollbackStep(t)
     \/ CommitSnapshot(t) \/ CommitSegment(t) \/ CommitStore(t) \/ CommitPublish(t) \/ CommitTruncate(t)
     \/ CompactCopy(t) \/ CompactLock(t) \/ CompactSegment(t) \/ CompactPublish(t) \/ CompactUnlock(t) \/ CompactCleanup(t)
     \/ ReaderCopy(t) \/ ReaderOpen(t) \/ ReaderDone(t) \/ ReaderFetch(t)

(* liveness: with every thread scheduled fairly, every program runs to     *)
(* completion - no call waits forever on the writer mutex or the RwLock    *)
FairSpec == Init /\ [][\E t \in Threads : ThreadStep(t)]_vars /\ \A t \in Threads : WF_vars(ThreadStep(t))
EventuallyFinished == <>(\A t \in Threads : pc[t][1] > Len(Prog[t]))

Next ==
  \E t \in Threads :
     \/ Acquire(t) \/ Release(t) \/ AddStep(t) \/ RollbackStep(t)
     \/ CommitSnapshot(t) \/ CommitSegment(t) \/ CommitStore(t) \/ CommitPublish(t) \/ CommitTruncate(t)
     \/ CompactCopy(t) \/ CompactLock(t) \/ CompactSegment(t) \/ CompactPublish(t) \/ CompactUnlock(t) \/ CompactCleanup(t)
     \/ ReaderCopy(t) \/ ReaderOpen(t) \/ ReaderDone(t) \/ ReaderFetch(t)

Spec == Init /\ [][Next]_vars

-----------------------------------------------------------------------------
Finished == \A t \in Threads : pc[t][1] > Len(Prog[t])
Quiescent == \A t \in Writers \cup Compactors : pc[t][2] = "start"

(* C05 *)
Serializable ==
  Quiescent => /\ mem.contents = serial.contents
               /\ pend = serial.pend
               /\ wal = serial.wal
MutualExclusion ==
  \A a, b \in Writers \cup Compactors : (a # b /\ pc[a][2] # "start" /\ pc[b][2] # "start") => FALSE
Openable == mem.segs \subseteq files \/ ~Quiescent
DiskOpenable == Quiescent => (disk.segs \subseteq files /\ disk = mem)

(* C06 *)
ReaderNeverFails == \A t \in Readers : ~loc[t].failed
SnapshotIsCommitted == \A t \in Readers : loc[t].snap \in hist
(* what a kept reader returns is the contents of the manifest it was built  *)
(* from, whatever was committed or compacted since                           *)
HeldReaderStable == \A t \in Readers : (~loc[t].failed /\ pc[t][1] > 1 /\ pc[t][2] = "start") => loc[t].result = loc[t].snap.contents
NoDeadlock == Finished \/ ENABLED Next

PrintSchedule == Finished => PrintT(<<"CASE", ToJson([sched |-> sched])>>)
=============================================================================
