------------------------------- MODULE FfiBuf -------------------------------
(***************************************************************************)
(* C26 - bounded copy of the JSON response into the caller's buffer as a   *)
(* byte-write loop.                                                        *)
(*                                                                         *)
(*   memory :   guard[Guard] | buffer[cap] | guard[Guard]                  *)
(*                                                                         *)
(* The call (searchlite-ffi/src/lib.rs, searchlite_search) is modelled     *)
(* from the point where the response text (fullLen non-zero bytes) exists: *)
(*   entry   null checks, cap = 0 check, n := CopyLen(fullLen, cap)        *)
(*   copy    n single-byte writes buf[i] := json[i]                        *)
(*   nul     buf[n] := 0                                                   *)
(*   done    return n                                                      *)
(* Every write is recorded in `written`, also those that would land        *)
(* outside the modelled memory.                                            *)
(*                                                                         *)
(* `Variant` selects the ideal routine or a deliberately broken one        *)
(* (non-vacuity: each mutant must be refuted by TLC).                      *)
(***************************************************************************)
EXTENDS FfiContract, Sequences, FiniteSets

CONSTANTS MaxCap, MaxLen, Guard, Variant

ASSUME Variant \in {"ideal", "copy_cap", "no_nul", "ret_counts_nul", "no_buf_null_check",
                    "no_handle_null_check", "nul_at_cap_minus_1"}
ASSUME Guard >= 2

VARIABLES cap, fullLen, hNull, qNull, bufNull,   \* the arguments
          mem, written, pc, i, n, ret

vars == <<cap, fullLen, hNull, qNull, bufNull, mem, written, pc, i, n, ret>>

Fill == 170      \* 0xAA: what the caller put into its buffer
Canary == 204    \* 0xCC: guard regions
Json(k) == k + 1 \* byte k of the response, never 0

Base == Guard                      \* address of buf[0]
BufAddrs == Base .. (Base + cap - 1)
MemAddrs == 0 .. (2 * Guard + cap - 1)
GuardAddrs == MemAddrs \ BufAddrs

Init ==
  /\ cap \in 0..MaxCap
  /\ fullLen \in 0..MaxLen
  /\ hNull \in BOOLEAN /\ qNull \in BOOLEAN /\ bufNull \in BOOLEAN
  /\ mem = [a \in MemAddrs |-> IF a \in BufAddrs THEN Fill ELSE Canary]
  /\ written = {}
  /\ pc = "entry" /\ i = 0 /\ n = 0 /\ ret = 0

(* The copy length each variant computes. *)
VCopyLen ==
  CASE Variant = "copy_cap" -> Min(fullLen, cap)
    [] OTHER -> CopyLen(fullLen, cap)

(* A store through the buffer pointer.  A null buffer pointer has no cell: *)
(* the store is still recorded (it would be a fault).                     *)
Store(off, v) ==
  LET a == Base + off IN
  /\ written' = written \cup {IF bufNull THEN -1 ELSE a}
  /\ mem' = IF ~bufNull /\ a \in MemAddrs THEN [mem EXCEPT ![a] = v] ELSE mem

Return(r) == pc' = "done" /\ ret' = r

Entry ==
  /\ pc = "entry"
  /\ IF (hNull /\ Variant # "no_handle_null_check") \/ qNull
       THEN Return(0) /\ UNCHANGED <<mem, written, i, n>>
     ELSE IF (bufNull /\ Variant # "no_buf_null_check") \/ cap = 0
       THEN Return(0) /\ UNCHANGED <<mem, written, i, n>>
     ELSE /\ n' = VCopyLen /\ i' = 0 /\ pc' = "copy"
          /\ UNCHANGED <<mem, written, ret>>
  /\ UNCHANGED <<cap, fullLen, hNull, qNull, bufNull>>

CopyByte ==
  /\ pc = "copy" /\ i < n
  /\ Store(i, Json(i))
  /\ i' = i + 1
  /\ UNCHANGED <<cap, fullLen, hNull, qNull, bufNull, pc, n, ret>>

CopyDone ==
  /\ pc = "copy" /\ i = n
  /\ pc' = "nul"
  /\ UNCHANGED <<cap, fullLen, hNull, qNull, bufNull, mem, written, i, n, ret>>

WriteNul ==
  /\ pc = "nul"
  /\ CASE Variant = "no_nul" -> UNCHANGED <<mem, written>>
       [] Variant = "nul_at_cap_minus_1" -> Store(cap - 1, 0)
       [] OTHER -> Store(n, 0)
  /\ Return(IF Variant = "ret_counts_nul" THEN n + 1 ELSE n)
  /\ UNCHANGED <<cap, fullLen, hNull, qNull, bufNull, i, n>>

Next == Entry \/ CopyByte \/ CopyDone \/ WriteNul

Spec == Init /\ [][Next]_vars

----------------------------------------------------------------------------
(* Invariants *)

TypeOK ==
  /\ pc \in {"entry", "copy", "nul", "done"}
  /\ i \in 0..(MaxLen + 1) /\ n \in 0..(MaxLen + 1)
  /\ DOMAIN mem = MemAddrs

(* In every state (not only at return): nothing but buffer cells written. *)
NoWriteOutside == written \subseteq (IF bufNull THEN {} ELSE BufAddrs)

GuardsIntact == \A a \in GuardAddrs : mem[a] = Canary

(* While copying, what is already in the buffer is a prefix of the text.  *)
CopyProgress ==
  (pc \in {"copy", "nul"} /\ Variant = "ideal") =>
      /\ n = CopyLen(fullLen, cap) /\ i <= n /\ n < cap
      /\ \A k \in 0..(i - 1) : mem[Base + k] = Json(k)

(* The observation a caller (the harness) derives from memory after the   *)
(* call returned - computed exactly like harness/src/ffi.rs computes it.  *)
ZeroOffs == {k \in 0..(cap - 1) : mem[Base + k] = 0}
SetMin(S) == CHOOSE x \in S : \A y \in S : x <= y
Observation ==
  [cap |-> cap, fullLen |-> fullLen, bufNull |-> bufNull,
   nullArg |-> hNull \/ qNull, mustFail |-> hNull \/ qNull, crashed |-> FALSE,
   ret |-> ret,
   nulAt |-> IF ZeroOffs = {} THEN -1 ELSE SetMin(ZeroOffs),
   wrote |-> written # {},
   canariesIntact |-> GuardsIntact /\ NoWriteOutside,
   prefixOk |-> \A k \in 0..(ret - 1) : k < cap /\ mem[Base + k] = Json(k)]

AtReturn == pc = "done" => PostOk(Observation)

(* The closed form stated by the property, spelled out once more.         *)
ReturnValue ==
  pc = "done" =>
    IF hNull \/ qNull \/ bufNull \/ cap = 0 THEN ret = 0 /\ written = {}
    ELSE /\ ret = Min(fullLen, Max(cap, 1) - 1)
         /\ mem[Base + ret] = 0
         /\ \A k \in 0..(ret - 1) : mem[Base + k] = Json(k)
         /\ Cardinality(written) <= cap

=============================================================================
