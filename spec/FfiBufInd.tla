----------------------------- MODULE FfiBufInd ------------------------------
(***************************************************************************)
(* C26, unbounded: the bounded-copy routine of searchlite_search over      *)
(* plain integers (no memory function), for Apalache.  FfiBuf.tla checks   *)
(* the same routine with explicit memory and guard regions for capacities  *)
(* up to MaxCap with TLC; here `cap` and `fullLen` are arbitrary naturals  *)
(* and the safety argument is an inductive invariant:                      *)
(*     Init => IndInv          IndInv /\ Next => IndInv'                   *)
(*     IndInv => Safe                                                      *)
(* hi = highest buffer offset written so far (-1 = none).                  *)
(***************************************************************************)
EXTENDS Integers

VARIABLES
  \* @type: Int;
  cap,
  \* @type: Int;
  fullLen,
  \* @type: Str;
  pc,
  \* @type: Int;
  i,
  \* @type: Int;
  n,
  \* @type: Int;
  hi,
  \* @type: Int;
  ret

Min(a, b) == IF a <= b THEN a ELSE b
CopyLen(len, c) == IF c = 0 THEN 0 ELSE Min(len, c - 1)

Init ==
  /\ cap \in Nat /\ fullLen \in Nat
  /\ pc = "entry" /\ i = 0 /\ n = 0 /\ hi = -1 /\ ret = 0

Entry ==
  /\ pc = "entry"
  /\ IF cap = 0
       THEN pc' = "done" /\ ret' = 0 /\ UNCHANGED <<i, n, hi>>
       ELSE n' = CopyLen(fullLen, cap) /\ i' = 0 /\ pc' = "copy" /\ UNCHANGED <<hi, ret>>
  /\ UNCHANGED <<cap, fullLen>>

CopyByte ==
  /\ pc = "copy" /\ i < n
  /\ hi' = IF i > hi THEN i ELSE hi
  /\ i' = i + 1
  /\ UNCHANGED <<cap, fullLen, pc, n, ret>>

CopyDone ==
  /\ pc = "copy" /\ i = n
  /\ pc' = "nul"
  /\ UNCHANGED <<cap, fullLen, i, n, hi, ret>>

WriteNul ==
  /\ pc = "nul"
  /\ hi' = IF n > hi THEN n ELSE hi
  /\ pc' = "done" /\ ret' = n
  /\ UNCHANGED <<cap, fullLen, i, n>>

Stutter == pc = "done" /\ UNCHANGED <<cap, fullLen, pc, i, n, hi, ret>>

Next == Entry \/ CopyByte \/ CopyDone \/ WriteNul \/ Stutter

(* the property: every written offset is inside the buffer; the return value is the number of *)
(* bytes before the NUL, never more than cap - 1 nor more than the response                    *)
Safe ==
  /\ hi < cap \/ (cap = 0 /\ hi = -1)
  /\ pc = "done" => (ret >= 0 /\ ret <= fullLen /\ (cap > 0 => ret < cap) /\ (cap = 0 => ret = 0))
  /\ (pc = "done" /\ cap > 0) => (hi = ret /\ (ret < fullLen => ret = cap - 1))

IndInv ==
  /\ cap >= 0 /\ fullLen >= 0
  /\ pc \in {"entry", "copy", "nul", "done"}
  /\ pc = "entry" => (i = 0 /\ n = 0 /\ hi = -1 /\ ret = 0)
  /\ pc \in {"copy", "nul"} =>
       /\ cap > 0 /\ n = CopyLen(fullLen, cap) /\ 0 <= i /\ i <= n /\ hi = i - 1 /\ ret = 0
  /\ pc = "nul" => i = n
  /\ pc = "done" =>
       \/ cap = 0 /\ hi = -1 /\ ret = 0
       \/ cap > 0 /\ n = CopyLen(fullLen, cap) /\ ret = n /\ hi = n

(* Apalache needs every variable assigned before it is constrained *)
IndInit ==
  /\ cap \in Nat /\ fullLen \in Nat
  /\ pc \in {"entry", "copy", "nul", "done"}
  /\ i \in Int /\ n \in Int /\ hi \in Int /\ ret \in Int
  /\ IndInv
=============================================================================
