---------------------------- MODULE FfiContract ----------------------------
(***************************************************************************)
(* C26 - the contract of the C search entry point                          *)
(*                                                                         *)
(*   size_t searchlite_search(handle, query, limit, cursor, aggs_json,     *)
(*                            aggs_len, out_json_buf, buf_cap)             *)
(*                                                                         *)
(* as a predicate over one *observation* of a call.  The same predicate    *)
(* judges the final states of the byte-write model (FfiBuf.tla, MC) and    *)
(* the records `svh ffi` logs from the real function (Trace_Ffi.tla).      *)
(*                                                                         *)
(* An observation is a record                                              *)
(*   cap            buf_cap passed to the call                             *)
(*   fullLen        length of the complete JSON response (bytes)           *)
(*   bufNull        out_json_buf = NULL                                    *)
(*   mustFail       handle = NULL, query = NULL, or an argument the Rust   *)
(*                  API rejects for the request the arguments denote       *)
(*   nullArg        handle = NULL or query = NULL                          *)
(*   crashed        the callee did not return (signal / abort)             *)
(*   ret            return value                                           *)
(*   nulAt          index of the first 0 byte inside the buffer, -1 if none*)
(*                  (the buffer is pre-filled with a non-zero byte and the *)
(*                  JSON text never contains a 0 byte)                     *)
(*   wrote          some byte inside the buffer changed                    *)
(*   canariesIntact every byte of the regions around the buffer unchanged  *)
(*   prefixOk       buf[0..ret) = full[0..ret)                             *)
(***************************************************************************)
EXTENDS Integers

Min(a, b) == IF a <= b THEN a ELSE b
Max(a, b) == IF a >= b THEN a ELSE b

(* Bytes of JSON text copied in front of the terminating NUL. *)
CopyLen(fullLen, cap) == Min(fullLen, Max(cap, 1) - 1)

(* First conjunct that does not hold ("" = contract met). Ordered so that *)
(* the most severe disagreement is named.                                 *)
PostWhy(o) ==
  IF o.crashed THEN "callee crashed instead of returning a status"
  ELSE IF ~o.canariesIntact THEN "wrote outside the caller's buffer"
  ELSE IF o.nullArg THEN
         (IF o.ret # 0 THEN "null handle/query must return 0"
          ELSE IF o.wrote THEN "null handle/query must not write"
          ELSE "")
  ELSE IF o.mustFail THEN
         (IF o.ret # 0 THEN "invalid argument must return 0"
          ELSE IF o.wrote /\ o.nulAt # 0 THEN "invalid argument left a non-empty string in the buffer"
          ELSE "")
  ELSE IF o.bufNull \/ o.cap = 0 THEN
         (IF o.ret # 0 THEN "no room for a NUL: must return 0"
          ELSE IF o.wrote THEN "cap = 0 or null buffer: must not write"
          ELSE "")
  ELSE IF o.ret # CopyLen(o.fullLen, o.cap) THEN "return value is not Min(fullLen, cap-1)"
  ELSE IF o.nulAt # o.ret THEN "no NUL at buf[ret]"
  ELSE IF ~o.prefixOk THEN "text before the NUL is not a prefix of the full response"
  ELSE ""

PostOk(o) == PostWhy(o) = ""

=============================================================================
