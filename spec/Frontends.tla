----------------------------- MODULE Frontends -----------------------------
(***************************************************************************)
(* C25 - what each front end's invocation *denotes* in terms of the Rust   *)
(* API, and what "agrees with the Rust API" means.                         *)
(*                                                                         *)
(* A history is a sequence of front-end independent operations             *)
(*   init | add(docs) | update(docs) | delete(ids) | commit | compact |    *)
(*   search(request)                                                       *)
(* Every front end transports an operation in its own way (table          *)
(* Transport), which denotes a sequence of Rust API calls (Denotes) whose  *)
(* meaning on the index is given by IndexOps.Fold, and - for searches - a  *)
(* SearchRequest (CliRequest, FfiRequest, HttpRequest).                    *)
(*                                                                         *)
(* Executions                                                              *)
(*   lib     Rust API: Index/IndexWriter/IndexReader, a fresh writer per   *)
(*           operation, with the index options every front end fixes       *)
(*   libffi  Rust API performing exactly the call sequence the C API       *)
(*           denotes (every added document is committed on its own)        *)
(*   cli     searchlite-cli binary, one process per command                *)
(*   http    searchlite-http service, one request per operation            *)
(*   ffi     searchlite-ffi extern "C" functions                           *)
(* `lib` is the reference of cli and http, `libffi` the reference of ffi:  *)
(* BM25 statistics are per segment, so scores legitimately depend on how   *)
(* the same documents were batched into commits; "the equivalent Rust API  *)
(* calls" of searchlite_add_json are add_document + commit.                *)
(***************************************************************************)
EXTENDS IndexOps, Integers, TLC

FrontEnds == <<"lib", "libffi", "cli", "http", "ffi">>
FeSet == {"lib", "libffi", "cli", "http", "ffi"}

Ref(fe) == IF fe \in {"ffi", "libffi"} THEN "libffi" ELSE "lib"

(* Index options fixed by the front ends (searchlite-cli options(),        *)
(* searchlite-http index_options(), searchlite_index_open): the library    *)
(* executions use the same.  (x100)                                        *)
FeOptions == [bm25_k1_e2 |-> 90, bm25_b_e2 |-> 40, enable_positions |-> TRUE,
              storage |-> "filesystem"]

(***************************************************************************)
(* Transport: how each front end carries an operation.  "library" = the    *)
(* front end has no such entry point; the step is performed through the    *)
(* Rust API on the same directory (the C handle is closed before and       *)
(* reopened after).                                                        *)
(***************************************************************************)
Transport ==
  [cli  |-> [init    |-> "searchlite init <index> <schema.json>",
             add     |-> "searchlite add <index> <docs.jsonl>",
             update  |-> "searchlite update <index> <docs.jsonl>",
             delete  |-> "searchlite delete <index> <ids.txt>",
             commit  |-> "searchlite commit <index>",
             compact |-> "searchlite compact <index>",
             search  |-> "searchlite search <index> (-q .. --limit .. --execution .. --sort .. --cursor .. --aggs .. --return-stored | --request <file>)"],
   http |-> [init    |-> "POST /init (schema JSON)",
             add     |-> "POST /add (NDJSON)",
             update  |-> "POST /bulk ({docs:[..]})",
             delete  |-> "POST /delete ({ids:[..]})",
             commit  |-> "POST /commit",
             compact |-> "POST /compact",
             search  |-> "POST /search (SearchRequest JSON)"],
   ffi  |-> [init    |-> "library",
             add     |-> "searchlite_add_json per document",
             update  |-> "searchlite_add_json per document",
             delete  |-> "library",
             commit  |-> "searchlite_commit",
             compact |-> "library",
             search  |-> "searchlite_search(handle, query, limit, cursor, aggs_json, aggs_len, buf, cap)"]]

(***************************************************************************)
(* Index state of one execution and the effect an operation denotes.       *)
(*   committed : id -> version (what a reader sees)                        *)
(*   wal       : queued operation records (survive across processes)       *)
(***************************************************************************)
InitState == [committed |-> EmptyContents, wal |-> <<>>]

RECURSIVE AddOps(_)
AddOps(docs) ==
  IF docs = <<>> THEN <<>>
  ELSE <<AddOp(Head(docs).id, Head(docs).ver)>> \o AddOps(Tail(docs))

AllValid(docs) == \A i \in DOMAIN docs : docs[i].valid

CommitState(st) == [committed |-> Fold(st.wal, st.committed), wal |-> <<>>]

(* add/update through writer.add_document: a rejected document queues      *)
(* nothing (histories put a rejected document in a batch of its own).      *)
QueueAdds(st, docs) ==
  IF AllValid(docs) THEN [st EXCEPT !.wal = @ \o AddOps(docs)] ELSE st

(* searchlite_add_json: writer(); add_document; commit - per document; the *)
(* writer starts from whatever the log holds.  A rejected document returns *)
(* before the commit.                                                      *)
RECURSIVE AddAndCommitEach(_, _)
AddAndCommitEach(st, docs) ==
  IF docs = <<>> THEN st
  ELSE IF ~Head(docs).valid THEN st
  ELSE AddAndCommitEach(CommitState([st EXCEPT !.wal = @ \o <<AddOp(Head(docs).id, Head(docs).ver)>>]),
                        Tail(docs))

PerDocCommit(fe) == fe \in {"ffi", "libffi"}

(* delete(ids): each entry is [id, trimmed, padded] - the id as given, the  *)
(* id without surrounding white space, and whether the two differ (TLC has *)
(* no string operators; the driver logs all three).  The Rust API deletes  *)
(* exactly the id it is given, and so must every front end.                *)
IdsOf(op) == [i \in DOMAIN op.ids |-> op.ids[i].id]
TrimmedIdsOf(op) == [i \in DOMAIN op.ids |-> op.ids[i].trimmed]
AnyPadded(op) == \E i \in DOMAIN op.ids : op.ids[i].padded

Effect(fe, op, st) ==
  CASE op.kind = "init" -> InitState
    [] op.kind \in {"add", "update"} ->
         IF PerDocCommit(fe) THEN AddAndCommitEach(st, op.docs) ELSE QueueAdds(st, op.docs)
    [] op.kind = "delete" -> [st EXCEPT !.wal = @ \o DelOps(IdsOf(op))]
    [] op.kind = "commit" -> CommitState(st)
    [] op.kind \in {"compact", "search", "restart"} -> st   \* restart: the process goes away, the directory stays

(* Whether the call must report success. *)
ExpectedOk(fe, op, refOk) ==
  CASE op.kind \in {"add", "update"} -> AllValid(op.docs)
    [] op.kind = "search" ->
         \* the CLI and the HTTP service refuse limit = 0 before the request reaches the library
         IF fe \in {"cli", "http"} /\ op.req.limit = 0 THEN FALSE ELSE refOk
    [] OTHER -> TRUE

(***************************************************************************)
(* SearchRequest summaries.  A summary is the record                       *)
(*   [qkind, qtext, limit, execution, sort, has_cursor, return_stored,     *)
(*    filter, aggs]                                                        *)
(* with qkind "string" (query-string syntax) or "node" (QueryNode JSON),   *)
(* sort a sequence of [field, order] with order in {"asc","desc","none"},  *)
(* filter/aggs canonical JSON text ("" = absent).  All other request       *)
(* members have the defaults of SearchRequest's serde form (return_hits    *)
(* true, no highlight/collapse/suggest/rescore, explain/profile false).    *)
(***************************************************************************)

(* --execution: bm25 | bmw | anything else means wand (parse_execution).   *)
ParseExecution(s) == IF s \in {"bm25", "bmw"} THEN s ELSE "wand"

(* --sort "f:desc,g": clauses split at ',', field and order at ':'; a      *)
(* clause without order leaves the order to the library (ascending,        *)
(* descending for _score).  The driver logs the clauses it joined.         *)
ParseSortClause(c) == [field |-> c.field, order |-> IF c.order = "" THEN "none" ELSE c.order]

CliRequest(flags) ==
  [qkind |-> "string", qtext |-> flags.q, limit |-> flags.limit,
   execution |-> ParseExecution(flags.execution),
   sort |-> [i \in DOMAIN flags.sort |-> ParseSortClause(flags.sort[i])],
   has_cursor |-> flags.has_cursor, return_stored |-> flags.return_stored,
   filter |-> "", aggs |-> flags.aggs]

(* searchlite_search: the query text is a QueryNode when it parses as one, *)
(* else query-string syntax; execution wand; stored fields on; no filter,  *)
(* no sort; aggregations only when aggs_json # NULL and aggs_len > 0.      *)
FfiRequest(args) ==
  [qkind |-> IF args.query_is_node THEN "node" ELSE "string", qtext |-> args.query,
   limit |-> args.limit, execution |-> "wand", sort |-> <<>>,
   has_cursor |-> args.has_cursor, return_stored |-> TRUE, filter |-> "",
   aggs |-> IF args.aggs_len > 0 THEN args.aggs ELSE ""]

(* What the C entry point can express at all. *)
FfiExpressible(req) ==
  /\ req.execution = "wand" /\ req.sort = <<>> /\ req.return_stored /\ req.filter = ""

(* What the CLI flags can express (anything else goes through --request).  *)
CliFlagExpressible(req) == req.qkind = "string" /\ req.filter = "" /\ req.limit > 0

(***************************************************************************)
(* Result projections: [ok, ids, scores, sortvals, has_cursor, total, aggs]*)
(* (paths, timings and the cursor text are projected away by the driver).  *)
(***************************************************************************)
FirstDiff(a, b) ==
  IF a.ok # b.ok THEN "ok"
  ELSE IF ~a.ok THEN ""
  ELSE IF a.ids # b.ids THEN "ids"
  ELSE IF a.scores # b.scores THEN "scores"
  ELSE IF a.sortvals # b.sortvals THEN "sortvals"
  ELSE IF a.has_cursor # b.has_cursor THEN "next_cursor"
  ELSE IF a.total # b.total THEN "total_hits_estimate"
  ELSE IF a.aggs # b.aggs THEN "aggregations"
  ELSE ""

(* Observed contents (sequence of [id, ver]) as a contents function. *)
ObsContents(seq) ==
  [id \in {seq[i].id : i \in DOMAIN seq} |->
     seq[CHOOSE i \in DOMAIN seq : seq[i].id = id].ver]

OneCopyPerId(seq) == \A i, j \in DOMAIN seq : seq[i].id = seq[j].id => i = j

=============================================================================
