SPECIFICATION GSpec
CONSTANTS
  Deviations = {}
INVARIANT Total
INVARIANT PrintCells
CHECK_DEADLOCK FALSE
