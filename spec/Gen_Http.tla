------------------------------ MODULE Gen_Http ------------------------------
(***************************************************************************)
(* S->I generator for C24: enumerates the cells of Http.tla's status      *)
(* table (endpoint x method x request class x content type x framing) and *)
(* prints each as a CELL line together with the allowed status tokens in  *)
(* both server states.  `svh http --grid` materialises every cell against *)
(* a live server; Trace_Http.tla judges the answers against the same      *)
(* table.  Also checks that the table is total: no cell has an empty      *)
(* allowed set.                                                            *)
(***************************************************************************)
EXTENDS Http, Json

Endpoints == {"healthz", "init", "add", "bulk", "delete", "commit", "refresh", "compact",
              "search", "inspect", "stats"}
Ctypes == {"json", "ndjson", "text", "none", "form", "weird"}
BodyClasses == {"valid", "semantic", "shape", "syntax", "empty", "binary", "nested",
                "oversized", "mutated"}

Cell(ep, m, c, t, f) == [ep |-> ep, method_ok |-> m, cls |-> c, ctype |-> t, framing |-> f]

Cells ==
  \* body endpoints, documented method: every class, content type and framing
  {Cell(ep, TRUE, c, t, f) : ep \in BodyEndpoints, c \in BodyClasses, t \in Ctypes, f \in {"cl", "chunked"}}
  \cup {Cell("search", TRUE, "corefail", "json", f) : f \in {"cl", "chunked"}}
  \* endpoints that read no body: nothing, an unexpected body, an oversized one
  \cup {Cell(ep, TRUE, "valid", t, "cl") : ep \in Endpoints \ BodyEndpoints, t \in {"none", "json"}}
  \cup {Cell(ep, TRUE, "oversized", "none", f) : ep \in Endpoints \ BodyEndpoints, f \in {"cl", "chunked"}}
  \* another method, another path, not HTTP at all
  \cup {Cell(ep, FALSE, "valid", "none", "none") : ep \in Endpoints}
  \cup {Cell("unknown", TRUE, "valid", "none", "none")}
  \cup {Cell("unknown", TRUE, "framing", "none", "raw")}

Toks(e, pres) == {a.tok : a \in Allowed(e, pres, FALSE, TRUE)}

(* One state: the invariants below are evaluated (and the cells printed) there. *)
GInit == HttpInit
GNext == UNCHANGED httpVars
GSpec == GInit /\ [][GNext]_httpVars

Total == \A c \in Cells : c.cls = "framing" \/ (Toks(c, FALSE) # {} /\ Toks(c, TRUE) # {})

PrintCells ==
  \A c \in Cells :
    PrintT(<<"CELL", ToJson([ep |-> c.ep, method_ok |-> c.method_ok, cls |-> c.cls, ctype |-> c.ctype,
                             framing |-> c.framing, absent |-> Toks(c, FALSE), present |-> Toks(c, TRUE)])>>)

=============================================================================
