SPECIFICATION Spec
CONSTANTS
  Fill = {"default"}
INVARIANT TypeOK
INVARIANT PrintCase
CHECK_DEADLOCK FALSE
