---------------------------- MODULE Gen_Requests ----------------------------
(***************************************************************************)
(* S->I generator for C16: a pairwise-covering set of class vectors.        *)
(* For every pair of dimensions and every pair of their classes one case    *)
(* with all other dimensions at their default ("default" fill) and one      *)
(* with the other dimensions filled, deterministically, from their          *)
(* documented ("ok") classes ("mixed" fill: samples of higher-order         *)
(* combinations).  Every case is printed with Outcome(vec) as a CASE line;  *)
(* `svh robust --cases` instantiates and executes it.                       *)
(***************************************************************************)
EXTENDS Requests, TLC, Json

CONSTANT Fill          \* subset of {"default", "mixed"}

VARIABLE case

N(d) == Len(Classes[d])
Idx(d) == CHOOSE i \in DOMAIN Dims : Dims[i] = d
OkClasses(d) == SelectSeq(Classes[d], LAMBDA x : x.tag = "ok")

DefaultVec == [d \in DimSet |-> DefaultOf(d)]

PairVec(fill, i, a, j, b) ==
  [d \in DimSet |->
     IF d = Dims[i] THEN Classes[d][a].c
     ELSE IF d = Dims[j] THEN Classes[d][b].c
     ELSE IF fill = "default" THEN DefaultOf(d)
     ELSE LET oks == OkClasses(d) IN oks[((a * 7 + b * 13 + Idx(d) * 5 + i + 3 * j) % Len(oks)) + 1].c]

DimPairs == {p \in (DOMAIN Dims) \X (DOMAIN Dims) : p[1] < p[2]}

(* One root state per pair of dimensions (TLC's workers expand the roots in  *)
(* parallel); the leaves are the cases.                                      *)
Init == \E p \in DimPairs : case = [root |-> TRUE, i |-> p[1], j |-> p[2], vec |-> DefaultVec]
Next ==
  /\ case.root
  /\ \E f \in Fill, a \in 1..N(Dims[case.i]), b \in 1..N(Dims[case.j]) :
        case' = [root |-> FALSE, i |-> case.i, j |-> case.j, vec |-> PairVec(f, case.i, a, case.j, b)]
Spec == Init /\ [][Next]_case

TypeOK == WellFormed(case.vec) /\ Outcome(case.vec) \subseteq {"Ok", "Err"} /\ Outcome(case.vec) # {}

(* The same vector is reached from several roots; the driver de-duplicates. *)
PrintCase ==
  (~case.root \/ (case.i = 1 /\ case.j = 2)) =>
     PrintT(<<"CASE", ToJson([cls |-> case.vec, allowed |-> Outcome(case.vec)])>>)
=============================================================================
