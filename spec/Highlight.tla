------------------------------ MODULE Highlight ------------------------------
(***************************************************************************)
(* C21: highlight fragments and snippets (README "Highlighting").          *)
(*                                                                         *)
(* A text is a sequence of code points; Width(c) is the length of c in     *)
(* UTF-8.  A fragment is logged as a sequence of code points in which the  *)
(* request's pre/post tags are replaced by the marker code points PRE and  *)
(* POST (private-use characters that never occur in a text).               *)
(* A match is a record [s, e]: it covers the characters s+1 .. e of the    *)
(* text (s, e = number of characters before its start / end).              *)
(*                                                                         *)
(* Required of every fragment F returned for a stored text t when          *)
(* fragment_size >= 2 * bytes(matched text):                               *)
(*   NonEmpty, WellTagged (>= 1 tagged match, tags alternate, no empty     *)
(*   pair), IsInfix(Untag(F), t), BytesOf(Untag(F)) <= fragment_size;      *)
(* and always: at most number_of_fragments fragments.                      *)
(***************************************************************************)
EXTENDS Integers, Sequences, FiniteSets, TLC

PRE == 57344       \* U+E000
POST == 57345      \* U+E001
IsMark(c) == c = PRE \/ c = POST

HMin(a, b) == IF a <= b THEN a ELSE b
HMax(a, b) == IF a >= b THEN a ELSE b

Width(c) == IF c < 128 THEN 1 ELSE IF c < 2048 THEN 2 ELSE IF c < 65536 THEN 3 ELSE 4

(* byte offset of the boundary after the first i characters *)
RECURSIVE Off(_, _)
Off(t, i) == IF i = 0 THEN 0 ELSE Width(t[i]) + Off(t, i - 1)

BytesOf(s) == Off(s, Len(s))
Boundaries(t) == {Off(t, i) : i \in 0..Len(t)}
CharsBefore(t, b) == CHOOSE i \in 0..Len(t) : Off(t, i) = b        \* b a boundary

Untag(F) == SelectSeq(F, LAMBDA c : ~IsMark(c))
Marks(F) == SelectSeq(F, IsMark)

NonEmpty(F) == Untag(F) # <<>>

WellTagged(F) ==
  LET m == Marks(F) IN
  /\ Len(m) >= 2 /\ Len(m) % 2 = 0
  /\ \A i \in DOMAIN m : m[i] = (IF i % 2 = 1 THEN PRE ELSE POST)
  /\ \A i \in 1..(Len(F) - 1) : ~(F[i] = PRE /\ F[i + 1] = POST)

IsInfix(u, t) == \E i \in 0..(Len(t) - Len(u)) : SubSeq(t, i + 1, i + Len(u)) = u

FragmentOk(F, t, size) ==
  /\ NonEmpty(F)
  /\ WellTagged(F)
  /\ IsInfix(Untag(F), t)
  /\ BytesOf(Untag(F)) <= size

FragmentWhy(F, t, size) ==
  IF ~NonEmpty(F) THEN "a fragment is empty"
  ELSE IF ~WellTagged(F) THEN "a fragment contains no (well-formed) tagged match"
  ELSE IF ~IsInfix(Untag(F), t) THEN "a fragment without its tags is not a substring of the stored text"
  ELSE IF BytesOf(Untag(F)) > size THEN "a fragment is longer than fragment_size"
  ELSE ""

(* the tagged spans of a fragment, as matches relative to its untagged text *)
RECURSIVE SpansFrom(_, _, _, _)
SpansFrom(F, i, cnt, start) ==
  IF i > Len(F) THEN <<>>
  ELSE IF F[i] = PRE THEN SpansFrom(F, i + 1, cnt, cnt)
  ELSE IF F[i] = POST THEN <<[s |-> start, e |-> cnt]>> \o SpansFrom(F, i + 1, cnt, cnt)
  ELSE SpansFrom(F, i + 1, cnt + 1, start)
Spans(F) == SpansFrom(F, 1, 0, 0)

MatchBytes(t, m) == Off(t, m.e) - Off(t, m.s)

-----------------------------------------------------------------------------
(* Windows.  Both start size/2 bytes before the match and span             *)
(* fragment_size bytes.                                                    *)

Tagged(t, lo, hi, m) ==          \* characters lo+1..hi of t with m tagged when it lies inside
  IF lo <= m.s /\ m.e <= hi /\ m.s < m.e
    THEN SubSeq(t, lo + 1, m.s) \o <<PRE>> \o SubSeq(t, m.s + 1, m.e) \o <<POST>> \o SubSeq(t, m.e + 1, hi)
    ELSE SubSeq(t, lo + 1, hi)

(* ideal: the byte window is narrowed to character boundaries *)
IdealBounds(t, m, size) ==
  LET B == Boundaries(t)
      sb0 == HMax(0, Off(t, m.s) - size \div 2)
      sb == CHOOSE b \in B : b >= sb0 /\ \A c \in B : c >= sb0 => b <= c
      eb0 == HMin(BytesOf(t), sb + size)
      eb == CHOOSE b \in B : b <= eb0 /\ \A c \in B : c <= eb0 => c <= b
  IN [lo |-> CharsBefore(t, sb), hi |-> HMax(CharsBefore(t, sb), CharsBefore(t, eb))]

IdealFragment(t, m, size) ==
  LET w == IdealBounds(t, m, size) IN Tagged(t, w.lo, w.hi, m)

(* Deviation S21a (known finding): the window is cut at byte offsets; when *)
(* an end of it is not a character boundary the fragment is "".            *)
AsBuiltOffBoundary(t, m, size) ==
  LET sb == HMax(0, Off(t, m.s) - size \div 2)
      eb == HMin(BytesOf(t), sb + size)
  IN ~(sb \in Boundaries(t) /\ eb \in Boundaries(t))

AsBuiltBounds(t, m, size) ==
  LET sb == HMax(0, Off(t, m.s) - size \div 2)
      eb == HMin(BytesOf(t), sb + size)
  IN IF AsBuiltOffBoundary(t, m, size) THEN [lo |-> 0, hi |-> 0]
     ELSE [lo |-> CharsBefore(t, sb), hi |-> CharsBefore(t, eb)]

AsBuiltFragment(t, m, size) ==
  LET w == AsBuiltBounds(t, m, size) IN Tagged(t, w.lo, w.hi, m)

-----------------------------------------------------------------------------
(* Trace check of one event: hits[i] = [id, text, hasfull, full, frags].   *)
(* `full` is the engine's own fragment for the same query under a          *)
(* fragment_size larger than the text: the whole text with every match     *)
(* tagged; the matches (hence "the matched text" of the precondition) are  *)
(* read from it.  The k-th fragment is built around the k-th match.        *)

MaxOver(Sx) == IF Sx = {} THEN 0 ELSE CHOOSE x \in Sx : \A y \in Sx : y <= x

HitVerdict(h, size, nfrag) ==
  LET t == h.text
      ms == IF h.hasfull THEN Spans(h.full) ELSE <<>>
      refOk == ~h.hasfull \/ (FragmentOk(h.full, t, BytesOf(t)) /\ Untag(h.full) = t)
      maxb == MaxOver({MatchBytes(t, ms[i]) : i \in DOMAIN ms})
      pre == size >= 2 * maxb
      bad == {k \in DOMAIN h.frags : ~FragmentOk(h.frags[k], t, size)}
      explained == {k \in bad : /\ k <= Len(ms)
                               /\ h.frags[k] = <<>>
                               /\ AsBuiltOffBoundary(t, ms[k], size)}
  IN IF ~refOk THEN [v |-> "FAIL", why |-> "the fragment of the whole text is not the stored text with tagged matches"]
     ELSE IF Len(h.frags) > nfrag THEN [v |-> "FAIL", why |-> "more fragments than number_of_fragments"]
     ELSE IF h.frags # <<>> /\ ms = <<>> THEN [v |-> "FAIL", why |-> "fragments for a text without a match"]
     ELSE IF ~pre \/ bad = {} THEN [v |-> "OK", why |-> ""]
     ELSE IF bad = explained THEN [v |-> "DEV", why |-> "a fragment window ends off a character boundary and the fragment is empty"]
     ELSE [v |-> "FAIL", why |-> FragmentWhy(h.frags[CHOOSE k \in bad \ explained : TRUE], t, size)]

=============================================================================
