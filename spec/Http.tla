-------------------------------- MODULE Http --------------------------------
(***************************************************************************)
(* The searchlite HTTP service (searchlite-http/src/lib.rs) as a state    *)
(* machine over IndexOps, for C23 and C24.                                 *)
(*                                                                         *)
(* Part 1 (C23).  Server state = (index present?, queue of acknowledged   *)
(* operations, committed contents).  Every write request opens a fresh    *)
(* writer whose pending list is the log, so at this level the queue *is*  *)
(* the write-ahead log.  Requests are records                              *)
(*    [ep |-> "init", valid]        [ep |-> "add"|"bulk", docs]            *)
(*    [ep |-> "delete", ids]        [ep |-> "commit"|"refresh"|...]        *)
(* a document is [id, ver, k] with kind k:                                 *)
(*    "valid"   accepted by the index schema,                              *)
(*    "schema"  a JSON object the schema rejects (it reaches the writer), *)
(*    "syntax"  not a JSON object (rejected while the request is parsed). *)
(*                                                                         *)
(* The effect of a write request on the queue is given by pure operators  *)
(* (AckEffect, NackEffects) so that the bounded model (MC_Http) and the   *)
(* trace specification (Trace_Http, which has to carry a *set* of         *)
(* candidate queues because the queue is not observable over HTTP) use    *)
(* the same definitions.                                                   *)
(*                                                                         *)
(* Ideal: a rejected request leaves the queue as it was.                   *)
(* Deviation S23a (what add_ndjson / bulk_ingest do today): when           *)
(* `writer.add_document` rejects a document the handler calls              *)
(* `writer.rollback()`, which clears the handle's pending list - that is  *)
(* every operation in the log, including those acknowledged by earlier    *)
(* requests - and truncates the log.  It happens only when all documents  *)
(* of the request parsed as JSON objects (otherwise the handler returns   *)
(* before it opens a writer) and the index exists.                         *)
(*                                                                         *)
(* Part 2 (C24).  The status table: endpoint x method x request class x   *)
(* content type x framing x server state -> allowed (status token, set of *)
(* error types).  Where README.md / openapi.yaml are silent the set is    *)
(* wide.                                                                   *)
(***************************************************************************)
EXTENDS IndexOps, Integers, TLC

CONSTANT Deviations      \* subset of {"S23a", "S24a", "S24b"}

VARIABLES present,    \* an /init succeeded
          queue,      \* operations in the log (acknowledged, not yet committed)
          contents,   \* committed contents  id -> version
          visible,    \* contents a /search may show (stale until /refresh)
          acked,      \* ghost: operations of all 2xx write requests since the last commit
          expected    \* ghost: contents if every acknowledged operation had been applied

httpVars == <<present, queue, contents, visible, acked, expected>>

-----------------------------------------------------------------------------
(* Requests                                                                *)

Kinds(docs) == {docs[i].k : i \in DOMAIN docs}
AddOps(docs) == [i \in DOMAIN docs |-> AddOp(docs[i].id, docs[i].ver)]

IsWrite(req) == req.ep \in {"add", "bulk", "delete"}

WriteOps(req) ==
  IF req.ep \in {"add", "bulk"} THEN AddOps(req.docs) ELSE DelOps(req.ids)

(* The request must be acknowledged (2xx).  /add with no documents is     *)
(* acknowledged with queued = 0; /bulk and /delete demand one element.    *)
Acceptable(req, pres) ==
  /\ pres
  /\ CASE req.ep = "add"    -> Kinds(req.docs) \subseteq {"valid"}
       [] req.ep = "bulk"   -> req.docs # <<>> /\ Kinds(req.docs) \subseteq {"valid"}
       [] req.ep = "delete" -> req.ids # <<>>
       [] OTHER -> TRUE

(* The handler got as far as `writer.add_document` and that call failed.  *)
WriterRejects(req, pres) ==
  /\ pres
  /\ req.ep \in {"add", "bulk"}
  /\ req.docs # <<>>
  /\ "syntax" \notin Kinds(req.docs)
  /\ "schema" \in Kinds(req.docs)

(* Queue after an acknowledged write request. *)
AckEffect(q, req) == q \o WriteOps(req)

(* Queues a *rejected* write request may leave behind, each tagged with   *)
(* the deviation that produces it ("none" = the behaviour C23 demands).   *)
NackEffects(q, req, pres) ==
  {[q |-> q, dev |-> "none"]}
  \cup (IF "S23a" \in Deviations /\ WriterRejects(req, pres)
          THEN {[q |-> <<>>, dev |-> "S23a"]} ELSE {})

-----------------------------------------------------------------------------
(* The state machine                                                       *)

HttpInit ==
  /\ present = FALSE
  /\ queue = <<>>
  /\ contents = EmptyContents
  /\ visible = {EmptyContents}
  /\ acked = <<>>
  /\ expected = EmptyContents

(* POST /init: creates the index once; 409 afterwards; 400 for a schema   *)
(* that does not validate.  Never touches an existing index.              *)
Init(req) ==
  /\ req.ep = "init"
  /\ present' = (present \/ req.valid)
  /\ UNCHANGED <<queue, contents, visible, acked, expected>>

(* POST /add, /bulk, /delete *)
WriteAck(req) ==
  /\ IsWrite(req) /\ Acceptable(req, present)
  /\ queue' = AckEffect(queue, req)
  /\ acked' = acked \o WriteOps(req)
  /\ UNCHANGED <<present, contents, visible, expected>>

WriteNack(req) ==
  /\ IsWrite(req) /\ ~Acceptable(req, present)
  /\ \E e \in NackEffects(queue, req, present) : queue' = e.q
  /\ UNCHANGED <<present, contents, visible, acked, expected>>

Add(req)    == req.ep = "add"    /\ (WriteAck(req) \/ WriteNack(req))
Bulk(req)   == req.ep = "bulk"   /\ (WriteAck(req) \/ WriteNack(req))
Delete(req) == req.ep = "delete" /\ (WriteAck(req) \/ WriteNack(req))

(* POST /commit: applies the queue in order. *)
Commit ==
  IF present
    THEN /\ contents' = Fold(queue, contents)
         /\ expected' = Fold(acked, expected)
         /\ visible' = visible \cup {Fold(queue, contents)}
         /\ queue' = <<>>
         /\ acked' = <<>>
         /\ UNCHANGED present
    ELSE UNCHANGED httpVars

(* POST /refresh: readers reload; nothing else changes. *)
Refresh ==
  /\ visible' = IF present THEN {contents} ELSE visible
  /\ UNCHANGED <<present, queue, contents, acked, expected>>

Compact == UNCHANGED httpVars

(* POST /search observes one of the visible contents. *)
Search(obs) ==
  /\ present => obs \in visible
  /\ UNCHANGED httpVars

-----------------------------------------------------------------------------
(* C23 invariants                                                          *)

(* The queue is exactly the acknowledged operations since the last commit. *)
AckedStayQueued == queue = acked

(* What is committed is what was acknowledged: after every commit the     *)
(* contents are Fold(acknowledged operations, previous contents).         *)
AckedAreApplied == contents = expected

(* Queued operations are invisible until a commit. *)
VisibleAreCommitted == contents \in visible

-----------------------------------------------------------------------------
(* C24: the status table                                                   *)
(*                                                                         *)
(* A request event carries                                                 *)
(*   ep        healthz init add bulk delete commit refresh compact search *)
(*             inspect stats unknown                                       *)
(*   method_ok the documented method was used                              *)
(*   cls       valid | semantic (well-formed, violates a documented rule) *)
(*             | shape | syntax | empty | binary | nested | oversized      *)
(*             | corefail (makes the core fail or panic) | mutated        *)
(*             | framing (not HTTP/1.1 at all: Unspecified)                *)
(*   ctype     json ndjson text none form weird                            *)
(*   framing   cl chunked none raw                                         *)
(* An allowed entry is [tok, types]: tok is a status ("404") or a status  *)
(* class ("4xx"); types = {} admits every error type.                      *)

Tok(t) == [tok |-> t, types |-> {}]
Ok2     == {Tok("2xx")}
Any4    == {Tok("4xx")}
Any5    == {Tok("5xx")}
Missing  == {[tok |-> "404", types |-> {"index_missing"}]}
Conflict == {[tok |-> "409", types |-> {"index_exists"}]}
TooLarge == {[tok |-> "413", types |-> {"body_too_large"}]}

BodyEndpoints == {"init", "add", "bulk", "delete", "search"}
IndexEndpoints == {"add", "bulk", "delete", "commit", "refresh", "compact", "search", "inspect", "stats"}
InvalidClasses == {"semantic", "shape", "syntax", "empty", "binary", "nested"}

(* The content type the documentation shows for the endpoint was sent (or *)
(* the endpoint takes no body).  README is silent on whether another one  *)
(* is refused, so then both outcomes are admitted.                         *)
NaturalCtype(e) ==
  CASE e.ep \in {"init", "bulk", "delete", "search"} -> e.ctype = "json"
    [] e.ep = "add" -> e.ctype \in {"ndjson", "json"}
    [] OTHER -> TRUE

(* pres: index exists; dirty: a document of unknown validity was queued   *)
(* since the last commit (the commit may fail: S15a belongs to C15);      *)
(* schemaKnown: the index was created from the schema the generator uses. *)
Allowed(e, pres, dirty, schemaKnown) ==
  LET maybe4 == IF NaturalCtype(e) THEN {} ELSE Any4
      wide   == Ok2 \cup Any4 \cup Any5
  IN
  CASE e.ep = "unknown" -> Any4
    [] ~e.method_ok -> Any4
    [] e.cls = "oversized" ->
         IF e.ep \in BodyEndpoints
           THEN TooLarge \cup maybe4 \cup (IF e.ep # "init" /\ ~pres THEN Missing ELSE {})
           ELSE TooLarge \cup (IF e.ep = "healthz" \/ pres THEN Ok2 \cup Any5 ELSE Missing)
    [] e.ep = "healthz" -> Ok2
    [] e.ep = "init" ->
         CASE e.cls = "valid" -> (IF pres THEN Conflict ELSE Ok2) \cup maybe4
           [] e.cls \in InvalidClasses -> Any4
           [] OTHER -> (IF pres THEN Conflict ELSE Ok2) \cup Any4
    [] e.ep \in IndexEndpoints /\ ~pres ->
         IF e.cls = "valid" /\ NaturalCtype(e) THEN Missing ELSE Any4
    [] ~schemaKnown -> wide
    [] e.ep \in {"add", "bulk", "delete"} ->
         CASE e.cls = "valid" -> Ok2 \cup maybe4
           [] e.cls = "empty" /\ e.ep = "add" -> Ok2 \cup Any4
           [] e.cls \in InvalidClasses -> Any4
           [] OTHER -> Ok2 \cup Any4
    [] e.ep = "commit" -> IF dirty THEN Ok2 \cup Any5 ELSE Ok2
    [] e.ep \in {"refresh", "compact", "inspect", "stats"} -> Ok2
    [] e.ep = "search" ->
         CASE e.cls = "valid" -> Ok2 \cup maybe4
           [] e.cls \in InvalidClasses -> Any4
           [] OTHER -> wide          \* corefail, mutated
    [] OTHER -> wide

StatusClass(s) ==
  IF s \in 200..299 THEN "2xx" ELSE IF s \in 400..499 THEN "4xx"
  ELSE IF s \in 500..599 THEN "5xx" ELSE "other"

Matches(a, status, errType) ==
  /\ a.tok = ToString(status) \/ a.tok = StatusClass(status)
  /\ a.types = {} \/ errType \in a.types

StatusAllowed(e, pres, dirty, schemaKnown) ==
  \E a \in Allowed(e, pres, dirty, schemaKnown) : Matches(a, e.status, e.err_type)

(* Documented members of a 2xx body (openapi.yaml `required`), written as *)
(* "name:type" with type in int num str bool arr obj.                     *)
Required(ep) ==
  CASE ep = "healthz" -> {"status:str"}
    [] ep = "init"    -> {"created:bool"}
    [] ep \in {"add", "bulk", "delete"} -> {"queued:int"}
    [] ep = "commit"  -> {"committed:bool"}
    [] ep = "refresh" -> {"refreshed:bool"}
    [] ep = "compact" -> {"compacted:bool"}
    [] ep = "search"  -> {"total_hits_estimate:int", "hits:arr"}
    [] ep = "inspect" -> {"manifest:obj"}
    [] ep = "stats"   -> {"documents:int", "deleted_documents:int", "segments:int",
                          "committed_at:str", "index_uuid:str", "index_path:str"}
    [] OTHER -> {}

ManifestRequired == {"version:int", "uuid:str", "committed_at:str", "schema:obj", "segments:arr"}

ToSet(s) == {s[i] : i \in DOMAIN s}

(* "successful calls return their documented JSON" *)
SuccessBodyOk(e) ==
  /\ e.json
  /\ Required(e.ep) \subseteq ToSet(e.fields)
  /\ e.ep = "search" => e.hits_ok
  /\ e.ep = "inspect" => ManifestRequired \subseteq ToSet(e.sub)

(* "every failure returns ... a body of the form {"error":{"type","reason"}}" *)
ErrorBodyOk(e) ==
  /\ e.json
  /\ "error:obj" \in ToSet(e.fields)
  /\ {"type:str", "reason:str"} \subseteq ToSet(e.sub)

BodyOk(e) ==
  \/ e.method = "HEAD"                       \* a HEAD response has no body
  \/ IF StatusClass(e.status) = "2xx" THEN SuccessBodyOk(e) ELSE ErrorBodyOk(e)

(* Named deviations of C24 (exact predictions of what the code does):     *)
(* S24a  requests the router itself refuses (unknown path: 404, known     *)
(*       path with another method: 405) get axum's default empty body.    *)
(* S24b  an oversized body sent with chunked transfer encoding (no        *)
(*       Content-Length to check up front) is reported by the body        *)
(*       reader; the handlers map that error to 400 instead of 413.       *)
S24aExplains(e) ==
  /\ "S24a" \in Deviations
  /\ \/ e.ep = "unknown" /\ e.status = 404
     \/ e.ep # "unknown" /\ ~e.method_ok /\ e.status = 405
  /\ e.body_len = 0

S24bExplains(e) ==
  /\ "S24b" \in Deviations
  /\ e.cls = "oversized" /\ e.framing = "chunked" /\ e.method_ok
  /\ e.ep \in BodyEndpoints
  /\ e.status = 400 /\ e.err_type \in {"invalid_request", "read_body"}
  /\ ErrorBodyOk(e)

=============================================================================
