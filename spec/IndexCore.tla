----------------------------- MODULE IndexCore -----------------------------
(***************************************************************************)
(* Logical model of a searchlite index: committed contents, the shared    *)
(* write-ahead log, and per-handle pending lists.                         *)
(*                                                                         *)
(* One action per public call; each call runs under the writer mutex in   *)
(* the implementation (api/writer.rs, index/mod.rs), so at this level a   *)
(* call is atomic.  The storage-level protocol inside a call (crash and   *)
(* fault points) is refined in Durability.tla; thread interleavings in    *)
(* Concurrency.tla.                                                        *)
(*                                                                         *)
(* State                                                                   *)
(*   committed : function  live-id -> version   (what a fresh reader sees)*)
(*   wal       : sequence of operation records in wal.log                 *)
(*   pending   : handle -> sequence of operation records                  *)
(*   alive     : set of live handles                                      *)
(*                                                                         *)
(* An operation record is [t |-> "add", id, ver] or [t |-> "del", id].    *)
(***************************************************************************)
EXTENDS IndexOps

VARIABLES committed, wal, pending, alive

coreVars == <<committed, wal, pending, alive>>

CoreInit ==
  /\ committed = EmptyContents
  /\ wal = <<>>
  /\ pending = [h \in {} |-> <<>>]
  /\ alive = {}

(* IndexWriter::new - the handle's pending list is initialised from the   *)
(* operations in the log after the last commit marker.  Crash-free, the   *)
(* log never holds a marker (commit truncates it), so that is all of it.  *)
NewWriter(h) ==
  /\ alive' = alive \cup {h}
  /\ pending' = [x \in (DOMAIN pending) \cup {h} |-> IF x = h THEN wal ELSE pending[x]]
  /\ UNCHANGED <<committed, wal>>

DropWriter(h) ==
  /\ h \in alive
  /\ alive' = alive \ {h}
  /\ UNCHANGED <<committed, wal, pending>>

Add(h, id, ver) ==
  /\ h \in alive
  /\ wal' = Append(wal, AddOp(id, ver))
  /\ pending' = [pending EXCEPT ![h] = Append(@, AddOp(id, ver))]
  /\ UNCHANGED <<committed, alive>>

Delete(h, ids) ==
  /\ h \in alive
  /\ wal' = wal \o DelOps(ids)
  /\ pending' = [pending EXCEPT ![h] = @ \o DelOps(ids)]
  /\ UNCHANGED <<committed, alive>>

(* IndexWriter::commit - a handle without pending operations returns at   *)
(* once; otherwise its list is folded over the *current* committed state  *)
(* and the whole log is truncated (also operations other handles wrote).  *)
Commit(h) ==
  /\ h \in alive
  /\ IF pending[h] = <<>>
       THEN UNCHANGED <<committed, wal, pending>>
       ELSE /\ committed' = Fold(pending[h], committed)
            /\ wal' = <<>>
            /\ pending' = [pending EXCEPT ![h] = <<>>]
  /\ UNCHANGED alive

Rollback(h) ==
  /\ h \in alive
  /\ wal' = <<>>
  /\ pending' = [pending EXCEPT ![h] = <<>>]
  /\ UNCHANGED <<committed, alive>>

(* Index::compact never changes the contents. *)
Compact == UNCHANGED coreVars

(* Dropping the Index and opening the directory again: handles are gone,  *)
(* committed contents and the log stay.                                    *)
Reopen ==
  /\ alive' = {}
  /\ UNCHANGED <<committed, wal, pending>>

=============================================================================
