----------------------------- MODULE IndexImpl ------------------------------
(***************************************************************************)
(* Implementation-shaped refinement of IndexCore (C04, C05): segments with *)
(* generations and tombstones, and the per-handle live-document cache of   *)
(* api/writer.rs with its generation tag.                                  *)
(*                                                                         *)
(*   segs     sequence of segments [sid, gen, docs : Seq(<<id, ver>>),     *)
(*            deleted : set of ords]           (the manifest)              *)
(*   hstate   handle -> [alive, pending, cache : id -> <<sid, ord>>, tag]  *)
(*   wal      the shared log (operation records)                           *)
(*                                                                         *)
(* IndexWriter::commit reuses its cache when the manifest's highest        *)
(* generation equals the handle's tag and reloads it otherwise.  That is   *)
(* only sound if every commit that changes which documents are live where  *)
(* also raises the highest generation - or leaves every other handle's     *)
(* stale cache harmless.  The invariants below state exactly that:         *)
(*   OneCopy        no id is live in two slots                             *)
(*   RefinesCore    the live documents equal the abstract committed state  *)
(*                  (ghost `abs`, the Fold of IndexOps)                    *)
(* Constants switch on two seeded mutations that must be refuted:          *)
(*   EmptyCompactionDropsAll  compaction of an index without live          *)
(*                  documents publishes no segment (generations restart)   *)
(*   GenFromTag     a new segment's generation is the handle's tag + 1     *)
(*   CacheLostOnFailedCommit  a commit that fails (storage fault while the  *)
(*                  segment is written) leaves the handle's cache emptied  *)
(*                  but its tag unchanged (cache moved out, not cloned)    *)
(***************************************************************************)
EXTENDS IndexOps, TLC, Json

CONSTANTS IdSet, HandleSet, MaxCalls, EmptyCompactionDropsAll, GenFromTag, CacheLostOnFailedCommit

VARIABLES segs, hstate, wal, abs, nver, nsid, ncalls,
          hist      \* the calls made so far (ghost, hidden by VIEW): a counterexample of a mutated
                    \* configuration is printed as a CASE line and replayed into the real code

ivars == <<segs, hstate, wal, abs, nver, nsid, ncalls, hist>>

IdStr(i) == IF i = 1 THEN "a" ELSE IF i = 2 THEN "b" ELSE "c"
Call(rec) == hist' = Append(hist, rec)

SeqToSetI(s) == {s[i] : i \in DOMAIN s}
IdLess(x, y) == x < y            \* ids are small integers in this model
MaxGen == IF segs = <<>> THEN 0 ELSE CHOOSE g \in {segs[i].gen : i \in DOMAIN segs} : \A i \in DOMAIN segs : segs[i].gen <= g

(* live slots: <<id, ver, sid, ord>> *)
LiveSlots == UNION {{<<segs[i].docs[o][1], segs[i].docs[o][2], segs[i].sid, o>> :
                       o \in {x \in DOMAIN segs[i].docs : x \notin segs[i].deleted}} : i \in DOMAIN segs}

LoadLive == [id \in {s[1] : s \in LiveSlots} |-> LET s == CHOOSE x \in LiveSlots : x[1] = id IN <<s[3], s[4]>>]

Contents == [id \in {s[1] : s \in LiveSlots} |-> (CHOOSE x \in LiveSlots : x[1] = id)[2]]

Dead == [alive |-> FALSE, pending |-> <<>>, cache |-> EmptyContents, tag |-> 0]

Init ==
  /\ segs = <<>>
  /\ hstate = [h \in HandleSet |-> Dead]
  /\ wal = <<>>
  /\ abs = EmptyContents
  /\ nver = 1 /\ nsid = 1 /\ ncalls = 0
  /\ hist = <<>>

Tick == ncalls < MaxCalls /\ ncalls' = ncalls + 1

NewWriter(h) ==
  /\ Tick /\ ~hstate[h].alive
  /\ Call([op |-> "new_writer", h |-> h])
  /\ hstate' = [hstate EXCEPT ![h] = [alive |-> TRUE, pending |-> wal, cache |-> LoadLive, tag |-> MaxGen]]
  /\ UNCHANGED <<segs, wal, abs, nver, nsid>>

DropWriter(h) ==
  /\ Tick /\ hstate[h].alive
  /\ Call([op |-> "drop", h |-> h])
  /\ hstate' = [hstate EXCEPT ![h] = Dead]
  /\ UNCHANGED <<segs, wal, abs, nver, nsid>>

Add(h, id) ==
  /\ Tick /\ hstate[h].alive
  /\ Call([op |-> "add", h |-> h, id |-> IdStr(id)])
  /\ wal' = Append(wal, AddOp(id, nver))
  /\ hstate' = [hstate EXCEPT ![h].pending = Append(@, AddOp(id, nver))]
  /\ nver' = nver + 1
  /\ UNCHANGED <<segs, abs, nsid>>

Delete(h, ids) ==
  /\ Tick /\ hstate[h].alive
  /\ Call([op |-> "delete", h |-> h, ids |-> [k \in DOMAIN ids |-> IdStr(ids[k])]])
  /\ wal' = wal \o DelOps(ids)
  /\ hstate' = [hstate EXCEPT ![h].pending = @ \o DelOps(ids)]
  /\ UNCHANGED <<segs, abs, nver, nsid>>

(* fold the pending list over a live map; returns [live, tomb : set of <<sid, ord>>, new : id -> ver] *)
RECURSIVE FoldImpl(_, _)
FoldImpl(ops, st) ==
  IF ops = <<>> THEN st
  ELSE LET o == Head(ops)
           hit == o.id \in DOMAIN st.live
           tomb2 == IF hit THEN st.tomb \cup {st.live[o.id]} ELSE st.tomb
           live2 == IF hit THEN Remove(st.live, o.id) ELSE st.live
       IN FoldImpl(Tail(ops),
            IF o.t = "add" THEN [live |-> live2, tomb |-> tomb2, new |-> Put(st.new, o.id, o.ver)]
            ELSE [live |-> live2, tomb |-> tomb2, new |-> Remove(st.new, o.id)])

(* ids in increasing order (the BTreeMap order of pending_new) *)
RECURSIVE SortedIds(_)
SortedIds(S) == IF S = {} THEN <<>>
                ELSE LET m == CHOOSE x \in S : \A y \in S : x = y \/ IdLess(x, y) IN <<m>> \o SortedIds(S \ {m})

Commit(h) ==
  /\ Tick /\ hstate[h].alive
  /\ Call([op |-> "commit", h |-> h])
  /\ IF hstate[h].pending = <<>> THEN UNCHANGED <<segs, hstate, wal, abs, nsid>>
     ELSE LET live0 == IF MaxGen = hstate[h].tag THEN hstate[h].cache ELSE LoadLive
              r == FoldImpl(hstate[h].pending, [live |-> live0, tomb |-> {}, new |-> EmptyContents])
              marked == [i \in DOMAIN segs |->
                           [segs[i] EXCEPT !.deleted = @ \cup {t[2] : t \in {x \in r.tomb : x[1] = segs[i].sid}}]]
              ids == SortedIds(DOMAIN r.new)
              gen == (IF GenFromTag THEN hstate[h].tag ELSE MaxGen) + 1
              newseg == [sid |-> nsid, gen |-> gen, docs |-> [k \in DOMAIN ids |-> <<ids[k], r.new[ids[k]]>>], deleted |-> {}]
              segs2 == IF ids = <<>> THEN marked ELSE Append(marked, newseg)
              live2 == IF ids = <<>> THEN r.live
                       ELSE [id \in (DOMAIN r.live) \cup DOMAIN r.new |->
                               IF id \in DOMAIN r.new THEN <<nsid, CHOOSE k \in DOMAIN ids : ids[k] = id>> ELSE r.live[id]]
              newmax == IF segs2 = <<>> THEN 0
                        ELSE CHOOSE g \in {segs2[i].gen : i \in DOMAIN segs2} : \A i \in DOMAIN segs2 : segs2[i].gen <= g
          IN /\ segs' = segs2
             /\ hstate' = [hstate EXCEPT ![h] = [alive |-> TRUE, pending |-> <<>>, cache |-> live2, tag |-> newmax]]
             /\ wal' = <<>>
             /\ abs' = Fold(hstate[h].pending, abs)
             /\ nsid' = IF ids = <<>> THEN nsid ELSE nsid + 1
  /\ UNCHANGED nver

(* A commit that fails with a storage fault: nothing is published, the queue stays (C03).  As   *)
(* built the handle's cache and tag are untouched (commit works on a clone); the call is not     *)
(* recorded in hist (the history driver injects no faults; C03's driver does).                    *)
CommitFails(h) ==
  /\ Tick /\ hstate[h].alive /\ hstate[h].pending # <<>>
  /\ hstate' = IF CacheLostOnFailedCommit THEN [hstate EXCEPT ![h].cache = EmptyContents] ELSE hstate
  /\ UNCHANGED <<segs, wal, abs, nver, nsid, hist>>

Rollback(h) ==
  /\ Tick /\ hstate[h].alive
  /\ Call([op |-> "rollback", h |-> h])
  /\ hstate' = [hstate EXCEPT ![h].pending = <<>>]
  /\ wal' = <<>>
  /\ UNCHANGED <<segs, abs, nver, nsid>>

RECURSIVE LiveDocsOf(_, _)
LiveDocsOf(seg, o) ==
  IF o > Len(seg.docs) THEN <<>>
  ELSE (IF o \in seg.deleted THEN <<>> ELSE <<seg.docs[o]>>) \o LiveDocsOf(seg, o + 1)
RECURSIVE AllLive(_)
AllLive(ss) == IF ss = <<>> THEN <<>> ELSE LiveDocsOf(Head(ss), 1) \o AllLive(Tail(ss))

Compact ==
  /\ Tick
  /\ Call([op |-> "compact"])
  /\ IF Len(segs) <= 1 THEN UNCHANGED <<segs, nsid>>
     ELSE LET docs == AllLive(segs) IN
          /\ segs' = IF docs = <<>> /\ EmptyCompactionDropsAll THEN <<>>
                     ELSE <<[sid |-> nsid, gen |-> MaxGen + 1, docs |-> docs, deleted |-> {}]>>
          /\ nsid' = nsid + 1
  /\ UNCHANGED <<hstate, wal, abs, nver>>

Next ==
  \/ \E h \in HandleSet : NewWriter(h) \/ DropWriter(h) \/ Commit(h) \/ CommitFails(h) \/ Rollback(h)
  \/ \E h \in HandleSet, id \in IdSet : Add(h, id) \/ Delete(h, <<id>>)
  \/ \E h \in HandleSet : Delete(h, SortedIds(IdSet))
  \/ Compact

Spec == Init /\ [][Next]_ivars

OneCopy == \A x, y \in LiveSlots : x[1] = y[1] => x = y
(* why reusing the cache is sound: a handle whose tag equals the highest generation knows   *)
(* the slot of every live document - every commit or compaction that creates or moves a     *)
(* live document raises the highest generation, and the committing handle refreshes its own *)
(* cache.  A deletion-only commit of another handle does not raise it: the cache may then   *)
(* still hold entries for documents that are gone, but each of them names an existing slot  *)
(* that already carries a tombstone, so marking it again is harmless.                        *)
SlotDead(sl) == \E i \in DOMAIN segs : segs[i].sid = sl[1] /\ sl[2] \in DOMAIN segs[i].docs /\ sl[2] \in segs[i].deleted
CacheSound == \A h \in HandleSet :
                (hstate[h].alive /\ hstate[h].tag = MaxGen) =>
                   /\ \A id \in DOMAIN LoadLive : id \in DOMAIN hstate[h].cache /\ hstate[h].cache[id] = LoadLive[id]
                   /\ \A id \in (DOMAIN hstate[h].cache) \ DOMAIN LoadLive : SlotDead(hstate[h].cache[id])
TagBound == \A h \in HandleSet : hstate[h].alive => hstate[h].tag <= MaxGen
SidsUnique == \A i, j \in DOMAIN segs : segs[i].sid = segs[j].sid => i = j
GensUnique == \A i, j \in DOMAIN segs : segs[i].gen = segs[j].gen => i = j
(* the highest generation never decreases (action property) *)
GenMonotone == [][LET m == MaxGen IN m <= MaxGen']_ivars
RefinesCore == OneCopy => Contents = abs
(* same as OneCopy /\ RefinesCore, but prints the call history of the violating state first *)
RefinesOrWitness == (OneCopy /\ Contents = abs) \/ (PrintT(<<"CASE", ToJson([ops |-> hist])>>) /\ FALSE)
View == <<segs, hstate, wal, abs>>
(* optional state constraint for the deep mutation configs: at most one queued operation *)
SmallPending == Len(wal) <= 1 /\ \A h \in HandleSet : Len(hstate[h].pending) <= 1
=============================================================================
