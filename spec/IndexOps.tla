------------------------------ MODULE IndexOps ------------------------------
(***************************************************************************)
(* Pure operators shared by all index specifications: operation records,  *)
(* contents as a function live-id -> version, and Fold - the sequential   *)
(* meaning of committing a list of queued operations.                     *)
(***************************************************************************)
EXTENDS Naturals, Sequences, FiniteSets

AddOp(id, ver) == [t |-> "add", id |-> id, ver |-> ver]
DelOp(id) == [t |-> "del", id |-> id, ver |-> 0]

Put(c, k, v) == [x \in (DOMAIN c) \cup {k} |-> IF x = k THEN v ELSE c[x]]
Remove(c, k) == [x \in (DOMAIN c) \ {k} |-> c[x]]
EmptyContents == [x \in {} |-> 0]

(* The sequential meaning of a commit: upsert / delete in order. *)
RECURSIVE Fold(_, _)
Fold(ops, c) ==
  IF ops = <<>> THEN c
  ELSE LET o == Head(ops) IN
       Fold(Tail(ops), IF o.t = "add" THEN Put(c, o.id, o.ver) ELSE Remove(c, o.id))

RECURSIVE DelOps(_)
DelOps(ids) == IF ids = <<>> THEN <<>> ELSE <<DelOp(Head(ids))>> \o DelOps(Tail(ids))

=============================================================================
