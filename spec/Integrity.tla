----------------------------- MODULE Integrity -----------------------------
(***************************************************************************)
(* C17 - corrupted index files are detected.                              *)
(*                                                                         *)
(* Part 1: file classes, single-fault damage (Flip one byte with a mask,  *)
(*   Truncate to a shorter length), the outcome classes of opening and    *)
(*   searching the damaged index, and what the property allows per class. *)
(* Part 2: an abstract model of the on-disk index (segment parts covered  *)
(*   by whole-file checksums recorded in the manifest; the manifest; the  *)
(*   log) whose `Run` operator yields the outcome of open + search.  The  *)
(*   constant-like parameter `cfg` selects what is verified: the ideal    *)
(*   format (manifest covered by a checksum) satisfies the property, the  *)
(*   as-built format (manifest NOT covered: finding S17a) does not.       *)
(* Part 3: a byte-level model of the write-ahead log framing              *)
(*   varint(len) | type | payload | crc(type+payload), with the scanner   *)
(*   of index/wal.rs (`Scan`), used to prove by exhaustive enumeration    *)
(*   that replay of a singly damaged log is a prefix of the original's.   *)
(*                                                                         *)
(* Used by MC_Integrity.tla (bounded models) and Trace_Integrity.tla      *)
(* (judging outcomes recorded from the real code by `svh corrupt`).       *)
(***************************************************************************)
EXTENDS Naturals, Sequences, FiniteSets

-----------------------------------------------------------------------------
(* Part 1: classes, outcomes, the property                                 *)

FileClasses == {"segment", "manifest", "wal"}

(* Outcome of open + reader + search battery (+ log replay for the wal):   *)
(*   OpenErr / SearchErr   an error was returned                           *)
(*   SameResults           every observation equals the pristine one       *)
(*   DifferentResults      no error, some observation differs              *)
(*   Panic                 the code under test panicked                    *)
(*   PendingPrefix         (wal) committed observations unchanged and the  *)
(*                         replayed record list is a prefix of the         *)
(*                         pristine record list                            *)
(*   PendingNotPrefix      (wal) ... and it is not                         *)
Outcomes == {"OpenErr", "SearchErr", "SameResults", "DifferentResults", "Panic",
             "PendingPrefix", "PendingNotPrefix"}

(* What the property allows for a damaged file of each class. A segment    *)
(* part is covered by a recorded checksum, so every change must be         *)
(* reported. The manifest may be damaged in bytes without meaning (white   *)
(* space, timestamp, uuid): unchanged results are fine there. The log      *)
(* recovers the intact prefix (an error would also count as detection).    *)
Allowed(class) ==
  CASE class = "segment"  -> {"OpenErr", "SearchErr"}
    [] class = "manifest" -> {"OpenErr", "SearchErr", "SameResults"}
    [] class = "wal"      -> {"PendingPrefix", "OpenErr", "SearchErr"}
    [] OTHER              -> {"OpenErr", "SearchErr", "SameResults"}

IsPrefix(s, t) == Len(s) <= Len(t) /\ s = SubSeq(t, 1, Len(s))

(* Finding S17a: MANIFEST.json carries no checksum, so a changed byte that *)
(* leaves the JSON well-formed is believed.  The JSON-pointer classes      *)
(* (array indices as *, `#role` of the token the byte belongs to) whose    *)
(* change the search path reads without any cross-check:                   *)
(*   deleted_docs entries (another document is hidden / shown), the key    *)
(*   `deleted_docs` itself (serde default: no tombstones at all),          *)
(*   doc_count (scan bound and BM25 statistics),                           *)
(*   schema field names (the field a query names is no longer the field    *)
(*   that was indexed).                                                    *)
(* Every other manifest token is either void for searching (uuid,          *)
(* committed_at, version, generation, id, max_doc_id, manifest-level       *)
(* avg_field_lengths), or cross-checked (paths: the file must exist and    *)
(* match its recorded checksum; checksums: compared with the file), so a   *)
(* silent change of results there is NOT explained by this finding.        *)
S17aPointers ==
  {"/segments/*/deleted_docs/*#num", "/segments/*/deleted_docs#key",
   "/segments/*/doc_count#num",
   "/schema/text_fields/*/name#str", "/schema/keyword_fields/*/name#str",
   "/schema/numeric_fields/*/name#str"}

-----------------------------------------------------------------------------
(* Part 2: abstract index                                                  *)
(*                                                                         *)
(* A disk is a record                                                      *)
(*   parts : part name -> Seq(Nat)      content cells of each segment part *)
(*   man   : Seq([cls, v])              manifest cells, each with a class  *)
(*   wal   : Seq(Nat)                   log records (abstract: one cell    *)
(*                                      per record, 0 = damaged)           *)
(* Manifest cell classes:                                                  *)
(*   "struct"  JSON syntax: damage -> parse error                          *)
(*   "void"    white space, committed_at, uuid: no meaning                 *)
(*   "crc"     recorded checksum of a part (field `part`)                  *)
(*   "path"    path of a part: damage -> file not found                    *)
(*   "dead"    a deleted_docs entry (v = doc ordinal)                      *)
(*   "count"   doc_count                                                   *)
(*   "mcrc"    (ideal format only) checksum over all other manifest cells  *)
(* The checksum function is modelled as injective: Crc(x) = x.             *)

Parts == {"terms", "postings", "docstore", "fast", "meta"}

Crc(x) == x

Cell(cls, v) == [cls |-> cls, v |-> v, part |-> "", ok |-> TRUE]
PartCell(cls, part) == [cls |-> cls, v |-> 0, part |-> part, ok |-> TRUE]

PristineParts == [p \in Parts |-> <<1, 2>>]

ManBody ==
  <<Cell("struct", 0), Cell("void", 0), Cell("count", 3), Cell("dead", 2)>> \o
  <<PartCell("path", "terms"), PartCell("crc", "terms"), PartCell("path", "postings"),
    PartCell("crc", "postings"), PartCell("path", "docstore"), PartCell("crc", "docstore"),
    PartCell("path", "fast"), PartCell("crc", "fast"), PartCell("path", "meta"),
    PartCell("crc", "meta")>> \o
  <<Cell("struct", 0)>>

(* cfg.manifestChecksum: the ideal format appends a checksum cell          *)
PristineMan(cfg) ==
  IF cfg.manifestChecksum THEN ManBody \o <<Cell("mcrc", 0)>> ELSE ManBody

PristineDisk(cfg) == [parts |-> PristineParts, man |-> PristineMan(cfg), wal |-> <<1, 2, 3>>]

(* --- damage ---------------------------------------------------------- *)
(* A flipped cell holds a different value; which one depends on the mask: *)
(* for numbers the model distinguishes "another valid value" (mask 1 on a *)
(* digit) from "not a valid token" (masks 128, 255 make a non-ASCII byte).*)
Masks == {1, 128, 255}

FlipNat(n, m) == IF m = 1 THEN (IF n % 2 = 0 THEN n + 1 ELSE n - 1) ELSE n + 1000

FlipManCell(c, m) ==
  IF c.cls \in {"dead", "count", "crc", "path"} /\ m = 1 THEN [c EXCEPT !.v = FlipNat(c.v, 1)]
  ELSE IF c.cls = "void" /\ m = 1 THEN c                 \* e.g. another hex digit of the uuid
  ELSE [c EXCEPT !.ok = FALSE]

Damages(disk) ==
  [k : {"flip"}, file : Parts, off : 1..2, mask : Masks]
  \cup [k : {"trunc"}, file : Parts, off : 0..1, mask : {0}]
  \cup [k : {"flip"}, file : {"MANIFEST"}, off : 1..Len(disk.man), mask : Masks]
  \cup [k : {"trunc"}, file : {"MANIFEST"}, off : 0..(Len(disk.man) - 1), mask : {0}]
  \cup [k : {"flip"}, file : {"wal"}, off : 1..Len(disk.wal), mask : Masks]
  \cup [k : {"trunc"}, file : {"wal"}, off : 0..(Len(disk.wal) - 1), mask : {0}]

ClassOf(file) == IF file = "MANIFEST" THEN "manifest" ELSE IF file = "wal" THEN "wal" ELSE "segment"

Apply(disk, d) ==
  IF d.file \in Parts THEN
    [disk EXCEPT !.parts[d.file] =
       IF d.k = "flip" THEN [@ EXCEPT ![d.off] = FlipNat(@, d.mask)] ELSE SubSeq(@, 1, d.off)]
  ELSE IF d.file = "MANIFEST" THEN
    [disk EXCEPT !.man =
       IF d.k = "flip" THEN [@ EXCEPT ![d.off] = FlipManCell(@, d.mask)] ELSE SubSeq(@, 1, d.off)]
  ELSE
    [disk EXCEPT !.wal =
       IF d.k = "flip" THEN [@ EXCEPT ![d.off] = 0] ELSE SubSeq(@, 1, d.off)]

(* --- open + search ---------------------------------------------------- *)
SeqToSet(s) == {s[i] : i \in DOMAIN s}

CellsOf(man, cls) == {c \in SeqToSet(man) : c.cls = cls}

(* JSON well-formedness: first and last cells are the braces, no token is *)
(* broken                                                                  *)
Parses(man, pristineLen) ==
  /\ Len(man) = pristineLen                 \* a truncated document never parses
  /\ \A i \in DOMAIN man : man[i].ok

Live(man) ==
  LET n == (CHOOSE c \in CellsOf(man, "count") : TRUE).v
      dead == {c.v : c \in CellsOf(man, "dead")}
  IN (1..n) \ dead

(* cfg.verifyParts: SegmentReader::open compares every part with the       *)
(* checksum recorded in the manifest (the recorded value is the pristine   *)
(* content, Crc injective).                                                *)
Run(disk, cfg) ==
  LET pr == PristineDisk(cfg) IN
  IF ~Parses(disk.man, Len(pr.man)) THEN "OpenErr"
  ELSE IF cfg.manifestChecksum /\ disk.man # pr.man THEN "OpenErr"     \* ideal format only
  ELSE IF \E c \in CellsOf(disk.man, "path") : c.v # 0 THEN "OpenErr"    \* no such file
  ELSE IF cfg.verifyParts /\ \E c \in CellsOf(disk.man, "crc") : c.v # 0 THEN "OpenErr"
  ELSE IF cfg.verifyParts /\ \E p \in Parts : Crc(disk.parts[p]) # Crc(pr.parts[p]) THEN "OpenErr"
  ELSE IF Live(disk.man) = Live(pr.man) /\ disk.parts = pr.parts THEN "SameResults"
  ELSE "DifferentResults"

(* cfg.walStopsAtBadRecord: replay ends at the first damaged record        *)
RECURSIVE AbstractReplay(_, _)
AbstractReplay(w, cfg) ==
  IF w = <<>> THEN <<>>
  ELSE IF Head(w) = 0
         THEN (IF cfg.walStopsAtBadRecord THEN <<>> ELSE AbstractReplay(Tail(w), cfg))
         ELSE <<Head(w)>> \o AbstractReplay(Tail(w), cfg)

Outcome(disk, d, cfg) ==
  LET r == Run(disk, cfg) IN
  IF ClassOf(d.file) = "wal" /\ r = "SameResults"
    THEN (IF IsPrefix(AbstractReplay(disk.wal, cfg), AbstractReplay(PristineDisk(cfg).wal, cfg))
            THEN "PendingPrefix" ELSE "PendingNotPrefix")
    ELSE r

IdealCfg   == [manifestChecksum |-> TRUE,  verifyParts |-> TRUE,  walStopsAtBadRecord |-> TRUE]
AsBuiltCfg == [manifestChecksum |-> FALSE, verifyParts |-> TRUE,  walStopsAtBadRecord |-> TRUE]

-----------------------------------------------------------------------------
(* Part 3: byte-level write-ahead log                                      *)
(*                                                                         *)
(* A record on disk is  varint(len) | type | payload | crc32(type+payload) *)
(* (index/wal.rs `append_entry`).  Cells are records so that a checksum    *)
(* byte can be told from a plain byte:                                     *)
(*   B(n)        a plain byte with value n                                 *)
(*   C(h, t, p)  byte h (of CrcWidth) of the checksum of type cell t and   *)
(*               payload cells p - the checksum is injective by            *)
(*               construction: it *is* its argument                        *)
(*   X(c, m)     checksum byte c damaged with mask m (equal to no          *)
(*               checksum byte of anything)                                *)
(* The scanner needs the numeric value of a cell only when it decodes a    *)
(* varint; asking for the value of a checksum byte sets `undef`, and the   *)
(* model checker shows this never happens with a single fault.             *)

CrcWidth == 2

B(n) == [k |-> "b", n |-> n, h |-> 0, t |-> <<>>, p |-> <<>>]
C(h, t, p) == [k |-> "c", n |-> 0, h |-> h, t |-> <<t>>, p |-> p]
X(c, m) == [k |-> "x", n |-> m, h |-> c.h, t |-> c.t, p |-> c.p]

CrcCells(t, p) == [h \in 1..CrcWidth |-> C(h, t, p)]

(* a logical record: [t |-> 1 (add) | 2 (commit marker) | 3 (delete), p |-> Seq(payload byte values)] *)
PayloadCells(p) == [i \in 1..Len(p) |-> B(p[i])]

EncodeRec(r) ==
  <<B(Len(r.p)), B(r.t)>> \o PayloadCells(r.p) \o CrcCells(B(r.t), PayloadCells(r.p))

RECURSIVE EncodeLog(_)
EncodeLog(recs) == IF recs = <<>> THEN <<>> ELSE EncodeRec(Head(recs)) \o EncodeLog(Tail(recs))

XorByte(n, m) ==
  CASE m = 1   -> IF n % 2 = 0 THEN n + 1 ELSE n - 1
    [] m = 128 -> IF n < 128 THEN n + 128 ELSE n - 128
    [] m = 255 -> 255 - n

FlipCell(c, m) == IF c.k = "b" THEN B(XorByte(c.n, m)) ELSE X(c, m)

FlipAt(data, off, m) == [data EXCEPT ![off] = FlipCell(@, m)]
TruncTo(data, n) == SubSeq(data, 1, n)

(* util/varint.rs read_u64: 7 bits per byte, least significant first, the  *)
(* high bit continues.  Result: [ok, val, next, undef]                     *)
RECURSIVE ReadVarint(_, _, _, _)
ReadVarint(data, i, mult, acc) ==
  IF i > Len(data) THEN [ok |-> FALSE, val |-> 0, next |-> i, undef |-> FALSE]
  ELSE LET c == data[i] IN
       IF c.k # "b" THEN [ok |-> FALSE, val |-> 0, next |-> i, undef |-> TRUE]
       ELSE LET v == acc + (c.n % 128) * mult IN
            IF c.n < 128 THEN [ok |-> TRUE, val |-> v, next |-> i + 1, undef |-> FALSE]
            ELSE ReadVarint(data, i + 1, mult * 128, v)

Decode(tcell, payload) ==
  IF tcell = B(1) THEN <<[t |-> 1, p |-> payload]>>
  ELSE IF tcell = B(2) THEN <<[t |-> 2, p |-> payload]>>
  ELSE IF tcell = B(3) THEN <<[t |-> 3, p |-> payload]>>
  ELSE <<>>                                  \* unknown type: skipped, scanning continues

(* index/wal.rs `scan`, cursor i is 1-based.  bug = "none" is the code;    *)
(* "no_crc" skips the checksum comparison, "skip_bad" continues behind a   *)
(* record whose checksum is wrong (both must be refuted).                  *)
RECURSIVE Scan(_, _, _, _)
Scan(data, i, acc, bug) ==
  IF i > Len(data) THEN [entries |-> acc, undef |-> FALSE]
  ELSE LET v == ReadVarint(data, i, 1, 0) IN
  IF ~v.ok THEN [entries |-> acc, undef |-> v.undef]
  ELSE IF v.next > Len(data) THEN [entries |-> acc, undef |-> FALSE]
  ELSE LET tcell == data[v.next]
           ps == v.next + 1                 \* first payload cell
           pe == ps + v.val                 \* first checksum cell
           ce == pe + CrcWidth              \* first cell of the next record
       IN
       IF ce - 1 > Len(data) THEN [entries |-> acc, undef |-> FALSE]
       ELSE LET payload == SubSeq(data, ps, pe - 1)
                crc == SubSeq(data, pe, ce - 1)
                good == bug = "no_crc" \/ crc = CrcCells(tcell, payload)
            IN IF good THEN Scan(data, ce, acc \o Decode(tcell, payload), bug)
               ELSE IF bug = "skip_bad" THEN Scan(data, ce, acc, bug)
               ELSE [entries |-> acc, undef |-> FALSE]

Replay(data, bug) == Scan(data, 1, <<>>, bug)

(* records as `Replay` reports them (payload as cells)                     *)
AsEntries(recs) == [i \in 1..Len(recs) |-> [t |-> recs[i].t, p |-> PayloadCells(recs[i].p)]]

(* operations queued after the last commit marker (Wal::last_pending_ops)  *)
RECURSIVE PendingOf(_, _)
PendingOf(entries, acc) ==
  IF entries = <<>> THEN acc
  ELSE IF Head(entries).t = 2 THEN PendingOf(Tail(entries), <<>>)
  ELSE PendingOf(Tail(entries), Append(acc, Head(entries)))

=============================================================================
