------------------------------- MODULE ListOps -------------------------------
(***************************************************************************)
(* Ranked lists of hits [id, sb] (sb = order-preserving image of the f32   *)
(* score) shared by Collapse.tla and Rescore.tla.                          *)
(***************************************************************************)
EXTENDS Rank

IdsOf0(X) == {d.id : d \in X}

HitSeq(o) == [i \in DOMAIN o.ids |-> [id |-> o.ids[i], sb |-> o.sbits[i]]]
IdsOfSeq(s) == [i \in DOMAIN s |-> s[i].id]

NthSmallest(Sx, n) == CHOOSE x \in Sx : Cardinality({y \in Sx : y < x}) = n - 1

(* the unique arrangement of the (distinct) elements of s under the strict *)
(* total order Before                                                      *)
SortSetBy(Sx, Before(_, _)) ==
  [i \in 1..Cardinality(Sx) |-> CHOOSE x \in Sx : Cardinality({y \in Sx : Before(y, x)}) = i - 1]

SortSeqBy(s, Before(_, _)) == SortSetBy(SeqToSet(s), Before)

PosIn(L, h) == CHOOSE i \in DOMAIN L : L[i] = h

=============================================================================
