SPECIFICATION Spec
CONSTANT MaxDocs = 4
CONSTANT AllOrders = FALSE
CONSTANT CheckAsBuilt = FALSE
INVARIANT IdealMergeExact
INVARIANT AgreeSound
INVARIANT AsBuiltExactOneSegment
CHECK_DEADLOCK FALSE
