------------------------------ MODULE MC_Aggs ------------------------------
(***************************************************************************)
(* C12, design level: aggregations do not depend on segmentation.         *)
(*                                                                         *)
(* Universe: every multiset of up to MaxDocs documents whose keyword field *)
(* `k` holds a subset of the key universe {a, b, c} (single values, one   *)
(* two-valued document type, or no value) and whose i64 field `n` is 1 or *)
(* 2, partitioned in EVERY way into up to 3 segments.  For every aggregation   *)
(* of Specs (terms with size / min_doc_count / missing and sub-            *)
(* aggregations, rare_terms, stats, histogram with min_doc_count) the     *)
(* implementation-shaped value Fin(MergeAll(Collect per segment)) of      *)
(* Aggs.tla must equal the declarative value Ref over all documents:      *)
(*                                                                         *)
(*   IdealMergeExact   mode {} (thresholds / limits on the merged counts)  *)
(*   AgreeSound        the agreement relation accepts the reference value  *)
(*   AsBuiltExact      mode {"S12a"} (per-segment thresholds)              *)
(*                     - must be REFUTED (CheckAsBuilt = TRUE)             *)
(***************************************************************************)
EXTENDS Aggs

CONSTANTS MaxDocs, CheckAsBuilt, AllOrders

D0 == [s \in {"a", "b", "c", "k"} |->
         [cp |-> IF s = "a" THEN <<97>> ELSE IF s = "b" THEN <<98>> ELSE IF s = "c" THEN <<99>> ELSE <<107>>,
          lc |-> s, alc |-> s]]

KeyLists == << <<>>, <<"a">>, <<"b">>, <<"c">>, <<"a", "b">> >>
NTypes == 10          \* type ty in 1..10: key list ((ty - 1) % 5) + 1, value ((ty - 1) \div 5) + 1

Doc(i, ty, seg) ==
  [id |-> i, ver |-> 1, seg |-> seg, ord |-> i, live |-> TRUE, text |-> <<>>,
   kw |-> << [f |-> "k", vals |-> KeyLists[((ty - 1) % 5) + 1]] >>,
   i64 |-> << [f |-> "n", vals |-> << ((ty - 1) \div 5) + 1 >>] >>,
   f64 |-> <<>>, nested |-> <<>>]

Stats == [t |-> "stats", f |-> "n", fk |-> "i64", hasmissing |-> FALSE, missing4 |-> 0]
Hist(mdc, subs) ==
  [t |-> "hist", f |-> "n", fk |-> "i64", iv4 |-> 8, off4 |-> 0, hasmdc |-> TRUE, mdc |-> mdc, hasext |-> FALSE,
   extmin4 |-> 0, extmax4 |-> 0, hashard |-> FALSE, hardmin8 |-> 0, hardmax8 |-> 0, hasmissing |-> FALSE,
   missing4 |-> 0, rnd |-> "floor", subs |-> subs]
Terms(size, mdc, missing, subs) ==
  [t |-> "terms", f |-> "k", size |-> size, hassize |-> size > 0, shard |-> 0, hasshard |-> FALSE, mdc |-> mdc,
   hasmissing |-> missing # "", missing |-> missing, subs |-> subs]
Rare(maxdc, size) == [t |-> "rare", f |-> "k", maxdc |-> maxdc, size |-> size, hassize |-> size > 0,
                     hasmissing |-> FALSE, missing |-> "", subs |-> <<>>]

Sub(a) == << [name |-> "s", a |-> a] >>

Specs ==
  {Terms(size, mdc, missing, <<>>) : size \in 0..2, mdc \in 1..2, missing \in {"", "c"}}
  \cup {Terms(2, 1, "", Sub(Stats)), Terms(0, 2, "", Sub(Hist(1, <<>>))), Terms(1, 1, "", Sub(Terms(1, 2, "", <<>>)))}
  \cup {Rare(m, s) : m \in 1..2, s \in {0, 1}}
  \cup {Stats, Hist(1, <<>>), Hist(2, <<>>), Hist(2, Sub(Terms(1, 1, "", <<>>)))}

VARIABLES types, segs, phase
vars == <<types, segs, phase>>

NonDecreasing(s) == \A i \in 1..(Len(s) - 1) : s[i] <= s[i + 1]

(* two steps (document multiset, then its spread over segments) so that TLC's workers share the universe *)
Init == types = <<>> /\ segs = <<>> /\ phase = 0
PickDocs ==
  /\ phase = 0 /\ phase' = 1 /\ UNCHANGED segs
  /\ \E n \in 1..MaxDocs : types' \in {s \in [1..n -> 1..NTypes] : NonDecreasing(s)}
(* every set partition once: restricted growth strings (a document opens segment k + 1 only when segments *)
(* 0..k are in use); AllOrders = TRUE also enumerates the order of the segments                            *)
Growth(s) == \A i \in DOMAIN s : s[i] <= (IF i = 1 THEN 0 ELSE SetMax({s[j] : j \in 1..(i - 1)}) + 1)
PickSegs ==
  /\ phase = 1 /\ phase' = 2 /\ UNCHANGED types
  /\ segs' \in {s \in [1..Len(types) -> 0..2] : AllOrders \/ Growth(s)}
Next == PickDocs \/ PickSegs
Spec == Init /\ [][Next]_vars

M == {Doc(i, types[i], segs[i]) : i \in DOMAIN types}
Parts == PartsOf(M, 3)

IdealMergeExact == phase = 2 => \A a \in Specs : Shaped(D0, Parts, a, {}) = Ref(D0, M, a)

BucketOnly == {a \in Specs : a.t \in {"terms", "rare", "hist"} /\ a.subs = <<>>}
AgreeSound ==
  phase = 2 => \A a \in BucketOnly : \A strict \in BOOLEAN : Agree(D0, Ref(D0, M, a), Exact(Ref(D0, M, a)), strict)

AsBuiltExact ==
  (phase = 2 /\ CheckAsBuilt) => \A a \in Specs : Exact(Shaped(D0, Parts, a, {"S12a"})) = Exact(Ref(D0, M, a))

(* with one segment the as-built form is exact: the defect needs at least two segments *)
AsBuiltExactOneSegment ==
  (phase = 2 /\ \A i \in DOMAIN segs : segs[i] = 0) =>
     \A a \in Specs : Exact(Shaped(D0, Parts, a, {"S12a"})) = Exact(Ref(D0, M, a))
=============================================================================
