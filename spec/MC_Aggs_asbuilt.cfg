SPECIFICATION Spec
CONSTANT MaxDocs = 4
CONSTANT AllOrders = FALSE
CONSTANT CheckAsBuilt = TRUE
INVARIANT AsBuiltExact
CHECK_DEADLOCK FALSE
