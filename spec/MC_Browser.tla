----------------------------- MODULE MC_Browser ------------------------------
(* Bounded instances of Browser.tla (C27): 2 commits x <= 2 documents, a segment of NSeg files,  *)
(* all task interleavings and IndexedDB completion orders the chosen TaskOrder/IdbOrder allow.   *)
EXTENDS Naturals, Sequences, FiniteSets, TLC, Json

CONSTANTS IdSetC, MaxCommitsC, NSeg, TaskOrderC, IdbOrderC, BugC, FixC, RemoveC, GenC

AllSegFiles == <<"docs", "post", "terms", "fast", "meta">>     \* write order of the real code
SegFilesC == SubSeq(AllSegFiles, 1, NSeg)

VARIABLES pg, idb, app, closed, sched

B == INSTANCE Browser WITH IdSet <- IdSetC, MaxCommits <- MaxCommitsC, SegFiles <- SegFilesC,
                           TaskOrder <- TaskOrderC, IdbOrder <- IdbOrderC, Bug <- BugC, Fix <- FixC

View == B!view
Init == B!Init

\* RemoveC = TRUE adds one storage-level removal of the first file of segment 1 (what
\* cleanup_segments does after a failed commit), at most once, at any moment after commit 1 was
\* called: "delete racing a queued put".  Not reachable through the exported wasm API.
RemoveOnce ==
  /\ RemoveC /\ app.k >= 1
  /\ \A i \in DOMAIN sched : sched[i].a # "remove"
  /\ B!CallRemove(B!Seg(1, SegFilesC[1]))

\* GenC = TRUE (case generation): the page is never closed inside a behaviour; instead every
\* state is printed as "this schedule, then close" (TLC -simulate evaluates PrintCase on every
\* successor it generates, so one random walk yields the close points along and beside it).
Next == IF GenC THEN (B!Next \/ RemoveOnce) /\ closed' = FALSE ELSE B!Next \/ RemoveOnce
Spec == Init /\ [][Next]_<<pg, idb, app, closed, sched>>

ReloadOpens == B!ReloadOpens
ReloadIsSomeCommit == B!ReloadIsSomeCommit
ResolvedCommitPresent == B!ResolvedCommitPresent
NoSpuriousFailure == B!NoSpuriousFailure
\* once everything has run, a removed file is not in IndexedDB any more
RemovedStaysRemoved ==
  (pg.runq = <<>> /\ pg.reqs = <<>> /\ \E i \in DOMAIN sched : sched[i].a = "remove")
     => B!Seg(1, SegFilesC[1]) \notin DOMAIN idb
TypeOK == B!TypeOK
EventuallyAllPresent == B!EventuallyAllPresent
NoStuck == B!NoStuck

SetToSeq(S) == CHOOSE s \in [1..Cardinality(S) -> S] : \A i, j \in 1..Cardinality(S) : i # j => s[i] # s[j]

CloseStep == [a |-> "close", t |-> 0, r |-> 0, op |-> "", path |-> "", n |-> 0]
Case == [task_order |-> TaskOrderC, idb_order |-> IdbOrderC,
         docs |-> [i \in DOMAIN app.docs |-> SetToSeq(app.docs[i])],
         opens |-> B!ReloadOpens,
         steps |-> IF closed THEN sched ELSE Append(sched, CloseStep)]
\* S->I: every visited state as a case
PrintCase == (GenC /\ sched # <<>>) => PrintT(<<"CASE", ToJson(Case)>>)
\* only the cases whose close leaves an index that does not open (directed S->I cases)
PrintBadCase == (GenC /\ ~B!ReloadOpens) => PrintT(<<"CASE", ToJson(Case)>>)
=============================================================================
