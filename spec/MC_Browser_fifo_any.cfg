SPECIFICATION Spec
CONSTANTS
  IdSetC = {"a", "b"}
  MaxCommitsC = 2
  NSeg = 2
  TaskOrderC = "fifo"
  IdbOrderC = "any"
  BugC = "none"
  FixC = "none"
  RemoveC = FALSE
  GenC = FALSE
VIEW View
INVARIANT TypeOK
INVARIANT NoStuck
INVARIANT EventuallyAllPresent
INVARIANT ReloadOpens
INVARIANT ReloadIsSomeCommit
INVARIANT ResolvedCommitPresent
CHECK_DEADLOCK FALSE
