SPECIFICATION Spec
CONSTANTS
  IdSetC = {"a", "b"}
  MaxCommitsC = 2
  NSeg = 5
  TaskOrderC = "any"
  IdbOrderC = "any"
  BugC = "none"
  FixC = "none"
  RemoveC = FALSE
  GenC = TRUE
INVARIANT PrintCase
CHECK_DEADLOCK FALSE
