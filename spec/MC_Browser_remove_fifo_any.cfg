SPECIFICATION Spec
CONSTANTS
  IdSetC = {"a"}
  MaxCommitsC = 1
  NSeg = 2
  TaskOrderC = "fifo"
  IdbOrderC = "any"
  BugC = "none"
  FixC = "none"
  RemoveC = TRUE
  GenC = FALSE
INVARIANT TypeOK
INVARIANT NoStuck
INVARIANT RemovedStaysRemoved
INVARIANT NoSpuriousFailure
CHECK_DEADLOCK FALSE
