SPECIFICATION Spec
CONSTANT MaxHits = 5
CONSTANT Variant = "ideal"
CONSTANT PrintMod = 0
INVARIANT OnePer
INVARIANT Best
INVARIANT Order
INVARIANT InnerOk
INVARIANT Partition
INVARIANT WindowLaw
INVARIANT PrintCase
CHECK_DEADLOCK FALSE
