----------------------------- MODULE MC_Collapse -----------------------------
(***************************************************************************)
(* Small-scope exhaustive check of Collapse.tla (C18): every ranked list   *)
(* of up to MaxHits hits assigned to groups 0..3 (0 = no value of the      *)
(* collapse field) x inner sort in {same as the request, other} x from     *)
(* 0..2 x size in {none, 0..3}.                                            *)
(* Laws of Collapsed(..) checked in every case:                            *)
(*   OnePer / Best / Order / InnerOk   the structural requirements that    *)
(*                the trace check also applies to small-limit responses    *)
(*   Partition    without a window, representatives and inner hits         *)
(*                partition the hits that have a value                     *)
(*   WindowLaw    the windowed inner hits are the from/size slice of the   *)
(*                unwindowed ones                                          *)
(* Variant # "ideal" builds a deliberately wrong collapse (non-vacuity):   *)
(*   "arrival"    representative = first member by the other order         *)
(*                (arrival instead of rank)  -> refutes Best               *)
(*   "offbyone"   inner window starts at `from` instead of from+1          *)
(*                -> refutes WindowLaw                                     *)
(*   "segcand"    the as-built candidate list of S18a (limit 2, hits 1-4   *)
(*                in segment 0, hits 5-6 in segment 1; the best 3 hits of  *)
(*                each segment are collapsed)  -> refutes Best; the exact  *)
(*                prefix ("prefix") satisfies every structural law         *)
(* Every PrintMod-th case is printed as a CASE line for replay through the *)
(* real engine (svh extras --mode collapse --cases).                       *)
(***************************************************************************)
EXTENDS Collapse

CONSTANTS MaxHits, Variant, PrintMod

Hit(i) == [id |-> i, sb |-> 0]
OtherKey(i) == (i * 5) % 7                 \* 1..6 -> 5 3 1 6 4 2

VARIABLES n, g, cfg, phase
vars == <<n, g, cfg, phase>>

NoCfg == [other |-> FALSE, from |-> 0, hassize |-> FALSE, size |-> 0]

Init == n = 0 /\ g = <<>> /\ cfg = NoCfg /\ phase = 0

PickList ==
  /\ phase = 0 /\ phase' = 1 /\ UNCHANGED cfg
  /\ n' \in 0..MaxHits
  /\ g' \in [1..n' -> 0..3]

PickCfg ==
  /\ phase = 1 /\ phase' = 2 /\ UNCHANGED <<n, g>>
  /\ cfg' \in [other : BOOLEAN, from : 0..2, hassize : BOOLEAN, size : 0..3]
  /\ (~cfg'.hassize => cfg'.size = 0)

Next == PickList \/ PickCfg
Spec == Init /\ [][Next]_vars

L == [i \in 1..n |-> Hit(i)]
HasK(h) == g[h.id] # 0
K(h) == g[h.id]
Before(a, b) == IF cfg.other THEN OtherKey(a.id) < OtherKey(b.id) ELSE a.id < b.id
Opt(c) == [has |-> TRUE, from |-> c.from, hassize |-> c.hassize, size |-> c.size]

(* the collapse under test *)
Arrival(V) ==
  LET keys == {K(V[i]) : i \in DOMAIN V}
      rep(k) == CHOOSE x \in {y \in SeqToSet(V) : K(y) = k} :
                   \A y \in SeqToSet(V) : K(y) = k => OtherKey(x.id) <= OtherKey(y.id)
      reps == {rep(k) : k \in keys}
      tops == SortSetBy(reps, LAMBDA a, b : a.id < b.id)
  IN [tops |-> tops, inner |-> [i \in DOMAIN tops |-> InnerOf(V, K, Before, Opt(cfg), tops[i])]]

OffByOne(V) ==
  LET tops == Reps(V, K) IN
  [tops |-> tops,
   inner |-> [i \in DOMAIN tops |->
                LET s == SortSeqBy(RestOf(V, K, tops[i]), Before) IN
                SubSeq(s, MaxI(cfg.from, 1), IF cfg.hassize THEN MinI(Len(s), cfg.from + cfg.size) ELSE Len(s))]]

SegOf(h) == IF h.id <= 4 THEN 0 ELSE 1
First2(c) == [tops |-> SubSeq(c.tops, 1, MinI(2, Len(c.tops))), inner |-> SubSeq(c.inner, 1, MinI(2, Len(c.tops)))]

C == IF Variant = "segcand" THEN First2(Collapsed(AsBuiltCandidates(L, SegOf, 3, TRUE), HasK, K, Before, Opt(cfg)))
     ELSE IF Variant = "prefix" THEN First2(Collapsed(AsBuiltCandidates(L, SegOf, 3, FALSE), HasK, K, Before, Opt(cfg)))
     ELSE IF Variant = "arrival" THEN Arrival(Valued(L, HasK))
     ELSE IF Variant = "offbyone" THEN OffByOne(Valued(L, HasK))
     ELSE Collapsed(L, HasK, K, Before, Opt(cfg))

Full == Collapsed(L, HasK, K, Before, Opt([cfg EXCEPT !.from = 0, !.hassize = FALSE]))

OnePer == phase = 2 => OnePerValue(C.tops, K)
Best == phase = 2 => RepIsBest(L, C.tops, HasK, K)
Order == phase = 2 => GroupOrder(L, C.tops)
InnerOk == phase = 2 => InnerWellFormed(L, C.tops, C.inner, HasK, K, Before, Opt(cfg))

RECURSIVE Flat(_)
Flat(ss) == IF ss = <<>> THEN <<>> ELSE Head(ss) \o Flat(Tail(ss))

Partition == phase = 2 =>
  LET all == Full.tops \o Flat(Full.inner) IN
  /\ SeqToSet(all) = SeqToSet(Valued(L, HasK))
  /\ Len(all) = Len(Valued(L, HasK))
  /\ Len(Full.tops) = Cardinality({g[i] : i \in 1..n} \ {0})

WindowLaw == phase = 2 =>
  /\ Len(C.tops) = Len(Full.tops)
  /\ \A i \in DOMAIN C.tops :
        C.inner[i] = SubSeq(Full.inner[i], cfg.from + 1,
                            IF cfg.hassize THEN MinI(Len(Full.inner[i]), cfg.from + cfg.size) ELSE Len(Full.inner[i]))

Weight == n + cfg.from * 7 + cfg.size * 11 + (IF cfg.other THEN 3 ELSE 0)
          + SumSeq([i \in 1..n |-> g[i] * (i + 1)])

PrintCase ==
  (phase = 2 /\ PrintMod > 0 /\ n >= 3 /\ Weight % PrintMod = 0) =>
     PrintT(<<"CASE", ToJson([g |-> g, other |-> cfg.other, from |-> cfg.from,
                              hassize |-> cfg.hassize, size |-> cfg.size])>>)
=============================================================================
