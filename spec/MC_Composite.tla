---------------------------- MODULE MC_Composite ----------------------------
(***************************************************************************)
(* C30, design level: paging a composite aggregation by feeding each      *)
(* response's after_key back as `after`.                                   *)
(*                                                                         *)
(* Universe: every set of up to 6 bucket keys (two-part tuples: a string  *)
(* part from {a, b, c} and a numeric part from {0, 4}), every page size   *)
(* 1..MaxPage.  One page is Aggs.tla's CompPage (the same operator the    *)
(* trace oracle uses): the buckets strictly after `after` in key order,   *)
(* the first `size` of them, after_key = the last returned key exactly    *)
(* when more buckets remain.                                               *)
(*                                                                         *)
(*   WalkComplete                 at the end every bucket was returned     *)
(*                                exactly once, in key order               *)
(*   AfterKeyAbsentExactlyAtEnd   an after_key is handed out only while    *)
(*                                buckets remain (also when the number of  *)
(*                                buckets is a multiple of the page size)  *)
(*   NoDuplicates, Terminates                                              *)
(*                                                                         *)
(* Mutations that must be refuted: Strict = FALSE (`>=` instead of `>`),  *)
(* AlwaysKey = TRUE (after_key also on the last page).                     *)
(***************************************************************************)
EXTENDS Aggs

CONSTANTS MaxPage, Strict, AlwaysKey

D0 == [s \in {"a", "b", "c"} |->
         [cp |-> IF s = "a" THEN <<97>> ELSE IF s = "b" THEN <<98>> ELSE <<99>>, lc |-> s, alc |-> s]]

AllKeys == {<<KStr(s), KNum(n)>> : s \in {"a", "b", "c"}, n \in {0, 4}}

VARIABLES keys, size, cursor, walked, state, pages
vars == <<keys, size, cursor, walked, state, pages>>

None == [has |-> FALSE, key |-> <<>>]

Init ==
  /\ keys \in SUBSET AllKeys
  /\ size \in 1..MaxPage
  /\ cursor = None
  /\ walked = <<>>
  /\ state = "walking"
  /\ pages = 0

Sorted == SortBy({[key |-> k, n |-> 1, subs |-> <<>>] : k \in keys}, LAMBDA x, y : ByKey(D0, x, y))

Page ==
  /\ state = "walking"
  /\ pages < 10                      \* a walk that has not ended after 10 pages never ends (<= 6 buckets)
  /\ LET p == CompPage(D0, Sorted, cursor.has, cursor.key, size, Strict, AlwaysKey) IN
       /\ walked' = walked \o [i \in DOMAIN p.bs |-> p.bs[i].key]
       /\ IF p.hasafter
            THEN cursor' = [has |-> TRUE, key |-> p.after] /\ state' = "walking"
            ELSE cursor' = None /\ state' = "done"
  /\ pages' = pages + 1
  /\ UNCHANGED <<keys, size>>

Next == Page
Spec == Init /\ [][Next]_vars /\ WF_vars(Page)

Remaining == {k \in keys : k \notin SeqToSet(walked)}

WalkComplete == state = "done" => walked = [i \in DOMAIN Sorted |-> Sorted[i].key]
NoDuplicates == Cardinality(SeqToSet(walked)) = Len(walked)
(* after_key present (the walk goes on) <=> buckets remain *)
AfterKeyAbsentExactlyAtEnd ==
  /\ (state = "walking" /\ pages > 0) => Remaining # {}
  /\ state = "done" => Remaining = {}
Terminates == <>(state = "done")
=============================================================================
