SPECIFICATION Spec
CONSTANT MaxPage = 3
CONSTANT Strict = FALSE
CONSTANT AlwaysKey = FALSE
INVARIANT WalkComplete
INVARIANT NoDuplicates
INVARIANT AfterKeyAbsentExactlyAtEnd
PROPERTY Terminates
CHECK_DEADLOCK FALSE
