------------------------------ MODULE MC_Conc -------------------------------
(* Bounded instances of Concurrency.tla (C05, C06). *)
EXTENDS Naturals, Sequences

CONSTANTS Scenario, UseLockC, HoldReadLockC, CleanupFirstC

C(op, id, ver) == [op |-> op, id |-> id, ver |-> ver]

W == IF Scenario = "writers3" THEN {"w1", "w2", "w3"} ELSE {"w1", "w2"}
R == IF Scenario \in {"readers", "mixed", "held", "held_lazy"} THEN {"r1"} ELSE {}
K == IF Scenario \in {"readers", "mixed", "writers_compact", "held", "held_lazy"} THEN {"k1"} ELSE {}

P == CASE Scenario = "writers" ->
            [t \in {"w1", "w2"} |->
               IF t = "w1" THEN <<C("add", "a", 1), C("commit", "", 0), C("delete", "a", 0), C("commit", "", 0)>>
               ELSE <<C("add", "a", 2), C("add", "b", 3), C("commit", "", 0)>>]
       [] Scenario = "writers3" ->
            [t \in {"w1", "w2", "w3"} |->
               IF t = "w1" THEN <<C("add", "a", 1), C("commit", "", 0)>>
               ELSE IF t = "w2" THEN <<C("add", "b", 2), C("rollback", "", 0), C("add", "b", 3), C("commit", "", 0)>>
               ELSE <<C("delete", "a", 0), C("commit", "", 0)>>]
       [] Scenario = "writers_compact" ->
            [t \in {"w1", "w2", "k1"} |->
               IF t = "w1" THEN <<C("add", "a", 1), C("commit", "", 0), C("add", "b", 2), C("commit", "", 0)>>
               ELSE IF t = "w2" THEN <<C("add", "c", 3), C("commit", "", 0)>>
               ELSE <<C("compact", "", 0), C("compact", "", 0)>>]
       [] Scenario = "readers" ->
            [t \in {"w1", "w2", "k1", "r1"} |->
               IF t = "w1" THEN <<C("add", "a", 1), C("commit", "", 0), C("add", "b", 2), C("commit", "", 0)>>
               ELSE IF t = "w2" THEN <<>>
               ELSE IF t = "k1" THEN <<C("compact", "", 0)>>
               ELSE <<C("read", "", 0), C("read", "", 0)>>]
       [] Scenario \in {"held", "held_lazy"} ->
            [t \in {"w1", "w2", "k1", "r1"} |->
               IF t = "w1" THEN <<C("add", "a", 1), C("commit", "", 0), C("delete", "a", 0), C("add", "b", 2), C("commit", "", 0)>>
               ELSE IF t = "w2" THEN <<>>
               ELSE IF t = "k1" THEN <<C("compact", "", 0)>>
               ELSE <<C("read", "", 0), C("fetch", "", 0)>>]
       [] Scenario = "mixed" ->
            [t \in {"w1", "w2", "k1", "r1"} |->
               IF t = "w1" THEN <<C("add", "a", 1), C("commit", "", 0), C("add", "b", 2), C("commit", "", 0)>>
               ELSE IF t = "w2" THEN <<C("add", "a", 3), C("commit", "", 0)>>
               ELSE IF t = "k1" THEN <<C("compact", "", 0)>>
               ELSE <<C("read", "", 0)>>]

VARIABLES wlock, mlock, mem, disk, files, wal, pend, pc, loc, hist, serial, nseg, sched

INSTANCE Concurrency WITH Writers <- W, Readers <- R, Compactors <- K, Prog <- P,
                          UseLock <- UseLockC, HoldReadLock <- HoldReadLockC, CleanupFirst <- CleanupFirstC,
                          LazyFetch <- (Scenario = "held_lazy")
=============================================================================
