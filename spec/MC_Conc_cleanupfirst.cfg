SPECIFICATION Spec
CONSTANTS
  Scenario = "readers"
  UseLockC = TRUE
  HoldReadLockC = TRUE
  CleanupFirstC = TRUE
INVARIANT Serializable
INVARIANT MutualExclusion
INVARIANT DiskOpenable
INVARIANT ReaderNeverFails
INVARIANT SnapshotIsCommitted
INVARIANT NoDeadlock
CHECK_DEADLOCK FALSE
