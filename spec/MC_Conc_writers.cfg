SPECIFICATION Spec
CONSTANTS
  Scenario = "writers"
  UseLockC = TRUE
  HoldReadLockC = TRUE
  CleanupFirstC = FALSE
INVARIANT Serializable
INVARIANT MutualExclusion
INVARIANT DiskOpenable
INVARIANT ReaderNeverFails
INVARIANT SnapshotIsCommitted
INVARIANT NoDeadlock
CHECK_DEADLOCK FALSE
