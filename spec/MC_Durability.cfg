SPECIFICATION Spec
CONSTANTS
  IdSet = {"a", "b"}
  MaxCalls = 3
  MaxCrashes = 1
  Bug = "none"
INVARIANT C01_CrashSafe
INVARIANT C02_QueueRecovered
INVARIANT VolatileConsistent
CHECK_DEADLOCK FALSE
