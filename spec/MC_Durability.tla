--------------------------- MODULE MC_Durability ---------------------------
(***************************************************************************)
(* Bounded model of the write path of searchlite over the file-system     *)
(* model of Storage.tla: every public call is compiled into the sequence  *)
(* of primitive storage operations the implementation issues (in the      *)
(* order of api/writer.rs, index/mod.rs, storage/mod.rs), executed one    *)
(* micro-step at a time.  In every reachable state, every crash image the *)
(* file-system model allows must                                          *)
(*   C01  open and hold the acknowledged contents or the complete result  *)
(*        of the commit in flight;                                        *)
(*   C02  yield a pending list that is a prefix (>= the synced watermark) *)
(*        of the queue, or be a harmless re-application after the commit  *)
(*        in flight became durable.                                       *)
(* The Crash action continues from any image (up to MaxCrashes times), so *)
(* sequences of crashes with torn log tails are covered.                  *)
(*                                                                         *)
(* The constant Bug switches on one protocol mutation; every mutation     *)
(* must be refuted (non-vacuity of the invariants).                       *)
(***************************************************************************)
EXTENDS IndexOps, Storage, TLC

CONSTANTS IdSet, MaxCalls, MaxCrashes, Bug

VARIABLES fs,       \* Storage.tla file system
          base,     \* directory that was durable when the process started
          mem,      \* in-memory manifest of the Index object
          hpend,    \* pending list of the (single) live writer handle
          hlive,    \* is a handle alive
          prog,     \* remaining micro-steps of the call in flight
          cur,      \* name of the call in flight ("none" when idle)
          acked, queue, synced,      \* ghosts (as in Trace_Crash.tla)
          nver, nseg, ncalls, ncrash

dvars == <<fs, base, mem, hpend, hlive, prog, cur, acked, queue, synced, nver, nseg, ncalls, ncrash>>

MANIFEST == <<"MANIFEST">>
TMP == <<"MANIFEST.tmp">>
WAL == <<"wal">>
SegA(s) == <<"seg", s, "a">>      \* first file written (docstore)
SegB(s) == <<"seg", s, "b">>      \* last file written (meta)

Man(m) == Chunk([kind |-> "man", m |-> m], 2)
SegChunk(s) == Chunk([kind |-> "seg", s |-> s], 2)
RecAdd(id, ver) == Chunk([kind |-> "add", id |-> id, ver |-> ver], 2)
RecDel(id) == Chunk([kind |-> "del", id |-> id], 2)
RecMarker == Chunk([kind |-> "marker"], 2)

EmptyManifest == [contents |-> EmptyContents, segs |-> {}]

-----------------------------------------------------------------------------
(* Reading state back from a directory image  name -> content             *)

RECURSIVE ValidPrefix(_)
ValidPrefix(content) ==
  IF content = <<>> THEN <<>>
  ELSE IF Head(content).tag.kind \in {"add", "del", "marker"}
         THEN <<Head(content)>> \o ValidPrefix(Tail(content))
         ELSE <<>>

RECURSIVE AfterLastMarker(_, _)
AfterLastMarker(recs, acc) ==
  IF recs = <<>> THEN acc
  ELSE IF Head(recs).tag.kind = "marker" THEN AfterLastMarker(Tail(recs), <<>>)
  ELSE AfterLastMarker(Tail(recs),
         Append(acc, IF Head(recs).tag.kind = "add"
                       THEN AddOp(Head(recs).tag.id, Head(recs).tag.ver)
                       ELSE DelOp(Head(recs).tag.id)))

PendingOf(walContent) == AfterLastMarker(ValidPrefix(walContent), <<>>)

GoodManifest(img) ==
  /\ MANIFEST \in DOMAIN img
  /\ Len(img[MANIFEST]) = 1
  /\ img[MANIFEST][1].tag.kind = "man"

ManifestOf(img) == img[MANIFEST][1].tag.m

Openable(img) ==
  /\ GoodManifest(img)
  /\ \A s \in ManifestOf(img).segs :
        /\ SegA(s) \in DOMAIN img /\ img[SegA(s)] = <<SegChunk(s)>>
        /\ SegB(s) \in DOMAIN img /\ img[SegB(s)] = <<SegChunk(s)>>

RecoveredContents(img) == ManifestOf(img).contents
RecoveredPending(img) == IF WAL \in DOMAIN img THEN PendingOf(img[WAL]) ELSE <<>>

-----------------------------------------------------------------------------
(* Crash images                                                            *)

Dirty == {i \in DOMAIN fs.files : fs.files[i].ops # <<>>}

Choices(i) == {c \in (0..Len(fs.files[i].ops)) \X {0, 1} : LegalData(fs.files[i], c[1], c[2])}

Selections == {sel \in [Dirty -> UNION {Choices(i) : i \in Dirty}] :
                 \A i \in Dirty : sel[i] \in Choices(i)}

ImageOf(j, sel) ==
  LET d == DirPrefix(fs, base, j) IN
  [n \in DOMAIN d |->
     LET i == d[n] IN
     IF i \in Dirty THEN DataPrefix(fs.files[i], sel[i][1], sel[i][2])
     ELSE fs.files[i].synced]

CrashImages == {ImageOf(j, sel) : j \in fs.dur..Len(fs.dirLog), sel \in Selections}

VolatileImage == [n \in DOMAIN fs.vdir |-> VolContent(fs.files[fs.vdir[n]])]

-----------------------------------------------------------------------------
(* Micro-steps                                                             *)

Op(o, n, x) == [o |-> o, n |-> n, x |-> x]

StoreManifest(m) ==
  <<Op("create", TMP, 0), Op("write", TMP, Man(m))>>
  \o (IF Bug = "no_tmp_fsync" THEN <<>> ELSE <<Op("fsync", TMP, 0)>>)
  \o <<Op("rename", TMP, MANIFEST)>>
  \o (IF Bug = "no_dir_fsync" THEN <<>> ELSE <<Op("fsyncdir", TMP, 0)>>)

WriteSegment(s) ==
  <<Op("create", SegA(s), 0), Op("write", SegA(s), SegChunk(s))>>
  \o (IF Bug = "no_seg_fsync" THEN <<>> ELSE <<Op("fsync", SegA(s), 0)>>)
  \o <<Op("create", SegB(s), 0), Op("write", SegB(s), SegChunk(s)), Op("fsync", SegB(s), 0)>>

RECURSIVE UnlinkSegs(_)
UnlinkSegs(S) ==
  IF S = {} THEN <<>>
  ELSE LET s == CHOOSE x \in S : TRUE IN
       <<Op("unlink", SegA(s), 0), Op("unlink", SegB(s), 0)>> \o UnlinkSegs(S \ {s})

(* IndexWriter::commit *)
CommitProg ==
  LET newc == Fold(hpend, mem.contents)
      addsRemain == \E id \in DOMAIN newc : \E i \in DOMAIN hpend :
                       hpend[i].t = "add" /\ hpend[i].id = id /\ hpend[i].ver = newc[id]
      s == nseg
      newm == [contents |-> newc, segs |-> IF addsRemain THEN mem.segs \cup {s} ELSE mem.segs]
      seg == IF addsRemain THEN WriteSegment(s) ELSE <<>>
      marker == <<Op("write", WAL, RecMarker), Op("fsync", WAL, 0)>>
      store == StoreManifest(newm)
  IN <<Op("fsync", WAL, 0)>>
     \o seg
     \o (IF Bug = "marker_first" THEN marker \o store ELSE store \o marker)
     \o <<Op("publish", MANIFEST, newm), Op("setlen", WAL, 0), Op("fsync", WAL, 0),
          Op("clearpending", WAL, 0), Op("ack", WAL, "commit")>>

(* Index::compact : re-ingest live docs into one new segment *)
CompactProg ==
  LET s == nseg
      newm == [contents |-> mem.contents, segs |-> {s}]
      cleanup == UnlinkSegs(mem.segs)
      store == StoreManifest(newm) \o <<Op("publish", MANIFEST, newm)>>
  IN WriteSegment(s)
     \o (IF Bug = "cleanup_before_store" THEN cleanup \o store ELSE store \o cleanup)
     \o <<Op("ack", WAL, "compact")>>

RollbackProg ==
  <<Op("clearpending", WAL, 0), Op("setlen", WAL, 0), Op("fsync", WAL, 0), Op("ack", WAL, "rollback")>>

(* IndexWriter::new : read pending from the log, then trim a torn tail (fix b87d475) *)
NewWriterProg ==
  LET content == IF WAL \in DOMAIN fs.vdir THEN VolContent(fs.files[fs.vdir[WAL]]) ELSE <<>>
      valid == ContentLen(ValidPrefix(content))
  IN <<Op("loadpending", WAL, 0), Op("openappend", WAL, 0)>>
     \o (IF ContentLen(content) > valid /\ Bug # "no_trim"
           THEN <<Op("setlen", WAL, valid), Op("fsync", WAL, 0)>> ELSE <<>>)
     \o <<Op("ack", WAL, "new_writer")>>

DropProg ==
  (IF hpend # <<>> /\ Bug # "no_drop_sync" THEN <<Op("fsync", WAL, 0)>> ELSE <<>>)
  \o <<Op("killhandle", WAL, 0), Op("ack", WAL, "drop")>>

-----------------------------------------------------------------------------
Init ==
  LET f0 == FsFsyncDir(FsFsync(FsWrite(FsCreate(EmptyFs, MANIFEST), 1, Man(EmptyManifest)), 1)) IN
  /\ fs = f0
  /\ base = f0.vdir
  /\ mem = EmptyManifest
  /\ hpend = <<>> /\ hlive = FALSE
  /\ prog = <<>> /\ cur = "none"
  /\ acked = EmptyContents /\ queue = <<>> /\ synced = 0
  /\ nver = 1 /\ nseg = 1 /\ ncalls = 0 /\ ncrash = 0

Idle == prog = <<>>

Start(name, p) ==
  /\ Idle /\ ncalls < MaxCalls
  /\ prog' = p /\ cur' = name /\ ncalls' = ncalls + 1

CallNewWriter ==
  /\ ~hlive /\ Start("new_writer", NewWriterProg)
  /\ UNCHANGED <<fs, base, mem, hpend, hlive, acked, queue, synced, nver, nseg, ncrash>>

CallAdd(id) ==
  /\ hlive /\ Start("add", <<Op("write", WAL, RecAdd(id, nver)), Op("pushpending", WAL, AddOp(id, nver)),
                              Op("ack", WAL, "add")>>)
  /\ queue' = Append(queue, AddOp(id, nver))
  /\ nver' = nver + 1
  /\ UNCHANGED <<fs, base, mem, hpend, hlive, acked, synced, nseg, ncrash>>

CallDelete(id) ==
  /\ hlive /\ Start("delete", <<Op("write", WAL, RecDel(id)), Op("pushpending", WAL, DelOp(id)),
                                 Op("ack", WAL, "delete")>>)
  /\ queue' = Append(queue, DelOp(id))
  /\ UNCHANGED <<fs, base, mem, hpend, hlive, acked, synced, nver, nseg, ncrash>>

CallCommit ==
  /\ hlive /\ hpend # <<>> /\ Start("commit", CommitProg)
  /\ nseg' = nseg + 1
  /\ UNCHANGED <<fs, base, mem, hpend, hlive, acked, queue, synced, nver, ncrash>>

CallRollback ==
  /\ hlive /\ Start("rollback", RollbackProg)
  /\ UNCHANGED <<fs, base, mem, hpend, hlive, acked, queue, synced, nver, nseg, ncrash>>

CallCompact ==
  /\ Cardinality(mem.segs) > 1 /\ Start("compact", CompactProg)
  /\ nseg' = nseg + 1
  /\ UNCHANGED <<fs, base, mem, hpend, hlive, acked, queue, synced, nver, ncrash>>

CallDrop ==
  /\ hlive /\ Start("drop", DropProg)
  /\ UNCHANGED <<fs, base, mem, hpend, hlive, acked, queue, synced, nver, nseg, ncrash>>

(* one primitive step of the call in flight *)
Micro ==
  /\ prog # <<>>
  /\ prog' = Tail(prog)
  /\ LET op == Head(prog) IN
     /\ fs' = CASE op.o = "create" -> FsCreate(fs, op.n)
                [] op.o = "openappend" -> FsOpenAppend(fs, op.n)
                [] op.o = "write" -> FsWrite(fs, fs.vdir[op.n], op.x)
                [] op.o = "fsync" -> FsFsync(fs, fs.vdir[op.n])
                [] op.o = "setlen" -> FsSetLen(fs, fs.vdir[op.n], op.x)
                [] op.o = "rename" -> FsRename(fs, op.n, op.x)
                [] op.o = "fsyncdir" -> FsFsyncDir(fs)
                [] op.o = "unlink" -> FsUnlink(fs, op.n)
                [] OTHER -> fs
     /\ mem' = IF op.o = "publish" THEN op.x ELSE mem
     /\ hpend' = CASE op.o = "pushpending" -> Append(hpend, op.x)
                   [] op.o = "clearpending" -> <<>>
                   [] op.o = "loadpending" -> PendingOf(IF WAL \in DOMAIN fs.vdir
                                                          THEN VolContent(fs.files[fs.vdir[WAL]]) ELSE <<>>)
                   [] op.o = "killhandle" -> <<>>
                   [] OTHER -> hpend
     /\ hlive' = CASE op.o = "ack" /\ op.x = "new_writer" -> TRUE
                   [] op.o = "killhandle" -> FALSE
                   [] OTHER -> hlive
     /\ acked' = IF op.o = "ack" /\ op.x = "commit" THEN Fold(queue, acked) ELSE acked
     /\ queue' = IF op.o = "ack" /\ op.x \in {"commit", "rollback"} THEN <<>> ELSE queue
     /\ synced' = CASE op.o = "ack" /\ op.x \in {"commit", "rollback"} -> 0
                    [] op.o = "ack" /\ op.x = "drop" -> Len(queue)
                    [] op.o = "fsync" /\ op.n = WAL -> Len(queue)
                    [] OTHER -> synced
     /\ cur' = IF op.o = "ack" THEN "none" ELSE cur
  /\ UNCHANGED <<base, nver, nseg, ncalls, ncrash>>

(* the machine dies; the next process starts from one of the crash images *)
Crash ==
  /\ ncrash < MaxCrashes
  /\ \E j \in fs.dur..Len(fs.dirLog), sel \in Selections :
       LET img == ImageOf(j, sel)
           d == DirPrefix(fs, base, j)
       IN /\ GoodManifest(img)        \* (an image that does not open is reported by C01_CrashSafe)
          /\ fs' = [vdir |-> d,
                    files |-> [i \in DOMAIN fs.files |->
                                 [synced |-> IF i \in Dirty THEN DataPrefix(fs.files[i], sel[i][1], sel[i][2])
                                             ELSE fs.files[i].synced,
                                  ops |-> <<>>]],
                    dirLog |-> <<>>, dur |-> 0, link |-> [x \in {} |-> 0]]
          /\ base' = d
          /\ mem' = ManifestOf(img)
          /\ acked' = RecoveredContents(img)
          /\ queue' = RecoveredPending(img)
          /\ synced' = Len(RecoveredPending(img))
  /\ hpend' = <<>> /\ hlive' = FALSE /\ prog' = <<>> /\ cur' = "none"
  /\ ncrash' = ncrash + 1
  /\ UNCHANGED <<nver, nseg, ncalls>>

Next ==
  \/ CallNewWriter \/ CallCommit \/ CallRollback \/ CallCompact \/ CallDrop
  \/ \E id \in IdSet : CallAdd(id) \/ CallDelete(id)
  \/ Micro
  \/ Crash

Spec == Init /\ [][Next]_dvars

-----------------------------------------------------------------------------
(* Properties                                                              *)

InFlight == Fold(queue, acked)

C01_CrashSafe ==
  \A img \in CrashImages :
     /\ Openable(img)
     /\ \/ RecoveredContents(img) = acked
        \/ cur = "commit" /\ RecoveredContents(img) = InFlight

C02_QueueRecovered ==
  \A img \in CrashImages :
     Openable(img) =>
       LET c == RecoveredContents(img)
           p == RecoveredPending(img)
       IN \/ /\ c = acked
             /\ \/ \E k \in synced..Len(queue) : p = SubSeq(queue, 1, k)
                \/ cur = "rollback" /\ p = <<>>
          \/ cur = "commit" /\ c = InFlight /\ Fold(p, c) = c

(* without a crash: what a reader / a reopen sees is the acknowledged state *)
VolatileConsistent ==
  Idle => /\ Openable(VolatileImage)
          /\ RecoveredContents(VolatileImage) = acked
          /\ mem.contents = acked
          /\ hlive => hpend = queue

=============================================================================
