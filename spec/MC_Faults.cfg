SPECIFICATION Spec
CONSTANTS
  IdSet = {"a", "b"}
  MaxCalls = 5
  MaxFaults = 1
  Dev = {}
  Bug = "none"
INVARIANT FailAtomic
INVARIANT NoDangling
INVARIANT UndoFailureBounded
CHECK_DEADLOCK FALSE
