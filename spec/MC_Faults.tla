----------------------------- MODULE MC_Faults -----------------------------
(***************************************************************************)
(* C03 - storage errors leave the committed state unchanged or fully      *)
(* applied.  Bounded model of the write path of searchlite with a Fail    *)
(* choice on every storage micro-step.                                    *)
(*                                                                         *)
(* The micro-step machinery is that of MC_Durability.tla (every public    *)
(* call compiled into the primitive storage operations of api/writer.rs,  *)
(* index/mod.rs, storage/mod.rs over the file system of Storage.tla), with*)
(* two additions:                                                          *)
(*  * every step carries `fail`, the program that runs instead of the     *)
(*    rest of the call when the step fails: `return Err` for a `?`, the   *)
(*    rest of the call for an ignored error (`let _ =`, logged errors),   *)
(*    and for the store-manifest / commit-marker / log-sync steps of      *)
(*    commit the error branch of writer.rs spelled out:                   *)
(*      truncate_to(pre-commit length)   (failure logged, go on)          *)
(*      re-store the old manifest        (failure logged, go on)          *)
(*      delete the new segment files     (errors ignored)                 *)
(*      return Err                                                         *)
(*    so that a second failure inside the undo path is representable;     *)
(*  * action MicroFail: a storage step fails BEFORE its effect (nothing   *)
(*    happened) or AFTER it (the effect happened, an error is reported).  *)
(*    A failure between two primitives of one atomic_write (e.g. after    *)
(*    the tmp file was written, before the rename) is included.           *)
(* There is no crash here: the invariants read the VOLATILE image.        *)
(*                                                                         *)
(* Dev  \subseteq {"S03a", "S03b"}  switches on what the code does today: *)
(*   S03a  the new segment files are deleted even when re-storing the old *)
(*         manifest failed (ideal: only when the old manifest is back);   *)
(*   S03b  a failure of the log truncation AFTER publication makes commit *)
(*         return Err (ideal: logged; the commit is complete, return Ok). *)
(* Bug switches on one protocol mutation (non-vacuity of the invariants). *)
(*                                                                         *)
(* Ghosts as in Trace_Fault.tla: acked, queues (a SET of operation lists: *)
(* the operations of an add/delete that returned Err may or may not be    *)
(* queued; a rollback that returned Err may or may not have discarded the *)
(* queue), target (result of the commit in flight), tainted (a commit     *)
(* suffered a second failure in its own undo path: only NoDangling and    *)
(* UndoFailureBounded are demanded from then on - see Trace_Fault.tla).   *)
(***************************************************************************)
EXTENDS IndexOps, Storage, TLC

CONSTANTS IdSet, MaxCalls, MaxFaults, Dev, Bug

VARIABLES fs, mem, hpend, hlive, prog, cur,
          acked, queues, target, tainted,
          nver, nseg, ncalls, nfail, cfail

fvars == <<fs, mem, hpend, hlive, prog, cur, acked, queues, target, tainted,
           nver, nseg, ncalls, nfail, cfail>>

MANIFEST == <<"MANIFEST">>
TMP == <<"MANIFEST.tmp">>
WAL == <<"wal">>
SegA(s) == <<"seg", s, "a">>      \* first file written (docstore)
SegB(s) == <<"seg", s, "b">>      \* last file written (meta)

Man(m) == Chunk([kind |-> "man", m |-> m], 2)
SegChunk(s) == Chunk([kind |-> "seg", s |-> s], 2)
RecAdd(id, ver) == Chunk([kind |-> "add", id |-> id, ver |-> ver], 2)
RecDel(id) == Chunk([kind |-> "del", id |-> id], 2)
RecMarker == Chunk([kind |-> "marker"], 2)

EmptyManifest == [contents |-> EmptyContents, segs |-> {}]

-----------------------------------------------------------------------------
(* Reading state back from a directory image  name -> content (as in       *)
(* MC_Durability.tla)                                                      *)

RECURSIVE ValidPrefix(_)
ValidPrefix(content) ==
  IF content = <<>> THEN <<>>
  ELSE IF Head(content).tag.kind \in {"add", "del", "marker"}
         THEN <<Head(content)>> \o ValidPrefix(Tail(content))
         ELSE <<>>

RECURSIVE AfterLastMarker(_, _)
AfterLastMarker(recs, acc) ==
  IF recs = <<>> THEN acc
  ELSE IF Head(recs).tag.kind = "marker" THEN AfterLastMarker(Tail(recs), <<>>)
  ELSE AfterLastMarker(Tail(recs),
         Append(acc, IF Head(recs).tag.kind = "add"
                       THEN AddOp(Head(recs).tag.id, Head(recs).tag.ver)
                       ELSE DelOp(Head(recs).tag.id)))

PendingOf(walContent) == AfterLastMarker(ValidPrefix(walContent), <<>>)

GoodManifest(img) ==
  /\ MANIFEST \in DOMAIN img
  /\ Len(img[MANIFEST]) = 1
  /\ img[MANIFEST][1].tag.kind = "man"

ManifestOf(img) == img[MANIFEST][1].tag.m

SegsPresent(img, segs) ==
  \A s \in segs :
     /\ SegA(s) \in DOMAIN img /\ img[SegA(s)] = <<SegChunk(s)>>
     /\ SegB(s) \in DOMAIN img /\ img[SegB(s)] = <<SegChunk(s)>>

Openable(img) == GoodManifest(img) /\ SegsPresent(img, ManifestOf(img).segs)

RecoveredContents(img) == ManifestOf(img).contents
RecoveredPending(img) == IF WAL \in DOMAIN img THEN PendingOf(img[WAL]) ELSE <<>>

VolatileImage == [n \in DOMAIN fs.vdir |-> VolContent(fs.files[fs.vdir[n]])]

WalContent == IF WAL \in DOMAIN fs.vdir THEN VolContent(fs.files[fs.vdir[WAL]]) ELSE <<>>

-----------------------------------------------------------------------------
(* Programs: sequences of steps [o, n, x, fail]                            *)

St(o, n, x) == [o |-> o, n |-> n, x |-> x, fail |-> <<>>]
AckOk == St("ack", WAL, "ok")
AckErr == St("ack", WAL, "err")
RetErr == <<AckErr>>

(* every step of `steps` continues with `cont` when it fails               *)
OnFail(steps, cont) == [i \in DOMAIN steps |-> [steps[i] EXCEPT !.fail = cont]]

(* errors ignored step by step: a failing step is followed by the rest     *)
RECURSIVE Ignoring(_, _)
Ignoring(steps, rest) ==
  IF steps = <<>> THEN rest
  ELSE LET tl == Ignoring(Tail(steps), rest) IN <<[Head(steps) EXCEPT !.fail = tl]>> \o tl

StoreManifest(m) ==
  <<St("create", TMP, 0), St("write", TMP, Man(m)), St("fsync", TMP, 0),
    St("rename", TMP, MANIFEST), St("fsyncdir", TMP, 0)>>

WriteSegment(s) ==
  <<St("create", SegA(s), 0), St("write", SegA(s), SegChunk(s)), St("fsync", SegA(s), 0),
    St("create", SegB(s), 0), St("write", SegB(s), SegChunk(s)), St("fsync", SegB(s), 0)>>

RECURSIVE UnlinkSegs(_)
UnlinkSegs(S) ==
  IF S = {} THEN <<>>
  ELSE LET s == CHOOSE x \in S : TRUE IN
       <<St("unlink", SegA(s), 0), St("unlink", SegB(s), 0)>> \o UnlinkSegs(S \ {s})

(* IndexWriter::commit (writer.rs) *)
CommitProg ==
  LET newc == Fold(hpend, mem.contents)
      addsRemain == \E id \in DOMAIN newc : \E i \in DOMAIN hpend :
                       hpend[i].t = "add" /\ hpend[i].id = id /\ hpend[i].ver = newc[id]
      s == nseg
      newSegs == IF addsRemain THEN {s} ELSE {}
      oldm == mem
      newm == [contents |-> newc, segs |-> mem.segs \cup newSegs]
      walLen == ContentLen(WalContent)
      (* after publication *)
      done == <<St("clearpending", WAL, 0), AckOk>>
      trunc == OnFail(<<St("setlen", WAL, 0), St("fsync", WAL, 0)>>,
                      IF "S03b" \in Dev THEN RetErr ELSE done)
      publish == <<St("publish", MANIFEST, newm)>>
      (* the error branch, back to front *)
      cleanup == Ignoring(UnlinkSegs(newSegs), RetErr)
      restoreFailed == IF "S03a" \in Dev THEN cleanup ELSE RetErr
      restore == IF Bug = "no_restore" THEN cleanup
                 ELSE OnFail(StoreManifest(oldm), restoreFailed) \o cleanup
      errBranch == IF Bug = "no_truncate_back" THEN restore
                   ELSE OnFail(<<St("setlen", WAL, walLen), St("fsync", WAL, 0)>>, restore) \o restore
      store == OnFail(StoreManifest(newm)
                      \o <<St("write", WAL, RecMarker), St("fsync", WAL, 0)>>, errBranch)
      seg == IF addsRemain THEN OnFail(WriteSegment(s), RetErr) ELSE <<>>
      sync == OnFail(<<St("fsync", WAL, 0)>>, RetErr)
  IN IF Bug = "publish_first"
       THEN sync \o seg \o publish \o store \o trunc \o done
       ELSE sync \o seg \o store \o publish \o trunc \o done

(* Index::compact (index/mod.rs): the in-memory manifest is assigned before *)
(* the store; old files are deleted after it, errors ignored                 *)
CompactProg ==
  LET s == nseg
      newm == [contents |-> mem.contents, segs |-> {s}]
      fin == <<AckOk>>
      cleanup == Ignoring(UnlinkSegs(mem.segs), fin)
      store == OnFail(StoreManifest(newm), RetErr)
      head == OnFail(<<St("read", MANIFEST, 0)>> \o WriteSegment(s), RetErr)
              \o <<St("publish", MANIFEST, newm)>>
  IN IF Bug = "compact_cleanup_first"
       THEN head \o Ignoring(UnlinkSegs(mem.segs), store \o fin)
       ELSE head \o store \o cleanup

(* IndexWriter::rollback: pending cleared first, then the log is cut        *)
RollbackProg ==
  <<St("clearpending", WAL, 0)>>
  \o OnFail(<<St("setlen", WAL, 0), St("fsync", WAL, 0)>>, RetErr)
  \o <<AckOk>>

(* IndexWriter::new: read the log, open it for appending, read it again     *)
(* (valid_len); no torn tail without a crash                                *)
NewWriterProg ==
  OnFail(<<St("read", WAL, 0), St("openappend", WAL, 0), St("read", WAL, 0)>>, RetErr)
  \o <<St("loadpending", WAL, 0), St("sethandle", WAL, 0), AckOk>>

AddProg(chunk, op) ==
  OnFail(<<St("write", WAL, chunk)>>, RetErr) \o <<St("pushpending", WAL, op), AckOk>>

(* Drop: the log is synced when something is pending; its error is printed  *)
DropProg ==
  LET fin == <<St("killhandle", WAL, 0), AckOk>> IN
  (IF hpend # <<>> THEN OnFail(<<St("fsync", WAL, 0)>>, fin) ELSE <<>>) \o fin

-----------------------------------------------------------------------------
Init ==
  LET f0 == FsFsyncDir(FsFsync(FsWrite(FsCreate(EmptyFs, MANIFEST), 1, Man(EmptyManifest)), 1)) IN
  /\ fs = f0
  /\ mem = EmptyManifest
  /\ hpend = <<>> /\ hlive = FALSE
  /\ prog = <<>> /\ cur = [op |-> "none", ops |-> <<>>]
  /\ acked = EmptyContents /\ queues = {<<>>} /\ target = EmptyContents /\ tainted = FALSE
  /\ nver = 1 /\ nseg = 1 /\ ncalls = 0 /\ nfail = 0 /\ cfail = 0

Idle == prog = <<>>

Start(name, ops, p) ==
  /\ Idle /\ ncalls < MaxCalls
  /\ prog' = p /\ cur' = [op |-> name, ops |-> ops] /\ ncalls' = ncalls + 1
  /\ cfail' = 0
  /\ UNCHANGED <<fs, mem, hpend, hlive, acked, queues, tainted, nfail>>

CallNewWriter ==
  /\ ~hlive /\ Start("new_writer", <<>>, NewWriterProg)
  /\ UNCHANGED <<target, nver, nseg>>

CallAdd(id) ==
  /\ hlive /\ Start("add", <<AddOp(id, nver)>>, AddProg(RecAdd(id, nver), AddOp(id, nver)))
  /\ nver' = nver + 1
  /\ UNCHANGED <<target, nseg>>

CallDelete(id) ==
  /\ hlive /\ Start("delete", <<DelOp(id)>>, AddProg(RecDel(id), DelOp(id)))
  /\ UNCHANGED <<target, nver, nseg>>

CallCommit ==
  /\ hlive /\ hpend # <<>> /\ Start("commit", <<>>, CommitProg)
  /\ target' = Fold(hpend, acked)
  /\ nseg' = nseg + 1
  /\ UNCHANGED nver

CallRollback ==
  /\ hlive /\ Start("rollback", <<>>, RollbackProg)
  /\ UNCHANGED <<target, nver, nseg>>

CallCompact ==
  /\ Cardinality(mem.segs) > 1 /\ Start("compact", <<>>, CompactProg)
  /\ nseg' = nseg + 1
  /\ UNCHANGED <<target, nver>>

CallDrop ==
  /\ hlive /\ Start("drop", <<>>, DropProg)
  /\ UNCHANGED <<target, nver, nseg>>

StorageOps == {"create", "openappend", "write", "fsync", "setlen", "rename", "fsyncdir", "unlink", "read"}

Effect(op) ==
  CASE op.o = "create" -> FsCreate(fs, op.n)
    [] op.o = "openappend" -> FsOpenAppend(fs, op.n)
    [] op.o = "write" -> FsWrite(fs, fs.vdir[op.n], op.x)
    [] op.o = "fsync" -> FsFsync(fs, fs.vdir[op.n])
    [] op.o = "setlen" -> FsSetLen(fs, fs.vdir[op.n], op.x)
    [] op.o = "rename" -> FsRename(fs, op.n, op.x)
    [] op.o = "fsyncdir" -> FsFsyncDir(fs)
    [] op.o = "unlink" -> FsUnlink(fs, op.n)
    [] OTHER -> fs

Prefixes(s) == {SubSeq(s, 1, k) : k \in 0..Len(s)}

(* ghost bookkeeping when the call returns *)
Ack(res) ==
  /\ acked' = IF cur.op = "commit" /\ res = "ok" THEN target ELSE acked
  /\ queues' =
       CASE cur.op \in {"add", "delete"} ->
              IF res = "ok" THEN {q \o cur.ops : q \in queues}
              ELSE {q \o p : q \in queues, p \in Prefixes(cur.ops)}
         [] cur.op = "commit" -> IF res = "ok" THEN {<<>>} ELSE queues
         [] cur.op = "rollback" -> IF res = "ok" THEN {<<>>} ELSE queues \cup {<<>>}
         [] OTHER -> queues
  /\ tainted' = (tainted \/ (cur.op = "commit" /\ res = "err" /\ cfail >= 2))

(* one step of the call in flight, succeeding *)
Micro ==
  /\ prog # <<>>
  /\ LET op == Head(prog) IN
     /\ prog' = Tail(prog)
     /\ fs' = Effect(op)
     /\ mem' = IF op.o = "publish" THEN op.x ELSE mem
     /\ hpend' = CASE op.o = "pushpending" -> Append(hpend, op.x)
                   [] op.o = "clearpending" -> <<>>
                   [] op.o = "loadpending" -> PendingOf(WalContent)
                   [] op.o = "killhandle" -> <<>>
                   [] OTHER -> hpend
     /\ hlive' = CASE op.o = "sethandle" -> TRUE
                   [] op.o = "killhandle" -> FALSE
                   [] OTHER -> hlive
     /\ IF op.o = "ack" THEN Ack(op.x) ELSE UNCHANGED <<acked, queues, tainted>>
  /\ UNCHANGED <<cur, target, nver, nseg, ncalls, nfail, cfail>>

(* the step fails: before its effect, or after it *)
MicroFail ==
  /\ prog # <<>>
  /\ nfail < MaxFaults
  /\ Head(prog).o \in StorageOps
  /\ \E when \in {"before", "after"} :
        fs' = IF when = "after" THEN Effect(Head(prog)) ELSE fs
  /\ prog' = Head(prog).fail
  /\ nfail' = nfail + 1 /\ cfail' = cfail + 1
  /\ UNCHANGED <<mem, hpend, hlive, cur, acked, queues, target, tainted, nver, nseg, ncalls>>

Next ==
  \/ CallNewWriter \/ CallCommit \/ CallRollback \/ CallCompact \/ CallDrop
  \/ \E id \in IdSet : CallAdd(id) \/ CallDelete(id)
  \/ Micro
  \/ MicroFail

Spec == Init /\ [][Next]_fvars

-----------------------------------------------------------------------------
(* Properties (volatile view, no crash)                                    *)

Results == {Fold(q, acked) : q \in queues}

(* FailAtomic: between calls, what a new reader sees and what a reopen      *)
(* sees is the acknowledged contents - a call that returned Err changed     *)
(* nothing, a commit that returned Ok is completely applied - and the       *)
(* queued operations are still there, in the handle and in the log.         *)
FailAtomic ==
  (Idle /\ ~tainted) =>
     /\ mem.contents = acked
     /\ SegsPresent(VolatileImage, mem.segs)           \* a new reader can open its segments
     /\ GoodManifest(VolatileImage) => RecoveredContents(VolatileImage) = acked
     /\ RecoveredPending(VolatileImage) \in queues
     /\ hlive => hpend \in queues

(* NoDangling: after <= MaxFaults failures the on-disk index opens and      *)
(* refers only to files that exist                                          *)
NoDangling == Idle => Openable(VolatileImage)

(* a second failure inside the undo path of one commit: in-memory contents  *)
(* unchanged, reopened contents old or the commit's complete result         *)
UndoFailureBounded ==
  (Idle /\ tainted) =>
     /\ mem.contents = acked
     /\ GoodManifest(VolatileImage) => RecoveredContents(VolatileImage) \in {acked, target}

=============================================================================
