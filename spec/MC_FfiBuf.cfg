SPECIFICATION Spec
CONSTANTS
  MaxCap = 8
  MaxLen = 8
  Guard = 2
  Variant = "ideal"
INVARIANT TypeOK
INVARIANT NoWriteOutside
INVARIANT GuardsIntact
INVARIANT CopyProgress
INVARIANT AtReturn
INVARIANT ReturnValue
CHECK_DEADLOCK FALSE
