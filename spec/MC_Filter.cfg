SPECIFICATION Spec
CONSTANTS
  Layout = "global"
  Deep = FALSE
  Wide = FALSE
INVARIANT FlatEqualsTree
CHECK_DEADLOCK FALSE
