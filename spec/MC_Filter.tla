----------------------------- MODULE MC_Filter ------------------------------
(***************************************************************************)
(* C08, design level: the implementation does not evaluate filters over   *)
(* the document tree but over *flattened columns* (index/segment.rs       *)
(* collect_nested, query/filters.rs): per nested path the number of       *)
(* objects, for each object the index of its parent object, and for each  *)
(* (path.field) one value list per object.  This module defines that      *)
(* representation (Flatten) and its evaluator (PassesFlat, a transcription *)
(* of filters.rs) and checks, for EVERY document with up to 2 comments x 2 *)
(* replies and EVERY filter of a small grammar, that                       *)
(*        PassesFlat(Flatten(doc), f) = Passes(doc, f)                    *)
(* where Passes is the declarative tree semantics of Search.tla.          *)
(* With Layout = "restart" (object indices restart at 0 for every child   *)
(* array: the code before fix 27afb00, finding S08a) the equation must be *)
(* refuted; with Layout = "global" it must hold.                          *)
(***************************************************************************)
EXTENDS Search

CONSTANTS Layout, Deep, Wide

Names == {"x", "y"}
D0 == [s \in Names |-> [cp |-> <<>>, lc |-> s, alc |-> s]]

Reply(u, v) == [kw |-> << [f |-> "user", vals |-> u] >>, i64 |-> << [f |-> "votes", vals |-> v] >>,
                f64 |-> <<>>, nested |-> <<>>]
Replies == {Reply(u, v) : u \in {<<>>, <<"x">>, <<"y">>}, v \in {<<1>>, <<2>>}}
ReplyLists == {<<>>} \cup {<<r>> : r \in Replies} \cup (IF Deep THEN {<<r, s>> : r \in Replies, s \in Replies} ELSE {})

Comment(a, rs) == [kw |-> << [f |-> "author", vals |-> a] >>, i64 |-> <<>>, f64 |-> <<>>,
                   nested |-> << [path |-> "replies", objs |-> rs] >>]
Comments == {Comment(a, rs) : a \in {<<"x">>, <<"y">>}, rs \in ReplyLists}
CommentLists == {<<>>} \cup {<<c>> : c \in Comments} \cup {<<c, d>> : c \in Comments, d \in Comments}

DocOf(cs) == [kw |-> <<>>, i64 |-> <<>>, f64 |-> <<>>, nested |-> << [path |-> "comments", objs |-> cs] >>]

(* filters *)
KwEq(f, v) == [k |-> "kweq", f |-> f, vs |-> <<v>>]
Rng(f, a, b) == [k |-> "i64r", f |-> f, min |-> a, max |-> b]
Nest(p, g) == [k |-> "nested", path |-> p, g |-> g]
And2(a, b) == [k |-> "and", gs |-> <<a, b>>]
Not1(a) == [k |-> "not", g |-> a]

ReplyLeaves == {KwEq("user", "x"), KwEq("user", "y"), Rng("votes", 1, 1), Rng("votes", 2, 2)}
ReplyF == ReplyLeaves \cup {And2(a, b) : a \in ReplyLeaves, b \in ReplyLeaves} \cup {Not1(a) : a \in ReplyLeaves}
CommentLeaves == {KwEq("author", "x"), KwEq("author", "y")} \cup {Nest("replies", g) : g \in ReplyLeaves}
CommentF == CommentLeaves \cup {And2(a, b) : a \in CommentLeaves, b \in CommentLeaves}
            \cup {Not1(a) : a \in CommentLeaves}
RootLeaves == {Nest("comments", g) : g \in CommentF}
RootAndArgs == IF Wide THEN RootLeaves ELSE {Nest("comments", g) : g \in CommentLeaves}
RootF == RootLeaves \cup {And2(a, b) : a \in RootAndArgs, b \in RootAndArgs} \cup {Not1(a) : a \in RootLeaves}

-----------------------------------------------------------------------------
(* Flattening.  flat = [count : path -> Nat, parent : path -> Seq(Nat),    *)
(* col : <<path, field, kind>> -> Seq(values) ] ; parent 0 = none.         *)

RECURSIVE PadTo(_, _)
PadTo(s, n) == IF Len(s) >= n THEN s ELSE PadTo(Append(s, <<>>), n)

SetCol(col, idx, vals) == [PadTo(col, idx) EXCEPT ![idx] = @ \o vals]

(* replies of comment number ci (1-based) *)
RECURSIVE AddReplies(_, _, _, _)
AddReplies(flat, rs, ci, k) ==
  IF k > Len(rs) THEN flat
  ELSE LET base == IF Layout = "global" THEN flat.base ELSE 0
           idx == base + k
           f1 == [flat EXCEPT !.user = SetCol(@, idx, Vals(rs[k].kw, "user")),
                              !.votes = SetCol(@, idx, Vals(rs[k].i64, "votes"))]
       IN AddReplies(f1, rs, ci, k + 1)

RECURSIVE AddComments(_, _, _)
AddComments(flat, cs, ci) ==
  IF ci > Len(cs) THEN flat
  ELSE LET rs == Objs(cs[ci].nested, "replies")
           base == IF Layout = "global" THEN flat.rcount ELSE 0
           total == base + Len(rs)
           f0 == [flat EXCEPT !.base = base]
           f1 == IF rs = <<>> THEN f0
                 ELSE LET withReplies == AddReplies(f0, rs, ci, 1) IN
                      [withReplies EXCEPT
                         !.rcount = total,      \* nested_counts.insert(prefix, ...)
                         !.rparent = [i \in 1..MaxI(Len(@), total) |->
                                        IF i > base /\ i <= total THEN ci
                                        ELSE IF i <= Len(@) THEN @[i] ELSE 0]]
           f2 == [f1 EXCEPT !.author = Append(@, Vals(cs[ci].kw, "author"))]
       IN AddComments(f2, cs, ci + 1)

Flatten(doc) ==
  LET cs == Objs(doc.nested, "comments") IN
  AddComments([ccount |-> Len(cs), author |-> <<>>, rcount |-> 0, rparent |-> <<>>,
               user |-> <<>>, votes |-> <<>>, base |-> 0], cs, 1)

ColAt(col, idx) == IF idx \in DOMAIN col THEN col[idx] ELSE <<>>

(* transcription of filters.rs: level 0 = root, 1 = comments object, 2 = replies object *)
RECURSIVE PF(_, _, _, _)
GroupPF(flat, level, idx, path, gs) ==
  LET n == IF path = "comments" THEN flat.ccount ELSE flat.rcount IN
  \E i \in 1..n :
     /\ (level = 1) => (i \in DOMAIN flat.rparent /\ flat.rparent[i] = idx)
     /\ PF(flat, level + 1, i, [k |-> "and", gs |-> SetToSeq(gs)])

PF(flat, level, idx, g) ==
  CASE g.k = "kweq" ->
         LET vals == IF level = 1 THEN ColAt(flat.author, idx) ELSE ColAt(flat.user, idx) IN
         \E x \in SeqToSet(vals) : \E v \in SeqToSet(g.vs) : x = v
    [] g.k = "i64r" -> \E x \in SeqToSet(ColAt(flat.votes, idx)) : g.min <= x /\ x <= g.max
    [] g.k = "nested" -> GroupPF(flat, level, idx, g.path, {g.g})
    [] g.k = "not" -> ~PF(flat, level, idx, g.g)
    [] g.k = "and" ->
         LET kids == SeqToSet(g.gs)
             nest == {x \in kids : x.k = "nested"}
         IN /\ \A x \in kids \ nest : PF(flat, level, idx, x)
            /\ \A p \in {x.path : x \in nest} :
                 GroupPF(flat, level, idx, p, {x.g : x \in {y \in nest : y.path = p}})

VARIABLES doc, flt, phase
vars == <<doc, flt, phase>>
Init == doc = DocOf(<<>>) /\ flt = Not1(KwEq("author", "x")) /\ phase = 0
PickDoc == phase = 0 /\ phase' = 1 /\ UNCHANGED flt /\ doc' \in {DocOf(cs) : cs \in CommentLists}
PickFilter == phase = 1 /\ phase' = 2 /\ UNCHANGED doc /\ flt' \in RootF
Next == PickDoc \/ PickFilter
Spec == Init /\ [][Next]_vars

FlatEqualsTree == phase = 2 => PF(Flatten(doc), 0, 0, flt) = Passes(D0, doc, flt)
=============================================================================
