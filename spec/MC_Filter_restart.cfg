SPECIFICATION Spec
CONSTANTS
  Layout = "restart"
  Deep = FALSE
  Wide = FALSE
INVARIANT FlatEqualsTree
CHECK_DEADLOCK FALSE
