SPECIFICATION Spec
CONSTANTS
  IdSet = {"a", "b"}
  MaxOps = 5
  Variant = "ideal"
  PrintCases = FALSE
  Rejections = TRUE
VIEW View
INVARIANT EventualAgree
INVARIANT CommittedAgree
INVARIANT FfiLogHoldsDeletesOnly
CHECK_DEADLOCK FALSE
