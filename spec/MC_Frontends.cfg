SPECIFICATION Spec
CONSTANTS
  IdSet = {"a", " a", "b"}
  MaxOps = 4
  Variant = "ideal"
  PrintCases = FALSE
  Rejections = TRUE
VIEW View
INVARIANT EventualAgree
INVARIANT CommittedAgree
INVARIANT FfiLogHoldsDeletesOnly
CHECK_DEADLOCK FALSE
