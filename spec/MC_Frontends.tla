---------------------------- MODULE MC_Frontends ----------------------------
(***************************************************************************)
(* C25 at model level: one history, executed by every front end through    *)
(* the call sequence its invocations denote (Frontends!Effect), yields the *)
(* same contents.                                                          *)
(*                                                                         *)
(* The history is generated step by step (init is implicit): add/update of *)
(* 1-2 documents, a rejected single document, delete, commit.  Versions    *)
(* count up.  Invariant EventualAgree: in every state the contents each    *)
(* execution would show after a commit of everything queued                *)
(* (Fold(wal, committed)) are equal across executions - although cli/http  *)
(* queue until `commit` and the C API commits every document on its own.   *)
(* CommittedAgree: executions with the same commit discipline also agree   *)
(* on what is visible now.                                                 *)
(*                                                                         *)
(* Variant "ideal" must hold.  Non-vacuity: "S25a" (the CLI deletes the     *)
(* trimmed id, the HTTP service refuses a padded id), "S23a" (the HTTP     *)
(* built: a rejected add rolls the log back) and "ffi_commit_own_doc" (a C *)
(* add that would commit only its own document, not what the log holds)    *)
(* must be refuted.                                                        *)
(***************************************************************************)
EXTENDS Frontends, Sequences, FiniteSets, Json

CONSTANTS IdSet, MaxOps, Variant, PrintCases, Rejections

VARIABLES s,      \* execution -> [committed, wal]
          ver,    \* next version
          n,      \* operations so far
          hist    \* the operations so far (history variable, hidden by VIEW)

vars == <<s, ver, n, hist>>
View == <<s, ver, n>>

Exec == {"lib", "cli", "http", "ffi"}

Init ==
  /\ s = [fe \in Exec |-> InitState]
  /\ ver = 1
  /\ n = 0
  /\ hist = <<>>

(* A padded id: " a" is the id "a" with a leading blank. *)
Trim(id) == IF id = " a" THEN "a" ELSE id
IdRec(id) == [id |-> id, trimmed |-> Trim(id), padded |-> Trim(id) # id]

VEffect(fe, op, st) ==
  IF Variant = "S25a" /\ fe = "cli" /\ op.kind = "delete"
    THEN [st EXCEPT !.wal = @ \o DelOps(TrimmedIdsOf(op))]
  ELSE IF Variant = "S25a" /\ fe = "http" /\ op.kind = "delete" /\ AnyPadded(op)
    THEN st
  ELSE IF Variant = "S23a" /\ fe = "http" /\ op.kind \in {"add", "update"} /\ ~AllValid(op.docs)
    THEN [st EXCEPT !.wal = <<>>]
  ELSE IF Variant = "ffi_commit_own_doc" /\ fe = "ffi" /\ op.kind \in {"add", "update"} /\ AllValid(op.docs)
    THEN [st EXCEPT !.committed = Fold(AddOps(op.docs), @)]
  ELSE Effect(fe, op, st)

Do(op, dv) ==
  /\ n < MaxOps
  /\ s' = [fe \in Exec |-> VEffect(fe, op, s[fe])]
  /\ ver' = ver + dv
  /\ n' = n + 1
  /\ hist' = Append(hist, op)

Doc(id, v, ok) == [id |-> id, ver |-> v, valid |-> ok]
BlankOp == [kind |-> "", docs |-> <<>>, ids |-> <<>>]

DoAdd1 == n < MaxOps /\ \E k \in {"add", "update"}, a \in IdSet :
  Do([BlankOp EXCEPT !.kind = k, !.docs = <<Doc(a, ver, TRUE)>>], 1)
DoAdd2 == n < MaxOps /\ \E a, b \in IdSet :
  Do([BlankOp EXCEPT !.kind = "add", !.docs = <<Doc(a, ver, TRUE), Doc(b, ver + 1, TRUE)>>], 2)
DoRejected == Rejections /\ \E a \in IdSet :
  Do([BlankOp EXCEPT !.kind = "add", !.docs = <<Doc(a, ver, FALSE)>>], 1)
DoDelete == n < MaxOps /\ \E a \in IdSet : Do([BlankOp EXCEPT !.kind = "delete", !.ids = <<IdRec(a)>>], 0)
DoCommit == n < MaxOps /\ Do([BlankOp EXCEPT !.kind = "commit"], 0)
DoCompact == n < MaxOps /\ Do([BlankOp EXCEPT !.kind = "compact"], 0)

Next == DoAdd1 \/ DoAdd2 \/ DoRejected \/ DoDelete \/ DoCommit \/ DoCompact

Spec == Init /\ [][Next]_vars

Eventual(st) == Fold(st.wal, st.committed)

EventualAgree == \A fe \in Exec : Eventual(s[fe]) = Eventual(s["lib"])
CommittedAgree == /\ s["cli"].committed = s["lib"].committed
                  /\ s["http"].committed = s["lib"].committed
                  /\ s["cli"].wal = s["lib"].wal
(* the C API never leaves valid adds queued: its log holds deletes only *)
FfiLogHoldsDeletesOnly == \A i \in DOMAIN s["ffi"].wal : s["ffi"].wal[i].t = "del"

(* S->I: in -simulate runs, print each complete history once; `svh frontends *)
(* --cases` replays it through every front end.                            *)
PrintCase == (PrintCases /\ n = MaxOps) => PrintT(<<"CASE", ToJson([ops |-> hist])>>)

=============================================================================
