SPECIFICATION Spec
CONSTANT MaxChars = 4
CONSTANT MaxSize = 16
CONSTANT CheckAsBuilt = FALSE
CONSTANT PrintMod = 7
INVARIANT IdealOk
INVARIANT OnlyEmpty
INVARIANT AsBuiltOk
INVARIANT PrintCase
CHECK_DEADLOCK FALSE
