----------------------------- MODULE MC_Highlight -----------------------------
(***************************************************************************)
(* Small-scope exhaustive check of Highlight.tla (C21): every text of up   *)
(* to MaxChars characters of UTF-8 width 1..4 (represented by a, e-acute,  *)
(* a CJK ideograph, an emoji), every match [s, e) in it, every             *)
(* fragment_size 0..MaxSize.  Under the precondition of the property       *)
(* (fragment_size >= 2 * bytes(match)):                                    *)
(*   IdealOk        the window narrowed to character boundaries yields a   *)
(*                  non-empty fragment with the match tagged, a substring  *)
(*                  of the text, of at most fragment_size bytes            *)
(*   OnlyEmpty      the as-built byte window (S21a) fails in exactly one   *)
(*                  way: an end of the window is off a character boundary  *)
(*                  and the fragment is ""; aligned windows are fine       *)
(*   AsBuiltOk      (CheckAsBuilt = TRUE) must be refuted                  *)
(* Outside the precondition the byte window may also cut the match         *)
(* (CutsMatch, reported as information only).                              *)
(* Refuting width patterns are printed as CASE lines and replayed with     *)
(* real characters (svh extras --mode highlight --cases).                  *)
(***************************************************************************)
EXTENDS Highlight, Json

CONSTANTS MaxChars, MaxSize, CheckAsBuilt, PrintMod

Chars == {97, 233, 28450, 128512}

VARIABLES t, m, size, phase
vars == <<t, m, size, phase>>

Init == t = <<>> /\ m = [s |-> 0, e |-> 0] /\ size = 0 /\ phase = 0

PickText ==
  /\ phase = 0 /\ phase' = 1 /\ UNCHANGED <<m, size>>
  /\ \E n \in 1..MaxChars : t' \in [1..n -> Chars]

PickMatch ==
  /\ phase = 1 /\ phase' = 2 /\ UNCHANGED t
  /\ \E s \in 0..(Len(t) - 1) : \E e \in (s + 1)..Len(t) : m' = [s |-> s, e |-> e]
  /\ size' \in 0..MaxSize

Next == PickText \/ PickMatch
Spec == Init /\ [][Next]_vars

Pre == phase = 2 /\ size >= 2 * MatchBytes(t, m)

IdealOk == Pre => FragmentOk(IdealFragment(t, m, size), t, size)

AsBuiltOk == (Pre /\ CheckAsBuilt) => FragmentOk(AsBuiltFragment(t, m, size), t, size)

OnlyEmpty == Pre =>
  IF AsBuiltOffBoundary(t, m, size)
    THEN AsBuiltFragment(t, m, size) = <<>>
    ELSE FragmentOk(AsBuiltFragment(t, m, size), t, size)

Weight == size * 13 + m.s * 7 + m.e * 3 + BytesOf(t)

PrintCase ==
  (Pre /\ PrintMod > 0 /\ AsBuiltOffBoundary(t, m, size) /\ Weight % PrintMod = 0) =>
     PrintT(<<"CASE", ToJson([w |-> [i \in DOMAIN t |-> Width(t[i])], s |-> m.s, e |-> m.e, size |-> size])>>)
=============================================================================
