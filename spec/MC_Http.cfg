SPECIFICATION MCSpec
CONSTANTS
  IdSet = {"a", "b"}
  MaxReq = 5
  PrintCases = FALSE
  RichRequests = FALSE
  Deviations = {}
CONSTRAINT Bound
VIEW View
INVARIANT TypeOK
INVARIANT AckedStayQueued
INVARIANT AckedAreApplied
INVARIANT VisibleAreCommitted
INVARIANT RejectedQueuesNothing
CHECK_DEADLOCK FALSE
