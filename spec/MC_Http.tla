------------------------------ MODULE MC_Http ------------------------------
(***************************************************************************)
(* Bounded model of Http.tla for C23: at most MaxReq requests over IdSet, *)
(* documents valid / schema-invalid / not-an-object.                       *)
(*   ideal config    (Deviations = {})        AckedStayQueued,             *)
(*                   AckedAreApplied, VisibleAreCommitted hold;            *)
(*   as-built config (Deviations = {"S23a"})  AckedAreApplied is refuted   *)
(*                   by  init, add(valid), add(schema-invalid), commit.    *)
(* Simulation mode prints request sequences (CASE lines) which            *)
(* `svh http --cases` replays against the live server.                     *)
(***************************************************************************)
EXTENDS Http, Sequences, FiniteSets, Json

CONSTANTS IdSet, MaxReq, PrintCases, RichRequests,
          StartPresent,  \* simulation: begin after an acknowledged /init (part of the case)
          WAddOk, WAddBad, WCommit, WMaint
             \* simulation only: TLC's simulator picks an *action* (a disjunct of the
             \* next-state relation after splitting \E over constant sets) uniformly,
             \* so replicating a disjunct w times gives it weight w; all 1 when exhaustive

VARIABLES nver,   \* next version number
          hist    \* requests so far (ghost; hidden by VIEW in exhaustive mode)

mcVars == <<httpVars, nver, hist>>

Doc(id, ver, k) == [id |-> id, ver |-> ver, k |-> k]

DocKinds == IF RichRequests THEN {"valid", "schema", "syntax"} ELSE {"valid", "schema"}

(* Document lists of one request: singles and pairs, versions from nver. *)
DocLists ==
  {<<Doc(i, nver, k)>> : i \in IdSet, k \in DocKinds}
  \cup {<<Doc(i, nver, k[1]), Doc(j, nver + 1, k[2])>> :
          i \in IdSet, j \in IdSet,
          k \in {kk \in DocKinds \X DocKinds : kk[1] = "valid" \/ kk[2] = "valid"}}
  \cup {<<>>}

IdLists ==
  {<<i>> : i \in IdSet} \cup {<<p[1], p[2]>> : p \in {pp \in IdSet \X IdSet : pp[1] # pp[2]}} \cup {<<>>}

Log(req) == hist' = Append(hist, req)

InitReq == [ep |-> "init", valid |-> TRUE]

MCInit ==
  /\ present = StartPresent
  /\ queue = <<>> /\ contents = EmptyContents /\ visible = {EmptyContents}
  /\ acked = <<>> /\ expected = EmptyContents
  /\ nver = 1
  /\ hist = IF StartPresent THEN <<InitReq>> ELSE <<>>

DoInit ==
  \E v \in BOOLEAN :
    LET req == [ep |-> "init", valid |-> v] IN
    Init(req) /\ Log(req) /\ UNCHANGED nver

DoAdd(allValid) ==
  \E ep \in {"add", "bulk"}, docs \in {d \in DocLists : (Kinds(d) \subseteq {"valid"}) = allValid} :
    LET req == [ep |-> ep, docs |-> docs] IN
    \* /bulk differs from /add only in refusing an empty list: in the exhaustive
    \* configuration it is explored with single documents and the empty list only
    /\ (ep = "bulk" /\ ~RichRequests) => Len(docs) <= 1
    /\ (Add(req) \/ Bulk(req))
    /\ nver' = nver + Len(docs)
    /\ Log(req)

DoDelete ==
  \E ids \in IdLists :
    LET req == [ep |-> "delete", ids |-> ids] IN
    Delete(req) /\ Log(req) /\ UNCHANGED nver

DoCommit  == Commit  /\ Log([ep |-> "commit"])  /\ UNCHANGED nver
DoRefresh == Refresh /\ Log([ep |-> "refresh"]) /\ UNCHANGED nver
DoCompact == Compact /\ Log([ep |-> "compact"]) /\ UNCHANGED nver
DoSearch  == (\E obs \in visible : Search(obs)) /\ Log([ep |-> "search"]) /\ UNCHANGED nver

MCNext ==
  \/ DoInit
  \/ \E w \in 1..WAddOk : DoAdd(TRUE)
  \/ \E w \in 1..WAddBad : DoAdd(FALSE)
  \/ DoDelete
  \/ \E w \in 1..WCommit : DoCommit
  \/ \E w \in 1..WMaint : DoRefresh \/ DoCompact \/ DoSearch

MCSpec == MCInit /\ [][MCNext]_mcVars

Bound == Len(hist) <= MaxReq

(* nver is left out: two states that differ only in how many versions rejected
   documents consumed have the same futures up to a monotone renaming of versions,
   and no invariant depends on the numbers themselves. *)
View == <<httpVars, Len(hist)>>

-----------------------------------------------------------------------------

TypeOK ==
  /\ present \in BOOLEAN
  /\ DOMAIN contents \subseteq IdSet
  /\ ~present => (queue = <<>> /\ contents = EmptyContents)

(* Prints the request sequence that refutes the invariant (the as-built   *)
(* configuration must produce one; the orchestrator reads it).            *)
Witnessed(inv, name) ==
  inv \/ (PrintT(<<"WITNESS", ToJson([invariant |-> name, reqs |-> hist])>>) /\ FALSE)

AckedStayQueuedW == Witnessed(AckedStayQueued, "AckedStayQueued")
AckedAreAppliedW == Witnessed(AckedAreApplied, "AckedAreApplied")

(* A rejected /add or /bulk queues none of its own documents: every       *)
(* queued add carries a version that some *acknowledged* request carried. *)
RejectedQueuesNothing ==
  \A i \in DOMAIN queue : \E j \in DOMAIN acked : acked[j] = queue[i]

PrintCase ==
  (PrintCases /\ Len(hist) = MaxReq) => PrintT(<<"CASE", ToJson([reqs |-> hist])>>)

=============================================================================
