SPECIFICATION MCSpec
CONSTANTS
  IdSet = {"a", "b"}
  MaxReq = 5
  PrintCases = FALSE
  RichRequests = FALSE
  Deviations = {"S23a"}
CONSTRAINT Bound
VIEW View
INVARIANT TypeOK
INVARIANT AckedAreAppliedW
CHECK_DEADLOCK FALSE
