SPECIFICATION MCSpec
CONSTANTS
  IdSet = {"a", "b"}
  MaxReq = 5
  PrintCases = FALSE
  RichRequests = FALSE
  StartPresent = FALSE
  WAddOk = 1
  WAddBad = 1
  WCommit = 1
  WMaint = 1
  Deviations = {"S23a"}
CONSTRAINT Bound
VIEW View
INVARIANT TypeOK
INVARIANT AckedAreAppliedW
CHECK_DEADLOCK FALSE
