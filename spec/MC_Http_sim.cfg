SPECIFICATION MCSpec
CONSTANTS
  IdSet = {"a", "b", "c"}
  MaxReq = 10
  PrintCases = TRUE
  RichRequests = TRUE
  StartPresent = TRUE
  WAddOk = 12
  WAddBad = 5
  WCommit = 10
  WMaint = 4
  Deviations = {}
CONSTRAINT Bound
INVARIANT PrintCase
CHECK_DEADLOCK FALSE
