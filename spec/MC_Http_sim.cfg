SPECIFICATION MCSpec
CONSTANTS
  IdSet = {"a", "b", "c"}
  MaxReq = 10
  PrintCases = TRUE
  RichRequests = TRUE
  Deviations = {}
CONSTRAINT Bound
INVARIANT PrintCase
CHECK_DEADLOCK FALSE
