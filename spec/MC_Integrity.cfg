SPECIFICATION FileSpec
CONSTANTS
  Format = "ideal"
  MaxRecs = 2
  MaxPayload = 1
  PayloadSyms = {0, 2}
  WalBug = "none"
INVARIANT Detected
INVARIANT NeverPanics
INVARIANT PristineIsSame
CHECK_DEADLOCK FALSE
