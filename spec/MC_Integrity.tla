---------------------------- MODULE MC_Integrity ----------------------------
(***************************************************************************)
(* Bounded models for C17 (see Integrity.tla).                            *)
(*                                                                         *)
(* FileSpec: the abstract index of Integrity.tla part 2.  One behaviour = *)
(*   pristine disk, one damage (every file, every cell, every mask, every *)
(*   truncation length), open + search.  Invariant `Detected`: the        *)
(*   outcome is one the property allows for the class of the damaged      *)
(*   file.  Format = "ideal" (manifest covered by a checksum) must hold;  *)
(*   Format = "asbuilt" (manifest not covered, finding S17a),             *)
(*   "noverify" (segment checksums not compared) and "walskip" (replay    *)
(*   continues behind a damaged record) must each be refuted.             *)
(*                                                                         *)
(* WalSpec: the byte-level log of Integrity.tla part 3.  Initial states = *)
(*   every log of <= MaxRecs records whose payloads have <= MaxPayload    *)
(*   symbols from PayloadSyms; one step = one damage (every cell x every  *)
(*   mask, every shorter length).  Invariant `ReplayIsPrefix`: what the   *)
(*   scanner of index/wal.rs replays from the damaged log is a prefix of  *)
(*   what it replays from the original (as record lists), the original    *)
(*   round-trips, and the scanner never interprets a checksum byte as a   *)
(*   length.  WalBug = "no_crc" / "skip_bad" must be refuted.             *)
(***************************************************************************)
EXTENDS Integrity, TLC

CONSTANTS Format,       \* "ideal" | "asbuilt" | "noverify" | "walskip"
          MaxRecs, MaxPayload, PayloadSyms,
          WalBug        \* "none" | "no_crc" | "skip_bad"

-----------------------------------------------------------------------------
(* FileSpec                                                                *)

VARIABLES disk, dmg, outcome,      \* FileSpec
          log, wdmg                \* WalSpec (each specification pins the other's variables)

fvars == <<disk, dmg, outcome>>
wvars == <<log, wdmg>>
vars == <<disk, dmg, outcome, log, wdmg>>

Cfg ==
  CASE Format = "ideal"    -> IdealCfg
    [] Format = "asbuilt"  -> AsBuiltCfg
    [] Format = "noverify" -> [IdealCfg EXCEPT !.verifyParts = FALSE]
    [] Format = "walskip"  -> [IdealCfg EXCEPT !.walStopsAtBadRecord = FALSE]

NoDamage == [k |-> "none", file |-> "", off |-> 0, mask |-> 0]

FInit == /\ disk = PristineDisk(Cfg) /\ dmg = NoDamage /\ outcome = "none"
         /\ log = <<>> /\ wdmg = NoDamage

Damage ==
  /\ dmg = NoDamage
  /\ \E d \in Damages(disk) :
       /\ dmg' = d
       /\ disk' = Apply(disk, d)
  /\ UNCHANGED <<outcome, wvars>>

OpenAndSearch ==
  /\ dmg # NoDamage /\ outcome = "none"
  /\ outcome' = Outcome(disk, dmg, Cfg)
  /\ UNCHANGED <<disk, dmg, wvars>>

FNext == Damage \/ OpenAndSearch

FileSpec == FInit /\ [][FNext]_vars

Detected == outcome # "none" => outcome \in Allowed(ClassOf(dmg.file))

NeverPanics == outcome # "Panic"

(* the pristine disk gives the pristine results (sanity of the model)      *)
PristineIsSame == Run(PristineDisk(Cfg), Cfg) = "SameResults"

-----------------------------------------------------------------------------
(* WalSpec                                                                 *)

Payloads == UNION {[1..n -> PayloadSyms] : n \in 0..MaxPayload}

Records == [t : {1, 3}, p : Payloads] \cup [t : {2}, p : {<<>>}]

Logs == UNION {[1..n -> Records] : n \in 0..MaxRecs}

WInit == /\ log \in Logs /\ wdmg = NoDamage
         /\ disk = PristineDisk(Cfg) /\ dmg = NoDamage /\ outcome = "none"

WDamage ==
  /\ wdmg = NoDamage
  /\ LET n == Len(EncodeLog(log)) IN
     \E d \in [k : {"flip"}, file : {"wal"}, off : 1..n, mask : Masks]
              \cup [k : {"trunc"}, file : {"wal"}, off : 0..(n - 1), mask : {0}] :
        wdmg' = d
  /\ UNCHANGED <<log, fvars>>

WalSpec == WInit /\ [][WDamage]_vars

Damaged ==
  LET data == EncodeLog(log) IN
  IF wdmg.k = "flip" THEN FlipAt(data, wdmg.off, wdmg.mask)
  ELSE IF wdmg.k = "trunc" THEN TruncTo(data, wdmg.off)
  ELSE data

ReplayIsPrefix ==
  LET orig == Replay(EncodeLog(log), WalBug)
      got == Replay(Damaged, WalBug)
  IN /\ orig.entries = AsEntries(log)          \* an undamaged log replays completely
     /\ ~orig.undef /\ ~got.undef
     /\ IsPrefix(got.entries, orig.entries)

(* a damage in the bytes behind the last commit marker can only shorten    *)
(* the pending list; a damage at or before it can only re-surface          *)
(* operations that precede it (they were committed: re-applying is C02's   *)
(* business)                                                               *)
PendingIsPrefixOrOlder ==
  LET orig == Replay(EncodeLog(log), WalBug).entries
      got == Replay(Damaged, WalBug).entries
  IN \/ IsPrefix(PendingOf(got, <<>>), PendingOf(orig, <<>>))
     \/ \E i \in 1..Len(orig) : orig[i].t = 2 /\ Len(got) < i

=============================================================================
