SPECIFICATION WalSpec
CONSTANTS
  Format = "ideal"
  MaxRecs = 3
  MaxPayload = 2
  PayloadSyms = {0, 2}
  WalBug = "none"
INVARIANT ReplayIsPrefix
INVARIANT PendingIsPrefixOrOlder
CHECK_DEADLOCK FALSE
