----------------------------- MODULE MC_Paging ------------------------------
(***************************************************************************)
(* C11, design level: cursor pagination as a state machine.               *)
(*                                                                         *)
(* The matching hits of a request form a strictly ordered list (sort keys *)
(* with the (segment, doc) tie-break; Rank.tla CmpKeys is a strict total  *)
(* order, MC_Rank).  Hits are numbered 1..N in that order; several hits   *)
(* may share a *visible* key (score / sort values): ties.  A page request *)
(* returns the first `limit` hits strictly after the cursor key, and a    *)
(* next_cursor (the full key of the last returned hit, the index          *)
(* generation and the sort plan) exactly when more hits remain, which the *)
(* implementation decides by fetching limit + 1.                          *)
(*                                                                         *)
(* Environment: the index generation may change between pages (commit,    *)
(* compaction) and the client may present the cursor to another plan.     *)
(*                                                                         *)
(* Constants model protocol mutations that must be refuted:               *)
(*   Strict = FALSE      cursor comparison `>=` instead of `>`            *)
(*   FullKey = FALSE     cursor carries only the visible key (no tie-break)*)
(*   Fetch = limit       decides next_cursor from `limit` instead of +1   *)
(*   CheckGen = FALSE    generation / plan not checked                    *)
(***************************************************************************)
EXTENDS Integers, Sequences, FiniteSets, TLC

CONSTANTS MaxHits, MaxLimit, Strict, FullKey, FetchExtra, CheckGen

VARIABLES n,        \* number of matching hits
          vis,      \* visible key of hit i (non-decreasing in i): ties
          limit, gen, plan,
          cursor,   \* [pos, vis, gen, plan] or none
          walked,   \* hits returned so far, in order
          state     \* "init" | "walking" | "done" | "rejected"

vars == <<n, vis, limit, gen, plan, cursor, walked, state>>

None == [pos |-> 0, vis |-> 0, gen |-> 0, plan |-> 0]

NonDecreasing(f, k) == \A i \in 1..(k - 1) : f[i] <= f[i + 1]

Init ==
  /\ n \in 0..MaxHits
  /\ vis \in [1..MaxHits -> 1..2]
  /\ NonDecreasing(vis, MaxHits)
  /\ limit \in 1..MaxLimit
  /\ gen = 1 /\ plan = 1
  /\ cursor = None
  /\ walked = <<>>
  /\ state = "init"

(* hits strictly after the cursor *)
After(c) ==
  IF c = None THEN 1..n
  ELSE IF FullKey
         THEN {i \in 1..n : IF Strict THEN i > c.pos ELSE i >= c.pos}
         ELSE {i \in 1..n : IF Strict THEN vis[i] > c.vis ELSE vis[i] >= c.vis}

FirstK(S, k) == {i \in S : Cardinality({j \in S : j < i}) < k}
SetToSortedSeq(S) == [r \in 1..Cardinality(S) |-> CHOOSE i \in S : Cardinality({j \in S : j < i}) = r - 1]

Page ==
  /\ state \in {"init", "walking"}
  /\ IF CheckGen /\ cursor # None /\ (cursor.gen # gen \/ cursor.plan # plan)
       THEN state' = "rejected" /\ UNCHANGED <<cursor, walked>>
       ELSE LET cand == After(cursor)
                fetched == FirstK(cand, limit + (IF FetchExtra THEN 1 ELSE 0))
                page == FirstK(cand, limit)
                more == IF FetchExtra THEN Cardinality(fetched) > limit ELSE Cardinality(page) = limit
                last == CHOOSE i \in page : \A j \in page : j <= i
            IN /\ walked' = walked \o SetToSortedSeq(page)
               /\ IF more /\ page # {}
                    THEN /\ cursor' = [pos |-> last, vis |-> vis[last], gen |-> gen, plan |-> plan]
                         /\ state' = "walking"
                    ELSE /\ cursor' = None
                         /\ state' = "done"
  /\ UNCHANGED <<n, vis, limit, gen, plan>>

(* a commit / compaction between two pages, or the client switching plans *)
Disturb ==
  /\ state = "walking"
  /\ \/ gen' = gen + 1 /\ UNCHANGED plan
     \/ plan' = 2 /\ UNCHANGED gen
  /\ gen < 2 /\ plan < 2
  /\ UNCHANGED <<n, vis, limit, cursor, walked, state>>

Next == Page \/ Disturb
Spec == Init /\ [][Next]_vars /\ WF_vars(Page)

Undisturbed == gen = 1 /\ plan = 1

(* every hit exactly once, in order *)
WalkComplete == (state = "done" /\ Undisturbed) => walked = [i \in 1..n |-> i]
NoDuplicates == \A i, j \in DOMAIN walked : i # j => walked[i] # walked[j]
InOrder == \A i \in 1..(Len(walked) - 1) : walked[i] < walked[i + 1]
(* no trailing empty page: the walk ends on the page that returns the last hit *)
NoEmptyLastPage == (state = "done" /\ Undisturbed /\ n > 0) => cursor = None /\ Len(walked) = n
(* next_cursor is handed out only while hits remain (absent exactly on the last page) *)
CursorOnlyIfMore == (state = "walking" /\ Undisturbed) => Len(walked) < n
(* a disturbed walk never continues silently *)
StaleRejected == [][~Undisturbed => walked' = walked]_vars
Terminates == <>(state \in {"done", "rejected"})
=============================================================================
