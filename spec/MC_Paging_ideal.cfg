SPECIFICATION Spec
CONSTANTS
  MaxHits = 6
  MaxLimit = 3
  Strict = TRUE
  FullKey = TRUE
  FetchExtra = TRUE
  CheckGen = TRUE
INVARIANT WalkComplete
INVARIANT NoDuplicates
INVARIANT InOrder
INVARIANT NoEmptyLastPage
PROPERTY StaleRejected
PROPERTY Terminates
CHECK_DEADLOCK FALSE
