SPECIFICATION Spec
CONSTANT Small = TRUE
CONSTANT CheckAsBuilt = FALSE
INVARIANT EveryWordFinds
INVARIANT ShouldOptional
INVARIANT MustNotShrinks
INVARIANT AsBuiltSound
INVARIANT AsBuiltComplete
CHECK_DEADLOCK FALSE
