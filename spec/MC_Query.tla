------------------------------ MODULE MC_Query ------------------------------
(***************************************************************************)
(* Small-scope exhaustive check of the query semantics of Search.tla      *)
(* (C07): every corpus of up to 3 documents over two tokens in one text   *)
(* field, every query tree to depth 2 over {term, all, bool, dismax}.     *)
(* Laws checked on every (corpus, query) pair:                            *)
(*   EveryWordFinds   a term query for a word of a live document finds it *)
(*   ShouldOptional   should clauses next to a must clause are optional   *)
(*   MustNotShrinks   adding a must_not clause never adds documents       *)
(*   AsBuiltSound     the as-built candidate rule never adds documents    *)
(* and the refutable statement                                            *)
(*   AsBuiltComplete  as-built = ideal   (must FAIL: known finding S07a)  *)
(***************************************************************************)
EXTENDS Search

CONSTANTS CheckAsBuilt, Small

Toks2 == {"a", "b"}
D0 == [s \in Toks2 |-> [cp |-> <<>>, lc |-> s, alc |-> s]]

TextVals == {<<>>, << <<"a", 0>> >>, << <<"b", 0>> >>, << <<"a", 0>>, <<"b", 1>> >>, << <<"b", 0>>, <<"a", 1>> >>}

Doc(id, live, tv) ==
  [id |-> id, ver |-> 1, seg |-> 0, ord |-> 0, live |-> live,
   text |-> << [f |-> "body", vals |-> IF tv = <<>> THEN <<>> ELSE <<tv>>] >>,
   kw |-> <<>>, i64 |-> <<>>, f64 |-> <<>>, nested |-> <<>>]

Term(t, sc) == [k |-> "term", alts |-> << [f |-> "body", kind |-> "text", toks |-> <<t>>, w |-> 10000] >>, sc |-> sc]
All == [k |-> "all"]
Leaves(sc) == {Term("a", sc), Term("b", sc), All}

Bool(m, s, n) == [k |-> "bool", must |-> m, should |-> s, mustnot |-> n, filter |-> <<>>,
                  hasmsm |-> FALSE, msm |-> 0]
Lists(S) == {<<>>} \cup {<<x>> : x \in S}

Depth1 == Leaves(TRUE)
          \cup {Bool(m, s, n) : m \in Lists(Leaves(TRUE)), s \in Lists(Leaves(TRUE)), n \in Lists(Leaves(FALSE))}
          \cup {[k |-> "dismax", qs |-> <<x, y>>, tie |-> 0] : x \in Leaves(TRUE), y \in Leaves(TRUE)}
Depth2 == Depth1 \cup {Bool(<<x>>, <<y>>, <<>>) : x \in Depth1, y \in Leaves(TRUE)}

VARIABLES corpus, q, phase
vars == <<corpus, q, phase>>

(* two steps (corpus, then query) so that TLC's workers share the universe *)
Init == corpus = {} /\ q = All /\ phase = 0
PickCorpus ==
  /\ phase = 0 /\ phase' = 1 /\ UNCHANGED q
  /\ corpus' \in {{Doc("d1", TRUE, t1), Doc("d2", l2, t2), Doc("d3", TRUE, t3)} :
                   t1 \in TextVals, t2 \in TextVals, t3 \in (IF Small THEN {<<>>} ELSE TextVals), l2 \in BOOLEAN}
PickQuery == phase = 1 /\ phase' = 2 /\ UNCHANGED corpus /\ q' \in Depth2
Next == PickCorpus \/ PickQuery
Spec == Init /\ [][Next]_vars

E(query) == Expected(D0, corpus, query, <<>>)

EveryWordFinds == phase = 2 =>
  (\A d \in corpus : d.live => \A t \in TokSet(d, "body") : d \in E(Term(t, TRUE)))

ShouldOptional == phase = 2 =>
  ((q.k = "bool" /\ q.must # <<>> /\ q.mustnot = <<>>) => E(q) = E(Bool(q.must, <<>>, <<>>)))

MustNotShrinks == phase = 2 =>
  (q.k = "bool" => E(q) \subseteq E(Bool(q.must, q.should, <<>>)))

AsBuiltSound == phase = 2 => ExpectedAsBuilt(D0, corpus, q, <<>>) \subseteq E(q)

AsBuiltComplete == (phase = 2 /\ CheckAsBuilt) => ExpectedAsBuilt(D0, corpus, q, <<>>) = E(q)
=============================================================================
