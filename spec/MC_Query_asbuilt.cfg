SPECIFICATION Spec
CONSTANT Small = TRUE
CONSTANT CheckAsBuilt = TRUE
INVARIANT EveryWordFinds
INVARIANT ShouldOptional
INVARIANT MustNotShrinks
INVARIANT AsBuiltSound
INVARIANT AsBuiltComplete
CHECK_DEADLOCK FALSE
