SPECIFICATION Spec
CONSTANT Pairs = FALSE
INVARIANT Antisymmetric
INVARIANT Total
INVARIANT Transitive
INVARIANT MissingLast
CHECK_DEADLOCK FALSE
