------------------------------ MODULE MC_Rank -------------------------------
(***************************************************************************)
(* C10, design level: the comparison CmpKeys of Rank.tla is a strict total *)
(* order on hits for every sort plan of up to two keys over a small value  *)
(* universe (multi-valued and missing values, both directions, score ties),*)
(* missing values sort last in both directions, and the fixed-point        *)
(* logarithm meets its accuracy assumptions (ASSUMEs of Rank.tla).         *)
(***************************************************************************)
EXTENDS Rank

CONSTANT Pairs

Strs == {"a", "B"}
D0 == [s \in Strs |-> [cp |-> IF s = "a" THEN <<97>> ELSE <<66>>, lc |-> s, alc |-> s]]

NumLists == {<<>>, <<1>>, <<1, 2>>}
KwLists == {<<>>, <<"a">>, <<"a", "B">>}

Hit(seg, ord, nums, kws) ==
  [id |-> <<seg, ord>>, seg |-> seg, ord |-> ord, live |-> TRUE,
   i64 |-> << [f |-> "n", vals |-> nums] >>, f64 |-> <<>>, kw |-> << [f |-> "k", vals |-> kws] >>,
   text |-> <<>>, nested |-> <<>>]

Slots == {<<0, 0>>, <<0, 1>>, <<1, 0>>}
Hits == {Hit(p[1], p[2], n, k) : p \in Slots, n \in NumLists, k \in KwLists}
Scores == {0, 5}

Spec1 == {[kind |-> "score", f |-> "_score", desc |-> d] : d \in BOOLEAN}
         \cup {[kind |-> "i64", f |-> "n", desc |-> d] : d \in BOOLEAN}
         \cup {[kind |-> "kw", f |-> "k", desc |-> d] : d \in BOOLEAN}
Plans == {<<x>> : x \in Spec1} \cup (IF Pairs THEN {p \in Spec1 \X Spec1 : p[1].kind # p[2].kind} ELSE {})

VARIABLES plan, a, b, c, phase
vars == <<plan, a, b, c, phase>>
Init == plan = <<>> /\ a = <<Hit(0, 0, <<>>, <<>>), 0>> /\ b = a /\ c = a /\ phase = 0
Pick1 == phase = 0 /\ phase' = 1 /\ plan' \in Plans /\ a' \in Hits \X Scores /\ UNCHANGED <<b, c>>
Pick2 == phase = 1 /\ phase' = 2 /\ b' \in Hits \X Scores /\ c' \in Hits \X {0} /\ UNCHANGED <<plan, a>>
Next == Pick1 \/ Pick2
Spec == Init /\ [][Next]_vars

Cmp(x, y) == CmpKeys(D0, plan, x[1], x[2], y[1], y[2])
SameSlot(x, y) == x[1].seg = y[1].seg /\ x[1].ord = y[1].ord

Antisymmetric == phase = 2 => (Cmp(a, b) = 0 - Cmp(b, a))
Total == phase = 2 => (~SameSlot(a, b) => Cmp(a, b) # 0)
Transitive == phase = 2 => ((Cmp(a, b) < 0 /\ Cmp(b, c) < 0) => Cmp(a, c) < 0)
MissingLast ==
  phase = 2 =>
    \A i \in DOMAIN plan :
       (plan[i].kind = "i64" /\ Vals(a[1].i64, "n") = <<>> /\ Vals(b[1].i64, "n") # <<>>)
          => CmpPart(D0, plan[i], a[1], a[2], b[1], b[2]) = 1
=============================================================================
