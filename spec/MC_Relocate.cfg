SPECIFICATION Spec
CONSTANTS
  Mode = "rebase"
  Docs = {1, 2}
  MaxOps = 5
INVARIANT Confined
INVARIANT SameResults
INVARIANT OriginalUntouched
CHECK_DEADLOCK FALSE
