---------------------------- MODULE MC_Relocate ----------------------------
(***************************************************************************)
(* Bounded model for C28 over Relocate.tla: the owner builds an index at  *)
(* A (1-2 commits), the directory is copied or moved to B, the owner of A *)
(* may go on committing / compacting / remove A, and a second party opens *)
(* B and searches, commits (adds and deletes) and compacts through it.    *)
(*                                                                         *)
(* Mode = "rebase" must satisfy Confined, SameResults, OriginalUntouched; *)
(* Mode = "absolute" (as built, finding S28a) must violate each of them.  *)
(***************************************************************************)
EXTENDS Relocate, TLC

VARIABLES fs,        \* root -> directory (name -> content)
          dirs,      \* roots that exist
          phase,     \* "build" | "copied"
          memB,      \* manifest held in memory by the handle opened at B (<<>> when not open)
          openB,     \* is a handle open at B
          touched,   \* paths named by storage operations issued through the handle at B
          snapA,     \* ghost: A's directory as its owner last left it
          goneA,     \* ghost: A was removed (or moved away) by its owner
          expect,    \* ghost: contents the copy must show
          lastRes,   \* result of the last search through B
          nseg, nops

vars == <<fs, dirs, phase, memB, openB, touched, snapA, goneA, expect, lastRes, nseg, nops>>

NoRes == [ok |-> TRUE, docs |-> {}, fresh |-> FALSE]

Init ==
  /\ fs = [r \in Roots |-> IF r = "A" THEN Ext(EmptyDir, MANIFEST, ManFile(<<>>)) ELSE EmptyDir]
  /\ dirs = {"A"}
  /\ phase = "build"
  /\ memB = <<>> /\ openB = FALSE
  /\ touched = {}
  /\ snapA = fs["A"] /\ goneA = FALSE
  /\ expect = {}
  /\ lastRes = NoRes
  /\ nseg = 0 /\ nops = 0

ManOf(root) == fs[root][MANIFEST].segs

(* ---- the owner of A (its handle resolves against A; never recorded) --- *)
StoreAt(f, root, segs) == [f EXCEPT ![root] = Ext(@, MANIFEST, ManFile(segs))]

OwnerCommit(d) ==
  /\ "A" \in dirs /\ nops < MaxOps
  /\ Readable(fs, dirs, "A", ManOf("A"))
  /\ LET segs == WithAdd(ManOf("A"), "A", nseg + 1, d)
         f1 == [fs EXCEPT !["A"] = Ext(@, SegName(nseg + 1), SegFile({d}))]
     IN fs' = StoreAt(f1, "A", segs)
  /\ nseg' = nseg + 1 /\ nops' = nops + 1
  /\ snapA' = fs'["A"]
  /\ UNCHANGED <<dirs, phase, memB, openB, touched, goneA, expect, lastRes>>

OwnerCompact ==
  /\ "A" \in dirs /\ nops < MaxOps /\ Len(ManOf("A")) > 1
  /\ Readable(fs, dirs, "A", ManOf("A"))
  /\ LET old == ManOf("A")
         f1 == [fs EXCEPT !["A"] = Ext(@, SegName(nseg + 1), SegFile(Live(old)))]
         f2 == StoreAt(f1, "A", Compacted(old, "A", nseg + 1))
         gone == {Resolve("A", s.path)[2] : s \in SeqToSet(old)}
     IN fs' = [f2 EXCEPT !["A"] = [x \in (DOMAIN @) \ gone |-> @[x]]]
  /\ nseg' = nseg + 1 /\ nops' = nops + 1
  /\ snapA' = fs'["A"]
  /\ UNCHANGED <<dirs, phase, memB, openB, touched, goneA, expect, lastRes>>

OwnerRemove ==
  /\ phase = "copied" /\ "A" \in dirs
  /\ dirs' = dirs \ {"A"}
  /\ fs' = [fs EXCEPT !["A"] = EmptyDir]
  /\ snapA' = EmptyDir /\ goneA' = TRUE
  /\ UNCHANGED <<phase, memB, openB, touched, expect, lastRes, nseg, nops>>

(* ---- relocation: names and contents verbatim --------------------------- *)
CopyDir ==
  /\ phase = "build" /\ Len(ManOf("A")) > 0
  /\ fs' = [fs EXCEPT !["B"] = fs["A"]]
  /\ dirs' = dirs \cup {"B"}
  /\ phase' = "copied"
  /\ expect' = Live(ManOf("A"))
  /\ UNCHANGED <<memB, openB, touched, snapA, goneA, lastRes, nseg, nops>>

MoveDir ==
  /\ phase = "build" /\ Len(ManOf("A")) > 0
  /\ fs' = [fs EXCEPT !["B"] = fs["A"], !["A"] = EmptyDir]
  /\ dirs' = {"B"}
  /\ phase' = "copied"
  /\ expect' = Live(ManOf("A"))
  /\ snapA' = EmptyDir /\ goneA' = TRUE
  /\ UNCHANGED <<memB, openB, touched, lastRes, nseg, nops>>

(* ---- operations through the handle opened at B ----------------------- *)
OpenB ==
  /\ phase = "copied" /\ ~openB
  /\ openB' = TRUE
  /\ memB' = ManOf("B")
  /\ touched' = touched \cup {<<"B", MANIFEST>>}
  /\ UNCHANGED <<fs, dirs, phase, snapA, goneA, expect, lastRes, nseg, nops>>

SearchB ==
  /\ openB /\ nops < MaxOps
  /\ touched' = touched \cup ReadSet("B", memB)
  /\ lastRes' = IF Readable(fs, dirs, "B", memB)
                  THEN [ok |-> TRUE, docs |-> Live(memB), fresh |-> TRUE]
                  ELSE [ok |-> FALSE, docs |-> {}, fresh |-> TRUE]
  /\ nops' = nops + 1
  /\ UNCHANGED <<fs, dirs, phase, memB, openB, snapA, goneA, expect, nseg>>

(* the writer reads every segment's meta (load_live_docs); on failure       *)
(* nothing is written                                                       *)
CommitB(d, isAdd) ==
  /\ openB /\ nops < MaxOps
  /\ nops' = nops + 1
  /\ IF ~Readable(fs, dirs, "B", memB)
       THEN /\ touched' = touched \cup ReadSet("B", memB)
            /\ lastRes' = [ok |-> FALSE, docs |-> {}, fresh |-> TRUE]
            /\ UNCHANGED <<fs, memB, expect, nseg>>
       ELSE LET segs == IF isAdd THEN WithAdd(memB, "B", nseg + 1, d) ELSE WithDel(memB, d)
                f1 == IF isAdd THEN [fs EXCEPT !["B"] = Ext(@, SegName(nseg + 1), SegFile({d}))] ELSE fs
            IN /\ fs' = StoreAt(f1, "B", segs)
               /\ memB' = segs
               /\ touched' = touched \cup ReadSet("B", memB)
                               \cup {<<"B", MANIFEST>>, <<"B", WALNAME>>}
                               \cup (IF isAdd THEN {<<"B", SegName(nseg + 1)>>} ELSE {})
               /\ expect' = IF isAdd THEN expect \cup {d} ELSE expect \ {d}
               /\ nseg' = IF isAdd THEN nseg + 1 ELSE nseg
               /\ lastRes' = [lastRes EXCEPT !.fresh = FALSE]
  /\ UNCHANGED <<dirs, phase, openB, snapA, goneA>>

(* Index::compact: read everything, write one new segment under the        *)
(* handle's root, store the manifest, then remove the old segments' files  *)
(* *by their resolved stored paths* (cleanup_segments)                     *)
CompactB ==
  /\ openB /\ nops < MaxOps /\ Len(memB) > 1
  /\ nops' = nops + 1
  /\ IF ~Readable(fs, dirs, "B", memB)
       THEN /\ touched' = touched \cup ReadSet("B", memB)
            /\ lastRes' = [ok |-> FALSE, docs |-> {}, fresh |-> TRUE]
            /\ UNCHANGED <<fs, memB, nseg>>
       ELSE LET new == Compacted(memB, "B", nseg + 1)
                f1 == [fs EXCEPT !["B"] = Ext(@, SegName(nseg + 1), SegFile(Live(memB)))]
                f2 == StoreAt(f1, "B", new)
                gone == ReadSet("B", memB)
            IN /\ fs' = [r \in Roots |-> [x \in {n \in DOMAIN f2[r] : <<r, n>> \notin gone} |-> f2[r][x]]]
               /\ memB' = new
               /\ touched' = touched \cup gone \cup {<<"B", MANIFEST>>, <<"B", SegName(nseg + 1)>>}
               /\ nseg' = nseg + 1
               /\ lastRes' = [lastRes EXCEPT !.fresh = FALSE]
  /\ UNCHANGED <<dirs, phase, openB, snapA, goneA, expect>>

OwnerCommitAny == \E d \in Docs : OwnerCommit(d)
CommitBAny == \E d \in Docs, isAdd \in BOOLEAN : CommitB(d, isAdd)

Next ==
  \/ OwnerCommitAny
  \/ OwnerCompact
  \/ OwnerRemove
  \/ CopyDir \/ MoveDir
  \/ OpenB \/ SearchB \/ CompactB
  \/ CommitBAny

Spec == Init /\ [][Next]_vars

-----------------------------------------------------------------------------
Confined == \A p \in touched : p[1] = "B"

SameResults == lastRes.fresh => (lastRes.ok /\ lastRes.docs = expect)

OriginalUntouched ==
  /\ ("A" \in dirs) => fs["A"] = snapA
  /\ goneA => ("A" \notin dirs /\ fs["A"] = EmptyDir)

=============================================================================
