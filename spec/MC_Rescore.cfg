SPECIFICATION Spec
CONSTANT MaxHits = 5
CONSTANT MaxDrops = 2
CONSTANT AsBuilt = FALSE
INVARIANT TailOk
INVARIANT MembersOk
INVARIANT OrderedOk
INVARIANT OnlyWindow
INVARIANT NoDropSame
CHECK_DEADLOCK FALSE
