----------------------------- MODULE MC_Rescore -----------------------------
(***************************************************************************)
(* Small-scope exhaustive check of Rescore.tla (C19): every ranked list of *)
(* up to MaxHits hits (scores 100 - 10 i), every assignment of an outcome  *)
(* keep / up (+45) / down (-45) / drop to the hits with at most MaxDrops   *)
(* drops, every window_size 0..MaxHits+2, sort by score descending with    *)
(* ties by id.                                                             *)
(*   Ideal: Rescored(..) satisfies TailUntouched, WindowMembers,           *)
(*          WindowOrdered, and only hits with an outcome other than keep   *)
(*          inside the window differ from L.                               *)
(*   AsBuilt = TRUE: RescoredAsBuilt(..) (sort window measured after the   *)
(*          removals, S19a) - TailOk must be refuted, and is refuted only  *)
(*          with at least one drop (NoDropSame holds).                     *)
(***************************************************************************)
EXTENDS Rescore

CONSTANTS MaxHits, MaxDrops, AsBuilt

Outcomes == {"keep", "up", "down", "drop"}

VARIABLES n, out, window, phase
vars == <<n, out, window, phase>>

Init == n = 0 /\ out = <<>> /\ window = 0 /\ phase = 0

PickList ==
  /\ phase = 0 /\ phase' = 1 /\ UNCHANGED window
  /\ n' \in 0..MaxHits
  /\ out' \in [1..n' -> Outcomes]
  /\ Cardinality({i \in 1..n' : out'[i] = "drop"}) <= MaxDrops

PickWindow == phase = 1 /\ phase' = 2 /\ UNCHANGED <<n, out>> /\ window' \in 0..(MaxHits + 2)

Next == PickList \/ PickWindow
Spec == Init /\ [][Next]_vars

L == [i \in 1..n |-> [id |-> i, sb |-> 100 - 10 * i]]
Drop(h) == out[h.id] = "drop"
NewSb(h) == CASE out[h.id] = "up" -> h.sb + 45 [] out[h.id] = "down" -> h.sb - 45 [] OTHER -> h.sb
Before(a, b) == a.sb > b.sb \/ (a.sb = b.sb /\ a.id < b.id)

R == IF AsBuilt THEN RescoredAsBuilt(L, window, Drop, NewSb, Before)
     ELSE Rescored(L, window, Drop, NewSb, Before)

TailOk == phase = 2 => TailUntouched(L, window, R)
MembersOk == phase = 2 => WindowMembers(L, window, R)
OrderedOk == phase = 2 => WindowOrdered(L, window, R, Before)

(* nothing but the window changes: same hits minus the window's drops, and  *)
(* every hit outside the window or with outcome keep has its old score      *)
OnlyWindow == phase = 2 =>
  LET w == WindowLen(L, window) IN
  /\ {R[i].id : i \in DOMAIN R} = {i \in 1..n : ~(i <= w /\ out[i] = "drop")}
  /\ \A i \in DOMAIN R : (R[i].id > w \/ out[R[i].id] = "keep") => R[i].sb = L[R[i].id].sb

(* the as-built result differs from the ideal one only after a removal     *)
NoDropSame == (phase = 2 /\ \A i \in 1..WindowLen(L, window) : out[i] # "drop") =>
  RescoredAsBuilt(L, window, Drop, NewSb, Before) = Rescored(L, window, Drop, NewSb, Before)
=============================================================================
