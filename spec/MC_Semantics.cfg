SPECIFICATION MCSpec
CONSTANTS
  IdSet = {"a", "b"}
  HandleSet = {1, 2, 3}
  MaxCalls = 6
  PrintCases = FALSE
CONSTRAINT Bound
VIEW View
INVARIANT TypeOK
INVARIANT ContentsAreFold
INVARIANT FoldIdempotent
INVARIANT LiveWasAdded
PROPERTY OnlyCommitChanges
CHECK_DEADLOCK FALSE
