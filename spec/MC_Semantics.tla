---------------------------- MODULE MC_Semantics ----------------------------
(***************************************************************************)
(* Bounded model of IndexCore for C04: three handles sharing one log.     *)
(* Exhaustive mode checks the design-level invariants; simulation mode    *)
(* prints call histories (CASE lines) that `svh history --cases` replays  *)
(* into the real code, whose trace Trace_History.tla then judges.         *)
(***************************************************************************)
EXTENDS IndexCore, TLC, Json

CONSTANTS IdSet, HandleSet, MaxCalls, PrintCases

VARIABLES nver,     \* next version number
          hist,     \* the calls made so far (ghost; hidden by VIEW)
          batches   \* concatenation of all committed batches in commit order (ghost)

mcVars == <<coreVars, nver, hist, batches>>

Call(rec) == hist' = Append(hist, rec)

MCInit == CoreInit /\ nver = 1 /\ hist = <<>> /\ batches = <<>>

DoNew(h)  == NewWriter(h) /\ Call([op |-> "new_writer", h |-> h]) /\ UNCHANGED <<nver, batches>>
DoDrop(h) == DropWriter(h) /\ Call([op |-> "drop", h |-> h]) /\ UNCHANGED <<nver, batches>>
DoAdd(h, id) ==
  /\ Add(h, id, nver) /\ nver' = nver + 1
  /\ Call([op |-> "add", h |-> h, id |-> id]) /\ UNCHANGED batches
DoDel(h, ids) ==
  /\ Delete(h, ids) /\ Call([op |-> "delete", h |-> h, ids |-> ids]) /\ UNCHANGED <<nver, batches>>
DoCommit(h) ==
  /\ h \in alive
  /\ batches' = batches \o pending[h]
  /\ Commit(h) /\ Call([op |-> "commit", h |-> h]) /\ UNCHANGED nver
DoRollback(h) == Rollback(h) /\ Call([op |-> "rollback", h |-> h]) /\ UNCHANGED <<nver, batches>>
DoCompact == Compact /\ Call([op |-> "compact"]) /\ UNCHANGED <<nver, batches>>
DoReopen == Reopen /\ Call([op |-> "reopen"]) /\ UNCHANGED <<nver, batches>>

MCNext ==
  \/ \E h \in HandleSet : DoNew(h) \/ DoDrop(h) \/ DoCommit(h) \/ DoRollback(h)
  \/ \E h \in HandleSet, id \in IdSet : DoAdd(h, id) \/ DoDel(h, <<id>>)
  \/ \E h \in HandleSet, i \in IdSet, j \in IdSet : i # j /\ DoDel(h, <<i, j>>)
  \/ DoCompact
  \/ DoReopen

MCSpec == MCInit /\ [][MCNext]_mcVars

Bound == Len(hist) <= MaxCalls

View == <<committed, wal, pending, alive, Len(hist)>>

-----------------------------------------------------------------------------
(* Invariants                                                              *)

TypeOK ==
  /\ DOMAIN committed \subseteq IdSet
  /\ alive \subseteq HandleSet
  /\ alive \subseteq DOMAIN pending

(* The committed contents are the fold of all committed batches, in order. *)
ContentsAreFold == committed = Fold(batches, EmptyContents)

(* Re-applying a batch that was already applied changes nothing (needed   *)
(* by crash recovery, C02: a commit whose manifest became durable may be  *)
(* replayed from the log).                                                 *)
FoldIdempotent ==
  \A h \in DOMAIN pending : Fold(pending[h], Fold(pending[h], committed)) = Fold(pending[h], committed)

(* Queued operations are invisible: contents change only in a commit.     *)
OnlyCommitChanges ==
  [][committed' # committed => hist'[Len(hist')].op = "commit"]_mcVars

(* Every live version was produced by an add call.                         *)
LiveWasAdded == \A id \in DOMAIN committed : committed[id] \in 1..(nver - 1)

PrintCase ==
  (PrintCases /\ Len(hist) = MaxCalls) => PrintT(<<"CASE", ToJson([ops |-> hist])>>)

=============================================================================
