SPECIFICATION MCSpec
CONSTANTS
  IdSet = {"a", "b", "c"}
  HandleSet = {1, 2, 3}
  MaxCalls = 14
  PrintCases = TRUE
CONSTRAINT Bound
INVARIANT PrintCase
CHECK_DEADLOCK FALSE
