SPECIFICATION Spec
CONSTANT Variant = "ideal"
CONSTANT NDocs = 2
INVARIANT LayoutIndependent
INVARIANT DfIsCount
INVARIANT SortedBounded
CHECK_DEADLOCK FALSE
