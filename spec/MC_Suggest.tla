------------------------------ MODULE MC_Suggest ------------------------------
(***************************************************************************)
(* Small-scope exhaustive check of Suggest.tla (C22): NDocs (2..3) documents *)
(* each holding any subset of the terms ru / rust / ruby / go in one text  *)
(* field, every assignment of the documents to two segments, prefixes      *)
(* "" / "r" / "ru" / "rus" and the fuzzy input "rust" (max_edits 1,        *)
(* prefix_length 1), size 1..3.                                            *)
(*   LayoutIndependent  the expected options do not depend on the segment  *)
(*                      assignment                                         *)
(*   DfIsCount          doc_freq = number of documents holding the term    *)
(*   SortedBounded      at most size options, strictly ordered by score    *)
(*                      descending then text                               *)
(* Variant "firstseg" (doc_freq taken from the first segment that holds    *)
(* the term - a merge that forgets to add) must refute LayoutIndependent.  *)
(***************************************************************************)
EXTENDS Suggest

CONSTANTS Variant, NDocs

Terms == {"ru", "rust", "ruby", "go"}
Inputs == {"", "r", "ru", "rus", "rust"}
Cp(s) == CASE s = "" -> <<>> [] s = "r" -> <<114>> [] s = "ru" -> <<114, 117>> [] s = "rus" -> <<114, 117, 115>>
           [] s = "rust" -> <<114, 117, 115, 116>> [] s = "ruby" -> <<114, 117, 98, 121>> [] s = "go" -> <<103, 111>>
D0 == [s \in Terms \cup Inputs |-> [cp |-> Cp(s), lc |-> s, alc |-> s]]

Doc(i, seg, ts) ==
  [id |-> i, ver |-> 1, seg |-> seg, ord |-> i, live |-> TRUE,
   text |-> << [f |-> "body", vals |-> << SetToSeq({<<t, 0>> : t \in ts}) >>] >>,
   kw |-> <<>>, i64 |-> <<>>, f64 |-> <<>>, nested |-> <<>>]

VARIABLES contents, layout, req, phase
vars == <<contents, layout, req, phase>>

NoReq == [input |-> "", fuzzy |-> FALSE, size |-> 1]
Zero == [i \in 1..NDocs |-> 0]
Init == contents = [i \in 1..NDocs |-> {}] /\ layout = Zero /\ req = NoReq /\ phase = 0

PickCorpus ==
  /\ phase = 0 /\ phase' = 1 /\ UNCHANGED req
  /\ contents' \in [1..NDocs -> SUBSET Terms]
  /\ layout' \in {f \in [1..NDocs -> 0..1] : f[1] = 0}

PickReq ==
  /\ phase = 1 /\ phase' = 2 /\ UNCHANGED <<contents, layout>>
  /\ req' \in {[input |-> p, fuzzy |-> FALSE, size |-> n] : p \in {"", "r", "ru", "rus"}, n \in 1..3}
              \cup {[input |-> "rust", fuzzy |-> TRUE, size |-> n] : n \in 1..3}

Next == PickCorpus \/ PickReq
Spec == Init /\ [][Next]_vars

Docs(lay) == {Doc(i, lay[i], contents[i]) : i \in 1..NDocs}
Fz == [has |-> req.fuzzy, edits |-> 1, plen |-> 1, maxexp |-> 50, minlen |-> 0]

FirstSegDf(docs, t) ==
  LET holding == {s \in SegsOf(docs) : Df(D0, docs, s, "body", "text", t) > 0} IN
  Df(D0, docs, CHOOSE s \in holding : \A x \in holding : s <= x, "body", "text", t)

Options(docs) ==
  IF Variant = "firstseg"
    THEN LET c == {[t |-> t, df |-> FirstSegDf(docs, t), dist |-> DistOf(D0, req.input, Fz, t)] :
                     t \in {x \in FieldTerms(D0, docs, "body", "text") : Accepts(D0, req.input, Fz, x)}}
             all == SortSetBy(c, LAMBDA a, b : Better(D0, a, b))
         IN SubSeq(all, 1, MinI(req.size, Len(all)))
    ELSE ExpectedOptions(D0, docs, "body", "text", req.input, Fz, req.size)

LayoutIndependent == phase = 2 => Options(Docs(layout)) = Options(Docs(Zero))

DfIsCount == phase = 2 =>
  LET o == Options(Docs(layout)) IN
  \A i \in DOMAIN o : o[i].df = Cardinality({j \in 1..NDocs : o[i].t \in contents[j]})

SortedBounded == phase = 2 =>
  LET o == Options(Docs(layout)) IN
  /\ Len(o) <= req.size
  /\ \A i \in 1..(Len(o) - 1) : Better(D0, o[i], o[i + 1])
  /\ \A i \in DOMAIN o : Accepts(D0, req.input, Fz, o[i].t)
=============================================================================
