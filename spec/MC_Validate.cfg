SPECIFICATION Spec
CONSTANTS
  Dev = {}
  Width1 = 1
  Width2 = 2
  PrintCases = FALSE
INVARIANT T_AddImpliesCommit
INVARIANT T_RejectWhenMust
INVARIANT T_AcceptWhenMust
INVARIANT PrintCase
CHECK_DEADLOCK FALSE
