---------------------------- MODULE MC_Validate ----------------------------
(***************************************************************************)
(* Bounded universe for C15: two schemas of the family (text, keyword,     *)
(* i64, f64 with both nullabilities, a nested field with a required        *)
(* keyword property, a nullable i64 property and a sub-object, a vector    *)
(* field) and every document in which at most `Width` fields deviate from  *)
(* a valid document, each deviating field taking every shape of its list.  *)
(* Width 2 covers all pairs of field shapes, Width 3 all triples.          *)
(*                                                                         *)
(* Exhaustive mode checks the three theorems of Validate.tla for the       *)
(* validator selected by `Dev`; with PrintCases = TRUE every document is   *)
(* also printed as a CASE line which `svh validate --cases` replays into   *)
(* the real library (judged by Trace_Validate.tla).                        *)
(***************************************************************************)
EXTENDS Validate, TLC, Json

CONSTANTS Dev,          \* subset of KnownDeviations: {} = ideal validator
          Width1,       \* 1..3: how many fields deviate at once, schema 1
          Width2,       \* 1..3: same for schema 2 (the one with a vector field)
          PrintCases    \* BOOLEAN

VARIABLE case           \* [schema |-> 1..2, doc |-> Value]

-----------------------------------------------------------------------------
(* The schema family.                                                      *)
SubObj(nullable) == Nested("o", nullable, <<Leaf("x", "keyword", FALSE)>>)
NestedN(nullable, subNullable) ==
  Nested("n", nullable,
         <<Leaf("r", "keyword", FALSE), Leaf("q", "i64", TRUE), SubObj(subNullable)>>)

Schemas == <<
  [id |-> "_id",
   fields |-> << Leaf("t", "text", FALSE), Leaf("k", "keyword", TRUE), Leaf("i", "i64", FALSE),
                 Leaf("f", "f64", TRUE), NestedN(FALSE, TRUE) >>],
  [id |-> "_id",
   fields |-> << Leaf("t", "text", TRUE), Leaf("k", "keyword", FALSE), Leaf("i", "i64", TRUE),
                 Leaf("f", "f64", FALSE), NestedN(TRUE, FALSE), Vector("v", 2) >>] >>

-----------------------------------------------------------------------------
(* Shapes.                                                                  *)
Obj0 == Obj(<<>>, <<>>)
LeafShapes ==
  { Absent, Null, Str, EStr, Int, Frac, Bool, Arr(<<>>), Arr(<<Str>>), Arr(<<Int>>),
    Arr(<<Frac>>), Arr(<<Str, Int>>), Arr(<<Arr(<<Str>>)>>), Arr(<<Null>>), Obj0 }
IdShapes == { Absent, Null, Str, EStr, BStr, Int, Arr(<<Str>>), Obj0 }
UnknownShapes == { Absent, Str, Null, Int, Obj0 }
VectorShapes ==
  { Absent, Null, Arr(<<Int, Frac>>), Arr(<<Frac>>), Arr(<<Str, Str>>), Arr(<<>>), Str, Obj0 }

OX   == Obj(<<"x">>, <<Str>>)
OK1  == Obj(<<"r">>, <<Str>>)
OKF  == Obj(<<"r", "q", "o">>, <<Str, Int, OX>>)
WithQ(q) == Obj(<<"r", "q", "o">>, <<Str, q, OX>>)
WithO(o) == Obj(<<"r", "q", "o">>, <<Str, Int, o>>)
WithR(r) == Obj(<<"r", "q", "o">>, <<r, Int, OX>>)
NestedShapes ==
  { Absent, Null, Str, Int, Arr(<<>>), Obj0, OK1, OKF,
    Obj(<<"r", "z">>, <<Str, Str>>),                 \* unknown property
    Obj(<<"q", "o">>, <<Int, OX>>),                  \* required property missing
    WithR(Null), WithR(Int), WithR(Arr(<<Int>>)), WithR(Arr(<<Str>>)), WithR(EStr),
    WithQ(Null), WithQ(Frac), WithQ(Str), WithQ(Arr(<<Str>>)), WithQ(Arr(<<Int>>)),
    WithO(Null), WithO(Obj0), WithO(Int), WithO(Arr(<<OX>>)), WithO(Arr(<<Arr(<<OX>>)>>)),
    WithO(Obj(<<"x", "z">>, <<Str, Str>>)), Obj(<<"r", "q">>, <<Str, Int>>),
    Arr(<<OKF>>), Arr(<<OKF, OK1>>), Arr(<<Int>>), Arr(<<Null>>), Arr(<<Arr(<<OKF>>)>>),
    Arr(<<Arr(<<>>)>>), Arr(<<OKF, Int>>), Arr(<<Obj0>>), Arr(<<OKF, Arr(<<OKF>>)>>),
    Arr(<<OKF, Null>>) }

FieldOrder == <<"_id", "t", "k", "i", "f", "n", "zz", "v">>
FieldsOf(k) == IF k = 1 THEN {"_id", "t", "k", "i", "f", "n", "zz"}
                        ELSE {"_id", "t", "k", "i", "f", "n", "zz", "v"}
Shapes(n) == CASE n = "_id" -> IdShapes
               [] n \in {"t", "k", "i", "f"} -> LeafShapes
               [] n = "n"  -> NestedShapes
               [] n = "zz" -> UnknownShapes
               [] OTHER    -> VectorShapes
Default(n) == CASE n \in {"_id", "t", "k"} -> Str
                [] n = "i" -> Int
                [] n = "f" -> Frac
                [] n = "n" -> OKF
                [] n = "zz" -> Absent
                [] OTHER -> Arr(<<Int, Frac>>)

(* The valid document of schema k with the fields in g replaced.           *)
DocOf(k, g) ==
  LET val(n) == IF n \in DOMAIN g THEN g[n] ELSE Default(n)
      present == SelectSeq(FieldOrder, LAMBDA n : n \in FieldsOf(k) /\ val(n).k # "absent")
  IN Obj(present, [i \in 1..Len(present) |-> val(present[i])])

Alt(n) == Shapes(n) \ {Default(n)}
Pos(n) == CHOOSE i \in DOMAIN FieldOrder : FieldOrder[i] = n

Singles(k) == UNION { { (a :> s) : s \in Alt(a) } : a \in FieldsOf(k) }
Pairs(k) ==
  UNION { { (a :> s1) @@ (b :> s2) : s1 \in Alt(a), s2 \in Alt(b) }
          : <<a, b>> \in {p \in FieldsOf(k) \X FieldsOf(k) : Pos(p[1]) < Pos(p[2])} }
Triples(k) ==
  UNION { { (a :> s1) @@ (b :> s2) @@ (c :> s3) : s1 \in Alt(a), s2 \in Alt(b), s3 \in Alt(c) }
          : <<a, b, c>> \in {p \in FieldsOf(k) \X FieldsOf(k) \X FieldsOf(k) :
                               Pos(p[1]) < Pos(p[2]) /\ Pos(p[2]) < Pos(p[3])} }

WidthOf(k) == IF k = 1 THEN Width1 ELSE Width2
Assignments(k) ==
  {<<>>} \cup Singles(k)
         \cup (IF WidthOf(k) >= 2 THEN Pairs(k) ELSE {})
         \cup (IF WidthOf(k) >= 3 THEN Triples(k) ELSE {})

Init == \E k \in DOMAIN Schemas : \E g \in Assignments(k) : case = [schema |-> k, doc |-> DocOf(k, g)]
Next == UNCHANGED case
Spec == Init /\ [][Next]_case

-----------------------------------------------------------------------------
S == Schemas[case.schema]
T_AddImpliesCommit == AddImpliesCommit(S, case.doc, Dev)
T_RejectWhenMust   == RejectWhenMust(S, case.doc, Dev)
T_AcceptWhenMust   == AcceptWhenMust(S, case.doc, Dev)

(* The default document must be classified MustAccept (sanity of the universe). *)
ASSUME \A k \in DOMAIN Schemas : Class(Schemas[k], DocOf(k, <<>>)) = "MustAccept"

PrintCase ==
  PrintCases => PrintT(<<"CASE", ToJson([schema |-> S, k |-> case.schema, doc |-> case.doc,
                                         class |-> Class(S, case.doc)])>>)
=============================================================================
