SPECIFICATION Spec
INVARIANT Irreflexive
INVARIANT Asymmetric
INVARIANT Transitive
INVARIANT NegTransitive
INVARIANT L2Agrees
INVARIANT SelfIsNearest
INVARIANT UnitScores
CHECK_DEADLOCK FALSE
