----------------------------- MODULE MC_Vector ------------------------------
(* C29, design level: the exact similarity comparison of Vector.tla is a strict weak
   order for every query / vector triple over components -2..2 in dimension 2, for both
   metrics, agrees with the squared L2 distance, ranks a vector equal to the query first
   under cosine, and VecScoreOk accepts exactly representable scores (1, 0, -1) only for
   parallel, orthogonal and opposite vectors. *)
EXTENDS Vector

C == (0 - 2)..2
Vecs == {<<x, y>> : x \in C, y \in C}

VARIABLES metric, q, a, b, c, phase
vars == <<metric, q, a, b, c, phase>>
Init == metric = "cos" /\ q = <<1, 0>> /\ a = q /\ b = q /\ c = q /\ phase = 0
Pick1 == phase = 0 /\ phase' = 1 /\ metric' \in {"cos", "l2"} /\ q' \in Vecs \ {<<0, 0>>} /\ a' \in Vecs /\ UNCHANGED <<b, c>>
Pick2 == phase = 1 /\ phase' = 2 /\ b' \in Vecs /\ c' \in Vecs /\ UNCHANGED <<metric, q, a>>
Next == Pick1 \/ Pick2
Spec == Init /\ [][Next]_vars

G(x, y) == SimGreater(metric, q, x, y)
Irreflexive == phase = 2 => ~G(a, a)
Asymmetric == phase = 2 => ~(G(a, b) /\ G(b, a))
Transitive == phase = 2 => ((G(a, b) /\ G(b, c)) => G(a, c))
NegTransitive == phase = 2 => ((~G(a, b) /\ ~G(b, c)) => ~G(a, c))
L2Agrees == (phase = 2 /\ metric = "l2") => (G(a, b) <=> Dist2(q, a) < Dist2(q, b))
SelfIsNearest == phase = 2 => ~G(b, q)
UnitScores ==
  (phase = 2 /\ metric = "cos" /\ a # <<0, 0>>) =>
    /\ VecScoreOk("cos", q, a, 1000, 1, 1) <=> (Dot(q, a) > 0 /\ Sq(Dot(q, a)) = Norm2(q) * Norm2(a))
    /\ VecScoreOk("cos", q, a, 0, 1, 1) <=> (Dot(q, a) = 0)
=============================================================================
