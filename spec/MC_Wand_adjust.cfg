SPECIFICATION Spec
CONSTANTS
  Terms = {"t1", "t2"}
  NDocs = 4
  W = 2
  KMax = 2
  BlockSizes = {1}
  Mults = {1, 2}
  Mode = "wand"
  StoredBlock = 0
  NoPruneWithHook = FALSE
INVARIANT PrunedEqualsExhaustive
PROPERTY Progress
CHECK_DEADLOCK FALSE
