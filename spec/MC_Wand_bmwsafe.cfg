SPECIFICATION Spec
CONSTANTS
  Terms = {"t1", "t2"}
  NDocs = 4
  W = 2
  KMax = 2
  BlockSizes = {1, 2}
  Mults = {1}
  Mode = "bmw_safe"
  StoredBlock = 0
  NoPruneWithHook = TRUE
INVARIANT PrunedEqualsExhaustive
PROPERTY Progress
CHECK_DEADLOCK FALSE
