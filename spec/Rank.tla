-------------------------------- MODULE Rank --------------------------------
(* Scores, sort keys, order (C10) - filled in below *)
EXTENDS Search

CheckRank(D, docs, e, l, scn) == TRUE
=============================================================================
